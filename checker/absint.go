package main

// absint.go: a small path-enumerating abstract interpreter over go/ssa.
//
// It is the form-independent engine behind the parser "token protocol" rules and the evaluator dispatch rules: instead of
// matching the shape of the source (which if-chain, which helper, which variable name), it enumerates every path through a
// function over abstract inputs, inlining the repository's own helpers, and hands the rule the facts of each path: the
// branch decisions taken on symbolic values, the domain events (token consumed, sub-expression parsed, node evaluated, helper
// called) and the abstract results. Nothing is executed: values are constants, opaque symbols with integer range facts,
// heap objects with field paths, or unknown. Loops are cut after a bounded number of visits per block and the cut is
// reported in the outcome, so a rule never mistakes an unexplored path for an explored one.

import (
	"fmt"
	"go/constant"
	"go/token"
	"go/types"
	"math"
	"os"
	"sort"
	"strings"

	"golang.org/x/tools/go/ssa"
)

// AV is an abstract value. nil means "unknown".
type AV interface{}

type (
	avConst struct{ v constant.Value }
	avNil   struct{}
	// avSym is an opaque value with identity. Integer-typed symbols carry range facts in the state.
	avSym struct {
		id      int
		tag     string
		nonNil  bool // for pointer/interface typed symbols: known not to be nil
		uniq    bool // an object identity: two different uniq symbols are different values
		payload AV   // optional: what the symbol was derived from (e.g. the token value an integer was parsed from)
	}
	avPtr struct {
		o    *avObj
		path string
	}
	avStruct struct{ f map[string]AV }
	avIface  struct {
		dyn types.Type
		v   AV
	}
	avTuple []AV
	avFunc  struct {
		fn   *ssa.Function
		free []AV
	}
	avCmp struct {
		op   token.Token
		x, y AV
	}
	avNot struct{ x AV }
	avBin struct {
		op   token.Token
		x, y AV
	}
	// avSlice references the elements stored in a heap object under "[i]" paths.
	avSlice struct {
		o    *avObj
		n    int    // known length, -1 unknown
		path string // where the elements live in o: path + "[i]"
	}
)

type avObj struct {
	id    int
	label string // non-empty: domain-managed symbolic object (loads of absent paths are delegated to the domain)
	typ   types.Type
	of    AV // label "elems": the symbolic slice whose elements live here; a made slice: its length
}

func avKey(v AV) string {
	switch v := v.(type) {
	case nil:
		return "?"
	case avConst:
		return v.v.ExactString()
	case avNil:
		return "nil"
	case avSym:
		if v.id == 0 && v.payload != nil {
			// identity-less symbols (uninterpreted function applications) are identified by their arguments
			return v.tag + "(" + avKey(v.payload) + ")#0"
		}
		return fmt.Sprintf("%s#%d", v.tag, v.id)
	case avPtr:
		return fmt.Sprintf("&o%d%s", v.o.id, v.path)
	case avStruct:
		ks := make([]string, 0, len(v.f))
		for k := range v.f {
			ks = append(ks, k)
		}
		sort.Strings(ks)
		var sb strings.Builder
		sb.WriteString("{")
		for _, k := range ks {
			sb.WriteString(k + ":" + avKey(v.f[k]) + ",")
		}
		sb.WriteString("}")
		return sb.String()
	case avIface:
		return "iface(" + typeShort(v.dyn) + "," + avKey(v.v) + ")"
	case avTuple:
		var parts []string
		for _, e := range v {
			parts = append(parts, avKey(e))
		}
		return "(" + strings.Join(parts, ", ") + ")"
	case avFunc:
		return "func " + v.fn.Name()
	case avCmp:
		return "(" + avKey(v.x) + " " + v.op.String() + " " + avKey(v.y) + ")"
	case avNot:
		return "!" + avKey(v.x)
	case avBin:
		return "(" + avKey(v.x) + " " + v.op.String() + " " + avKey(v.y) + ")"
	case avSlice:
		return fmt.Sprintf("slice(o%d,%d)", v.o.id, v.n)
	}
	return fmt.Sprintf("%T", v)
}

// ---------------------------------------------------------------- state

type intFact struct {
	lo, hi int64
	neq    map[int64]bool
}

// Cond is one branch decision taken on a value the interpreter could not decide.
type Cond struct {
	V     AV
	Truth bool
	Pos   token.Pos
}

// Event is a domain event on a path.
type Event struct {
	Kind string
	Fn   *ssa.Function
	Args []AV
	Res  []AV
	Pos  token.Pos
	Note string
}

type State struct {
	heap  map[*avObj]map[string]AV
	ints  map[int]*intFact
	memo  map[string]bool
	named map[string]int // ids given on this path to identity-less symbols (uninterpreted applications), for integer facts
	Conds []Cond
	Trace []Event
}

func newState() *State {
	return &State{heap: map[*avObj]map[string]AV{}, ints: map[int]*intFact{}, memo: map[string]bool{}}
}

func (s *State) clone() *State {
	n := &State{heap: make(map[*avObj]map[string]AV, len(s.heap)), ints: make(map[int]*intFact, len(s.ints)), memo: make(map[string]bool, len(s.memo))}
	for o, m := range s.heap {
		mm := make(map[string]AV, len(m))
		for k, v := range m {
			mm[k] = v
		}
		n.heap[o] = mm
	}
	for k, f := range s.ints {
		ff := &intFact{lo: f.lo, hi: f.hi}
		if len(f.neq) > 0 {
			ff.neq = make(map[int64]bool, len(f.neq))
			for c := range f.neq {
				ff.neq[c] = true
			}
		}
		n.ints[k] = ff
	}
	for k, v := range s.memo {
		n.memo[k] = v
	}
	if len(s.named) > 0 {
		n.named = make(map[string]int, len(s.named))
		for k, v := range s.named {
			n.named[k] = v
		}
	}
	n.Conds = s.Conds[:len(s.Conds):len(s.Conds)]
	n.Trace = s.Trace[:len(s.Trace):len(s.Trace)]
	return n
}

func (s *State) event(ev Event) { s.Trace = append(s.Trace, ev) }

// idOf is the key under which integer facts about sy are kept: its identity, or for an uninterpreted application
// (len(x), elem(x,i)) one negative id per distinct application.
func (s *State) idOf(sy avSym) int {
	if sy.id != 0 {
		return sy.id
	}
	k := avKey(sy)
	if id, ok := s.named[k]; ok {
		return id
	}
	if s.named == nil {
		s.named = map[string]int{}
	}
	id := -(len(s.named) + 1)
	s.named[k] = id
	return id
}

func (s *State) fact(id int) *intFact {
	f := s.ints[id]
	if f == nil {
		f = &intFact{lo: math.MinInt64, hi: math.MaxInt64}
		s.ints[id] = f
	}
	return f
}

// KnownInt returns the value of an integer symbol when the path facts pin it to one value.
func (s *State) KnownInt(v AV) (int64, bool) {
	switch v := v.(type) {
	case avConst:
		if v.v.Kind() == constant.Int {
			if i, ok := constant.Int64Val(v.v); ok {
				return i, true
			}
		}
	case avSym:
		if f := s.ints[s.idOf(v)]; f != nil && f.lo == f.hi {
			return f.lo, true
		}
	case avBin:
		if v.op == token.ADD || v.op == token.SUB {
			if a, ok := s.KnownInt(v.x); ok {
				if b, ok := s.KnownInt(v.y); ok {
					if v.op == token.ADD {
						return a + b, true
					}
					return a - b, true
				}
			}
		}
	}
	return 0, false
}

// Excluded reports the constants an integer symbol is known to differ from on this path.
func (s *State) Excluded(v AV) map[int64]bool {
	if sy, ok := v.(avSym); ok {
		if f := s.ints[s.idOf(sy)]; f != nil {
			return f.neq
		}
	}
	return nil
}

// assume records cond==truth; it returns false when the path facts contradict it.
func (s *State) assume(cond AV, truth bool, pos token.Pos) bool {
	switch c := cond.(type) {
	case avConst:
		return constant.BoolVal(c.v) == truth
	case avNot:
		return s.assume(c.x, !truth, pos)
	case avCmp:
		op := c.op
		if !truth {
			op = negateOp(op)
		}
		x, y := c.x, c.y
		if _, isC := x.(avConst); isC {
			x, y = y, x
			op = flipOp(op)
		}
		if sy, ok := x.(avSym); ok {
			if k, ok := y.(avConst); ok && k.v.Kind() == constant.Int {
				if cv, exact := constant.Int64Val(k.v); exact {
					if !s.assumeInt(s.idOf(sy), op, cv) {
						return false
					}
					s.Conds = append(s.Conds, Cond{cond, truth, pos})
					return true
				}
			}
		}
	}
	k := avKey(cond)
	if prev, ok := s.memo[k]; ok {
		return prev == truth
	}
	// an opaque comparison and its negation are one fact: x != y is kept as !(x == y), x >= y as !(x < y), x > y as !(x <= y)
	if c, ok := cond.(avCmp); ok {
		var dual token.Token
		switch c.op {
		case token.NEQ:
			dual = token.EQL
		case token.EQL:
			dual = token.NEQ
		case token.GEQ:
			dual = token.LSS
		case token.LSS:
			dual = token.GEQ
		case token.GTR:
			dual = token.LEQ
		case token.LEQ:
			dual = token.GTR
		}
		if dual != 0 {
			dk := avKey(avCmp{dual, c.x, c.y})
			if prev, ok := s.memo[dk]; ok {
				return prev != truth
			}
		}
	}
	s.memo[k] = truth
	s.Conds = append(s.Conds, Cond{cond, truth, pos})
	return true
}

func (s *State) assumeInt(id int, op token.Token, c int64) bool {
	f := s.fact(id)
	switch op {
	case token.EQL:
		if c < f.lo || c > f.hi || f.neq[c] {
			return false
		}
		f.lo, f.hi = c, c
	case token.NEQ:
		if f.lo == f.hi && f.lo == c {
			return false
		}
		if f.neq == nil {
			f.neq = map[int64]bool{}
		}
		f.neq[c] = true
	case token.LSS:
		if c == math.MinInt64 {
			return false
		}
		if c-1 < f.hi {
			f.hi = c - 1
		}
	case token.LEQ:
		if c < f.hi {
			f.hi = c
		}
	case token.GTR:
		if c == math.MaxInt64 {
			return false
		}
		if c+1 > f.lo {
			f.lo = c + 1
		}
	case token.GEQ:
		if c > f.lo {
			f.lo = c
		}
	}
	for f.lo <= f.hi && f.neq[f.lo] {
		f.lo++
	}
	for f.hi >= f.lo && f.neq[f.hi] {
		f.hi--
	}
	return f.lo <= f.hi
}

// decideInt: is sym op c already decided by the facts?
func (s *State) decideInt(id int, op token.Token, c int64) (bool, bool) {
	f := s.ints[id]
	if f == nil {
		return false, false
	}
	switch op {
	case token.EQL:
		if f.lo == f.hi && f.lo == c {
			return true, true
		}
		if c < f.lo || c > f.hi || f.neq[c] {
			return false, true
		}
	case token.NEQ:
		if v, ok := s.decideInt(id, token.EQL, c); ok {
			return !v, true
		}
	case token.LSS:
		if f.hi < c {
			return true, true
		}
		if f.lo >= c {
			return false, true
		}
	case token.LEQ:
		if f.hi <= c {
			return true, true
		}
		if f.lo > c {
			return false, true
		}
	case token.GTR:
		if v, ok := s.decideInt(id, token.LEQ, c); ok {
			return !v, true
		}
	case token.GEQ:
		if v, ok := s.decideInt(id, token.LSS, c); ok {
			return !v, true
		}
	}
	return false, false
}

// ---------------------------------------------------------------- heap

func (s *State) store(p avPtr, v AV) {
	m := s.heap[p.o]
	if m == nil {
		m = map[string]AV{}
		s.heap[p.o] = m
	}
	for k := range m {
		if k == p.path || strings.HasPrefix(k, p.path+".") || strings.HasPrefix(k, p.path+"[") {
			delete(m, k)
		}
	}
	if sv, ok := v.(avStruct); ok {
		if len(sv.f) == 0 {
			m[p.path] = v
			return
		}
		for k, fv := range sv.f {
			sep := "."
			if strings.HasPrefix(k, "[") {
				sep = ""
			}
			s.store(avPtr{p.o, p.path + sep + k}, fv)
		}
		return
	}
	m[p.path] = v
}

// load returns the value stored at p, assembling a struct/array value from stored sub-paths; found=false when nothing is stored.
func (s *State) load(p avPtr) (AV, bool) {
	m := s.heap[p.o]
	if v, ok := m[p.path]; ok {
		return v, true
	}
	var sub map[string]AV
	for k, v := range m {
		var rest string
		switch {
		case strings.HasPrefix(k, p.path+"."):
			rest = k[len(p.path)+1:]
		case strings.HasPrefix(k, p.path+"["):
			rest = k[len(p.path):]
		default:
			continue
		}
		if sub == nil {
			sub = map[string]AV{}
		}
		sub[rest] = v
	}
	if sub == nil {
		return nil, false
	}
	return nestStruct(sub), true
}

// nestStruct turns {"a.b": x, "a.c": y, "d": z} into {a:{b:x,c:y}, d:z}.
func nestStruct(flat map[string]AV) avStruct {
	out := avStruct{f: map[string]AV{}}
	groups := map[string]map[string]AV{}
	for k, v := range flat {
		head, rest := k, ""
		if strings.HasPrefix(k, "[") {
			if i := strings.Index(k, "]"); i >= 0 && i+1 < len(k) {
				head, rest = k[:i+1], strings.TrimPrefix(k[i+1:], ".")
			}
		} else if i := strings.IndexAny(k, ".["); i >= 0 {
			head, rest = k[:i], strings.TrimPrefix(k[i:], ".")
		}
		if rest == "" {
			out.f[head] = v
			continue
		}
		if groups[head] == nil {
			groups[head] = map[string]AV{}
		}
		groups[head][rest] = v
	}
	for h, g := range groups {
		out.f[h] = nestStruct(g)
	}
	return out
}

func zeroAV(t types.Type) AV {
	switch u := t.Underlying().(type) {
	case *types.Basic:
		switch {
		case u.Info()&types.IsBoolean != 0:
			return avConst{constant.MakeBool(false)}
		case u.Info()&types.IsInteger != 0:
			return avConst{constant.MakeInt64(0)}
		case u.Info()&types.IsString != 0:
			return avConst{constant.MakeString("")}
		case u.Info()&types.IsFloat != 0:
			return avConst{constant.MakeFloat64(0)}
		}
		return nil
	case *types.Pointer, *types.Interface, *types.Slice, *types.Map, *types.Signature, *types.Chan:
		return avNil{}
	case *types.Struct, *types.Array:
		return avStruct{f: map[string]AV{}}
	}
	return nil
}

// ---------------------------------------------------------------- engine

// CallOut is one way a call can return.
type CallOut struct {
	St  *State
	Res []AV
	// End, when set, is a path that ended inside the callee (loop bound reached or panic): it ends the caller's path too.
	End *Outcome
}

// Outcome is one complete path through the analysed function.
type Outcome struct {
	St    *State
	Res   []AV
	Panic bool
	// Cut: the path was abandoned on re-entering CutBlock (loop bound); CutPhis holds the values the block's phis would take.
	Cut      bool
	CutBlock *ssa.BasicBlock
	CutPhis  map[*ssa.Phi]AV
	Ret      *ssa.Return
}

type Domain interface {
	// Call lets the domain model a call instead of the engine inlining it. handled=false falls back to the engine.
	Call(e *Engine, st *State, site ssa.CallInstruction, callee *ssa.Function, args []AV, depth int) (outs []CallOut, handled bool)
	// Load is asked for the content of a path nothing was stored to, on a domain-managed (labelled) object.
	Load(e *Engine, st *State, p avPtr, t types.Type) AV
}

// Comparer is implemented by domains that decide comparisons of their own terms (positions in a symbolic text).
type Comparer interface {
	Cmp(e *Engine, st *State, op token.Token, x, y AV) (AV, bool)
}

// IndexObserver is implemented by domains that want to see every element access x[idx] (the index as an abstract value).
type IndexObserver interface {
	ObserveIndex(e *Engine, st *State, x, idx AV, site *ssa.IndexAddr)
}

// Alt is one of several outcomes of an instruction a domain evaluates itself.
type Alt struct {
	St  *State
	Val AV
}

// Forker is implemented by domains that evaluate byte reads of strings and string iteration steps themselves, possibly
// with several outcomes (a stretch of unexamined text is empty, or starts with a byte).
type Forker interface {
	Fork(e *Engine, st *State, in ssa.Instruction, ops []AV) ([]Alt, bool)
}

type Engine struct {
	P         *Program
	D         Domain
	MaxPaths  int
	MaxDepth  int
	MaxVisits int
	paths     int
	Aborted   string
	nextID    int
	globals   map[*ssa.Global]*avObj
	// SymSlices: a slice the interpreter knows only as a symbol has elements: indexing it gives a pointer into an
	// object (one per symbol) whose loads the domain answers.
	SymSlices bool
	symObjs   map[string]*avObj
	// ForkTables: indexing a sparse constant table with a symbolic index forks over the entries.
	ForkTables bool
	// TraceMapWrites: every element assignment to a map is recorded as a "mapwrite" event with the map value.
	TraceMapWrites bool
	// TraceConv: integer conversions are recorded as "conv" events (operand, position).
	TraceConv bool
	// Entered, when non-nil, collects the functions whose bodies were interpreted.
	Entered map[*ssa.Function]bool
	// TailHeaders: loop headers of the root function at which a second entry ends the path at once (Outcome.Cut with the
	// phi values of that entry): the loop re-runs the function's body on new arguments, which the client treats as a call.
	TailHeaders map[*ssa.BasicBlock]bool
	// Stop, when set, is asked at every block entry whether the path is still of interest.
	Stop func(st *State) bool
	// Unmodelled counts instructions whose result was left unknown, by kind (evidence).
	Unmodelled map[string]int
	// TraceMake: every slice allocation is recorded as a "make" event with its length.
	TraceMake bool
	// Cur is the instruction being evaluated (for domains whose answer depends on where a comparison stands).
	Cur ssa.Instruction
}

func newEngine(p *Program, d Domain) *Engine {
	return &Engine{P: p, D: d, MaxPaths: 20000, MaxDepth: 6, MaxVisits: 1, globals: map[*ssa.Global]*avObj{}, Unmodelled: map[string]int{}}
}

func (e *Engine) fresh() int { e.nextID++; return e.nextID }

func (e *Engine) NewSym(tag string) avSym { return avSym{id: e.fresh(), tag: tag} }

func (e *Engine) NewObj(label string, t types.Type) *avObj {
	return &avObj{id: e.fresh(), label: label, typ: t}
}

type frame struct {
	fn     *ssa.Function
	env    map[ssa.Value]AV
	visits map[*ssa.BasicBlock]int
	free   []AV
	depth  int
}

func (f *frame) fork() *frame {
	n := &frame{fn: f.fn, env: make(map[ssa.Value]AV, len(f.env)+8), visits: make(map[*ssa.BasicBlock]int, len(f.visits)), free: f.free, depth: f.depth}
	for k, v := range f.env {
		n.env[k] = v
	}
	for k, v := range f.visits {
		n.visits[k] = v
	}
	return n
}

// Run enumerates the paths of fn called with args in state st.
func (e *Engine) Run(fn *ssa.Function, args []AV, st *State) []Outcome {
	return e.call(fn, args, nil, st, 0)
}

func (e *Engine) call(fn *ssa.Function, args []AV, free []AV, st *State, depth int) []Outcome {
	if len(fn.Blocks) == 0 {
		return nil
	}
	if e.Entered != nil {
		e.Entered[fn] = true
	}
	fr := &frame{fn: fn, env: map[ssa.Value]AV{}, visits: map[*ssa.BasicBlock]int{}, free: free, depth: depth}
	for i, p := range fn.Params {
		if i < len(args) {
			fr.env[p] = args[i]
		}
	}
	var outs []Outcome
	e.block(fr, fn.Blocks[0], nil, st, &outs)
	return outs
}

func (e *Engine) block(fr *frame, b, prev *ssa.BasicBlock, st *State, outs *[]Outcome) {
	if e.Aborted != "" {
		return
	}
	if e.Stop != nil && e.Stop(st) {
		return
	}
	// phis are evaluated simultaneously on entry
	var phiVals map[*ssa.Phi]AV
	if prev != nil {
		idx := -1
		for i, p := range b.Preds {
			if p == prev {
				idx = i
				break
			}
		}
		for _, in := range b.Instrs {
			ph, ok := in.(*ssa.Phi)
			if !ok {
				break
			}
			if phiVals == nil {
				phiVals = map[*ssa.Phi]AV{}
			}
			if idx >= 0 {
				phiVals[ph] = e.val(fr, st, ph.Edges[idx])
			}
		}
	}
	fr.visits[b]++
	if fr.visits[b] > e.MaxVisits+1 || (fr.visits[b] > e.MaxVisits && e.isLoopHeader(b)) || (fr.depth == 0 && fr.visits[b] > 1 && e.TailHeaders[b]) {
		e.paths++
		*outs = append(*outs, Outcome{St: st, Cut: true, CutBlock: b, CutPhis: phiVals})
		return
	}
	for ph, v := range phiVals {
		fr.env[ph] = v
	}
	e.instrs(fr, b, 0, st, outs)
}

func (e *Engine) isLoopHeader(b *ssa.BasicBlock) bool {
	fn := b.Parent()
	if e.P.memoLoopHeaders == nil {
		e.P.memoLoopHeaders = map[*ssa.Function]map[*ssa.BasicBlock]bool{}
	}
	m, ok := e.P.memoLoopHeaders[fn]
	if !ok {
		m = map[*ssa.BasicBlock]bool{}
		for h := range loopsOf(fn) {
			m[h] = true
		}
		e.P.memoLoopHeaders[fn] = m
	}
	return m[b]
}

func (e *Engine) val(fr *frame, st *State, v ssa.Value) AV {
	switch v := v.(type) {
	case *ssa.Const:
		if v.Value == nil {
			if _, isBasic := v.Type().Underlying().(*types.Basic); isBasic || isStructOrArray(v.Type()) {
				return zeroAV(v.Type())
			}
			return avNil{}
		}
		return avConst{v.Value}
	case *ssa.Function:
		return avFunc{fn: v}
	case *ssa.Global:
		return avPtr{e.globalObj(v), ""}
	case *ssa.FreeVar:
		for i, fv := range fr.fn.FreeVars {
			if fv == v && i < len(fr.free) {
				return fr.free[i]
			}
		}
		return nil
	case *ssa.Builtin:
		return nil
	}
	return fr.env[v]
}

func isStructOrArray(t types.Type) bool {
	switch t.Underlying().(type) {
	case *types.Struct, *types.Array:
		return true
	}
	return false
}

// sliceBase: x is base[lo:...] with a known lo.
func (e *Engine) sliceBase(st *State, x avSym) (avSym, int64, bool) {
	if x.tag != "slice" {
		return x, 0, true
	}
	t, ok := x.payload.(avTuple)
	if !ok || len(t) != 3 {
		return x, 0, false
	}
	base, ok := t[0].(avSym)
	if !ok {
		return x, 0, false
	}
	lo, ok := st.KnownInt(t[1])
	if !ok {
		return x, 0, false
	}
	b2, off, ok := e.sliceBase(st, base)
	if !ok {
		return x, 0, false
	}
	return b2, off + lo, true
}

// lenOf: the length of a symbolic slice or string, as a term over the lengths of the values it was cut from.
func (e *Engine) lenOf(st *State, x avSym) AV {
	if x.tag == "slice" && e.SymSlices {
		if t, ok := x.payload.(avTuple); ok && len(t) == 3 {
			if lo, ok := st.KnownInt(t[1]); ok {
				hi := t[2]
				if hs, ok := hi.(avSym); ok && hs.tag == "len" && hs.id == 0 {
					if inner, ok := hs.payload.(avSym); ok {
						hi = e.lenOf(st, inner)
					}
				}
				if lo == 0 {
					return hi
				}
				if k, ok := st.KnownInt(hi); ok {
					return avConst{constant.MakeInt64(k - lo)}
				}
				if hb, ok := hi.(avBin); ok && hb.op == token.SUB {
					if c, ok := st.KnownInt(hb.y); ok {
						return avBin{token.SUB, hb.x, avConst{constant.MakeInt64(c + lo)}}
					}
				}
				return avBin{token.SUB, hi, avConst{constant.MakeInt64(lo)}}
			}
		}
	}
	l := avSym{tag: "len", payload: x}
	st.assumeInt(st.idOf(l), token.GEQ, 0)
	return l
}

func (e *Engine) knownLen(st *State, v AV) (int, bool) {
	switch x := v.(type) {
	case avSlice:
		return x.n, x.n >= 0
	case avNil:
		return 0, true
	case avSym:
		if k, ok := st.KnownInt(e.lenOf(st, x)); ok && k >= 0 && k <= 64 {
			return int(k), true
		}
	case avConst:
		if x.v.Kind() == constant.String {
			return len(constant.StringVal(x.v)), true
		}
	}
	return 0, false
}

// elemAt: element i of a slice value on this path.
func (e *Engine) elemAt(st *State, v AV, i int) AV {
	switch x := v.(type) {
	case avSlice:
		if ev, ok := st.load(avPtr{x.o, fmt.Sprintf("%s[%d]", x.path, i)}); ok {
			return ev
		}
		if ev, ok := st.load(avPtr{x.o, x.path + "[*]"}); ok {
			return ev
		}
		return avNil{}
	case avSym:
		if base, off, ok := e.sliceBase(st, x); ok {
			p := avPtr{e.elemsOf(base), fmt.Sprintf("[%d]", off+int64(i))}
			if ev, ok := st.load(p); ok {
				return ev
			}
			if e.D != nil {
				return e.D.Load(e, st, p, nil)
			}
		}
	}
	return avSym{id: e.fresh(), tag: "elem?"}
}

// elemsOf returns the object holding the elements of a symbolic slice.
func (e *Engine) elemsOf(x avSym) *avObj {
	k := avKey(x)
	if o := e.symObjs[k]; o != nil {
		return o
	}
	if e.symObjs == nil {
		e.symObjs = map[string]*avObj{}
	}
	o := e.NewObj("elems", nil)
	o.of = x
	e.symObjs[k] = o
	return o
}

func (e *Engine) globalObj(g *ssa.Global) *avObj {
	o := e.globals[g]
	if o == nil {
		o = e.NewObj("global:"+g.Name(), derefType(g.Type()))
		e.globals[g] = o
	}
	return o
}

func (e *Engine) instrs(fr *frame, b *ssa.BasicBlock, from int, st *State, outs *[]Outcome) {
	for i := from; i < len(b.Instrs); i++ {
		if e.Aborted != "" {
			return
		}
		switch in := b.Instrs[i].(type) {
		case *ssa.Phi:
			// set on entry
		case *ssa.Call:
			couts := e.doCall(fr, st, in)
			live := couts[:0:0]
			for _, co := range couts {
				if co.End != nil {
					*outs = append(*outs, *co.End)
					continue
				}
				live = append(live, co)
			}
			couts = live
			if len(couts) == 1 {
				st = couts[0].St
				fr.env[in] = packRes(couts[0].Res, in.Type())
				continue
			}
			for k, co := range couts {
				f2 := fr
				if k < len(couts)-1 {
					f2 = fr.fork()
				}
				f2.env[in] = packRes(co.Res, in.Type())
				e.instrs(f2, b, i+1, co.St, outs)
			}
			return
		case *ssa.If:
			cond := e.val(fr, st, in.Cond)
			if c, ok := cond.(avConst); ok {
				if constant.BoolVal(c.v) {
					e.block(fr, b.Succs[0], b, st, outs)
				} else {
					e.block(fr, b.Succs[1], b, st, outs)
				}
				return
			}
			if cond == nil {
				cond = avSym{id: e.fresh(), tag: "cond"}
			}
			pos := instrPos(in)
			stF := st.clone()
			frF := fr.fork()
			if st.assume(cond, true, pos) {
				e.block(fr, b.Succs[0], b, st, outs)
			}
			if stF.assume(cond, false, pos) {
				e.block(frF, b.Succs[1], b, stF, outs)
			}
			return
		case *ssa.Jump:
			e.block(fr, b.Succs[0], b, st, outs)
			return
		case *ssa.Return:
			e.paths++
			if e.paths > e.MaxPaths {
				e.Aborted = fmt.Sprintf("more than %d paths", e.MaxPaths)
				return
			}
			res := make([]AV, len(in.Results))
			for k, r := range in.Results {
				res[k] = e.val(fr, st, r)
			}
			*outs = append(*outs, Outcome{St: st, Res: res, Ret: in})
			return
		case *ssa.Panic:
			e.paths++
			*outs = append(*outs, Outcome{St: st, Panic: true})
			return
		case *ssa.Store:
			if p, ok := e.val(fr, st, in.Addr).(avPtr); ok {
				st.store(p, e.val(fr, st, in.Val))
			}
		case *ssa.MapUpdate:
			if e.TraceMapWrites {
				st.event(Event{Kind: "mapwrite", Pos: in.Pos(), Args: []AV{e.val(fr, st, in.Map)}})
			}
			if p, ok := e.val(fr, st, in.Map).(avPtr); ok {
				k := "[" + avKey(e.val(fr, st, in.Key)) + "]"
				st.store(avPtr{p.o, p.path + k}, e.val(fr, st, in.Value))
			}
		case *ssa.Lookup:
			// a table lookup with a symbolic integer key into a map whose keys are all constants (built by the package
			// initialiser or locally): one path per key, and one for "not in the table"
			if keys, mp, sy, ok := e.constKeyedMap(fr, st, in); ok {
				type alt struct {
					st  *State
					val AV
				}
				var alts []alt
				for _, k := range keys {
					s2 := st.clone()
					if !s2.assume(avCmp{token.EQL, sy, avConst{constant.MakeInt64(k)}}, true, in.Pos()) {
						continue
					}
					v, _ := s2.load(avPtr{mp.o, mp.path + fmt.Sprintf("[%d]", k)})
					if in.CommaOk {
						v = avTuple{v, avConst{constant.MakeBool(true)}}
					}
					alts = append(alts, alt{s2, v})
				}
				s3 := st.clone()
				feasible := true
				for _, k := range keys {
					if !s3.assume(avCmp{token.EQL, sy, avConst{constant.MakeInt64(k)}}, false, in.Pos()) {
						feasible = false
					}
				}
				if feasible {
					var zero AV = zeroAV(in.Type())
					if in.CommaOk {
						zero = avTuple{zeroAV(in.Type().(*types.Tuple).At(0).Type()), avConst{constant.MakeBool(false)}}
					}
					alts = append(alts, alt{s3, zero})
				}
				for k, a := range alts {
					f2 := fr
					if k < len(alts)-1 {
						f2 = fr.fork()
					}
					f2.env[in] = a.val
					e.instrs(f2, b, i+1, a.st, outs)
				}
				return
			}
			e.Cur = in
			fr.env[in] = e.eval(fr, st, in)
		case *ssa.IndexAddr:
			// a table (an array with a few entries set, built by the package initialiser) indexed by a symbolic value:
			// one path per entry and one for "none of them"
			if alts, ok := e.forkTable(fr, st, in); ok {
				for k, a := range alts {
					f2 := fr
					if k < len(alts)-1 {
						f2 = fr.fork()
					}
					f2.env[in] = a.Val
					e.instrs(f2, b, i+1, a.St, outs)
				}
				return
			}
			e.Cur = in
			fr.env[in] = e.eval(fr, st, in)
		case *ssa.Defer, *ssa.Go, *ssa.RunDefers, *ssa.DebugRef, *ssa.Send:
		case ssa.Value:
			if fk, ok := e.D.(Forker); ok {
				var ops []AV
				switch x := in.(type) {
				case *ssa.Index:
					ops = []AV{e.val(fr, st, x.X), e.val(fr, st, x.Index)}
				case *ssa.Next:
					ops = []AV{e.val(fr, st, x.Iter)}
				case *ssa.Slice:
					ops = []AV{e.val(fr, st, x.X), nil, nil}
					if x.Low != nil {
						ops[1] = e.val(fr, st, x.Low)
					}
					if x.High != nil {
						ops[2] = e.val(fr, st, x.High)
					}
				}
				if ops != nil {
					if alts, handled := fk.Fork(e, st, b.Instrs[i], ops); handled {
						if len(alts) == 1 {
							st = alts[0].St
							fr.env[in] = alts[0].Val
							continue
						}
						for k, a := range alts {
							f2 := fr
							if k < len(alts)-1 {
								f2 = fr.fork()
							}
							f2.env[in] = a.Val
							e.instrs(f2, b, i+1, a.St, outs)
						}
						return
					}
				}
			}
			e.Cur, _ = in.(ssa.Instruction)
			fr.env[in] = e.eval(fr, st, in)
		}
	}
}

func (e *Engine) forkTable(fr *frame, st *State, in *ssa.IndexAddr) ([]Alt, bool) {
	if !e.ForkTables {
		return nil, false
	}
	base, ok := e.val(fr, st, in.X).(avPtr)
	if !ok {
		return nil, false
	}
	sy, ok := e.val(fr, st, in.Index).(avSym)
	if !ok {
		return nil, false
	}
	if _, known := st.KnownInt(sy); known {
		return nil, false
	}
	var keys []int64
	for k := range st.heap[base.o] {
		if !strings.HasPrefix(k, base.path+"[") {
			continue
		}
		rest := k[len(base.path)+1:]
		i := strings.Index(rest, "]")
		if i < 0 {
			continue
		}
		var v int64
		if _, err := fmt.Sscanf(rest[:i], "%d", &v); err != nil || fmt.Sprint(v) != rest[:i] {
			continue
		}
		dup := false
		for _, x := range keys {
			dup = dup || x == v
		}
		if !dup {
			keys = append(keys, v)
		}
	}
	if len(keys) == 0 || len(keys) > 64 {
		return nil, false
	}
	sort.Slice(keys, func(a, b int) bool { return keys[a] < keys[b] })
	var alts []Alt
	for _, k := range keys {
		s2 := st.clone()
		if s2.assume(avCmp{token.EQL, sy, avConst{constant.MakeInt64(k)}}, true, in.Pos()) {
			alts = append(alts, Alt{s2, avPtr{base.o, fmt.Sprintf("%s[%d]", base.path, k)}})
		}
	}
	s3 := st.clone()
	feasible := true
	for _, k := range keys {
		if !s3.assume(avCmp{token.EQL, sy, avConst{constant.MakeInt64(k)}}, false, in.Pos()) {
			feasible = false
		}
	}
	if feasible {
		// an index the path does not confine to the array's length panics
		if arr, ok := derefType(in.X.Type()).Underlying().(*types.Array); ok {
			if lo, hi, _ := s3.intRange(sy); lo < 0 || hi >= arr.Len() {
				s3.event(Event{Kind: "runtime-panic", Pos: in.Pos(), Note: fmt.Sprintf("a table of %d entries is indexed with a value the path only confines to [%d, %d]", arr.Len(), lo, hi)})
			}
		}
		alts = append(alts, Alt{s3, avPtr{base.o, base.path + "[other]"}})
	}
	return alts, len(alts) > 0
}

func packRes(res []AV, t types.Type) AV {
	if tup, ok := t.(*types.Tuple); ok {
		out := make(avTuple, tup.Len())
		copy(out, res)
		return out
	}
	if len(res) > 0 {
		return res[0]
	}
	return nil
}

func (e *Engine) doCall(fr *frame, st *State, in ssa.CallInstruction) []CallOut {
	c := in.Common()
	var args []AV
	var callee *ssa.Function
	var free []AV
	if c.IsInvoke() {
		recv := e.val(fr, st, c.Value)
		args = append(args, recv)
		if iv, ok := recv.(avIface); ok && iv.dyn != nil && e.P.SSA.MethodSets.MethodSet(iv.dyn).Lookup(c.Method.Pkg(), c.Method.Name()) != nil {
			if m := e.P.SSA.LookupMethod(iv.dyn, c.Method.Pkg(), c.Method.Name()); m != nil {
				callee = m
				args[0] = iv.v
			}
		}
	} else {
		switch f := c.Value.(type) {
		case *ssa.Function:
			callee = f
		case *ssa.Builtin:
			for _, a := range c.Args {
				args = append(args, e.val(fr, st, a))
			}
			if (f.Name() == "min" || f.Name() == "max") && len(args) >= 2 {
				if outs, ok := e.minMax(st, f.Name() == "min", args); ok {
					return outs
				}
			}
			return []CallOut{{St: st, Res: []AV{e.builtin(st, f.Name(), args, c)}}}
		default:
			if fv, ok := e.val(fr, st, c.Value).(avFunc); ok {
				callee = fv.fn
				free = fv.free
			}
		}
	}
	for _, a := range c.Args {
		args = append(args, e.val(fr, st, a))
	}
	nres := c.Signature().Results().Len()
	if e.D != nil {
		if outs, ok := e.D.Call(e, st, in, callee, args, fr.depth); ok {
			return outs
		}
	}
	if callee != nil && len(callee.Blocks) > 0 && e.P.IsRepo(callee) && fr.depth < e.MaxDepth {
		return e.Inline(callee, args, free, st, fr.depth)
	}
	res := make([]AV, nres)
	name := "?"
	if callee != nil {
		name = callee.String()
	}
	e.Unmodelled["call "+name]++
	for i := range res {
		res[i] = avSym{id: e.fresh(), tag: "ret:" + name}
	}
	return []CallOut{{St: st, Res: res}}
}

// minMax: the built-in min / max of integers, decided by the path's facts or forked on the comparison of its operands.
func (e *Engine) minMax(st *State, isMin bool, args []AV) ([]CallOut, bool) {
	for _, a := range args {
		switch a.(type) {
		case avConst, avSym, avBin:
		default:
			return nil, false
		}
		if c, ok := a.(avConst); ok && c.v.Kind() != constant.Int {
			return nil, false
		}
	}
	type alt struct {
		st *State
		v  AV
	}
	alts := []alt{{st, args[0]}}
	for _, b := range args[1:] {
		var next []alt
		for _, a := range alts {
			// keep a.v when it is the smaller (min) / the larger (max) of the two
			op := token.LEQ
			if !isMin {
				op = token.GEQ
			}
			cond := e.binop(a.st, op, a.v, b)
			if c, ok := cond.(avConst); ok && c.v.Kind() == constant.Bool {
				if constant.BoolVal(c.v) {
					next = append(next, a)
				} else {
					next = append(next, alt{a.st, b})
				}
				continue
			}
			if cond == nil {
				return nil, false
			}
			s2 := a.st.clone()
			if a.st.assume(cond, true, token.NoPos) {
				next = append(next, alt{a.st, a.v})
			}
			if s2.assume(cond, false, token.NoPos) {
				next = append(next, alt{s2, b})
			}
		}
		alts = next
	}
	var outs []CallOut
	for _, a := range alts {
		outs = append(outs, CallOut{St: a.st, Res: []AV{a.v}})
	}
	return outs, len(outs) > 0
}

func (e *Engine) builtin(st *State, name string, args []AV, c *ssa.CallCommon) AV {
	switch name {
	case "len":
		switch a := args[0].(type) {
		case avConst:
			if a.v.Kind() == constant.String {
				return avConst{constant.MakeInt64(int64(len(constant.StringVal(a.v))))}
			}
		case avSlice:
			if a.n >= 0 {
				return avConst{constant.MakeInt64(int64(a.n))}
			}
		case avNil:
			return avConst{constant.MakeInt64(0)}
		case avPtr:
			// a map object: empty when nothing was stored, otherwise at least one entry
			if _, isMap := c.Args[0].Type().Underlying().(*types.Map); isMap {
				if _, any := st.load(a); !any {
					return avConst{constant.MakeInt64(0)}
				}
				sy := avSym{id: e.fresh(), tag: "len", payload: args[0]}
				st.assumeInt(sy.id, token.GEQ, 1)
				return sy
			}
		}
		if sy, isSym := args[0].(avSym); isSym {
			return e.lenOf(st, sy)
		}
		return avSym{id: e.fresh(), tag: "len", payload: args[0]}
	case "copy":
		if !e.SymSlices {
			break
		}
		if dst, ok := args[0].(avSlice); ok {
			n := -1
			if sl, ok := e.knownLen(st, args[1]); ok && dst.n >= 0 {
				n = min(dst.n, sl)
			}
			if n >= 0 {
				for i := 0; i < n; i++ {
					st.store(avPtr{dst.o, fmt.Sprintf("%s[%d]", dst.path, i)}, e.elemAt(st, args[1], i))
				}
				return avConst{constant.MakeInt64(int64(n))}
			}
			if os.Getenv("JMESCHECK_DEBUG_COPY") != "" {
				fmt.Fprintf(os.Stderr, "copy: dst.n=%d src=%s lenOf=%v\n", dst.n, avKey(args[1]), func() string {
					if sy, ok := args[1].(avSym); ok {
						return avKey(e.lenOf(st, sy))
					}
					return "-"
				}())
			}
			// an unknown number of elements was overwritten
			for k := range st.heap[dst.o] {
				if strings.HasPrefix(k, dst.path+"[") {
					delete(st.heap[dst.o], k)
				}
			}
			st.store(avPtr{dst.o, dst.path + "[*]"}, avSym{id: e.fresh(), tag: "copied"})
			return avSym{id: e.fresh(), tag: "copy-n"}
		}
		return avSym{id: e.fresh(), tag: "copy-n"}
	case "append":
		base, _ := args[0].(avSlice)
		var elems []AV
		known := true
		switch a := args[0].(type) {
		case avNil:
		case avSlice:
			if a.n < 0 {
				known = false
			}
			for i := 0; i < a.n; i++ {
				v, _ := st.load(avPtr{a.o, a.path + fmt.Sprintf("[%d]", i)})
				elems = append(elems, v)
			}
		default:
			known = false
		}
		_ = base
		if len(args) > 1 {
			switch a := args[1].(type) {
			case avSlice:
				if a.n < 0 {
					known = false
				}
				for i := 0; i < a.n; i++ {
					v, _ := st.load(avPtr{a.o, a.path + fmt.Sprintf("[%d]", i)})
					elems = append(elems, v)
				}
			case avNil:
			default:
				known = false
			}
		}
		o := e.NewObj("", nil)
		for i, v := range elems {
			st.store(avPtr{o, fmt.Sprintf("[%d]", i)}, v)
		}
		if !known {
			if v, ok := args[0].(avSlice); ok {
				if any, ok := st.load(avPtr{v.o, "[*]"}); ok {
					st.store(avPtr{o, "[*]"}, any)
				}
			}
			return avSlice{o: o, n: -1}
		}
		return avSlice{o: o, n: len(elems)}
	}
	e.Unmodelled["builtin "+name]++
	return nil
}

func (e *Engine) eval(fr *frame, st *State, in ssa.Value) AV {
	switch in := in.(type) {
	case *ssa.Alloc:
		o := e.NewObj("", derefType(in.Type()))
		return avPtr{o, ""}
	case *ssa.FieldAddr:
		if p, ok := e.val(fr, st, in.X).(avPtr); ok {
			return avPtr{p.o, p.path + "." + fieldName(in)}
		}
		return nil
	case *ssa.Field:
		x := e.val(fr, st, in.X)
		stt := in.X.Type().Underlying().(*types.Struct)
		fname := stt.Field(in.Field).Name()
		if sv, ok := x.(avStruct); ok {
			if v, ok := sv.f[fname]; ok {
				return v
			}
			return zeroAV(stt.Field(in.Field).Type())
		}
		return nil
	case *ssa.IndexAddr:
		idx := "[*]"
		if ob, ok := e.D.(IndexObserver); ok {
			ob.ObserveIndex(e, st, e.val(fr, st, in.X), e.val(fr, st, in.Index), in)
		}
		if c, ok := st.KnownInt(e.val(fr, st, in.Index)); ok {
			idx = fmt.Sprintf("[%d]", c)
		}
		switch x := e.val(fr, st, in.X).(type) {
		case avPtr:
			return avPtr{x.o, x.path + idx}
		case avSlice:
			return avPtr{x.o, x.path + idx}
		case avSym:
			if e.SymSlices {
				if c, ok := st.KnownInt(e.val(fr, st, in.Index)); ok {
					if base, off, ok := e.sliceBase(st, x); ok {
						return avPtr{e.elemsOf(base), fmt.Sprintf("[%d]", off+c)}
					}
				}
				return avPtr{e.elemsOf(x), idx}
			}
		}
		return nil
	case *ssa.Index:
		x := e.val(fr, st, in.X)
		if ix, ok := e.D.(interface {
			Index(e *Engine, st *State, x, idx AV, site *ssa.Index) (AV, bool)
		}); ok {
			if v, handled := ix.Index(e, st, x, e.val(fr, st, in.Index), in); handled {
				return v
			}
		}
		if sv, ok := x.(avStruct); ok {
			if c, ok := st.KnownInt(e.val(fr, st, in.Index)); ok {
				if v, ok := sv.f[fmt.Sprintf("[%d]", c)]; ok {
					return v
				}
				return zeroAV(in.Type())
			}
		}
		if s, ok := x.(avConst); ok && s.v.Kind() == constant.String {
			if c, ok := st.KnownInt(e.val(fr, st, in.Index)); ok {
				str := constant.StringVal(s.v)
				if c >= 0 && int(c) < len(str) {
					return avConst{constant.MakeInt64(int64(str[c]))}
				}
			}
		}
		return nil
	case *ssa.Lookup:
		if p, ok := e.val(fr, st, in.X).(avPtr); ok {
			if c, ok := e.val(fr, st, in.Index).(avConst); ok && p.o.label == "" {
				v, found := st.load(avPtr{p.o, p.path + "[" + avKey(c) + "]"})
				if in.CommaOk {
					return avTuple{v, avConst{constant.MakeBool(found)}}
				}
				if found {
					return v
				}
			}
		}
		if p, ok := e.val(fr, st, in.X).(avPtr); ok && p.o.label != "" {
			k := p.o.label + p.path + "[" + avKey(e.val(fr, st, in.Index)) + "]"
			if in.CommaOk {
				return avTuple{avSym{tag: "val:" + k}, avSym{tag: "ok:" + k}}
			}
			return avSym{tag: "val:" + k}
		}
		if in.CommaOk {
			return avTuple{e.NewSym("lookup"), e.NewSym("lookup-ok")}
		}
		return e.NewSym("lookup")
	case *ssa.UnOp:
		x := e.val(fr, st, in.X)
		switch in.Op {
		case token.MUL:
			p, ok := x.(avPtr)
			if !ok {
				return nil
			}
			if v, found := st.load(p); found {
				return v
			}
			if p.o.label != "" && e.D != nil {
				return e.D.Load(e, st, p, in.Type())
			}
			return zeroAV(in.Type())
		case token.NOT:
			if c, ok := x.(avConst); ok {
				return avConst{constant.MakeBool(!constant.BoolVal(c.v))}
			}
			if x == nil {
				return nil
			}
			return avNot{x}
		case token.SUB:
			if c, ok := x.(avConst); ok {
				return avConst{constant.UnaryOp(token.SUB, c.v, 0)}
			}
			return avBin{token.SUB, avConst{constant.MakeInt64(0)}, x}
		}
		return nil
	case *ssa.BinOp:
		return e.binop(st, in.Op, e.val(fr, st, in.X), e.val(fr, st, in.Y))
	case *ssa.Extract:
		if t, ok := e.val(fr, st, in.Tuple).(avTuple); ok && in.Index < len(t) {
			return t[in.Index]
		}
		return nil
	case *ssa.MakeInterface:
		return avIface{dyn: in.X.Type(), v: e.val(fr, st, in.X)}
	case *ssa.ChangeInterface:
		return e.val(fr, st, in.X)
	case *ssa.ChangeType:
		return e.val(fr, st, in.X)
	case *ssa.Convert:
		x := e.val(fr, st, in.X)
		if e.TraceConv && x != nil {
			if b, ok := in.Type().Underlying().(*types.Basic); ok && b.Info()&types.IsInteger != 0 {
				st.event(Event{Kind: "conv", Args: []AV{x}, Pos: in.Pos(), Note: b.Name()})
			}
		}
		if c, ok := x.(avConst); ok {
			if b, ok := in.Type().Underlying().(*types.Basic); ok && b.Info()&types.IsString != 0 && c.v.Kind() == constant.Int {
				if i, ok := constant.Int64Val(c.v); ok {
					return avConst{constant.MakeString(string(rune(i)))}
				}
			}
		}
		return x
	case *ssa.TypeAssert:
		x := e.val(fr, st, in.X)
		ok := AV(nil)
		var v AV
		switch xv := x.(type) {
		case avIface:
			match := false
			if types.IsInterface(in.AssertedType) {
				match = types.Implements(xv.dyn, in.AssertedType.Underlying().(*types.Interface))
				v = xv
			} else {
				match = types.Identical(xv.dyn, in.AssertedType)
				v = xv.v
			}
			ok = avConst{constant.MakeBool(match)}
			if !match {
				v = zeroAV(in.AssertedType)
			}
		case avNil:
			ok = avConst{constant.MakeBool(false)}
			v = zeroAV(in.AssertedType)
		default:
			tn := typeShort(in.AssertedType)
			if x != nil {
				// one symbol per (operand, type): asserting the same value twice gives the same answer
				ok = avSym{tag: "assert-ok:" + tn, payload: x}
				v = avSym{tag: "asserted:" + tn, payload: x}
			} else {
				ok = avSym{id: e.fresh(), tag: "assert-ok:" + tn}
				v = avSym{id: e.fresh(), tag: "asserted:" + tn}
			}
		}
		if in.CommaOk {
			return avTuple{v, ok}
		}
		return v
	case *ssa.MakeClosure:
		fv := avFunc{fn: in.Fn.(*ssa.Function)}
		for _, b := range in.Bindings {
			fv.free = append(fv.free, e.val(fr, st, b))
		}
		return fv
	case *ssa.MakeMap:
		return avPtr{e.NewObj("", in.Type()), ""}
	case *ssa.MakeSlice:
		n := -1
		if c, ok := st.KnownInt(e.val(fr, st, in.Len)); ok && (c == 0 || (e.SymSlices && c > 0 && c <= 64)) {
			n = int(c)
		}
		if in.Cap != in.Len {
			// make panics unless 0 <= len <= cap: what the path knows about that is an event
			l, c := e.val(fr, st, in.Len), e.val(fr, st, in.Cap)
			kind := "makecap-open"
			if l != nil && c != nil {
				le, ge := e.binop(st, token.LEQ, l, c), e.binop(st, token.GEQ, l, avConst{constant.MakeInt64(0)})
				if t1, ok := le.(avConst); ok && t1.v.Kind() == constant.Bool && constant.BoolVal(t1.v) {
					if t2, ok := ge.(avConst); ok && t2.v.Kind() == constant.Bool && constant.BoolVal(t2.v) {
						kind = "makecap-ok"
					}
				}
			}
			st.event(Event{Kind: kind, Args: []AV{l, c}, Pos: in.Pos()})
		}
		o := e.NewObj("", in.Type())
		o.of = e.val(fr, st, in.Len)
		if e.TraceMake {
			st.event(Event{Kind: "make", Args: []AV{o.of}, Pos: in.Pos(), Note: typeShort(in.Type())})
		}
		return avSlice{o: o, n: n}
	case *ssa.Slice:
		x := e.val(fr, st, in.X)
		if p, ok := x.(avPtr); ok {
			if arr, ok := derefType(in.X.Type()).Underlying().(*types.Array); ok {
				lo, hi := int64(0), arr.Len()
				known := true
				if in.Low != nil {
					lo, known = st.KnownInt(e.val(fr, st, in.Low))
				}
				if in.High != nil && known {
					hi, known = st.KnownInt(e.val(fr, st, in.High))
				}
				if known && lo == 0 {
					return avSlice{o: p.o, n: int(hi), path: p.path}
				}
			}
		}
		if sl, ok := x.(avSlice); ok && in.Low == nil {
			if in.High == nil {
				return sl
			}
			if hi, known := st.KnownInt(e.val(fr, st, in.High)); known {
				return avSlice{o: sl.o, n: int(hi), path: sl.path}
			}
		}
		if c, ok := x.(avConst); ok && c.v.Kind() == constant.String {
			lo, hi := int64(0), int64(len(constant.StringVal(c.v)))
			okb := true
			if in.Low != nil {
				lo, okb = st.KnownInt(e.val(fr, st, in.Low))
			}
			if in.High != nil && okb {
				hi, okb = st.KnownInt(e.val(fr, st, in.High))
			}
			s := constant.StringVal(c.v)
			if okb && lo >= 0 && hi <= int64(len(s)) && lo <= hi {
				return avConst{constant.MakeString(s[lo:hi])}
			}
		}
		if _, isSym := x.(avSym); isSym {
			var lo, hi AV = avConst{constant.MakeInt64(0)}, avSym{tag: "len", payload: x}
			if in.Low != nil {
				lo = e.val(fr, st, in.Low)
			}
			if in.High != nil {
				hi = e.val(fr, st, in.High)
			}
			return avSym{tag: "slice", payload: avTuple{x, lo, hi}}
		}
		return avSym{id: e.fresh(), tag: "slice", payload: x}
	case *ssa.SliceToArrayPointer:
		if sl, ok := e.val(fr, st, in.X).(avSlice); ok {
			if arr, isArr := derefType(in.Type()).Underlying().(*types.Array); isArr && sl.n >= 0 && int64(sl.n) < arr.Len() {
				// the conversion panics when the slice is shorter than the array
				st.event(Event{Kind: "runtime-panic", Pos: in.Pos(), Note: fmt.Sprintf("a slice of %d elements is converted to an array of %d", sl.n, arr.Len())})
			}
			return avPtr{sl.o, sl.path}
		}
		return nil
	case *ssa.Range:
		return avSym{id: e.fresh(), tag: "range", payload: e.val(fr, st, in.X)}
	case *ssa.Next:
		it, _ := e.val(fr, st, in.Iter).(avSym)
		return avTuple{avSym{id: e.fresh(), tag: "next-ok", payload: it}, avSym{id: e.fresh(), tag: "next-key", payload: it.payload}, avSym{id: e.fresh(), tag: "next-val", payload: it.payload}}
	}
	e.Unmodelled[fmt.Sprintf("%T", in)]++
	return nil
}

func (e *Engine) binop(st *State, op token.Token, x, y AV) AV {
	cx, okx := x.(avConst)
	cy, oky := y.(avConst)
	isCmp := op == token.EQL || op == token.NEQ || op == token.LSS || op == token.LEQ || op == token.GTR || op == token.GEQ
	if okx && oky {
		if isCmp {
			return avConst{constant.MakeBool(constant.Compare(cx.v, op, cy.v))}
		}
		switch op {
		case token.SHL, token.SHR:
			if s, ok := constant.Uint64Val(cy.v); ok {
				return avConst{constant.Shift(cx.v, op, uint(s))}
			}
			return nil
		case token.QUO:
			if cx.v.Kind() == constant.Int && cy.v.Kind() == constant.Int {
				if constant.Sign(cy.v) == 0 {
					return nil
				}
				return avConst{constant.BinaryOp(cx.v, token.QUO_ASSIGN, cy.v)}
			}
		case token.AND_NOT:
			return nil
		}
		return avConst{constant.BinaryOp(cx.v, op, cy.v)}
	}
	if !isCmp {
		if x == nil || y == nil {
			return nil
		}
		return avBin{op, x, y}
	}
	// two symbols, one of which the path has pinned to a value: a comparison with that value
	if sx, ok := x.(avSym); ok {
		if sy, ok := y.(avSym); ok {
			if k, known := st.KnownInt(sy); known {
				return e.binop(st, op, x, avConst{constant.MakeInt64(k)})
			}
			if k, known := st.KnownInt(sx); known {
				return e.binop(st, op, avConst{constant.MakeInt64(k)}, y)
			}
		}
	}
	if h, ok := e.D.(Comparer); ok && x != nil && y != nil {
		if v, handled := h.Cmp(e, st, op, x, y); handled {
			return v
		}
	}
	// b == true, b != false, ... : the boolean itself or its negation
	if op == token.EQL || op == token.NEQ {
		bx, by := x, y
		cb, isC := by.(avConst)
		if c2, ok := bx.(avConst); ok && !isC {
			bx, by, cb, isC = y, x, c2, true
		}
		if isC && cb.v.Kind() == constant.Bool && bx != nil {
			switch bx.(type) {
			case avCmp, avNot, avSym:
				if constant.BoolVal(cb.v) == (op == token.EQL) {
					return bx
				}
				if n, isNot := bx.(avNot); isNot {
					return n.x
				}
				return avNot{bx}
			}
		}
	}
	// nil comparisons
	if op == token.EQL || op == token.NEQ {
		nx, ny := isDefNil(x), isDefNil(y)
		nnx, nny := isDefNonNil(x), isDefNonNil(y)
		var res, known bool
		switch {
		case nx && ny:
			res, known = true, true
		case nx && nny, ny && nnx:
			res, known = false, true
		}
		if known {
			return avConst{constant.MakeBool(res == (op == token.EQL))}
		}
		if avKey(x) == avKey(y) && x != nil {
			if _, isSym := x.(avSym); isSym {
				return avConst{constant.MakeBool(op == token.EQL)}
			}
		}
		// interface values: equal when type and (identity) value are, different when the dynamic types differ
		if ix, ok := x.(avIface); ok {
			if iy, ok := y.(avIface); ok {
				if !types.Identical(ix.dyn, iy.dyn) {
					return avConst{constant.MakeBool(op == token.NEQ)}
				}
				return e.binop(st, op, ix.v, iy.v)
			}
		}
		if sx, ok := x.(avSym); ok {
			if sy, ok := y.(avSym); ok && sx.uniq && sy.uniq {
				return avConst{constant.MakeBool(op == token.NEQ)}
			}
			// a fresh object identity is never equal to a concrete interface value built elsewhere
			if _, isI := y.(avIface); isI && sx.uniq {
				return avConst{constant.MakeBool(op == token.NEQ)}
			}
		}
		if sy, ok := y.(avSym); ok && sy.uniq {
			if _, isI := x.(avIface); isI {
				return avConst{constant.MakeBool(op == token.NEQ)}
			}
		}
	}
	// (s - c) op k  ==  s op (k + c)
	if bx, ok := x.(avBin); ok && oky && (bx.op == token.ADD || bx.op == token.SUB) {
		if c, ok := bx.y.(avConst); ok && c.v.Kind() == constant.Int && cy.v.Kind() == constant.Int {
			inv := token.ADD
			if bx.op == token.ADD {
				inv = token.SUB
			}
			return e.binop(st, op, bx.x, avConst{constant.BinaryOp(cy.v, inv, c.v)})
		}
	}
	// (c - s) op k  ==  s flip(op) (c - k)
	if bx, ok := x.(avBin); ok && oky && bx.op == token.SUB && cy.v.Kind() == constant.Int {
		if c, ok := bx.x.(avConst); ok && c.v.Kind() == constant.Int {
			if _, isC := bx.y.(avConst); !isC {
				return e.binop(st, flipOp(op), bx.y, avConst{constant.BinaryOp(c.v, token.SUB, cy.v)})
			}
		}
	}
	if by, ok := y.(avBin); ok && okx && by.op == token.SUB && cx.v.Kind() == constant.Int {
		if c, ok := by.x.(avConst); ok && c.v.Kind() == constant.Int {
			if _, isC := by.y.(avConst); !isC {
				return e.binop(st, flipOp(op), avConst{constant.BinaryOp(c.v, token.SUB, cx.v)}, by.y)
			}
		}
	}
	if by, ok := y.(avBin); ok && okx && (by.op == token.ADD || by.op == token.SUB) {
		if c, ok := by.y.(avConst); ok && c.v.Kind() == constant.Int && cx.v.Kind() == constant.Int {
			inv := token.ADD
			if by.op == token.ADD {
				inv = token.SUB
			}
			return e.binop(st, op, avConst{constant.BinaryOp(cx.v, inv, c.v)}, by.x)
		}
	}
	// integer symbol against constant: decided by facts?
	sx, c, o2 := x, y, op
	if okx {
		sx, c, o2 = y, x, flipOp(op)
	}
	if sy, ok := sx.(avSym); ok {
		if k, ok := c.(avConst); ok && k.v.Kind() == constant.Int {
			if cv, exact := constant.Int64Val(k.v); exact {
				if r, decided := st.decideInt(st.idOf(sy), o2, cv); decided {
					return avConst{constant.MakeBool(r)}
				}
			}
		}
	}
	if x == nil || y == nil {
		return nil
	}
	return avCmp{op, x, y}
}

func isDefNil(v AV) bool {
	_, ok := v.(avNil)
	return ok
}

func isDefNonNil(v AV) bool {
	switch v := v.(type) {
	case avPtr, avIface, avFunc:
		return true
	case avSlice:
		return v.n > 0
	case avSym:
		return v.nonNil
	}
	return false
}

// constKeyedMap: in looks an integer symbol up in a map object all of whose stored keys are integer constants.
func (e *Engine) constKeyedMap(fr *frame, st *State, in *ssa.Lookup) ([]int64, avPtr, avSym, bool) {
	mp, ok := e.val(fr, st, in.X).(avPtr)
	if !ok {
		return nil, mp, avSym{}, false
	}
	sy, ok := e.val(fr, st, in.Index).(avSym)
	if !ok {
		return nil, mp, sy, false
	}
	if _, known := st.KnownInt(sy); known {
		return nil, mp, sy, false
	}
	if _, isMap := in.X.Type().Underlying().(*types.Map); !isMap {
		return nil, mp, sy, false
	}
	var keys []int64
	for k := range st.heap[mp.o] {
		if !strings.HasPrefix(k, mp.path+"[") {
			continue
		}
		rest := strings.TrimSuffix(k[len(mp.path)+1:], "]")
		if i := strings.Index(rest, "]"); i >= 0 {
			rest = rest[:i]
		}
		var v int64
		if _, err := fmt.Sscanf(rest, "%d", &v); err != nil || fmt.Sprint(v) != rest {
			return nil, mp, sy, false
		}
		dup := false
		for _, x := range keys {
			if x == v {
				dup = true
			}
		}
		if !dup {
			keys = append(keys, v)
		}
	}
	if len(keys) == 0 || len(keys) > 64 {
		return nil, mp, sy, false
	}
	sort.Slice(keys, func(i, j int) bool { return keys[i] < keys[j] })
	return keys, mp, sy, true
}

// ---------------------------------------------------------------- helpers for rules

// DynType returns the dynamic type name of an interface value ("*parser.IndexNode"), or "".
func avDyn(v AV) types.Type {
	if iv, ok := v.(avIface); ok {
		return iv.dyn
	}
	return nil
}

// fieldsOf reads the fields of the struct an interface/pointer value denotes in the given state.
func (s *State) fieldsOf(v AV) map[string]AV {
	if iv, ok := v.(avIface); ok {
		v = iv.v
	}
	switch x := v.(type) {
	case avStruct:
		return x.f
	case avPtr:
		if got, ok := s.load(x); ok {
			if sv, ok := got.(avStruct); ok {
				return sv.f
			}
		}
		return map[string]AV{}
	}
	return nil
}

// ---------------------------------------------------------------- package initialisers

// pkgInitDom is the domain used while a package initialiser is interpreted: other packages' initialisers are skipped,
// library calls return opaque values, absent global content is zero.
type pkgInitDom struct{}

func (pkgInitDom) Call(e *Engine, st *State, site ssa.CallInstruction, callee *ssa.Function, args []AV, depth int) ([]CallOut, bool) {
	if callee != nil && callee.Name() == "init" && depth > 0 {
		return []CallOut{{St: st}}, true
	}
	if callee != nil && !e.P.IsRepo(callee) {
		res := make([]AV, site.Common().Signature().Results().Len())
		for i := range res {
			res[i] = avSym{id: e.fresh(), tag: "init:" + callee.Name(), nonNil: true, uniq: true, payload: avTuple(args)}
		}
		return []CallOut{{St: st, Res: res}}, true
	}
	return nil, false
}
func (pkgInitDom) Load(e *Engine, st *State, p avPtr, t types.Type) AV { return zeroAV(t) }

// WithInit returns st extended with the effects of pkg's initialiser (tables held in package-level variables).
func (e *Engine) WithInit(pkg *ssa.Package, st *State) *State {
	if pkg == nil {
		return st
	}
	init := pkg.Func("init")
	if init == nil {
		return st
	}
	saved, savedVisits := e.D, e.MaxVisits
	e.D, e.MaxVisits = pkgInitDom{}, 1
	outs := e.Run(init, nil, st.clone())
	e.D, e.MaxVisits = saved, savedVisits
	e.paths, e.Aborted = 0, ""
	if len(outs) == 1 && !outs[0].Cut && !outs[0].Panic {
		out := outs[0].St
		out.Trace, out.Conds = nil, nil
		return out
	}
	return st
}
