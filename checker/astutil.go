package main

import (
	"go/ast"
	"go/constant"
	"go/token"
	"go/types"
	"strings"

	"golang.org/x/tools/go/packages"
)

func exprStr(e ast.Expr) string { return types.ExprString(e) }

// namedIs reports whether t (after pointer stripping when ptr) is the named type pkgPath.name.
func namedIs(t types.Type, pkgPath, name string) bool {
	if t == nil {
		return false
	}
	t = types.Unalias(t)
	n, ok := t.(*types.Named)
	if !ok || n.Obj() == nil {
		return false
	}
	if n.Obj().Name() != name {
		return false
	}
	if n.Obj().Pkg() == nil {
		return pkgPath == ""
	}
	return n.Obj().Pkg().Path() == pkgPath
}

func ptrTo(t types.Type) types.Type {
	if p, ok := types.Unalias(t).(*types.Pointer); ok {
		return p.Elem()
	}
	return nil
}

func isTokenType(t types.Type) bool {
	return namedIs(t, modPath+"/internal/lexer", "TokenType")
}

func isErrorType(t types.Type) bool {
	return t != nil && types.Identical(t, types.Universe.Lookup("error").Type())
}

// constOf returns the constant value of an expression, if any.
func constOf(pk *packages.Package, e ast.Expr) constant.Value {
	if tv, ok := pk.TypesInfo.Types[e]; ok && tv.Value != nil {
		return tv.Value
	}
	return nil
}

func constInt(pk *packages.Package, e ast.Expr) (int64, bool) {
	v := constOf(pk, e)
	if v == nil {
		return 0, false
	}
	v = constant.ToInt(v)
	if v.Kind() != constant.Int {
		return 0, false
	}
	return constant.Int64Val(v)
}

// terminates reports whether a statement list always leaves the enclosing construct
// (return, panic, continue, break, goto) — i.e. control cannot fall out of its end.
func terminates(stmts []ast.Stmt) bool {
	if len(stmts) == 0 {
		return false
	}
	switch s := stmts[len(stmts)-1].(type) {
	case *ast.ReturnStmt:
		return true
	case *ast.BranchStmt:
		return s.Tok == token.CONTINUE || s.Tok == token.GOTO || s.Tok == token.BREAK && s.Label != nil
	case *ast.ExprStmt:
		if c, ok := s.X.(*ast.CallExpr); ok {
			if id, ok := c.Fun.(*ast.Ident); ok && id.Name == "panic" {
				return true
			}
		}
	case *ast.BlockStmt:
		return terminates(s.List)
	case *ast.IfStmt:
		if s.Else == nil {
			return false
		}
		if !terminates(s.Body.List) {
			return false
		}
		switch e := s.Else.(type) {
		case *ast.BlockStmt:
			return terminates(e.List)
		case *ast.IfStmt:
			return terminates([]ast.Stmt{e})
		}
	case *ast.SwitchStmt:
		hasDefault := false
		for _, c := range s.Body.List {
			cc := c.(*ast.CaseClause)
			if cc.List == nil {
				hasDefault = true
			}
			if !terminates(cc.Body) {
				return false
			}
		}
		return hasDefault
	case *ast.ForStmt:
		// for {} without break never falls out
		if s.Cond == nil {
			brk := false
			ast.Inspect(s.Body, func(n ast.Node) bool {
				switch n := n.(type) {
				case *ast.ForStmt, *ast.RangeStmt, *ast.SwitchStmt, *ast.TypeSwitchStmt, *ast.SelectStmt, *ast.FuncLit:
					return false
				case *ast.BranchStmt:
					if n.Tok == token.BREAK {
						brk = true
					}
				}
				return true
			})
			return !brk
		}
	}
	return false
}

// selPath renders selector chains such as p.curr.Type; "" if not a pure chain.
func selPath(e ast.Expr) string {
	switch e := e.(type) {
	case *ast.Ident:
		return e.Name
	case *ast.SelectorExpr:
		if x := selPath(e.X); x != "" {
			return x + "." + e.Sel.Name
		}
	case *ast.ParenExpr:
		return selPath(e.X)
	}
	return ""
}

// calleeObj resolves the called function object of a call expression through type information.
func calleeObj(pk *packages.Package, c *ast.CallExpr) types.Object {
	var id *ast.Ident
	switch f := ast.Unparen(c.Fun).(type) {
	case *ast.Ident:
		id = f
	case *ast.SelectorExpr:
		id = f.Sel
	default:
		return nil
	}
	return pk.TypesInfo.Uses[id]
}

// calleeName gives "pkgpath.Name" or "(pkgpath.Recv).Name" for a resolved callee.
func calleeName(pk *packages.Package, c *ast.CallExpr) string {
	o := calleeObj(pk, c)
	if o == nil {
		return ""
	}
	return objName(o)
}

func objName(o types.Object) string {
	f, ok := o.(*types.Func)
	if !ok {
		if o.Pkg() != nil {
			return o.Pkg().Path() + "." + o.Name()
		}
		return o.Name()
	}
	sig := f.Type().(*types.Signature)
	if r := sig.Recv(); r != nil {
		t := r.Type()
		star := ""
		if p, ok := t.(*types.Pointer); ok {
			t = p.Elem()
			star = "*"
		}
		if n, ok := types.Unalias(t).(*types.Named); ok {
			pp := ""
			if n.Obj().Pkg() != nil {
				pp = n.Obj().Pkg().Path() + "."
			}
			return "(" + star + pp + n.Obj().Name() + ")." + f.Name()
		}
		return "(?)." + f.Name()
	}
	if f.Pkg() != nil {
		return f.Pkg().Path() + "." + f.Name()
	}
	return f.Name()
}

func shortPkg(name string) string {
	return strings.ReplaceAll(name, modPath+"/internal/", "")
}

// tokenConstName returns the lexer token constant an expression denotes ("" if none).
func tokenConstName(pk *packages.Package, e ast.Expr) string {
	var id *ast.Ident
	switch x := ast.Unparen(e).(type) {
	case *ast.Ident:
		id = x
	case *ast.SelectorExpr:
		id = x.Sel
	default:
		return ""
	}
	o := pk.TypesInfo.Uses[id]
	c, ok := o.(*types.Const)
	if !ok || !isTokenType(c.Type()) {
		return ""
	}
	return c.Name()
}

// inspectFuncs calls f for every reachable function declaration of pk.
func (p *Program) inspectFuncs(pk *packages.Package, f func(fd *ast.FuncDecl)) {
	for _, fd := range p.FuncDecls(pk) {
		if p.ReachDecl(fd) {
			f(fd)
		}
	}
}
