package main

import (
	"fmt"
	"go/constant"
	"go/token"
	"go/types"
	"strings"

	"golang.org/x/tools/go/ssa"
)

func init() {
	register(&Rule{ID: "E-BOUNDS-LOOP", Props: []string{"C09", "C12", "C03", "C11", "C02"}, Floor: 21,
		Doc: "every loop of the evaluator terminates within a number of iterations bounded by the sizes of its inputs: it ranges over a container, shrinks a string it tests for emptiness, or counts a variable with a constant step towards a limit that is bounded (by lengths, counts, decode sizes, small constants) on the side it is approached from; the magnitude of an integer taken from the expression or from a numeric argument never bounds a loop by itself. Loops that write one output element per iteration are bounded by the size of the result",
		Run: ruleEBoundsLoop})
	register(&Rule{ID: "E-BOUNDS-ALLOC", Props: []string{"C09", "C03", "C02"}, Floor: 12,
		Doc: "the size of every allocation of the evaluator (make, strings.Builder.Grow, strings.Repeat) is bounded above by the sizes of its inputs, never by the magnitude of an integer argument or slice bound",
		Run: ruleEBoundsAlloc})
}

// boundAn decides, for integer SSA values, whether they are bounded above / below by a function of input sizes.
type boundAn struct {
	busy map[bkey]bool
	// assumeUB/assumeLB: parameters known to be bounded at the call site whose callee is being summarised
	assumeUB, assumeLB map[*ssa.Parameter]bool
	depth              int
	// variadicNonEmpty: the parser builds variadic function nodes only with at least one argument
	variadicNonEmpty bool
}

// variadicHelpersRejectEmpty: every variadic arity helper of the parser rejects an empty argument list
// (its success returns are preceded by an append and it returns an arity error on an immediate `)`).
func variadicHelpersRejectEmpty(p *Program) bool {
	if ok, decided := variadicRejectsEmptyTPI(p); decided {
		return ok
	}
	found := false
	for _, fd := range p.FuncDecls(p.Parser) {
		if fd.Recv == nil || !strings.HasPrefix(fd.Name.Name, "function") || fd.Name.Name == "function" {
			continue
		}
		hs := helperSignature(p, fd)
		if hs.max >= 0 {
			continue
		}
		found = true
		if hs.why != "" || hs.min < 1 {
			return false
		}
	}
	return found
}

type bkey struct {
	v  ssa.Value
	b  *ssa.BasicBlock
	ub bool
}

func isBigConst(c *ssa.Const) bool {
	if c.Value == nil || c.Value.Kind() != constant.Int {
		return false
	}
	v, ok := constant.Int64Val(c.Value)
	if !ok {
		return true
	}
	return v > 1<<31 || v < -(1<<31)
}

var sizeFuncs = map[string]bool{
	"unicode/utf8.RuneCountInString": true, "unicode/utf8.RuneCount": true, "strings.Count": true, "strings.Index": true,
	"strings.LastIndex": true, "strings.IndexByte": true, "strings.IndexRune": true, "strings.IndexAny": true,
	"(*strings.Builder).Len": true, "unicode/utf8.RuneLen": true,
	"slices.Index": true, "slices.IndexFunc": true, "strings.IndexFunc": true, "strings.LastIndexByte": true, "strings.LastIndexFunc": true,
	"slices.BinarySearch": true, "slices.BinarySearchFunc": true,
}

func (a *boundAn) bounded(v ssa.Value, b *ssa.BasicBlock, extra []condFact, ub bool) bool {
	k := bkey{v, b, ub}
	if a.busy[k] {
		return true // optimistic on cycles; the result is not cached
	}
	a.busy[k] = true
	defer delete(a.busy, k)

	facts := append(blockFacts(b), extra...)
	for _, f := range facts {
		op, x, y, ok := f.rel()
		if !ok {
			continue
		}
		if x == v {
			if ub && (op == token.LSS || op == token.LEQ || op == token.EQL) && a.bounded(y, b, nil, true) {
				return true
			}
			if !ub && (op == token.GTR || op == token.GEQ || op == token.EQL) && a.bounded(y, b, nil, false) {
				return true
			}
		}
		if y == v {
			if ub && (op == token.GTR || op == token.GEQ || op == token.EQL) && a.bounded(x, b, nil, true) {
				return true
			}
			if !ub && (op == token.LSS || op == token.LEQ || op == token.EQL) && a.bounded(x, b, nil, false) {
				return true
			}
		}
	}
	switch v := v.(type) {
	case *ssa.Const:
		return !isBigConst(v)
	case *ssa.Parameter:
		if ub && a.assumeUB[v] || !ub && a.assumeLB[v] {
			return true
		}
		return a.boundedAtCallers(v, ub)
	case *ssa.FreeVar:
		return false
	case *ssa.Call:
		if n := builtinName(&v.Call); n == "len" || n == "cap" || n == "min" && false {
			return true
		}
		if _, isTuple := v.Type().(*types.Tuple); !isTuple {
			if ok, decided := a.calleeResultBounded(v, 0, b, ub); decided {
				return ok
			}
		}
		if builtinName(&v.Call) == "min" {
			// min(x, y): bounded above if any argument is; bounded below if all are
			if ub {
				for _, arg := range v.Call.Args {
					if a.bounded(arg, b, nil, true) {
						return true
					}
				}
				return false
			}
			for _, arg := range v.Call.Args {
				if !a.bounded(arg, b, nil, false) {
					return false
				}
			}
			return true
		}
		if builtinName(&v.Call) == "max" {
			if !ub {
				for _, arg := range v.Call.Args {
					if a.bounded(arg, b, nil, false) {
						return true
					}
				}
				return false
			}
			for _, arg := range v.Call.Args {
				if !a.bounded(arg, b, nil, true) {
					return false
				}
			}
			return true
		}
		return sizeFuncs[calleeFullName(&v.Call)]
	case *ssa.Extract:
		if c, ok := v.Tuple.(*ssa.Call); ok {
			n := calleeFullName(&c.Call)
			if strings.HasPrefix(n, "unicode/utf8.Decode") && v.Index == 1 {
				return true
			}
			if ok, decided := a.calleeResultBounded(c, v.Index, b, ub); decided {
				return ok
			}
		}
		return false
	case *ssa.UnOp:
		if v.Op == token.SUB {
			return a.bounded(v.X, b, nil, !ub)
		}
		return false
	case *ssa.Convert:
		return a.bounded(v.X, b, nil, ub)
	case *ssa.BinOp:
		switch v.Op {
		case token.ADD:
			return a.bounded(v.X, b, nil, ub) && a.bounded(v.Y, b, nil, ub)
		case token.SUB:
			return a.bounded(v.X, b, nil, ub) && a.bounded(v.Y, b, nil, !ub)
		case token.MUL:
			// by a small constant
			if c, ok := v.Y.(*ssa.Const); ok && !isBigConst(c) && c.Value != nil {
				if constant.Sign(c.Value) >= 0 {
					return a.bounded(v.X, b, nil, ub)
				}
				return a.bounded(v.X, b, nil, !ub)
			}
			return a.bounded(v.X, b, nil, true) && a.bounded(v.X, b, nil, false) && a.bounded(v.Y, b, nil, true) && a.bounded(v.Y, b, nil, false)
		case token.QUO:
			return a.bounded(v.X, b, nil, true) && a.bounded(v.X, b, nil, false)
		case token.REM:
			return (a.bounded(v.X, b, nil, true) && a.bounded(v.X, b, nil, false)) ||
				(a.bounded(v.Y, b, nil, true) && a.bounded(v.Y, b, nil, false))
		}
		return false
	case *ssa.Lookup:
		// a counter kept in a local map (sizes[k]++): as bounded as everything ever stored in the map; the increments
		// form a cycle through this very lookup, taken optimistically like a counting phi (the loops that drive them are
		// bounded by E-BOUNDS-LOOP)
		if mm, ok := v.X.(*ssa.MakeMap); ok && !v.CommaOk {
			for _, ref := range *mm.Referrers() {
				switch x := ref.(type) {
				case *ssa.MapUpdate:
					if x.Map != ssa.Value(mm) || !a.bounded(x.Value, x.Block(), nil, ub) {
						return false
					}
				case *ssa.Lookup, *ssa.Range, *ssa.DebugRef:
				case *ssa.Call:
					if n := builtinName(&x.Call); n != "len" && n != "delete" && n != "clear" {
						return false
					}
				default:
					return false
				}
			}
			return true
		}
		return false
	case *ssa.Phi:
		for i, e := range v.Edges {
			p := v.Block().Preds[i]
			// running minimum over the arguments of a variadic function node: `count := MaxInt; for range node.Arguments
			// { if l < count { count = l } }`. The sentinel never survives the loop because the parser builds such nodes
			// with at least one argument (P-FUNC-TABLE checks that the variadic helper rejects an empty list).
			if c, ok := e.(*ssa.Const); ok && ub && isBigConst(c) && constant.Sign(c.Value) > 0 && rangesOverArguments(v.Block()) && a.variadicNonEmpty {
				continue
			}
			var ex []condFact
			for si, s := range p.Succs {
				if s == v.Block() {
					if c, t, ok := edgeCond(p, si); ok {
						ex = append(ex, condFact{c, t})
					}
				}
			}
			if !a.bounded(e, p, ex, ub) {
				return false
			}
		}
		return true
	}
	return false
}

// boundedAtCallers: an integer parameter of an unexported function of the repository is bounded when the argument is
// bounded at every one of the function's static call sites (a size hint handed to a constructor, a count handed to a
// helper that was split off).
func (a *boundAn) boundedAtCallers(prm *ssa.Parameter, ub bool) bool {
	fn := prm.Parent()
	if fn == nil || a.depth >= 3 || fn.Pkg == nil || !strings.HasPrefix(fn.Pkg.Pkg.Path(), modPath) {
		return false
	}
	if bt, ok := prm.Type().Underlying().(*types.Basic); !ok || bt.Info()&types.IsInteger == 0 {
		return false
	}
	if obj := fn.Object(); obj == nil || obj.Exported() {
		return false
	}
	idx := -1
	for i, q := range fn.Params {
		if q == prm {
			idx = i
		}
	}
	sites := callSitesOf(fn)
	if idx < 0 || len(sites) == 0 {
		return false
	}
	for _, s := range sites {
		args := s.Common().Args
		if s.Common().IsInvoke() || idx >= len(args) || s.Parent() == fn {
			return false
		}
		sub := &boundAn{busy: map[bkey]bool{}, variadicNonEmpty: a.variadicNonEmpty, assumeUB: map[*ssa.Parameter]bool{}, assumeLB: map[*ssa.Parameter]bool{}, depth: a.depth + 1}
		if !sub.bounded(args[idx], s.Block(), nil, ub) {
			return false
		}
	}
	return true
}

// calleeResultBounded summarises a repository callee: result k is bounded when every return hands out a bounded value,
// assuming of the callee's parameters exactly what holds for the arguments at this call site.
func (a *boundAn) calleeResultBounded(c *ssa.Call, k int, b *ssa.BasicBlock, ub bool) (bool, bool) {
	callee := calleeOf(&c.Call)
	if callee == nil || len(callee.Blocks) == 0 || callee.Pkg == nil || !strings.HasPrefix(callee.Pkg.Pkg.Path(), modPath) || a.depth >= 3 {
		return false, false
	}
	if len(callee.Params) != len(c.Call.Args) {
		return false, false
	}
	sub := &boundAn{busy: map[bkey]bool{}, variadicNonEmpty: a.variadicNonEmpty, assumeUB: map[*ssa.Parameter]bool{}, assumeLB: map[*ssa.Parameter]bool{}, depth: a.depth + 1}
	for i, prm := range callee.Params {
		if bt, ok := prm.Type().Underlying().(*types.Basic); !ok || bt.Info()&types.IsInteger == 0 {
			continue
		}
		sub.assumeUB[prm] = a.bounded(c.Call.Args[i], b, nil, true)
		sub.assumeLB[prm] = a.bounded(c.Call.Args[i], b, nil, false)
	}
	for _, ret := range returnsOf(callee) {
		if k >= len(ret.Results) {
			return false, true
		}
		if !sub.bounded(ret.Results[k], ret.Block(), nil, ub) {
			return false, true
		}
	}
	return true, true
}

func (a *boundAn) describe(v ssa.Value) string {
	switch x := v.(type) {
	case *ssa.Parameter:
		return "parameter " + x.Name()
	case *ssa.Extract:
		if c, ok := x.Tuple.(*ssa.Call); ok {
			return fmt.Sprintf("result #%d of %s", x.Index, calleeFullNameShort(&c.Call))
		}
	case *ssa.Phi:
		if x.Comment != "" {
			return "variable " + x.Comment
		}
	case *ssa.BinOp:
		return a.describe(x.X) + " " + x.Op.String() + " " + a.describe(x.Y)
	case *ssa.Const:
		return x.Value.String()
	case *ssa.Call:
		if n := builtinName(&x.Call); n != "" {
			return n + "(…)"
		}
		return calleeFullNameShort(&x.Call) + "(…)"
	}
	return v.Name()
}

type exitCond struct {
	iff   *ssa.If
	stays int // successor index that stays in the loop
}

// loopExits lists the conditional exits of a loop.
func loopExits(body map[*ssa.BasicBlock]bool) []exitCond {
	var out []exitCond
	for b := range body {
		if len(b.Instrs) == 0 {
			continue
		}
		iff, ok := b.Instrs[len(b.Instrs)-1].(*ssa.If)
		if !ok {
			continue
		}
		in0, in1 := body[b.Succs[0]], body[b.Succs[1]]
		if in0 && !in1 {
			out = append(out, exitCond{iff, 0})
		} else if in1 && !in0 {
			out = append(out, exitCond{iff, 1})
		}
	}
	return out
}

func stepOfPhi(phi *ssa.Phi, h *ssa.BasicBlock, body map[*ssa.BasicBlock]bool) (init ssa.Value, dir int, ok bool) {
	for i, e := range phi.Edges {
		p := h.Preds[i]
		if body[p] { // back edge
			bin, isb := e.(*ssa.BinOp)
			if !isb {
				return nil, 0, false
			}
			c, isc := bin.Y.(*ssa.Const)
			if bin.X != ssa.Value(phi) || !isc || c.Value == nil {
				return nil, 0, false
			}
			v, _ := constant.Int64Val(c.Value)
			d := 0
			switch {
			case bin.Op == token.ADD && v > 0, bin.Op == token.SUB && v < 0:
				d = 1
			case bin.Op == token.ADD && v < 0, bin.Op == token.SUB && v > 0:
				d = -1
			default:
				return nil, 0, false
			}
			if dir != 0 && dir != d {
				return nil, 0, false
			}
			dir = d
		} else {
			init = e
		}
	}
	return init, dir, dir != 0 && init != nil
}

// exitBounded decides whether one exit condition bounds the loop.
func (a *boundAn) exitBounded(h *ssa.BasicBlock, body map[*ssa.BasicBlock]bool, ec exitCond) (bool, string) {
	cond := ec.iff.Cond
	stayTruth := ec.stays == 0
	for {
		u, ok := cond.(*ssa.UnOp)
		if !ok || u.Op != token.NOT {
			break
		}
		cond, stayTruth = u.X, !stayTruth
	}
	bin, ok := cond.(*ssa.BinOp)
	if !ok {
		// range loops: `ok` of Next
		if ex, isEx := cond.(*ssa.Extract); isEx {
			if _, isNext := ex.Tuple.(*ssa.Next); isNext {
				return true, "range over a map or string"
			}
		}
		return false, "exit condition is not a comparison"
	}
	op := bin.Op
	if !stayTruth {
		op = negateOp(op)
	}
	// shrinking string: stays while len(s) > 0 / != 0 where s is a header phi resliced in the body
	if call, ok := bin.X.(*ssa.Call); ok && builtinName(&call.Call) == "len" && (op == token.GTR || op == token.NEQ) {
		if phi, ok := call.Call.Args[0].(*ssa.Phi); ok && phi.Block() == h {
			if bt, ok := phi.Type().Underlying().(*types.Basic); ok && bt.Info()&types.IsString != 0 {
				shr := true
				for i, e := range phi.Edges {
					if !body[h.Preds[i]] {
						continue
					}
					if !reslicesOf(e, phi, map[ssa.Value]bool{}) {
						shr = false
					}
				}
				if shr {
					return true, "shrinks the string it tests for emptiness"
				}
			}
		}
	}
	// growing accumulator: stays while len(r) < limit where r is a header phi of slice type that every trip around the loop
	// replaces by append(r, ...): a counter that starts at a length and goes up by at least one
	if call, ok := bin.X.(*ssa.Call); ok && builtinName(&call.Call) == "len" && (op == token.LSS || op == token.LEQ || op == token.NEQ) {
		if phi, ok := call.Call.Args[0].(*ssa.Phi); ok && phi.Block() == h {
			if _, isSl := phi.Type().Underlying().(*types.Slice); isSl {
				grows := true
				for i, e := range phi.Edges {
					if body[h.Preds[i]] && !appendsTo(e, phi, 0) {
						grows = false
					}
				}
				if grows {
					if a.bounded(bin.Y, ec.iff.Block(), nil, true) {
						return true, "appends to the slice whose length it compares with a limit bounded above"
					}
					return false, fmt.Sprintf("the loop appends until the slice has (%s) elements, which is not bounded above by input sizes", a.describe(bin.Y))
				}
			}
		}
	}
	// shrinking text held in a field: stays while len(c.rest) > 0 where every trip around the loop calls a method of the
	// repository on the same receiver that stores a reslice of that field back into it (a cursor consuming its text)
	if call, ok := bin.X.(*ssa.Call); ok && builtinName(&call.Call) == "len" && (op == token.GTR || op == token.NEQ) {
		if ld, ok := call.Call.Args[0].(*ssa.UnOp); ok && ld.Op == token.MUL {
			if fa, ok := ld.X.(*ssa.FieldAddr); ok && isStringType(derefType(fa.Type())) {
				for blk := range body {
					dominatesBack := true
					for i, pred := range h.Preds {
						_ = i
						if body[pred] && !blk.Dominates(pred) {
							dominatesBack = false
						}
					}
					if !dominatesBack {
						continue
					}
					for _, in := range blk.Instrs {
						c, ok := in.(*ssa.Call)
						if !ok || len(c.Call.Args) == 0 || c.Call.Args[0] != fa.X {
							continue
						}
						if cf := calleeOf(&c.Call); cf != nil && len(cf.Blocks) > 0 && cf.Pkg == h.Parent().Pkg && reslicesField(cf, fieldName(fa)) {
							return true, "every iteration consumes part of the text whose emptiness ends the loop"
						}
					}
				}
			}
		}
	}
	// walking a linked structure towards nil: stays while p != nil where p is a header phi advanced only by p = p.field
	if op == token.NEQ && (isNilConst(bin.X) || isNilConst(bin.Y)) {
		pv := bin.X
		if isNilConst(pv) {
			pv = bin.Y
		}
		if phi, ok := pv.(*ssa.Phi); ok && phi.Block() == h {
			if _, isPtr := phi.Type().Underlying().(*types.Pointer); isPtr {
				walk := true
				for i, e := range phi.Edges {
					if !body[h.Preds[i]] {
						continue
					}
					ld, isLd := e.(*ssa.UnOp)
					if !isLd || ld.Op != token.MUL {
						walk = false
						continue
					}
					fa, isFA := ld.X.(*ssa.FieldAddr)
					if !isFA || fa.X != ssa.Value(phi) {
						walk = false
					}
				}
				if walk {
					return true, "follows one link of a chain per iteration until nil (bounded by the length of the chain, i.e. the nesting depth that built it)"
				}
			}
		}
	}
	try := func(iv, lim ssa.Value, op token.Token) (bool, string) {
		phi, ok := iv.(*ssa.Phi)
		if !ok {
			// rotated range-over-slice form: t = phi(-1, t+1); t+1 < len
			if b2, isb := iv.(*ssa.BinOp); isb && b2.Op == token.ADD {
				if p2, isp := b2.X.(*ssa.Phi); isp && p2.Block() == h {
					for _, e := range p2.Edges {
						if e == iv {
							phi, ok = p2, true
						}
					}
				}
			}
		}
		if !ok || phi.Block() != h {
			return false, ""
		}
		init, dir, ok := stepOfPhi(phi, h, body)
		if !ok {
			return false, "the compared variable has no constant step"
		}
		var pre *ssa.BasicBlock
		for i := range h.Preds {
			if !body[h.Preds[i]] {
				pre = h.Preds[i]
			}
		}
		if pre == nil {
			return false, "no loop pre-header"
		}
		blk := ec.iff.Block()
		if dir > 0 && (op == token.LSS || op == token.LEQ || op == token.NEQ) {
			ilb, lub := a.bounded(init, pre, nil, false), a.bounded(lim, blk, nil, true)
			if ilb && lub {
				return true, "counts up from a start bounded below to a limit bounded above"
			}
			return false, fmt.Sprintf("counts up but start bounded below=%v, limit (%s) bounded above=%v", ilb, a.describe(lim), lub)
		}
		if dir < 0 && (op == token.GTR || op == token.GEQ || op == token.NEQ) {
			iub, llb := a.bounded(init, pre, nil, true), a.bounded(lim, blk, nil, false)
			if iub && llb {
				return true, "counts down from a start bounded above to a limit bounded below"
			}
			return false, fmt.Sprintf("counts down but start (%s) bounded above=%v, limit (%s) bounded below=%v", a.describe(init), iub, a.describe(lim), llb)
		}
		return false, "step direction and comparison do not match"
	}
	if ok, why := try(bin.X, bin.Y, op); ok || why != "" {
		return ok, why
	}
	if ok, why := try(bin.Y, bin.X, flipOp(op)); ok || why != "" {
		return ok, why
	}
	return false, "unrecognised exit condition " + bin.String()
}

// reslicesField: on every path the method stores into field name of its receiver a slice of that field's old value.
func reslicesField(fn *ssa.Function, name string) bool {
	if len(fn.Params) == 0 {
		return false
	}
	stores := 0
	for _, b := range fn.Blocks {
		for _, in := range b.Instrs {
			st, ok := in.(*ssa.Store)
			if !ok {
				continue
			}
			fa, ok := st.Addr.(*ssa.FieldAddr)
			if !ok || fa.X != ssa.Value(fn.Params[0]) || fieldName(fa) != name {
				continue
			}
			sl, ok := st.Val.(*ssa.Slice)
			if !ok {
				return false
			}
			ld, ok := sl.X.(*ssa.UnOp)
			if !ok || ld.Op != token.MUL {
				return false
			}
			fa2, ok := ld.X.(*ssa.FieldAddr)
			if !ok || fa2.X != ssa.Value(fn.Params[0]) || fieldName(fa2) != name {
				return false
			}
			// the store must be on every path: its block dominates every return
			for _, ret := range returnsOf(fn) {
				if !b.Dominates(ret.Block()) {
					return false
				}
			}
			stores++
		}
	}
	return stores > 0
}

// reslicesOf: v is obtained from phi only by slicing (s[k:], s[:k]).
func reslicesOf(v ssa.Value, phi *ssa.Phi, seen map[ssa.Value]bool) bool {
	if seen[v] {
		return true
	}
	seen[v] = true
	switch x := v.(type) {
	case *ssa.Slice:
		return x.X == ssa.Value(phi) || reslicesOf(x.X, phi, seen)
	case *ssa.Phi:
		if x == phi {
			return false // unchanged on this path: no progress
		}
		for _, e := range x.Edges {
			if !reslicesOf(e, phi, seen) {
				return false
			}
		}
		return true
	}
	return false
}

// writesOutput: the loop body emits at least one element per iteration on every path (Builder writes / append / element store),
// approximated by: the block that dominates the back edge source contains such a write.
func writesOutput(h *ssa.BasicBlock, body map[*ssa.BasicBlock]bool) bool {
	for b := range body {
		// must be on every iteration: b dominates every back-edge source
		all := true
		for _, p := range h.Preds {
			if body[p] && !b.Dominates(p) {
				all = false
			}
		}
		if !all {
			continue
		}
		for _, in := range b.Instrs {
			if c, ok := in.(*ssa.Call); ok {
				n := calleeFullName(&c.Call)
				if n == "(*strings.Builder).WriteByte" || n == "(*strings.Builder).WriteRune" {
					return true
				}
				if n == "(*strings.Builder).WriteString" && knownNonEmpty(b, c.Call.Args[1]) {
					return true
				}
			}
		}
	}
	return false
}

func ruleEBoundsLoop(p *Program, r *Reporter) {
	nonEmpty := variadicHelpersRejectEmpty(p)
	for _, fn := range p.ReachFuncs(p.Eval, p.Root) {
		name := p.FuncName(fn)
		loops := loopsOf(fn)
		var headers []*ssa.BasicBlock
		for h := range loops {
			headers = append(headers, h)
		}
		sortBlocks(headers)
		for i, h := range headers {
			body := loops[h]
			key := fmt.Sprintf("%s loop#%d", name, i+1)
			a := &boundAn{busy: map[bkey]bool{}, variadicNonEmpty: nonEmpty}
			// range over slice/map/string: a Next in the header or the rotated index form is handled by exit analysis
			exits := loopExits(body)
			okAny := false
			var whys []string
			for _, ec := range exits {
				ok, why := a.exitBounded(h, body, ec)
				if ok {
					okAny = true
					whys = []string{why}
					break
				}
				if why != "" {
					whys = append(whys, why)
				}
			}
			switch {
			case okAny:
				r.OK(blockPos(h), key, whys[0])
			case walksErrorChain(h, body):
				r.OK(blockPos(h), key, "every round replaces the error being looked at by what errors.Unwrap gives for that same error: bounded by the length of the chain")
			case descendsSyntaxTree(h, body):
				r.OK(blockPos(h), key, "every round replaces the node being looked at by one of its own children (and leaves by return or break otherwise): bounded by the depth of the expression")
			case writesOutput(h, body):
				r.OK(blockPos(h), key, "writes one output element per iteration: bounded by the size of the result it builds")
			case len(exits) == 0:
				r.Bad(blockPos(h), key, "loop without a conditional exit whose bound can be established")
			default:
				r.Bad(blockPos(h), key, "no exit condition is bounded by input sizes ("+strings.Join(whys, "; ")+"): the iteration count can be driven by the magnitude of an integer from the expression or a numeric argument")
			}
		}
	}
}

// walksErrorChain: the loop header merges an error variable, and every value it receives over a back edge is
// errors.Unwrap of that same variable.
func walksErrorChain(h *ssa.BasicBlock, body map[*ssa.BasicBlock]bool) bool {
	for _, in := range h.Instrs {
		ph, ok := in.(*ssa.Phi)
		if !ok {
			break
		}
		if !isErrorType(ph.Type()) {
			continue
		}
		back, good := 0, true
		for i, e := range ph.Edges {
			if !body[h.Preds[i]] {
				continue
			}
			back++
			c, ok := e.(*ssa.Call)
			if !ok || calleeFullName(&c.Call) != "errors.Unwrap" || len(c.Call.Args) != 1 || c.Call.Args[0] != ssa.Value(ph) {
				good = false
			}
		}
		if back > 0 && good {
			return true
		}
	}
	return false
}

// descendsSyntaxTree: the loop header merges a parser.Node variable, and every value it receives over a back edge is a
// child (a field, an element of a field) of that same variable's current value: the loop walks down the syntax tree.
// Every back edge must carry such a step.
func descendsSyntaxTree(h *ssa.BasicBlock, body map[*ssa.BasicBlock]bool) bool {
	var childOf func(v ssa.Value, root *ssa.Phi, depth int) bool
	childOf = func(v ssa.Value, root *ssa.Phi, depth int) bool {
		if depth > 8 {
			return false
		}
		switch x := v.(type) {
		case *ssa.UnOp:
			if x.Op != token.MUL {
				return false
			}
			switch a := x.X.(type) {
			case *ssa.FieldAddr:
				return under(a.X, root, depth+1)
			case *ssa.IndexAddr:
				return childOf(a.X, root, depth+1) || under(a.X, root, depth+1)
			}
		case *ssa.Field:
			return under(x.X, root, depth+1)
		case *ssa.Phi:
			// a merge of children (several cases of a switch assign the variable before the back edge)
			if len(x.Edges) == 0 || x == root {
				return false
			}
			for _, e := range x.Edges {
				if !childOf(e, root, depth+1) {
					return false
				}
			}
			return true
		}
		return false
	}
	for _, in := range h.Instrs {
		ph, ok := in.(*ssa.Phi)
		if !ok {
			break
		}
		if !isNodeType(ph.Type()) {
			continue
		}
		back, good := 0, true
		for i, e := range ph.Edges {
			if !body[h.Preds[i]] {
				continue
			}
			back++
			if !childOf(e, ph, 0) {
				good = false
			}
		}
		if back > 0 && good {
			return true
		}
	}
	return false
}

// under: v is the node variable root itself seen through type assertions, field selections and loads.
func under(v ssa.Value, root *ssa.Phi, depth int) bool {
	if depth > 8 {
		return false
	}
	switch x := v.(type) {
	case *ssa.Phi:
		return x == root
	case *ssa.TypeAssert:
		return under(x.X, root, depth+1)
	case *ssa.Extract:
		return under(x.Tuple, root, depth+1)
	case *ssa.FieldAddr:
		return under(x.X, root, depth+1)
	case *ssa.UnOp:
		return x.Op == token.MUL && under(x.X, root, depth+1)
	case *ssa.Field:
		return under(x.X, root, depth+1)
	}
	return false
}

func sortBlocks(bs []*ssa.BasicBlock) {
	for i := 1; i < len(bs); i++ {
		for j := i; j > 0 && bs[j].Index < bs[j-1].Index; j-- {
			bs[j], bs[j-1] = bs[j-1], bs[j]
		}
	}
}

func ruleEBoundsAlloc(p *Program, r *Reporter) {
	nonEmpty := variadicHelpersRejectEmpty(p)
	for _, fn := range p.ReachFuncs(p.Eval) {
		name := p.FuncName(fn)
		n := 0
		for _, b := range fn.Blocks {
			for _, in := range b.Instrs {
				a := &boundAn{busy: map[bkey]bool{}, variadicNonEmpty: nonEmpty}
				check := func(what string, sz ssa.Value) {
					n++
					key := fmt.Sprintf("%s %s#%d", name, what, n)
					if a.bounded(sz, b, nil, true) {
						r.OK(in.Pos(), key, "size "+a.describe(sz)+" is bounded above by input sizes")
					} else {
						r.Bad(instrPos(in), key, "allocation size "+a.describe(sz)+" is not bounded by input sizes: a large integer argument drives the allocation (out of memory or makeslice panic)")
					}
				}
				switch x := in.(type) {
				case *ssa.MakeSlice:
					check("make-len", x.Len)
					if x.Cap != x.Len {
						check("make-cap", x.Cap)
					}
				case *ssa.MakeMap:
					if x.Reserve != nil {
						check("makemap", x.Reserve)
					}
				case *ssa.Call:
					switch calleeFullName(&x.Call) {
					case "(*strings.Builder).Grow":
						check("Builder.Grow", x.Call.Args[1])
					case "strings.Repeat":
						check("strings.Repeat", x.Call.Args[1])
					case "slices.Grow":
						check("slices.Grow", x.Call.Args[1])
					}
				}
			}
		}
	}
}

// rangesOverArguments: block h is the header of a range loop over the field Arguments of an AST node.
func rangesOverArguments(h *ssa.BasicBlock) bool {
	// rotated slice range: header has phi(-1, i+1) and compares i+1 < len(x) with x = load of field Arguments
	for _, in := range h.Instrs {
		bin, ok := in.(*ssa.BinOp)
		if !ok || bin.Op != token.LSS {
			continue
		}
		if c, ok := bin.Y.(*ssa.Call); ok && builtinName(&c.Call) == "len" {
			if isFieldLoad(c.Call.Args[0], "Arguments") {
				return true
			}
			// the argument list handed, as it is, to a helper that was split off the dispatcher
			if prm, ok := c.Call.Args[0].(*ssa.Parameter); ok {
				fn := prm.Parent()
				idx := -1
				for i, q := range fn.Params {
					if q == prm {
						idx = i
					}
				}
				sites := callSitesOf(fn)
				all := idx >= 0 && len(sites) > 0
				for _, s := range sites {
					if s.Common().IsInvoke() || idx >= len(s.Common().Args) || !isFieldLoad(s.Common().Args[idx], "Arguments") {
						all = false
					}
				}
				if all {
					return true
				}
			}
		}
	}
	return false
}

// knownNonEmpty: the string is a non-empty constant, or a dominating fact fixes its rune/byte count to a positive constant
// (utf8.RuneCountInString(p) != 1 exits, len(p) != 1 exits, len(p) == 0 exits).
func knownNonEmpty(b *ssa.BasicBlock, s ssa.Value) bool {
	if c, ok := s.(*ssa.Const); ok && c.Value != nil {
		return constant.StringVal(c.Value) != ""
	}
	for _, f := range blockFacts(b) {
		op, x, y, ok := f.rel()
		if !ok {
			continue
		}
		call, okc := x.(*ssa.Call)
		k, okk := y.(*ssa.Const)
		if !okc || !okk || k.Value == nil || len(call.Call.Args) != 1 || !sameValue(call.Call.Args[0], s) {
			continue
		}
		n := calleeFullName(&call.Call)
		if builtinName(&call.Call) != "len" && !strings.HasPrefix(n, "unicode/utf8.RuneCount") {
			continue
		}
		v, _ := constant.Int64Val(k.Value)
		switch op {
		case token.EQL:
			if v >= 1 {
				return true
			}
		case token.NEQ:
			if v == 0 {
				return true
			}
		case token.GTR:
			if v >= 0 {
				return true
			}
		case token.GEQ:
			if v >= 1 {
				return true
			}
		}
	}
	return false
}

// appendsTo: v is append(acc, ...) with at least one element, possibly merged over the branches of the loop body.
func appendsTo(v ssa.Value, acc *ssa.Phi, depth int) bool {
	if depth > 3 {
		return false
	}
	switch x := v.(type) {
	case *ssa.Call:
		if builtinName(&x.Call) != "append" || len(x.Call.Args) != 2 {
			return false
		}
		if c, isConst := x.Call.Args[1].(*ssa.Const); isConst && c.IsNil() {
			return false // append(r) with nothing to add
		}
		return x.Call.Args[0] == ssa.Value(acc) || appendsTo(x.Call.Args[0], acc, depth+1)
	case *ssa.Phi:
		if x == acc {
			return false
		}
		for _, e := range x.Edges {
			if !appendsTo(e, acc, depth+1) {
				return false
			}
		}
		return len(x.Edges) > 0
	}
	return false
}
