package main

// edom.go: the evaluator domain of the abstract interpreter. The dispatcher (the recursive function that switches on the
// node type) is run once per node type the parser can build, with a symbolic node, current value and scope. Recursive
// evaluations become "eval" events (which child, against which current value and scope), calls of the package's own
// helpers become "call" events, scope methods "push"/"lookup" events; thin wrappers around the recursive evaluation are
// inlined whatever they are called. The rule then reads, per path: which children were evaluated in which order and
// context, what was handed to which helper, and what was returned.

import (
	"fmt"
	"go/constant"
	"go/token"
	"go/types"
	"os"
	"sort"
	"strings"

	"golang.org/x/tools/go/ssa"
)

type evalDom struct {
	lookupErr map[*ssa.Function]types.Type
	p         *Program
	e         *Engine
	pkg       *ssa.Package
	evalFn    *ssa.Function
	scopeT    types.Type
	nodeIdx   int // parameter positions (in Params, receiver included)
	curIdx    int
	scopeIdx  int
	wrapper   map[*ssa.Function]bool
	nodeObj   *avObj
	evalObj   *avObj
	cur       AV
	scope     AV
	why       string
}

func isAnyType(t types.Type) bool {
	if _, isParam := types.Unalias(t).(*types.TypeParam); isParam {
		return false
	}
	i, ok := t.Underlying().(*types.Interface)
	return ok && i.Empty()
}

func newEvalDom(p *Program) *evalDom {
	d := &evalDom{p: p}
	d.pkg = p.SSA.Package(p.Eval.Types)
	if d.pkg == nil {
		d.why = "evaluator package has no SSA form"
		return d
	}
	// the dispatcher: the function of the package with a parser.Node parameter that type-tests it most often
	best := 0
	var all []*ssa.Function
	for _, m := range d.pkg.Members {
		switch m := m.(type) {
		case *ssa.Function:
			all = append(all, m)
		case *ssa.Type:
			for _, t := range []types.Type{m.Type(), types.NewPointer(m.Type())} {
				ms := p.SSA.MethodSets.MethodSet(t)
				for i := 0; i < ms.Len(); i++ {
					if fn := p.SSA.MethodValue(ms.At(i)); fn != nil && len(fn.Blocks) > 0 && fn.Pkg == d.pkg {
						all = append(all, fn)
					}
				}
			}
		}
	}
	sort.Slice(all, func(i, j int) bool { return all[i].String() < all[j].String() })
	for _, fn := range all {
		for pi, prm := range fn.Params {
			if !isNodeType(prm.Type()) {
				continue
			}
			// type tests of the parameter, or of a loop variable that starts as the parameter (a dispatcher that goes
			// round with a child instead of calling itself)
			n := 0
			seen := map[ssa.Value]bool{}
			var count func(v ssa.Value)
			count = func(v ssa.Value) {
				if seen[v] || v.Referrers() == nil {
					return
				}
				seen[v] = true
				for _, ref := range *v.Referrers() {
					switch x := ref.(type) {
					case *ssa.TypeAssert:
						n++
					case *ssa.Phi:
						count(x)
					}
				}
			}
			count(prm)
			if n > best {
				best, d.evalFn, d.nodeIdx = n, fn, pi
			}
		}
	}
	if d.evalFn == nil || best < 20 {
		d.why = "no function of the evaluator package switches on the node type (the dispatcher)"
		return d
	}
	d.curIdx, d.scopeIdx = -1, -1
	for pi, prm := range d.evalFn.Params {
		if pi == d.nodeIdx || (pi == 0 && d.evalFn.Signature.Recv() != nil) {
			continue
		}
		switch {
		case isAnyType(prm.Type()) && d.curIdx < 0:
			d.curIdx = pi
		default:
			if pt, ok := prm.Type().(*types.Pointer); ok {
				if nt, ok := pt.Elem().(*types.Named); ok && nt.Obj().Pkg() == p.Eval.Types {
					d.scopeIdx, d.scopeT = pi, prm.Type()
				}
			}
		}
	}
	if d.curIdx < 0 || d.scopeIdx < 0 {
		d.why = "the dispatcher does not take a current value and a scope"
		return d
	}
	// wrappers: loop-free functions that call the dispatcher directly
	d.wrapper = map[*ssa.Function]bool{}
	for _, fn := range all {
		if fn == d.evalFn || len(fn.AnonFuncs) > 0 {
			continue // closures and range-over-func bodies are real helpers, not wrappers
		}
		if len(loopsOf(fn)) > 0 && !d.evaluatesNodeMap(fn) {
			continue // loops are real helpers, except the one loop that evaluates every node of a map of nodes it was given
		}
		// a wrapper only forwards: every recursive evaluation in it is of a node it received, against a current value
		// and a scope it received (parameters), never against something it computed
		n, thin := 0, true
		for _, b := range fn.Blocks {
			for _, in := range b.Instrs {
				c, ok := in.(ssa.CallInstruction)
				if !ok || c.Common().StaticCallee() != d.evalFn {
					continue
				}
				n++
				args := c.Common().Args
				for _, idx := range []int{d.curIdx, d.scopeIdx} {
					if idx >= len(args) {
						thin = false
						continue
					}
					if _, isParam := args[idx].(*ssa.Parameter); !isParam {
						thin = false
					}
				}
			}
		}
		if n > 0 && thin {
			d.wrapper[fn] = true
		}
		if os.Getenv("JMESCHECK_DEBUG_WRAP") != "" && n > 0 {
			fmt.Fprintf(os.Stderr, "loop-free evaluating function %s thin=%v\n", fn.Name(), thin)
		}
	}
	// adapters: a function that does nothing but call one other function of the package and box or negate its result
	for _, fn := range all {
		if fn == d.evalFn || d.wrapper[fn] || len(fn.Blocks) != 1 || len(fn.AnonFuncs) > 0 || fn.Signature.Recv() != nil {
			continue
		}
		calls, other := 0, false
		for _, in := range fn.Blocks[0].Instrs {
			switch x := in.(type) {
			case *ssa.Call:
				cf := x.Call.StaticCallee()
				if cf == nil || cf.Pkg != d.pkg || cf == fn || cf.Signature.Results().Len() != 1 || !isBoolType(cf.Signature.Results().At(0).Type()) {
					other = true // only a predicate, boxed or negated: a function that passes on another helper's value is a helper
				}
				calls++
			case *ssa.MakeInterface, *ssa.ChangeType, *ssa.ChangeInterface, *ssa.Return, *ssa.DebugRef:
			case *ssa.UnOp:
				if x.Op != token.NOT {
					other = true
				}
			default:
				other = true
			}
		}
		if calls == 1 && !other {
			d.wrapper[fn] = true
		}
	}
	// evaluation contexts: struct types of the package that hold a scope (an argument cursor, a collector). Loop-free,
	// closure-free functions that build, take or return one are interpreted as part of their caller.
	ctx := map[*types.Named]bool{}
	for _, m := range d.pkg.Members {
		if t, ok := m.(*ssa.Type); ok {
			if nt, ok := t.Type().(*types.Named); ok {
				if st, ok := nt.Underlying().(*types.Struct); ok {
					if types.Identical(types.NewPointer(nt), d.scopeT) || types.Identical(nt, d.scopeT) {
						continue // the scope type itself (it links to its parent scope)
					}
					for i := 0; i < st.NumFields(); i++ {
						if types.Identical(st.Field(i).Type(), d.scopeT) {
							ctx[nt] = true
						}
					}
				}
			}
		}
	}
	mentions := func(t types.Type) bool {
		if pt, ok := t.(*types.Pointer); ok {
			t = pt.Elem()
		}
		nt, ok := types.Unalias(t).(*types.Named)
		return ok && ctx[nt]
	}
	for _, fn := range all {
		if fn == d.evalFn || d.wrapper[fn] || len(loopsOf(fn)) > 0 || len(fn.AnonFuncs) > 0 {
			continue
		}
		sig := fn.Signature
		hit := sig.Recv() != nil && mentions(sig.Recv().Type())
		for i := 0; i < sig.Params().Len(); i++ {
			hit = hit || mentions(sig.Params().At(i).Type())
		}
		for i := 0; i < sig.Results().Len(); i++ {
			hit = hit || mentions(sig.Results().At(i).Type())
		}
		if hit {
			d.wrapper[fn] = true
		}
	}
	if os.Getenv("JMESCHECK_DEBUG_WRAP") != "" {
		for f := range d.wrapper {
			fmt.Fprintf(os.Stderr, "wrapper: %s\n", f.Name())
		}
	}
	return d
}

// partOfDispatcherFn returns the predicate "f is the dispatcher itself, or a function D-DISPATCH interprets as part of it
// (a loop-free helper that evaluates operands, an adapter around one helper, a constructor or method of an evaluation
// context) all of whose own callers are part of the dispatcher too".
func (d *evalDom) partOfDispatcherFn() func(f *ssa.Function) bool {
	p := d.p
	memo := map[*ssa.Function]int{}
	var part func(f *ssa.Function) bool
	part = func(f *ssa.Function) bool {
		for f.Parent() != nil {
			f = f.Parent()
		}
		if d.why == "" && f == d.evalFn {
			return true
		}
		if f == p.RoleFunc("evaluator", "evaluator", "evaluate") {
			return true
		}
		if d.why != "" || !d.wrapper[f] {
			return false
		}
		switch memo[f] {
		case 1, 3:
			return true // 3: a cycle among wrappers
		case 2:
			return false
		}
		memo[f] = 3
		ok := true
		if node := p.CG.Nodes[f]; node != nil {
			for _, e := range node.In {
				if !part(e.Caller.Func) {
					ok = false
				}
			}
		}
		if ok {
			memo[f] = 1
		} else {
			memo[f] = 2
		}
		return ok
	}
	return part
}

// lookupErrorType: the dynamic type of the error a (value, error) scope lookup returns on the nil scope (the end of
// every chain), nil when that is not one definite type.
func (d *evalDom) lookupErrorType(lookup *ssa.Function) types.Type {
	if t, ok := d.lookupErr[lookup]; ok {
		return t
	}
	if d.lookupErr == nil {
		d.lookupErr = map[*ssa.Function]types.Type{}
	}
	d.lookupErr[lookup] = nil
	e := newEngine(d.p, scopeDom{})
	e.MaxVisits = 3
	outs := e.Run(lookup, []AV{avNil{}, avSym{id: e.fresh(), tag: "name"}}, newState())
	var t types.Type
	for _, o := range outs {
		if o.Panic || o.Cut || len(o.Res) != 2 {
			return nil
		}
		iv, ok := o.Res[1].(avIface)
		if !ok || (t != nil && !types.Identical(t, iv.dyn)) {
			return nil
		}
		t = iv.dyn
	}
	d.lookupErr[lookup] = t
	return t
}

// evaluatesNodeMap: fn has exactly one loop, a range over a parameter of type map[string]Node, and calls nothing of the
// repository but the dispatcher (the fields of a multi-select hash or the bindings of a let, evaluated one by one).
func (d *evalDom) evaluatesNodeMap(fn *ssa.Function) bool {
	if len(loopsOf(fn)) != 1 {
		return false
	}
	ranged := false
	for _, b := range fn.Blocks {
		for _, in := range b.Instrs {
			switch x := in.(type) {
			case *ssa.Range:
				prm, ok := x.X.(*ssa.Parameter)
				if !ok {
					return false
				}
				m, ok := prm.Type().Underlying().(*types.Map)
				if !ok || !isNodeType(m.Elem()) {
					return false
				}
				ranged = true
			case ssa.CallInstruction:
				if cf := x.Common().StaticCallee(); cf != nil && cf != d.evalFn && cf.Pkg == fn.Pkg {
					return false
				}
			}
		}
	}
	return ranged
}

// nodeForms returns the dynamic types (T or *T) under which the parser stores its node structs in the Node interface.
func nodeForms(p *Program) map[string]types.Type {
	out := map[string]types.Type{}
	pkg := p.SSA.Package(p.Parser.Types)
	if pkg == nil {
		return out
	}
	var visit func(fn *ssa.Function)
	visit = func(fn *ssa.Function) {
		for _, b := range fn.Blocks {
			for _, in := range b.Instrs {
				mi, ok := in.(*ssa.MakeInterface)
				if !ok || !isNodeType(mi.Type()) {
					continue
				}
				t := mi.X.Type()
				base := t
				if pt, ok := t.(*types.Pointer); ok {
					base = pt.Elem()
				}
				if nt, ok := base.(*types.Named); ok && nt.Obj().Pkg() == p.Parser.Types {
					if _, isStruct := nt.Underlying().(*types.Struct); isStruct {
						out[canonNodeName(nt.Obj().Name())] = t
					}
				}
			}
		}
		for _, an := range fn.AnonFuncs {
			visit(an)
		}
	}
	for _, m := range pkg.Members {
		switch m := m.(type) {
		case *ssa.Function:
			visit(m)
		case *ssa.Type:
			for _, t := range []types.Type{m.Type(), types.NewPointer(m.Type())} {
				ms := p.SSA.MethodSets.MethodSet(t)
				for i := 0; i < ms.Len(); i++ {
					if fn := p.SSA.MethodValue(ms.At(i)); fn != nil && fn.Pkg == pkg {
						visit(fn)
					}
				}
			}
		}
	}
	return out
}

// run enumerates the dispatcher's paths for one node form.
func (d *evalDom) run(form types.Type) ([]Outcome, *Engine) {
	e := newEngine(d.p, d)
	d.e = e
	e.MaxVisits = 2
	st := newState()
	d.nodeObj = e.NewObj("node", derefType(form))
	d.evalObj = e.NewObj("evaluator", nil)
	d.cur = avSym{id: e.fresh(), tag: "@"}
	d.scope = avSym{id: e.fresh(), tag: "S"}
	var nodeVal AV
	if _, isPtr := form.(*types.Pointer); isPtr {
		nodeVal = avIface{dyn: form, v: avPtr{d.nodeObj, ""}}
	} else {
		// value node: a struct value with symbolic fields
		sv := avStruct{f: map[string]AV{}}
		if stt, ok := form.Underlying().(*types.Struct); ok {
			for i := 0; i < stt.NumFields(); i++ {
				sv.f[stt.Field(i).Name()] = d.fieldSym(st, avPtr{d.nodeObj, "." + stt.Field(i).Name()}, stt.Field(i).Type())
			}
		}
		nodeVal = avIface{dyn: form, v: sv}
	}
	args := make([]AV, len(d.evalFn.Params))
	for i := range args {
		switch i {
		case d.nodeIdx:
			args[i] = nodeVal
		case d.curIdx:
			args[i] = d.cur
		case d.scopeIdx:
			args[i] = d.scope
		default:
			args[i] = avPtr{d.evalObj, ""}
		}
	}
	// a loop of the dispatcher that goes round with another node (and current value, and scope) in place of its
	// parameters evaluates that node: the second entry of such a loop is read as the recursive call it replaces
	nodePrm := d.evalFn.Params[d.nodeIdx]
	e.TailHeaders = map[*ssa.BasicBlock]bool{}
	for h := range loopsOf(d.evalFn) {
		for _, in := range h.Instrs {
			if ph, ok := in.(*ssa.Phi); ok {
				for _, ed := range ph.Edges {
					if ed == ssa.Value(nodePrm) {
						e.TailHeaders[h] = true
					}
				}
			}
		}
	}
	outs := e.Run(d.evalFn, args, st)
	if len(e.TailHeaders) == 0 {
		return outs, e
	}
	var ret *ssa.Return
	for _, r := range returnsOf(d.evalFn) {
		ret = r
		break
	}
	var final []Outcome
	for _, o := range outs {
		if !o.Cut || !e.TailHeaders[o.CutBlock] {
			final = append(final, o)
			continue
		}
		vals := map[int]AV{d.nodeIdx: args[d.nodeIdx], d.curIdx: args[d.curIdx], d.scopeIdx: args[d.scopeIdx]}
		for ph, v := range o.CutPhis {
			for _, ed := range ph.Edges {
				for idx := range vals {
					if ed == ssa.Value(d.evalFn.Params[idx]) {
						vals[idx] = v
					}
				}
			}
		}
		val := avSym{id: e.fresh(), tag: "val"}
		o.St.event(Event{Kind: "eval", Fn: d.evalFn, Args: []AV{vals[d.nodeIdx], vals[d.curIdx], vals[d.scopeIdx]}, Res: []AV{val}, Pos: o.CutBlock.Instrs[0].Pos()})
		bad := o.St.clone()
		err := avSym{id: e.fresh(), tag: "eval-err", nonNil: true}
		final = append(final, Outcome{St: o.St, Res: []AV{val, avNil{}}, Ret: ret}, Outcome{St: bad, Res: []AV{avNil{}, err}, Ret: ret})
	}
	return final, e
}

// fieldSym synthesises the symbolic content of a node field and remembers it.
func (d *evalDom) fieldSym(st *State, p avPtr, t types.Type) AV {
	name := p.o.label + p.path
	var v AV
	switch u := t.Underlying().(type) {
	case *types.Slice:
		o := d.e.NewObj(name, t)
		v = avSlice{o: o, n: -1}
	case *types.Map:
		o := d.e.NewObj(name, t)
		v = avPtr{o, ""}
	case *types.Array:
		sv := avStruct{f: map[string]AV{}}
		for i := int64(0); i < u.Len(); i++ {
			sv.f[fmt.Sprintf("[%d]", i)] = d.fieldSym(st, avPtr{p.o, fmt.Sprintf("%s[%d]", p.path, i)}, u.Elem())
		}
		return sv
	default:
		v = avSym{id: d.e.fresh(), tag: name, nonNil: isNodeType(t)}
	}
	st.store(p, v)
	return v
}

func (d *evalDom) Load(e *Engine, st *State, p avPtr, t types.Type) AV {
	if strings.HasPrefix(p.o.label, "global:") {
		return zeroAV(t)
	}
	if p.o == d.evalObj {
		v := avSym{id: e.fresh(), tag: strings.TrimPrefix(p.path, ".")}
		st.store(p, v)
		return v
	}
	return d.fieldSym(st, p, t)
}

func (d *evalDom) Call(e *Engine, st *State, site ssa.CallInstruction, callee *ssa.Function, args []AV, depth int) ([]CallOut, bool) {
	if callee == nil {
		return nil, false
	}
	sig := callee.Signature
	nres := sig.Results().Len()
	if callee == d.evalFn {
		val := avSym{id: e.fresh(), tag: "val"}
		st.event(Event{Kind: "eval", Fn: callee, Args: []AV{args[d.nodeIdx], args[d.curIdx], args[d.scopeIdx]}, Res: []AV{val}, Pos: site.Pos()})
		bad := st.clone()
		err := avSym{id: e.fresh(), tag: "eval-err", nonNil: true}
		return []CallOut{{St: st, Res: []AV{val, avNil{}}}, {St: bad, Res: []AV{avNil{}, err}}}, true
	}
	cpkg := callee.Pkg
	if cpkg == nil && callee.Origin() != nil {
		cpkg = callee.Origin().Pkg // an instantiation of a generic helper of the package
	}
	if cpkg != d.pkg {
		return nil, false
	}
	// scope methods
	if sig.Recv() != nil && types.Identical(sig.Recv().Type(), d.scopeT) {
		if nres == 1 && types.Identical(sig.Results().At(0).Type(), d.scopeT) {
			s := avSym{id: e.fresh(), tag: "S+", nonNil: true, payload: avTuple(args)}
			st.event(Event{Kind: "push", Fn: callee, Args: args, Res: []AV{s}, Pos: site.Pos()})
			return []CallOut{{St: st, Res: []AV{s}}}, true
		}
		// a lookup that reports absence by an error of its own instead of a bool: found with a nil error, or absent
		// with the error the method returns on a scope that binds nothing (obtained by interpreting it on the nil scope)
		if nres == 2 && isErrorType(sig.Results().At(1).Type()) && !isErrorType(sig.Results().At(0).Type()) {
			if et := d.lookupErrorType(callee); et != nil {
				found := avSym{id: e.fresh(), tag: "found"}
				v := avSym{id: e.fresh(), tag: "var"}
				yes, no := st, st.clone()
				if yes.assume(found, true, site.Pos()) && no.assume(found, false, site.Pos()) {
					yes.event(Event{Kind: "lookup", Fn: callee, Args: args, Res: []AV{v, found}, Pos: site.Pos()})
					no.event(Event{Kind: "lookup", Fn: callee, Args: args, Res: []AV{avNil{}, found}, Pos: site.Pos()})
					errv := avIface{dyn: et, v: avPtr{e.NewObj("lookup-error", derefType(et)), ""}}
					return []CallOut{{St: yes, Res: []AV{v, avNil{}}}, {St: no, Res: []AV{avNil{}, errv}}}, true
				}
			}
		}
		res := make([]AV, nres)
		for i := range res {
			rt := sig.Results().At(i).Type()
			switch {
			case isBoolType(rt):
				res[i] = avSym{id: e.fresh(), tag: "found"}
			case isErrorType(rt):
				res[i] = avSym{id: e.fresh(), tag: "lookup-err"}
			default:
				res[i] = avSym{id: e.fresh(), tag: "var"}
			}
		}
		st.event(Event{Kind: "lookup", Fn: callee, Args: args, Res: res, Pos: site.Pos()})
		return []CallOut{{St: st, Res: res}}, true
	}
	if d.wrapper[callee] {
		return nil, false // inlined by the engine
	}
	// predicates: a single bool result
	if nres == 1 && isBoolType(sig.Results().At(0).Type()) {
		var ks []string
		for _, a := range args {
			ks = append(ks, avKey(a))
		}
		return []CallOut{{St: st, Res: []AV{avSym{id: 0, tag: "pred:" + callee.Name() + "(" + strings.Join(ks, ",") + ")", payload: avTuple(args)}}}}, true
	}
	// helpers
	res := make([]AV, nres)
	for i := range res {
		if isErrorType(sig.Results().At(i).Type()) {
			res[i] = avSym{id: e.fresh(), tag: "herr:" + callee.Name()}
		} else {
			res[i] = avSym{id: e.fresh(), tag: "h:" + callee.Name()}
		}
	}
	st.event(Event{Kind: "call", Fn: callee, Args: args, Res: res, Pos: site.Pos()})
	return []CallOut{{St: st, Res: res}}, true
}

// ---------------------------------------------------------------- facts of a path

type evalFact struct {
	Field string // "Left", "Arguments[0]", "Arguments[*]", "Variables[*]" ...
	Cur   string // "@", "$k", ...
	Scope string // "S", "S+"
	ev    *Event
}

type callFact struct {
	Fn   *ssa.Function
	Args []string
	ev   *Event
}

type pathFacts struct {
	Evals   []evalFact
	Calls   []callFact
	Pushes  []*Event
	Lookups []*Event
	Conds   []string
	CurNil  []string // nil tests of the current value on the path (not part of the rendered line)
	Result  string
	Err     string // "" nil; "eval" propagated; "h#k" helper's; "T" definite error type; "?" other
	Line    string
}

type evalRenderer struct {
	d     *evalDom
	st    *State
	evals []*Event
	calls []*Event
}

func (rr *evalRenderer) val(v AV) string {
	if v != nil {
		k := avKey(v)
		if k == avKey(rr.d.cur) {
			return "@"
		}
		if k == avKey(rr.d.scope) {
			return "S"
		}
		for i, ev := range rr.evals {
			if avKey(ev.Res[0]) == k {
				return fmt.Sprintf("$%d", i+1)
			}
		}
		for i, ev := range rr.calls {
			for j, res := range ev.Res {
				if avKey(res) == k {
					if j == 0 {
						return fmt.Sprintf("h%d", i+1)
					}
					return fmt.Sprintf("h%d.%d", i+1, j)
				}
			}
		}
	}
	switch x := v.(type) {
	case nil:
		return "?"
	case avNil:
		return "nil"
	case avConst:
		return x.v.ExactString()
	case avNot:
		return "!" + rr.val(x.x)
	case avIface:
		n := dynName(x)
		if strings.HasSuffix(n, "Error") {
			return "error:" + n
		}
		return rr.val(x.v)
	case avSlice:
		if x.o.label != "" {
			return x.o.label
		}
		if x.n >= 0 {
			var parts []string
			for i := 0; i < x.n; i++ {
				e, _ := rr.st.load(avPtr{x.o, x.path + fmt.Sprintf("[%d]", i)})
				parts = append(parts, rr.val(e))
			}
			return "[" + strings.Join(parts, ",") + "]"
		}
		return "[...]"
	case avPtr:
		if x.o.label != "" {
			return x.o.label + x.path
		}
		return "&obj"
	case avStruct:
		return "{...}"
	case avSym:
		switch {
		case x.tag == "S+":
			return "S+"
		case strings.HasPrefix(x.tag, "pred:"):
			var as []string
			if t, ok := x.payload.(avTuple); ok {
				for _, a := range t {
					as = append(as, rr.val(a))
				}
			}
			name := x.tag[5:]
			if i := strings.Index(name, "("); i >= 0 {
				name = name[:i]
			}
			return name + "(" + strings.Join(as, ",") + ")"
		case x.tag == "next-val" || x.tag == "next-key":
			if p, ok := x.payload.(avPtr); ok && p.o.label != "" {
				if x.tag == "next-key" {
					return p.o.label + "[key]"
				}
				return p.o.label + "[*]"
			}
		}
		return x.tag
	}
	return avKey(v)
}

func (d *evalDom) facts(o Outcome) pathFacts {
	rr := &evalRenderer{d: d, st: o.St}
	for k := range o.St.Trace {
		ev := &o.St.Trace[k]
		switch ev.Kind {
		case "eval":
			rr.evals = append(rr.evals, ev)
		case "call":
			rr.calls = append(rr.calls, ev)
		}
	}
	var pf pathFacts
	var parts []string
	for k := range o.St.Trace {
		ev := &o.St.Trace[k]
		switch ev.Kind {
		case "eval":
			f := evalFact{Field: strings.TrimPrefix(rr.val(ev.Args[0]), "node."), Cur: rr.val(ev.Args[1]), Scope: rr.val(ev.Args[2]), ev: ev}
			pf.Evals = append(pf.Evals, f)
			s := "eval(" + f.Field
			if f.Cur != "@" || f.Scope != "S" {
				s += "," + f.Cur
			}
			if f.Scope != "S" {
				s += "," + f.Scope
			}
			parts = append(parts, s+")")
		case "call":
			c := callFact{Fn: ev.Fn, ev: ev}
			skip := 0
			if ev.Fn.Signature.Recv() != nil {
				skip = 1
			}
			for _, a := range ev.Args[skip:] {
				c.Args = append(c.Args, rr.val(a))
			}
			pf.Calls = append(pf.Calls, c)
			parts = append(parts, ev.Fn.Name()+"("+strings.Join(c.Args, ",")+")")
		case "push":
			pf.Pushes = append(pf.Pushes, ev)
			var as []string
			for _, a := range ev.Args {
				as = append(as, rr.val(a))
			}
			parts = append(parts, "push("+strings.Join(as, ",")+")")
		case "lookup":
			pf.Lookups = append(pf.Lookups, ev)
			var as []string
			for _, a := range ev.Args {
				as = append(as, rr.val(a))
			}
			parts = append(parts, "lookup("+strings.Join(as, ",")+")")
		}
	}
	for _, c := range o.St.Conds {
		s := ""
		switch v := c.V.(type) {
		case avSym:
			if strings.HasPrefix(v.tag, "pred:") || v.tag == "found" {
				s = rr.val(v)
			}
		case avCmp:
			// nil-ness of values
			x, y := v.x, v.y
			if isDefNil(x) {
				x, y = y, x
			}
			if isDefNil(y) && x != nil && avKey(x) == avKey(d.cur) {
				t := "@==nil"
				if (v.op.String() == "==") != c.Truth {
					t = "@!=nil"
				}
				pf.CurNil = append(pf.CurNil, t)
			}
			if isDefNil(y) {
				if sy, ok := x.(avSym); ok && (sy.tag == "val" || strings.HasPrefix(sy.tag, "h:")) {
					s = rr.val(x) + "==nil"
					if (v.op.String() == "==") != c.Truth {
						s = rr.val(x) + "!=nil"
					}
					pf.Conds = append(pf.Conds, s)
					continue
				}
			}
		}
		if s == "" {
			continue
		}
		if !c.Truth {
			s = "!" + s
		}
		pf.Conds = append(pf.Conds, s)
	}
	if len(o.Res) == 2 {
		pf.Result = rr.val(o.Res[0])
		switch x := o.Res[1].(type) {
		case avNil:
		case avSym:
			switch {
			case x.tag == "eval-err":
				pf.Err = "eval"
			case strings.HasPrefix(x.tag, "herr:"):
				pf.Err = rr.val(x)
			default:
				pf.Err = "?"
			}
		case avIface:
			pf.Err = dynName(x)
		default:
			pf.Err = "?"
		}
	}
	line := strings.Join(parts, " ")
	if len(pf.Conds) > 0 {
		line += " | " + strings.Join(pf.Conds, ",")
	}
	line += " => " + pf.Result
	if pf.Err != "" {
		line += " ; err=" + pf.Err
	}
	pf.Line = strings.TrimSpace(line)
	return pf
}

var _ = constant.MakeBool
