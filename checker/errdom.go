package main

// errdom.go: error classification by interpretation. A concrete internal error (a value of one error type with symbolic
// fields, or a package-level sentinel) is pushed through the root package's mapper; errors.Is is modelled on the
// repository's own Is / Unwrap methods (promoted methods included), package-level tables are read from the interpreted
// package initialisers, constructors stored in tables are called. The public error that comes out is then asked
// errors.Is(·, S) for every exported sentinel S. Whatever form the mapper takes (if-chain, type switch, table, fast path)
// and whatever the public error types look like (one type per category or one type with a category field), the rule gets
// the set of categories an internal fault is reported under.

import (
	"fmt"
	"go/constant"
	"go/types"
	"sort"
	"strings"

	"golang.org/x/tools/go/ssa"
)

type errDom struct {
	p    *Program
	e    *Engine
	base *State
}

// opaqueErrorType is the dynamic type of error values made by library constructors (errors.New): not a repository type,
// no methods of interest.
var opaqueErrorType = types.NewPointer(types.NewNamed(types.NewTypeName(0, nil, "libraryError", nil), types.NewStruct(nil, nil), nil))

// fmtWrapType is the dynamic type of the value fmt.Errorf returns for a format with %w: it matches what the wrapped error
// matches under errors.Is and nothing else.
var fmtWrapType = types.NewPointer(types.NewNamed(types.NewTypeName(0, nil, "fmtWrapError", nil), types.NewStruct(nil, nil), nil))

func opaqueError(tag string, id int) AV {
	return avIface{dyn: opaqueErrorType, v: avSym{id: id, tag: tag, nonNil: true, uniq: true}}
}

func (d *errDom) Load(e *Engine, st *State, p avPtr, t types.Type) AV {
	if strings.HasPrefix(p.o.label, "global:") {
		if isErrorType(t) {
			v := opaqueError(p.o.label+p.path, 0)
			st.store(p, v)
			return v
		}
		return zeroAV(t)
	}
	v := avSym{id: e.fresh(), tag: p.o.label + p.path}
	st.store(p, v)
	return v
}

// errorsIs models errors.Is(err, target) over abstract values; result avConst when decided.
func (d *errDom) errorsIs(e *Engine, st *State, err, target AV, depth int) AV {
	if depth > 4 || err == nil {
		return avSym{id: e.fresh(), tag: "is?"}
	}
	if isDefNil(err) {
		return avConst{constant.MakeBool(isDefNil(target))}
	}
	if avKey(err) == avKey(target) {
		return avConst{constant.MakeBool(true)}
	}
	iv, ok := err.(avIface)
	if ok && types.Identical(iv.dyn, fmtWrapType) {
		if w, isW := iv.v.(avStruct); isW {
			return d.errorsIs(e, st, w.f["err"], target, depth+1)
		}
	}
	if ok && types.Identical(iv.dyn, opaqueErrorType) {
		return avConst{constant.MakeBool(false)} // a different library error value
	}
	if !ok {
		// an opaque error value that is not the target (sentinels are compared by identity)
		if _, isSym := err.(avSym); isSym {
			return avConst{constant.MakeBool(false)}
		}
		return avSym{id: e.fresh(), tag: "is?"}
	}
	// the type's own Is method
	ms := d.p.SSA.MethodSets.MethodSet(iv.dyn)
	if sel := ms.Lookup(nil, "Is"); sel != nil {
		if m := d.p.SSA.MethodValue(sel); m != nil && len(m.Blocks) > 0 && m.Signature.Params().Len() == 1 {
			outs := e.Inline(m, []AV{iv.v, target}, nil, st.clone(), 0)
			allFalse := len(outs) > 0
			for _, o := range outs {
				if o.End != nil || len(o.Res) != 1 {
					allFalse = false
					continue
				}
				if c, ok := o.Res[0].(avConst); ok {
					if constant.BoolVal(c.v) {
						return avConst{constant.MakeBool(true)}
					}
				} else {
					allFalse = false
				}
			}
			if !allFalse {
				return avSym{id: e.fresh(), tag: "is?"}
			}
		}
	}
	if sel := ms.Lookup(nil, "Unwrap"); sel != nil {
		if m := d.p.SSA.MethodValue(sel); m != nil && len(m.Blocks) > 0 {
			outs := e.Inline(m, []AV{iv.v}, nil, st.clone(), 0)
			if len(outs) == 1 && outs[0].End == nil && len(outs[0].Res) == 1 {
				return d.errorsIs(e, st, outs[0].Res[0], target, depth+1)
			}
			return avSym{id: e.fresh(), tag: "is?"}
		}
	}
	return avConst{constant.MakeBool(false)}
}

func (d *errDom) Call(e *Engine, st *State, site ssa.CallInstruction, callee *ssa.Function, args []AV, depth int) ([]CallOut, bool) {
	if callee == nil {
		return nil, false
	}
	switch callee.String() {
	case "errors.Is":
		return []CallOut{{St: st, Res: []AV{d.errorsIs(e, st, args[0], args[1], 0)}}}, true
	case "errors.New", "fmt.Errorf":
		return []CallOut{{St: st, Res: []AV{opaqueError("error-value", e.fresh())}}}, true
	}
	if !d.p.IsRepo(callee) {
		res := make([]AV, callee.Signature.Results().Len())
		for i := range res {
			res[i] = avSym{id: e.fresh(), tag: "ext:" + callee.Name(), payload: avTuple(args)}
		}
		return []CallOut{{St: st, Res: res}}, true
	}
	return nil, false
}

// start interprets the initialisers of the root package (tables of sentinels and constructors) once.
func newErrDom(p *Program) (*errDom, *Engine) {
	d := &errDom{p: p}
	e := newEngine(p, d)
	d.e = e
	e.MaxVisits = 12
	st := newState()
	if pkg := p.SSA.Package(p.Root.Types); pkg != nil {
		if init := pkg.Func("init"); init != nil {
			saved := e.D
			e.D = initErrDom{d}
			outs := e.Run(init, nil, st)
			e.D = saved
			if len(outs) == 1 && !outs[0].Cut && !outs[0].Panic {
				st = outs[0].St
			}
			st.Trace, st.Conds = nil, nil
			e.paths, e.Aborted = 0, ""
		}
	}
	d.base = st
	return d, e
}

// initErrDom: while interpreting initialisers, the initialisers of other packages are skipped and library calls are opaque.
type initErrDom struct{ d *errDom }

func (i initErrDom) Call(e *Engine, st *State, site ssa.CallInstruction, callee *ssa.Function, args []AV, depth int) ([]CallOut, bool) {
	if callee != nil && callee.Name() == "init" && depth > 0 {
		return []CallOut{{St: st}}, true
	}
	return i.d.Call(e, st, site, callee, args, depth)
}
func (i initErrDom) Load(e *Engine, st *State, p avPtr, t types.Type) AV {
	if strings.HasPrefix(p.o.label, "global:") && isBoolType(t) {
		return zeroAV(t) // init$guard
	}
	return i.d.Load(e, st, p, t)
}

// exportedSentinels lists the exported error variables of the root package.
func exportedSentinels(p *Program) []*ssa.Global {
	var out []*ssa.Global
	pkg := p.SSA.Package(p.Root.Types)
	if pkg == nil {
		return nil
	}
	for n, m := range pkg.Members {
		g, ok := m.(*ssa.Global)
		if !ok || g.Object() == nil || !g.Object().Exported() || !strings.HasPrefix(n, "Err") {
			continue
		}
		if isErrorType(derefType(g.Type())) {
			out = append(out, g)
		}
	}
	sort.Slice(out, func(i, j int) bool { return out[i].Name() < out[j].Name() })
	return out
}

// classify pushes one internal error through mapper and returns the exported sentinels the result matches.
// src is "*pkg.Type", "pkg.Type" or "pkg.GlobalSentinel".
func classifyError(p *Program, mapper *ssa.Function, src string) (pub string, cats []string, why string) {
	return classifyErrorWith(p, mapper, src, nil)
}

// classifyErrorWith: as classifyError, with the given parameters (by index) fixed to constants.
func classifyErrorWith(p *Program, mapper *ssa.Function, src string, consts map[int]constant.Value) (pub string, cats []string, why string) {
	d, e := newErrDom(p)
	st := d.base.clone()
	var errv AV
	wrapped := strings.HasPrefix(src, "wrap:")
	src = strings.TrimPrefix(src, "wrap:")
	name := strings.TrimPrefix(src, "*")
	i := strings.Index(name, ".")
	if i < 0 {
		return "", nil, "unqualified error name " + src
	}
	var pk *types.Package
	for _, q := range p.Pkgs {
		if q.Name == name[:i] {
			pk = q.Types
		}
	}
	var obj types.Object
	if pk != nil {
		obj = pk.Scope().Lookup(name[i+1:])
	}
	switch o := obj.(type) {
	case nil:
		// a sentinel of a library package (io.EOF): an opaque error identity
		errv = opaqueError("global:"+name, 0)
	case *types.TypeName:
		var t types.Type = o.Type()
		if strings.HasPrefix(src, "*") {
			t = types.NewPointer(t)
			errv = avIface{dyn: t, v: avPtr{e.NewObj("err", o.Type()), ""}}
		} else {
			errv = avIface{dyn: t, v: avSym{id: e.fresh(), tag: "errval"}}
		}
	case *types.Var:
		sp := p.SSA.Package(pk)
		g, _ := sp.Members[o.Name()].(*ssa.Global)
		if g == nil {
			return "", nil, "sentinel " + src + " has no SSA global"
		}
		// the value the package initialiser stored there (errors.New(...)), or an opaque identity
		if got, found := st.load(avPtr{e.globalObj(g), ""}); found {
			errv = got
		} else {
			errv = opaqueError("global:"+g.Name(), 0)
			st.store(avPtr{e.globalObj(g), ""}, errv)
		}
	default:
		return "", nil, "error source " + src + " not found"
	}
	if wrapped {
		errv = avIface{dyn: fmtWrapType, v: avStruct{f: map[string]AV{"err": errv}}}
	}
	margs := make([]AV, len(mapper.Params))
	placed := false
	for k, prm := range mapper.Params {
		if isErrorType(prm.Type()) && !placed {
			margs[k], placed = errv, true
		} else if cv, ok := consts[k]; ok {
			margs[k] = avConst{cv}
		} else {
			margs[k] = avSym{id: e.fresh(), tag: "arg:" + prm.Name()}
		}
	}
	if !placed {
		return "", nil, mapper.Name() + " has no error parameter"
	}
	outs := e.Run(mapper, margs, st)
	if e.Aborted != "" {
		return "", nil, "path enumeration aborted: " + e.Aborted
	}
	catSet := map[string]bool{}
	pubs := map[string]bool{}
	n := 0
	for _, o := range outs {
		if o.Panic || o.Cut {
			return "", nil, "a path of " + mapper.Name() + " panics or does not finish a loop"
		}
		if len(o.Res) != 1 {
			continue
		}
		n++
		pv := o.Res[0]
		pubs[dynName(pv)] = true
		matched := 0
		for _, g := range exportedSentinels(p) {
			tv, found := o.St.load(avPtr{e.globalObj(g), ""})
			if !found {
				tv = d.Load(e, o.St, avPtr{e.globalObj(g), ""}, derefType(g.Type()))
			}
			res := d.errorsIs(e, o.St, pv, tv, 0)
			c, ok := res.(avConst)
			if !ok {
				return "", nil, fmt.Sprintf("errors.Is(%s result, %s) is not decided", mapper.Name(), g.Name())
			}
			if constant.BoolVal(c.v) {
				catSet[g.Name()] = true
				matched++
			}
		}
		if matched == 0 {
			catSet["(none)"] = true
		}
	}
	if n == 0 {
		return "", nil, "no returning path"
	}
	for c := range catSet {
		cats = append(cats, c)
	}
	sort.Strings(cats)
	var ps []string
	for k := range pubs {
		ps = append(ps, k)
	}
	sort.Strings(ps)
	return strings.Join(ps, "|"), cats, ""
}
