package main

import (
	"go/token"
	"go/types"
	"strings"

	"golang.org/x/tools/go/ssa"
)

// freshness (A3): a value is fresh when the memory it denotes was allocated in the current call.
// Everything derived from a parameter, a free variable of foreign origin, a global or a field of the
// AST is foreign. Computed on demand with an optimistic assumption on phi cycles; results obtained
// under that assumption are not cached.
type freshAn struct {
	fn   *ssa.Function
	busy map[ssa.Value]bool
	// chain: values being decided further up, across functions (a helper that appends to its parameter and returns it,
	// called in a loop on its own result): taken optimistically, like a cycle through a phi
	chain map[ssa.Value]bool
	depth int
	// freshFree reports free variables known to hold fresh memory of the enclosing function.
	freshFree func(*ssa.FreeVar) bool
}

func newFresh(fn *ssa.Function) *freshAn {
	return &freshAn{fn: fn, busy: map[ssa.Value]bool{}, chain: map[ssa.Value]bool{}}
}

// sub: the analysis of another function on behalf of this one.
func (a *freshAn) sub(fn *ssa.Function) *freshAn {
	s := &freshAn{fn: fn, busy: map[ssa.Value]bool{}, chain: a.chain, depth: a.depth + 1}
	if fn.Parent() != nil {
		s.freshFree = func(fv *ssa.FreeVar) bool { return freeVarFresh(fn, fv) }
	}
	return s
}

// cloneLike lists callees whose result is freshly allocated whatever the arguments.
var cloneLike = map[string]bool{
	"slices.Clone": true, "maps.Clone": true, "strings.Clone": true,
}

func (a *freshAn) fresh(v ssa.Value) bool {
	if a.busy[v] || a.chain[v] {
		return true
	}
	a.busy[v] = true
	a.chain[v] = true
	defer delete(a.busy, v)
	defer delete(a.chain, v)
	switch v := v.(type) {
	case *ssa.Alloc, *ssa.MakeSlice, *ssa.MakeMap, *ssa.MakeClosure, *ssa.MakeChan:
		return true
	case *ssa.Const:
		return true // nil slice / nil map: appending allocates, writing panics (not an ownership issue)
	case *ssa.Slice:
		return a.fresh(v.X)
	case *ssa.IndexAddr:
		return a.fresh(v.X)
	case *ssa.FieldAddr:
		return a.fresh(v.X)
	case *ssa.Phi:
		for _, e := range v.Edges {
			if !a.fresh(e) {
				return false
			}
		}
		return true
	case *ssa.Call:
		if builtinName(&v.Call) == "append" {
			return a.fresh(v.Call.Args[0])
		}
		if cloneLike[calleeFullName(&v.Call)] {
			return true
		}
		// library functions that return their first argument extended (strconv.AppendQuote, utf8.AppendRune, fmt.Appendf,
		// slices.Grow/Insert): as fresh as that argument
		if n := calleeFullName(&v.Call); len(v.Call.Args) > 0 && (strings.HasPrefix(n, "strconv.Append") || strings.HasPrefix(n, "unicode/utf8.Append") ||
			strings.HasPrefix(n, "unicode/utf16.Append") || strings.HasPrefix(n, "fmt.Append") || n == "slices.Grow" || n == "slices.Insert" || n == "slices.AppendSeq") {
			return a.fresh(v.Call.Args[0])
		}
		// a helper of the repository: fresh when every return hands out memory that is fresh in the helper (its own
		// allocation, or an accumulator parameter that is fresh at every call site)
		if callee := v.Call.StaticCallee(); callee != nil && len(callee.Blocks) > 0 && a.depth < 3 {
			if pp := programOf(callee.Prog); pp != nil && pp.IsRepo(callee) {
				if _, isTuple := v.Type().(*types.Tuple); !isTuple {
					return a.returnsFresh(callee, 0)
				}
			}
		}
		return false
	case *ssa.UnOp:
		if v.Op != token.MUL {
			return false
		}
		// load: fresh if loaded from a fresh local all of whose stores are fresh
		switch x := v.X.(type) {
		case *ssa.Alloc:
			return a.allocStoresFresh(x)
		case *ssa.FieldAddr:
			if al, ok := x.X.(*ssa.Alloc); ok {
				return a.fieldStoresFresh(al, x.Field)
			}
		case *ssa.IndexAddr:
			// element of a fresh local slice all of whose element stores are fresh
			return a.elemStoresFresh(x.X)
		}
		return false
	case *ssa.TypeAssert:
		return a.fresh(v.X)
	case *ssa.Extract:
		if c, ok := v.Tuple.(*ssa.Call); ok {
			if callee := c.Call.StaticCallee(); callee != nil && len(callee.Blocks) > 0 && a.depth < 3 && builtinName(&c.Call) == "" {
				if pp := programOf(callee.Prog); pp != nil && pp.IsRepo(callee) {
					return a.returnsFresh(callee, v.Index)
				}
			}
		}
		return a.fresh(v.Tuple)
	case *ssa.Lookup:
		if mm, ok := v.X.(*ssa.MakeMap); ok {
			for _, r := range *mm.Referrers() {
				if mu, ok := r.(*ssa.MapUpdate); ok && !a.fresh(mu.Value) {
					return false
				}
			}
			return true
		}
		return false
	case *ssa.MakeInterface:
		return a.fresh(v.X)
	case *ssa.ChangeType:
		return a.fresh(v.X)
	case *ssa.FreeVar:
		if a.freshFree != nil {
			return a.freshFree(v)
		}
		return false
	case *ssa.Parameter:
		return a.freshAtCallers(v)
	}
	return false
}

func (a *freshAn) returnsFresh(callee *ssa.Function, k int) bool {
	rets := returnsOf(callee)
	if len(rets) == 0 {
		return false
	}
	sa := a.sub(callee)
	for _, ret := range rets {
		if k >= len(ret.Results) {
			return false
		}
		if c, ok := ret.Results[k].(*ssa.Const); ok && c.IsNil() {
			continue
		}
		if !sa.fresh(ret.Results[k]) {
			return false
		}
	}
	return true
}

// freshAtCallers: a slice or map parameter of an unexported function is as good as memory of the current call when
// every static call site hands in memory that is fresh in the caller (an accumulator a helper appends to and returns).
func (a *freshAn) freshAtCallers(prm *ssa.Parameter) bool {
	fn := prm.Parent()
	if fn == nil || a.depth > 2 {
		return false
	}
	switch prm.Type().Underlying().(type) {
	case *types.Slice, *types.Map:
	default:
		return false
	}
	if obj := fn.Object(); obj == nil || obj.Exported() {
		return false
	}
	idx := -1
	for i, q := range fn.Params {
		if q == prm {
			idx = i
		}
	}
	sites := callSitesOf(fn)
	if idx < 0 || len(sites) == 0 {
		return false
	}
	for _, s := range sites {
		args := s.Common().Args
		if s.Common().IsInvoke() || idx >= len(args) || s.Parent() == fn {
			return false
		}
		if !a.sub(s.Parent()).fresh(args[idx]) {
			return false
		}
	}
	return true
}

func (a *freshAn) allocStoresFresh(al *ssa.Alloc) bool {
	for _, r := range *al.Referrers() {
		if st, ok := r.(*ssa.Store); ok && st.Addr == al {
			if !a.fresh(st.Val) {
				return false
			}
		}
	}
	return true
}

func (a *freshAn) fieldStoresFresh(al *ssa.Alloc, field int) bool {
	for _, r := range *al.Referrers() {
		switch r := r.(type) {
		case *ssa.Store:
			if r.Addr == al {
				// whole-struct store (spilled value receiver, copy of a parameter)
				if _, isParam := r.Val.(*ssa.Parameter); isParam {
					return false
				}
				if !a.fresh(r.Val) && !structFieldFresh(r.Val, field, 0) {
					return false
				}
			}
		case *ssa.FieldAddr:
			if r.Field != field {
				continue
			}
			for _, r2 := range *r.Referrers() {
				if st, ok := r2.(*ssa.Store); ok && st.Addr == r && !a.fresh(st.Val) && !a.freshUnlessShort(st.Val) {
					return false
				}
			}
		}
	}
	return true
}

// freshUnlessShort: v merges fresh memory with a slice that is not, and the slice that is not comes only along edges on
// which it is known to have fewer than two elements. A permutation of fewer than two elements writes nothing, so for
// the in-place sorts (whose methods only exchange elements) such a value is as good as fresh.
func (a *freshAn) freshUnlessShort(v ssa.Value) bool {
	phi, ok := v.(*ssa.Phi)
	if !ok {
		return false
	}
	if _, isSlice := phi.Type().Underlying().(*types.Slice); !isSlice {
		return false
	}
	for i, e := range phi.Edges {
		if a.fresh(e) {
			continue
		}
		if !edgeSaysShort(phi.Block().Preds[i], phi.Block(), e) {
			return false
		}
	}
	return true
}

// edgeSaysShort: control reaches block `to` from p only when len(v) < 2.
func edgeSaysShort(p, to *ssa.BasicBlock, v ssa.Value) bool {
	short := func(op token.Token, x, y ssa.Value) bool {
		// len(v) op const
		c, ok := x.(*ssa.Call)
		k, isC := y.(*ssa.Const)
		if !ok || !isC || builtinName(&c.Call) != "len" || !sameValue(c.Call.Args[0], v) || k.Value == nil {
			return false
		}
		n := k.Int64()
		switch op {
		case token.LSS:
			return n <= 2
		case token.LEQ:
			return n <= 1
		case token.EQL:
			return n == 0 || n == 1
		}
		return false
	}
	for si, sc := range p.Succs {
		if sc != to {
			continue
		}
		c, truth, ok := edgeCond(p, si)
		if !ok {
			continue
		}
		f := condFact{Cond: c, Truth: truth}
		if op, x, y, ok := f.rel(); ok && (short(op, x, y) || short(flipOp(op), y, x)) {
			return true
		}
	}
	for _, f := range blockFacts(p) {
		if op, x, y, ok := f.rel(); ok && (short(op, x, y) || short(flipOp(op), y, x)) {
			return true
		}
	}
	return false
}

// structFieldFresh: v is a struct value whose given field holds memory allocated during the call that produced the
// value: a copy of a local struct whose field is fresh, or the result of a repository function (a constructor) every
// return of which is such a value.
func structFieldFresh(v ssa.Value, field int, depth int) bool {
	if depth > 3 {
		return false
	}
	switch x := v.(type) {
	case *ssa.UnOp:
		if al, ok := x.X.(*ssa.Alloc); ok && x.Op == token.MUL {
			return newFresh(al.Parent()).fieldStoresFresh(al, field)
		}
	case *ssa.Call:
		callee := x.Call.StaticCallee()
		if callee == nil || len(callee.Blocks) == 0 || callee.Signature.Results().Len() != 1 {
			return false
		}
		if pp := programOf(callee.Prog); pp == nil || !pp.IsRepo(callee) {
			return false
		}
		rets := returnsOf(callee)
		if len(rets) == 0 {
			return false
		}
		for _, ret := range rets {
			if !structFieldFresh(ret.Results[0], field, depth+1) {
				return false
			}
		}
		return true
	}
	return false
}

func (a *freshAn) elemStoresFresh(base ssa.Value) bool {
	if !a.fresh(base) {
		return false
	}
	ms, ok := base.(*ssa.MakeSlice)
	if !ok {
		return false
	}
	for _, r := range *ms.Referrers() {
		if ia, ok := r.(*ssa.IndexAddr); ok {
			for _, r2 := range *ia.Referrers() {
				if st, ok := r2.(*ssa.Store); ok && st.Addr == ia && !a.fresh(st.Val) {
					return false
				}
			}
		}
	}
	return true
}

// holdsRefs reports whether a type can alias memory (pointer, slice, map, interface, chan, func, or aggregates of those).
func holdsRefs(t types.Type) bool {
	switch u := t.Underlying().(type) {
	case *types.Basic:
		return false // strings are immutable
	case *types.Pointer, *types.Slice, *types.Map, *types.Interface, *types.Chan, *types.Signature:
		return true
	case *types.Struct:
		for i := 0; i < u.NumFields(); i++ {
			if holdsRefs(u.Field(i).Type()) {
				return true
			}
		}
		return false
	case *types.Array:
		return holdsRefs(u.Elem())
	case *types.Tuple:
		for i := 0; i < u.Len(); i++ {
			if holdsRefs(u.At(i).Type()) {
				return true
			}
		}
		return false
	}
	return true
}
