package main

// ldom.go: the lexer domain of the abstract interpreter. The input is a stream of symbolic runes c1, c2, ... of symbolic
// byte sizes s1, s2, ... starting at the lexer's position P. The rune decoder (the Lexer method (int) (rune, int, error))
// is the primitive: called at position P + s1 + ... + sk it returns (c(k+1), s(k+1), nil) or an error. A constant step is
// accepted in place of a size exactly when the path has pinned that rune to the ASCII range. Any other position
// arithmetic is recorded as a misstep. The rule reads, per path: the runes consumed and what they were pinned to, the
// token type stored, the text bounds of its value and the final position.

import (
	"fmt"
	"go/constant"
	"go/token"
	"go/types"
	"os"
	"sort"
	"strings"

	"golang.org/x/tools/go/ssa"
)

type lexDom struct {
	p        *Program
	e        *Engine
	lobj     *avObj
	tobj     *avObj
	decodeFn *ssa.Function
	lexerT   *types.Named
	base     avSym
	expr     avSym
	why      string
	// the lexer's fields: where the position and the text live, and what the constructor leaves in the others
	guarded           map[*ssa.BinOp]bool
	ncells            avSym // the number of cells of the whole text: comparisons of a position with len(text) are comparisons with it
	posPath, exprPath string
	stateInit         map[string]AV
}

type lexField struct {
	path string
	t    types.Type
}

// structFields lists the leaf fields of a struct type, descending into nested struct values.
func structFields(t types.Type, prefix string, out *[]lexField, depth int) {
	st, ok := t.Underlying().(*types.Struct)
	if !ok || depth > 4 {
		return
	}
	for i := 0; i < st.NumFields(); i++ {
		f := st.Field(i)
		if _, nested := f.Type().Underlying().(*types.Struct); nested {
			structFields(f.Type(), prefix+"."+f.Name(), out, depth+1)
			continue
		}
		*out = append(*out, lexField{prefix + "." + f.Name(), f.Type()})
	}
}

// layout finds the position field (the first field of the unnamed type int), the text field (the first string field)
// and the values the constructor leaves in every other field (state the lexer starts from).
func (d *lexDom) layout(e *Engine) {
	var fs []lexField
	structFields(d.lexerT, "", &fs, 0)
	d.stateInit = map[string]AV{}
	for _, f := range fs {
		b, isBasic := f.t.(*types.Basic) // unnamed basic types only
		switch {
		case isBasic && b.Kind() == types.Int && d.posPath == "":
			d.posPath = f.path
		case isBasic && b.Kind() == types.String && d.exprPath == "":
			d.exprPath = f.path
		}
	}
	// the constructor: a function of the package from a string to the lexer (or a pointer to it)
	var ctor *ssa.Function
	pkg := d.p.SSA.Package(d.p.Lexer.Types)
	for _, m := range pkg.Members {
		fn, ok := m.(*ssa.Function)
		if !ok || len(fn.Blocks) == 0 || fn.Signature.Recv() != nil || fn.Signature.Params().Len() != 1 || fn.Signature.Results().Len() != 1 {
			continue
		}
		if pb, ok := fn.Signature.Params().At(0).Type().Underlying().(*types.Basic); !ok || pb.Kind() != types.String {
			continue
		}
		rt := fn.Signature.Results().At(0).Type()
		if pt, ok := rt.(*types.Pointer); ok {
			rt = pt.Elem()
		}
		if types.Identical(rt, d.lexerT) && (ctor == nil || fn.Name() < ctor.Name()) {
			ctor = fn
		}
	}
	var built AV
	var bst *State
	if ctor != nil {
		e2 := newEngine(d.p, plainDom{})
		e2.MaxVisits = 2
		outs := e2.Run(ctor, []AV{avSym{id: e2.fresh(), tag: "expr"}}, e2.WithInit(pkg, newState()))
		if e2.Aborted == "" && len(outs) == 1 && !outs[0].Panic && !outs[0].Cut && len(outs[0].Res) == 1 {
			built, bst = outs[0].Res[0], outs[0].St
		}
	}
	for _, f := range fs {
		if f.path == d.posPath || f.path == d.exprPath {
			continue
		}
		if b, isBasic := f.t.(*types.Basic); isBasic && (b.Kind() == types.Int || b.Kind() == types.String) {
			continue // further offsets into the text / further texts: symbolic as before
		}
		var v AV
		switch x := built.(type) {
		case avStruct:
			v = fieldAt(x, f.path)
		case avPtr:
			v, _ = bst.load(avPtr{x.o, x.path + f.path})
		}
		if v == nil {
			v = zeroAV(f.t)
		}
		switch v.(type) {
		case avConst, avNil:
			d.stateInit[f.path] = v
		}
	}
}

func fieldAt(s avStruct, path string) AV {
	var cur AV = s
	for _, name := range strings.Split(strings.TrimPrefix(path, "."), ".") {
		st, ok := cur.(avStruct)
		if !ok {
			return nil
		}
		cur = st.f[name]
	}
	return cur
}

func newLexDom(p *Program) *lexDom {
	d := &lexDom{p: p}
	pkg := p.SSA.Package(p.Lexer.Types)
	if pkg == nil {
		d.why = "lexer package has no SSA form"
		return d
	}
	for _, m := range pkg.Members {
		t, ok := m.(*ssa.Type)
		if !ok {
			continue
		}
		nt, ok := t.Type().(*types.Named)
		if !ok {
			continue
		}
		ms := p.SSA.MethodSets.MethodSet(types.NewPointer(nt))
		for i := 0; i < ms.Len(); i++ {
			fn := p.SSA.MethodValue(ms.At(i))
			if fn == nil || len(fn.Blocks) == 0 {
				continue
			}
			sig := fn.Signature
			if sig.Params().Len() == 1 && isIntType(sig.Params().At(0).Type()) && sig.Results().Len() == 3 && isErrorType(sig.Results().At(2).Type()) && isIntType(sig.Results().At(1).Type()) {
				if b, ok := sig.Results().At(0).Type().Underlying().(*types.Basic); ok && b.Kind() == types.Int32 {
					d.decodeFn, d.lexerT = fn, nt
				}
			}
		}
	}
	if d.decodeFn == nil {
		d.why = "no lexer method (int) (rune, int, error): the rune decoder"
	}
	return d
}

func (d *lexDom) start() (*Engine, *State) {
	e := newEngine(d.p, d)
	d.e = e
	e.MaxVisits = 2
	e.ForkTables = true
	st := newState()
	d.lobj = e.NewObj("lexer", d.lexerT)
	d.tobj = e.NewObj("", nil)
	d.base = avSym{id: e.fresh(), tag: "P"}
	d.expr = avSym{id: e.fresh(), tag: "expr"}
	st = e.WithInit(d.p.SSA.Package(d.p.Lexer.Types), st)
	st.store(avPtr{d.lobj, "#n"}, avConst{constant.MakeInt64(0)})
	d.ncells = avSym{id: e.fresh(), tag: "ncells"}
	st.assumeInt(d.ncells.id, token.GEQ, 0)
	d.layout(e)
	for path, v := range d.stateInit {
		st.store(avPtr{d.lobj, path}, v)
	}
	return e, st
}

func (d *lexDom) Load(e *Engine, st *State, p avPtr, t types.Type) AV {
	if strings.HasPrefix(p.o.label, "global:") {
		if _, isIface := t.Underlying().(*types.Interface); isIface {
			return avSym{tag: p.o.label + p.path, nonNil: true}
		}
		return zeroAV(t)
	}
	if p.o == d.lobj {
		if b, ok := t.Underlying().(*types.Basic); ok {
			switch {
			case b.Info()&types.IsString != 0:
				st.store(p, d.expr)
				return d.expr
			case b.Info()&types.IsInteger != 0:
				st.store(p, d.base)
				return d.base
			}
		}
	}
	return avSym{id: e.fresh(), tag: "field" + p.path}
}

type linForm struct {
	syms map[string]int64
	c    int64
	ok   bool
}

func linear(st *State, v AV) linForm {
	switch x := v.(type) {
	case avConst:
		if i, ok := constant.Int64Val(x.v); ok && x.v.Kind() == constant.Int {
			return linForm{map[string]int64{}, i, true}
		}
	case avSym:
		return linForm{map[string]int64{avKey(x): 1}, 0, true}
	case avBin:
		a, b := linear(st, x.x), linear(st, x.y)
		if !a.ok || !b.ok || (x.op != token.ADD && x.op != token.SUB) {
			return linForm{}
		}
		sign := int64(1)
		if x.op == token.SUB {
			sign = -1
		}
		out := linForm{map[string]int64{}, a.c + sign*b.c, true}
		for k, v := range a.syms {
			out.syms[k] += v
		}
		for k, v := range b.syms {
			out.syms[k] += sign * v
		}
		for k, v := range out.syms {
			if v == 0 {
				delete(out.syms, k)
			}
		}
		return out
	}
	return linForm{}
}

func (d *lexDom) nRunes(st *State) int {
	v, _ := st.load(avPtr{d.lobj, "#n"})
	n, _ := st.KnownInt(v)
	return int(n)
}

func (d *lexDom) rune(st *State, k int) (r, sz avSym) {
	rv, _ := st.load(avPtr{d.lobj, fmt.Sprintf("#r[%d]", k)})
	sv, _ := st.load(avPtr{d.lobj, fmt.Sprintf("#s[%d]", k)})
	r, _ = rv.(avSym)
	sz, _ = sv.(avSym)
	return
}

// Cells of the text come in kinds: "dec" was produced by the rune decoder (a well-formed character of its width), "ix"
// by reading a byte (the first byte of a character, the character itself when it is ASCII), "raw" is a single byte
// (a byte that a byte-wise scanner stepped over, or that a search of package strings skipped): a raw byte outside ASCII
// may be part of an ill-formed sequence until utf8.ValidString has been asked about the text it stands in.
func (d *lexDom) kind(st *State, k int) string {
	v, _ := st.load(avPtr{d.lobj, fmt.Sprintf("#kind[%d]", k)})
	if c, ok := v.(avConst); ok && c.v.Kind() == constant.String {
		return constant.StringVal(c.v)
	}
	return "dec"
}

func (d *lexDom) setKind(st *State, k int, kind string) {
	st.store(avPtr{d.lobj, fmt.Sprintf("#kind[%d]", k)}, avConst{constant.MakeString(kind)})
}

// wellFormed: cell k is known to be (part of) well-formed text on this path.
func (d *lexDom) wellFormed(st *State, k int) bool {
	if d.kind(st, k) == "dec" || d.isASCII(st, k) {
		return true
	}
	v, _ := st.load(avPtr{d.lobj, fmt.Sprintf("#valid[%d]", k)})
	c, ok := v.(avConst)
	return ok && c.v.Kind() == constant.Bool && constant.BoolVal(c.v)
}

// newCell appends a cell of the given kind and returns its value and size symbols.
func (d *lexDom) newCell(e *Engine, st *State, kind string) (r, sz avSym) {
	n := d.nRunes(st)
	if kind == "blind" {
		// a byte the scanner stepped over without looking at it: whether the text reaches that far is not known
		kind = "raw"
		st.store(avPtr{d.lobj, fmt.Sprintf("#blind[%d]", n+1)}, avConst{constant.MakeBool(true)})
	} else {
		st.assumeInt(d.ncells.id, token.GEQ, int64(n+1))
	}
	r = avSym{id: e.fresh(), tag: fmt.Sprintf("c%d", n+1)}
	sz = avSym{id: e.fresh(), tag: fmt.Sprintf("s%d", n+1)}
	st.store(avPtr{d.lobj, "#n"}, avConst{constant.MakeInt64(int64(n + 1))})
	st.store(avPtr{d.lobj, fmt.Sprintf("#r[%d]", n+1)}, r)
	st.store(avPtr{d.lobj, fmt.Sprintf("#s[%d]", n+1)}, sz)
	d.setKind(st, n+1, kind)
	st.assumeInt(r.id, token.GEQ, 0)
	if kind == "raw" {
		st.assumeInt(sz.id, token.EQL, 1)
		st.assumeInt(r.id, token.LEQ, 255)
	} else {
		st.assumeInt(sz.id, token.GEQ, 1)
		st.assumeInt(sz.id, token.LEQ, 4)
		st.assumeInt(r.id, token.LEQ, 0x10FFFF)
	}
	return
}

func (d *lexDom) isBlind(st *State, k int) bool {
	v, _ := st.load(avPtr{d.lobj, fmt.Sprintf("#blind[%d]", k)})
	c, ok := v.(avConst)
	return ok && c.v.Kind() == constant.Bool && constant.BoolVal(c.v)
}

// seen: cell k has now been looked at (it exists).
func (d *lexDom) seen(st *State, k int) {
	if d.isBlind(st, k) {
		st.store(avPtr{d.lobj, fmt.Sprintf("#blind[%d]", k)}, avConst{constant.MakeBool(false)})
	}
	st.assumeInt(d.ncells.id, token.GEQ, int64(k))
}

// decodedAgain: the rune decoder succeeded on a cell that exists already: a cell only read as a byte so far is a
// well-formed character from now on.
func (d *lexDom) decodedAgain(st *State, k int) (r, sz avSym) {
	d.seen(st, k)
	if d.kind(st, k) == "ix" {
		d.setKind(st, k, "dec")
	}
	return d.rune(st, k)
}

// indexRelax is index for a scanner that may work byte by byte: a constant step over a cell that was only ever read as
// a byte turns that cell into a single raw byte (the scanner looks at the text byte-wise there), and the position is
// resolved again.
func (d *lexDom) indexRelax(st *State, pos AV) (int, string) {
	if pos != nil && avKey(pos) == avKey(lenSym(d.expr)) {
		if k, ok := st.KnownInt(d.ncells); ok {
			return int(k), ""
		}
		return -1, "the end of the text, which the path has not located"
	}
	idx, why := d.index(st, pos)
	if why == "" || !strings.Contains(why, "advances by a constant") {
		return idx, why
	}
	changed := false
	// a constant step past the last cell looked at: bytes the scanner steps over without reading them
	if lf := linear(st, pos); lf.ok && d.e != nil {
		probe := st.clone()
		for extra := 1; extra <= 2; extra++ {
			d.newCell(d.e, probe, "blind")
			if k, w := d.index(probe, pos); w == "" {
				for j := 0; j < extra; j++ {
					d.newCell(d.e, st, "blind")
				}
				return k, ""
			}
		}
	}
	for i := 1; i <= d.nRunes(st); i++ {
		if d.kind(st, i) == "ix" && !d.isASCII(st, i) {
			r, sz := d.rune(st, i)
			if st.assumeInt(sz.id, token.EQL, 1) && st.assumeInt(r.id, token.LEQ, 255) {
				d.setKind(st, i, "raw")
				changed = true
			}
		}
	}
	if !changed {
		return idx, why
	}
	return d.index(st, pos)
}

func (d *lexDom) isASCII(st *State, k int) bool {
	r, _ := d.rune(st, k)
	lo, hi, _ := st.intRange(r)
	return lo >= 0 && hi < 0x80
}

// index resolves a position expression to the number of runes before it, or -1 with a reason.
func (d *lexDom) index(st *State, pos AV) (int, string) {
	lf := linear(st, pos)
	if !lf.ok {
		return -1, "position " + avKey(pos) + " is not the start position plus rune sizes"
	}
	if lf.syms[avKey(d.base)] != 1 {
		return -1, "position " + avKey(pos) + " is not relative to the lexer's position"
	}
	delete(lf.syms, avKey(d.base))
	n := d.nRunes(st)
	// sizes used must be a prefix s1..sj, possibly with ASCII runes counted by the constant
	used := map[int]bool{}
	for k, coef := range lf.syms {
		found := false
		for i := 1; i <= n; i++ {
			_, sz := d.rune(st, i)
			if avKey(sz) == k && coef == 1 {
				used[i], found = true, true
			}
		}
		if !found {
			return -1, "position uses " + k + " which is not the size of a decoded rune (or uses it twice)"
		}
	}
	cnt := lf.c
	idx := 0
	for i := 1; i <= n; i++ {
		switch {
		case used[i]:
			idx = i
		case cnt > 0 && (d.isASCII(st, i) || d.kind(st, i) == "raw"):
			cnt--
			idx = i
		default:
			// a gap: later sizes must not be used
			for j := i + 1; j <= n; j++ {
				if used[j] {
					return -1, fmt.Sprintf("position skips rune %d but counts rune %d", i, j)
				}
			}
			i = n
		}
	}
	if cnt != 0 {
		return -1, fmt.Sprintf("position advances by a constant %d over a rune that is not known to be one byte long", lf.c)
	}
	if len(used)+int(lf.c) != idx {
		return -1, "position is not the sum of the sizes of the runes before it"
	}
	return idx, ""
}

func (d *lexDom) Call(e *Engine, st *State, site ssa.CallInstruction, callee *ssa.Function, args []AV, depth int) ([]CallOut, bool) {
	if callee == nil {
		return nil, false
	}
	// the library decoder applied to the rest of the text at a position: the same rune model, with the decoder's own way
	// of reporting the end of the text (width 0) and an ill-formed sequence (U+FFFD with width 1); a well-formed U+FFFD
	// has width 3
	if callee != d.decodeFn && callee.String() == "unicode/utf8.DecodeRuneInString" && len(args) == 1 {
		if debugLex {
			fmt.Fprintf(os.Stderr, "DecodeRuneInString arg=%s\n", avKey(args[0]))
		}
		if sy, ok := args[0].(avSym); ok && sy.tag == "slice" {
			if t, ok := sy.payload.(avTuple); ok && len(t) == 3 && avKey(t[0]) == avKey(d.expr) && (t[2] == nil || avKey(t[2]) == avKey(lenSym(d.expr))) && t[1] != nil {
				idx, why := d.indexRelax(st, t[1])
				if why != "" {
					st.event(Event{Kind: "misstep", Pos: site.Pos(), Note: why})
					idx = d.nRunes(st)
				}
				n := d.nRunes(st)
				if idx > n {
					st.event(Event{Kind: "misstep", Pos: site.Pos(), Note: "decodes past a rune that was never decoded"})
					idx = n
				}
				runeErr := avConst{constant.MakeInt64(0xFFFD)}
				var outs []CallOut
				if idx == n || d.isBlind(st, idx+1) {
					// nothing is known about this position yet: it can be the end of the text or an ill-formed sequence
					end := st.clone()
					if end.assumeInt(d.ncells.id, token.LEQ, int64(idx)) {
						end.event(Event{Kind: "decode-err", Pos: site.Pos(), Note: fmt.Sprint(idx + 1)})
						outs = append(outs, CallOut{St: end, Res: []AV{runeErr, avConst{constant.MakeInt64(0)}}})
					}
					bad := st.clone()
					if bad.assumeInt(d.ncells.id, token.GEQ, int64(idx+1)) {
						bad.event(Event{Kind: "decode-err", Pos: site.Pos(), Note: fmt.Sprint(idx + 1)})
						outs = append(outs, CallOut{St: bad, Res: []AV{runeErr, avConst{constant.MakeInt64(1)}}})
					}
				}
				var r, sz avSym
				if idx < n {
					r, sz = d.decodedAgain(st, idx+1)
				} else {
					r, sz = d.newCell(e, st, "dec")
				}
				st.event(Event{Kind: "decode", Pos: site.Pos(), Note: fmt.Sprint(idx + 1)})
				outs = append([]CallOut{{St: st, Res: []AV{r, sz}}}, outs...)
				return outs, true
			}
		}
	}
	switch callee.String() {
	case "strings.IndexByte", "strings.IndexRune", "strings.IndexAny":
		if len(args) == 2 {
			if lo, hi, ok := d.window(st, args[0]); ok && hi == -1 {
				var targets []int64
				okT := true
				switch c := args[1].(type) {
				case avConst:
					switch c.v.Kind() {
					case constant.Int:
						v, _ := constant.Int64Val(c.v)
						targets = []int64{v}
					case constant.String:
						for _, ch := range constant.StringVal(c.v) {
							targets = append(targets, int64(ch))
						}
					default:
						okT = false
					}
				default:
					if k, known := st.KnownInt(args[1]); known {
						targets = []int64{k}
					} else {
						okT = false
					}
				}
				for _, t := range targets {
					if t >= 0x80 {
						okT = false
					}
				}
				if okT && len(targets) > 0 && len(targets) <= 3 {
					return d.search(e, st, lo, targets, site.Pos()), true
				}
			}
		}
	case "unicode/utf8.ValidString":
		if len(args) == 1 {
			if lo, hi, ok := d.window(st, args[0]); ok && (hi >= lo || hi == -1) {
				if hi == -1 {
					// to the end of the text: what the path has looked at (anything further is as unknown as before)
					hi = d.nRunes(st)
					if k, known := st.KnownInt(d.ncells); known && int(k) < hi {
						hi = int(k)
					}
				}
				all := true
				for k := lo + 1; k <= hi; k++ {
					if !d.wellFormed(st, k) {
						all = false
					}
				}
				if all {
					return []CallOut{{St: st, Res: []AV{avConst{constant.MakeBool(true)}}}}, true
				}
				bad := st.clone()
				bad.event(Event{Kind: "decode-err", Pos: site.Pos(), Note: "ill-formed UTF-8 found by utf8.ValidString"})
				for k := lo + 1; k <= hi; k++ {
					st.store(avPtr{d.lobj, fmt.Sprintf("#valid[%d]", k)}, avConst{constant.MakeBool(true)})
				}
				return []CallOut{{St: st, Res: []AV{avConst{constant.MakeBool(true)}}}, {St: bad, Res: []AV{avConst{constant.MakeBool(false)}}}}, true
			}
		}
	}
	if callee == d.decodeFn {
		idx, why := d.indexRelax(st, args[1])
		if why != "" {
			st.event(Event{Kind: "misstep", Pos: site.Pos(), Note: why})
			idx = d.nRunes(st)
		}
		n := d.nRunes(st)
		if idx > n {
			st.event(Event{Kind: "misstep", Pos: site.Pos(), Note: "decodes past a rune that was never decoded"})
			idx = n
		}
		bad := st.clone()
		bad.event(Event{Kind: "decode-err", Pos: site.Pos(), Note: fmt.Sprint(idx + 1)})
		errv := avSym{id: e.fresh(), tag: "decode-err", nonNil: true}
		var r, sz avSym
		if idx < n {
			r, sz = d.decodedAgain(st, idx+1) // looked at before on this path: the same character
		} else {
			r, sz = d.newCell(e, st, "dec")
		}
		st.event(Event{Kind: "decode", Pos: site.Pos(), Note: fmt.Sprint(idx + 1)})
		return []CallOut{{St: st, Res: []AV{r, sz, avNil{}}}, {St: bad, Res: []AV{avConst{constant.MakeInt64(0)}, avConst{constant.MakeInt64(0)}, errv}}}, true
	}
	return nil, false
}

// Cmp relates a decoded rune and its width where the decoder's error value is concerned: a well-formed U+FFFD is three
// bytes long, so on a path where the decoder succeeded `r == utf8.RuneError && sz == 1` is false.
func (d *lexDom) Cmp(e *Engine, st *State, op token.Token, x, y AV) (AV, bool) {
	// a position against the length of the text: the number of cells before the position against the number of cells of
	// the text (every cell is at least one byte long)
	lk := avKey(lenSym(d.expr))
	if x != nil && y != nil {
		switch {
		case avKey(y) == lk && avKey(x) != lk:
			if k, why := d.indexRelax(st, x); why == "" {
				return e.binop(st, op, avConst{constant.MakeInt64(int64(k))}, d.ncells), true
			}
		case avKey(x) == lk && avKey(y) != lk:
			if k, why := d.indexRelax(st, y); why == "" {
				return e.binop(st, op, d.ncells, avConst{constant.MakeInt64(int64(k))}), true
			}
		}
	}
	// a position (an offset into the text) is never negative: comparisons with a negative constant are decided
	for _, pr := range [][2]AV{{x, y}, {y, x}} {
		c, isC := pr[1].(avConst)
		if !isC || c.v.Kind() != constant.Int || constant.Sign(c.v) >= 0 {
			continue
		}
		if lf := linear(st, pr[0]); !lf.ok || lf.syms[avKey(d.base)] != 1 {
			continue
		}
		if _, why := d.index(st, pr[0]); why != "" {
			continue
		}
		o := op
		if pr[0] != x {
			o = flipOp(op)
		}
		// position o negative-constant
		switch o {
		case token.EQL, token.LSS, token.LEQ:
			return avConst{constant.MakeBool(false)}, true
		case token.NEQ, token.GTR, token.GEQ:
			return avConst{constant.MakeBool(true)}, true
		}
	}
	if op != token.EQL && op != token.NEQ {
		return nil, false
	}
	sy, ok := x.(avSym)
	c, okc := y.(avConst)
	if !ok || !okc {
		sy, ok = y.(avSym)
		c, okc = x.(avConst)
	}
	if !ok || !okc || c.v.Kind() != constant.Int || len(sy.tag) < 2 {
		return nil, false
	}
	cv, exact := constant.Int64Val(c.v)
	if !exact {
		return nil, false
	}
	var k int
	if _, err := fmt.Sscanf(sy.tag[1:], "%d", &k); err != nil || k < 1 || k > d.nRunes(st) {
		return nil, false
	}
	r, sz := d.rune(st, k)
	switch {
	case sy.tag[0] == 'c' && avKey(sy) == avKey(r) && cv == 0xFFFD:
		// the rune against U+FFFD: impossible when its width is known not to be 3; otherwise an opaque predicate of the
		// rune, so that the test leaves no trace in the character class of the rune (U+FFFD is an ordinary character)
		if lo, hi, ok := st.intRange(sz); ok && (hi < 3 || lo > 3) {
			return avConst{constant.MakeBool(op == token.NEQ)}, true
		}
		// `r == utf8.RuneError && <a size test that fails for 3>`: on a path where the decoder succeeded the conjunction
		// is false whatever the rune is; answering so here leaves no trace in the rune's character class
		if bo, ok := e.Cur.(*ssa.BinOp); ok && op == token.EQL && d.fffdGuarded()[bo] {
			if _, pinned := st.KnownInt(r); !pinned {
				return avConst{constant.MakeBool(false)}, true
			}
		}
	case sy.tag[0] == 's' && avKey(sy) == avKey(sz) && cv != 3:
		// the width against something other than 3: impossible when the rune is known to be U+FFFD
		if rv, known := st.KnownInt(r); known && rv == 0xFFFD {
			return avConst{constant.MakeBool(op == token.NEQ)}, true
		}
	}
	return nil, false
}

// fffdGuarded: the comparisons `x == 0xFFFD` of the lexer package whose true edge leads straight to a test of an integer
// against a small constant that fails for 3 (the width of a well-formed U+FFFD).
func (d *lexDom) fffdGuarded() map[*ssa.BinOp]bool {
	if d.guarded != nil {
		return d.guarded
	}
	d.guarded = map[*ssa.BinOp]bool{}
	for _, fn := range d.p.ReachFuncs(d.p.Lexer) {
		for _, b := range fn.Blocks {
			if len(b.Instrs) == 0 {
				continue
			}
			iff, ok := b.Instrs[len(b.Instrs)-1].(*ssa.If)
			if !ok {
				continue
			}
			bo, ok := iff.Cond.(*ssa.BinOp)
			if !ok || bo.Op != token.EQL || bo.Block() != b {
				continue
			}
			isFFFD := func(v ssa.Value) bool {
				c, ok := v.(*ssa.Const)
				return ok && c.Value != nil && c.Value.Kind() == constant.Int && c.Int64() == 0xFFFD
			}
			if !isFFFD(bo.X) && !isFFFD(bo.Y) {
				continue
			}
			nb := b.Succs[0]
			if len(nb.Instrs) == 0 || len(nb.Preds) != 1 {
				continue
			}
			iff2, ok := nb.Instrs[len(nb.Instrs)-1].(*ssa.If)
			if !ok {
				continue
			}
			szt, ok := iff2.Cond.(*ssa.BinOp)
			if !ok || szt.Block() != nb || !isIntType(szt.X.Type()) {
				continue
			}
			// the value of the test for width 3
			var l, rr constant.Value
			three := constant.MakeInt64(3)
			if c, ok := szt.Y.(*ssa.Const); ok && c.Value != nil {
				l, rr = three, c.Value
			} else if c, ok := szt.X.(*ssa.Const); ok && c.Value != nil {
				l, rr = c.Value, three
			} else {
				continue
			}
			switch szt.Op {
			case token.EQL, token.NEQ, token.LSS, token.LEQ, token.GTR, token.GEQ:
				if !constant.Compare(l, szt.Op, rr) {
					d.guarded[bo] = true
				}
			}
		}
	}
	return d.guarded
}

// Index models byte access expr[pos]: the byte at the start of rune k+1. For the ASCII tests a byte-level scanner makes,
// that byte is the rune itself (a path that pins it below 0x80 also pins the rune and its size of one byte); a byte that
// is not pinned to ASCII never lets a constant step pass (see index()).
func (d *lexDom) Index(e *Engine, st *State, x, idx AV, site *ssa.Index) (AV, bool) {
	if avKey(x) != avKey(d.expr) {
		return nil, false
	}
	k, why := d.indexRelax(st, idx)
	if why != "" {
		st.event(Event{Kind: "misstep", Pos: site.Pos(), Note: why})
		return avSym{id: e.fresh(), tag: "byte"}, true
	}
	n := d.nRunes(st)
	// reading a byte at or past the end of the text panics: the path must know that the text goes on
	if lo, _, ok := st.intRange(d.ncells); !ok || lo < int64(k+1) {
		probe := st.clone()
		if probe.assumeInt(d.ncells.id, token.LEQ, int64(k)) {
			st.event(Event{Kind: "misstep", Pos: site.Pos(), Note: "reads a byte at a position that the path does not know to lie inside the text"})
		}
	}
	if k < n {
		d.seen(st, k+1)
		r, _ := d.rune(st, k+1)
		return r, true
	}
	if k > n {
		st.event(Event{Kind: "misstep", Pos: site.Pos(), Note: "reads a byte past a rune that was never examined"})
		return avSym{id: e.fresh(), tag: "byte"}, true
	}
	r, _ := d.newCell(e, st, "ix")
	return r, true
}

// window resolves a piece expr[lo:hi] of the text to cell indices (cells lo+1..hi); hi is -1 for "to the end".
func (d *lexDom) window(st *State, v AV) (lo, hi int, ok bool) {
	sy, isSym := v.(avSym)
	if !isSym || sy.tag != "slice" {
		return
	}
	t, isT := sy.payload.(avTuple)
	if !isT || len(t) != 3 || avKey(t[0]) != avKey(d.expr) {
		return
	}
	lo = 0
	if t[1] != nil {
		k, why := d.indexRelax(st, t[1])
		if why != "" {
			return
		}
		lo = k
	}
	hi = -1
	if t[2] != nil && avKey(t[2]) != avKey(lenSym(d.expr)) {
		k, why := d.indexRelax(st, t[2])
		if why != "" {
			return
		}
		hi = k
	}
	return lo, hi, true
}

// search models strings.IndexByte / IndexAny / IndexRune on the rest of the text from a position: the text skipped is
// zero, one or two raw bytes none of which is searched for (longer stretches are beyond the bound, like a loop that is
// cut), followed by one of the bytes searched for, or by the end of the text (not found). The result is the number of
// bytes skipped, or -1.
func (d *lexDom) search(e *Engine, st *State, lo int, targets []int64, pos token.Pos) []CallOut {
	var outs []CallOut
	n := d.nRunes(st)
	// cells that exist already from lo on are walked first
	var walk func(st *State, k int, skipped int, fresh int)
	walk = func(st *State, k int, skipped int, fresh int) {
		if k < d.nRunes(st) && !d.isBlind(st, k+1) {
			r, sz := d.rune(st, k+1)
			// this cell is one of the targets?
			for _, t := range targets {
				s1 := st.clone()
				if s1.assumeInt(r.id, token.EQL, t) && s1.assumeInt(sz.id, token.EQL, 1) {
					outs = append(outs, CallOut{St: s1, Res: []AV{d.offset(s1, lo, k)}})
				}
			}
			s2 := st
			okAll := true
			for _, t := range targets {
				if !s2.assumeInt(r.id, token.NEQ, t) {
					okAll = false
				}
			}
			if okAll {
				walk(s2, k+1, skipped+1, fresh)
			}
			return
		}
		// at the frontier: found here, the end of the text, or one more raw byte
		for _, t := range targets {
			s1 := st.clone()
			r, _ := d.newCell(e, s1, "raw")
			s1.assumeInt(r.id, token.EQL, t)
			outs = append(outs, CallOut{St: s1, Res: []AV{d.offset(s1, lo, k)}})
		}
		end := st.clone()
		if end.assumeInt(d.ncells.id, token.LEQ, int64(k)) {
			end.event(Event{Kind: "decode-err", Pos: pos, Note: "end of the text reached by a search"})
			outs = append(outs, CallOut{St: end, Res: []AV{avConst{constant.MakeInt64(-1)}}})
		}
		if fresh < 2 {
			s3 := st.clone()
			r, _ := d.newCell(e, s3, "raw")
			for _, t := range targets {
				s3.assumeInt(r.id, token.NEQ, t)
			}
			walk(s3, k+1, skipped+1, fresh+1)
		}
	}
	_ = n
	walk(st.clone(), lo, 0, 0)
	return outs
}

// offset: the byte distance from cell index lo to cell index k as a sum of cell sizes.
func (d *lexDom) offset(st *State, lo, k int) AV {
	var out AV = avConst{constant.MakeInt64(0)}
	for i := lo + 1; i <= k; i++ {
		_, sz := d.rune(st, i)
		if c, ok := st.KnownInt(sz); ok {
			out = d.e.binop(st, token.ADD, out, avConst{constant.MakeInt64(c)})
		} else {
			out = avBin{token.ADD, out, sz}
		}
	}
	return out
}

// ---------------------------------------------------------------- rendering

func runeClass(st *State, r avSym) string {
	if c, ok := st.KnownInt(r); ok {
		return fmt.Sprintf("%q", rune(c))
	}
	lo, hi, _ := st.intRange(r)
	if lo <= 0 && hi >= 0x10FFFF {
		ex := st.Excluded(r)
		if len(ex) == 0 {
			return "ANY"
		}
		var cs []string
		for c := range ex {
			cs = append(cs, fmt.Sprintf("%q", rune(c)))
		}
		sort.Strings(cs)
		return "^" + strings.Join(cs, "")
	}
	return fmt.Sprintf("[%q-%q]", rune(lo), rune(hi))
}

// cellClass renders the character class of cell k; a raw byte that spans all byte values stands for any character.
func (d *lexDom) cellClass(st *State, k int) string {
	r, _ := d.rune(st, k)
	if d.kind(st, k) != "raw" {
		return runeClass(st, r)
	}
	if c, ok := st.KnownInt(r); ok {
		return fmt.Sprintf("%q", rune(c))
	}
	lo, hi, _ := st.intRange(r)
	if lo <= 0 && hi >= 255 {
		ex := st.Excluded(r)
		if len(ex) == 0 {
			return "ANY"
		}
		var cs []string
		for c := range ex {
			cs = append(cs, fmt.Sprintf("%q", rune(c)))
		}
		sort.Strings(cs)
		return "^" + strings.Join(cs, "")
	}
	return fmt.Sprintf("[%q-%q]", rune(lo), rune(hi))
}

var debugLex = os.Getenv("JMESCHECK_DEBUG_LEX") != ""

type lexPath struct {
	WS       int
	Consumed []string
	Token    string
	Err      string
	Note     []string
	Line     string
	Missteps []string
	Pos      token.Pos
}

func (d *lexDom) tokenNames() map[int64]string { return tokenNames(d.p) }

// describe renders one outcome of a lexer function that received the token pointer d.tobj.
func (d *lexDom) describe(o Outcome, startIdx int) lexPath {
	lp := lexPath{}
	st := o.St
	for _, ev := range st.Trace {
		if ev.Kind == "misstep" {
			lp.Missteps = append(lp.Missteps, ev.Note)
		}
	}
	if o.Ret != nil {
		lp.Pos = o.Ret.Pos()
	}
	errv := AV(nil)
	if len(o.Res) > 0 {
		errv = o.Res[len(o.Res)-1]
	}
	if errv != nil && !isDefNil(errv) {
		switch x := errv.(type) {
		case avIface:
			lp.Err = dynName(x)
		case avSym:
			lp.Err = x.tag
		default:
			lp.Err = "?"
		}
	}
	// final position
	pp := d.posPath
	if pp == "" {
		pp = ".position"
	}
	posv, _ := st.load(avPtr{d.lobj, pp})
	end := -1
	if posv != nil {
		if idx, why := d.indexRelax(st, posv); why == "" {
			end = idx
		} else {
			lp.Missteps = append(lp.Missteps, "final position: "+why)
		}
	}
	if lp.Err == "" {
		tf := st.fieldsOf(avPtr{d.tobj, ""})
		if tv, ok := tf["Type"]; ok {
			if c, ok := st.KnownInt(tv); ok {
				lp.Token = strings.TrimSuffix(d.tokenNames()[c], "Token")
			} else {
				lp.Token = "?" + avKey(tv)
			}
		} else {
			lp.Token = "(none)"
		}
		// value bounds
		if vv, ok := tf["Value"]; ok {
			if sy, ok := vv.(avSym); ok && sy.tag == "slice" {
				if t, ok := sy.payload.(avTuple); ok && len(t) == 3 {
					lo, why1 := d.indexRelax(st, t[1])
					hi, why2 := d.indexRelax(st, t[2])
					switch {
					case avKey(t[0]) != avKey(d.expr):
						lp.Note = append(lp.Note, "value is not a slice of the expression")
					case why1 != "" || why2 != "":
						lp.Note = append(lp.Note, "value bounds: "+why1+why2)
					case hi != end:
						lp.Note = append(lp.Note, fmt.Sprintf("value ends after %d runes but the position moves to after %d runes", hi, end))
					default:
						startIdx = lo
					}
				}
			} else if lp.Token != "End" {
				lp.Note = append(lp.Note, "value is "+avKey(vv))
			}
		} else if lp.Token != "End" && lp.Token != "(none)" {
			lp.Note = append(lp.Note, "no value stored")
		}
	}
	n := d.nRunes(st)
	if lp.Token == "End" && end >= 0 {
		startIdx = end
	}
	// everything before the token must be white space
	for i := 1; i <= startIdx && i <= n; i++ {
		r, _ := d.rune(st, i)
		if c, ok := st.KnownInt(r); !ok || (c != ' ' && c != '\t' && c != '\n' && c != '\r') {
			lp.Note = append(lp.Note, fmt.Sprintf("rune %d (%s) is skipped before the token although it is not white space", i, runeClass(st, r)))
		} else {
			lp.WS++
		}
	}
	upto := end
	if upto < 0 || upto > n {
		upto = n
	}
	for i := startIdx + 1; i <= upto; i++ {
		lp.Consumed = append(lp.Consumed, d.cellClass(st, i))
		if lp.Err == "" && !d.wellFormed(st, i) {
			lp.Note = append(lp.Note, fmt.Sprintf("byte %d of the token (%s) was only looked at as a byte and may be part of an ill-formed UTF-8 sequence; nothing on the path establishes that the token's text is well-formed", i-startIdx, d.cellClass(st, i)))
		}
	}
	// keyword decisions on the text
	for _, c := range st.Conds {
		if cmp, ok := c.V.(avCmp); ok {
			if sy, ok := cmp.x.(avSym); ok && sy.tag == "slice" {
				if k, ok := cmp.y.(avConst); ok && c.Truth == (cmp.op == token.EQL) {
					lp.Note = append(lp.Note, "text="+k.v.ExactString())
				}
			}
		}
	}
	s := strings.Join(lp.Consumed, " ")
	if lp.Err != "" {
		// what was looked at beyond the consumed runes decides the error
		var look []string
		for i := upto + 1; i <= n; i++ {
			look = append(look, d.cellClass(st, i))
		}
		if len(look) > 0 {
			s += " <" + strings.Join(look, " ") + ">"
		}
		s += " => error " + lp.Err
	} else {
		s += " => " + lp.Token
	}
	if len(lp.Note) > 0 {
		s += " {" + strings.Join(lp.Note, "; ") + "}"
	}
	lp.Line = strings.TrimSpace(s)
	if debugLex {
		lp.Line += fmt.Sprintf(" [n=%d end=%d pos=%s]", n, end, avKey(posv))
		var cs []string
		for _, c := range st.Conds {
			cs = append(cs, fmt.Sprintf("%s=%v", avKey(c.V), c.Truth))
		}
		lo, hi, _ := st.intRange(d.ncells)
		lp.Line += fmt.Sprintf(" conds{%s} ncells[%d,%d]", strings.Join(cs, "; "), lo, hi)
		for _, ev := range st.Trace {
			lp.Line += " ev:" + ev.Kind
		}
	}
	return lp
}
