package main

// ldom.go: the lexer domain of the abstract interpreter. The input is a stream of symbolic runes c1, c2, ... of symbolic
// byte sizes s1, s2, ... starting at the lexer's position P. The rune decoder (the Lexer method (int) (rune, int, error))
// is the primitive: called at position P + s1 + ... + sk it returns (c(k+1), s(k+1), nil) or an error. A constant step is
// accepted in place of a size exactly when the path has pinned that rune to the ASCII range. Any other position
// arithmetic is recorded as a misstep. The rule reads, per path: the runes consumed and what they were pinned to, the
// token type stored, the text bounds of its value and the final position.

import (
	"fmt"
	"go/constant"
	"go/token"
	"go/types"
	"sort"
	"strings"

	"golang.org/x/tools/go/ssa"
)

type lexDom struct {
	p        *Program
	e        *Engine
	lobj     *avObj
	tobj     *avObj
	decodeFn *ssa.Function
	lexerT   *types.Named
	base     avSym
	expr     avSym
	why      string
}

func newLexDom(p *Program) *lexDom {
	d := &lexDom{p: p}
	pkg := p.SSA.Package(p.Lexer.Types)
	if pkg == nil {
		d.why = "lexer package has no SSA form"
		return d
	}
	for _, m := range pkg.Members {
		t, ok := m.(*ssa.Type)
		if !ok {
			continue
		}
		nt, ok := t.Type().(*types.Named)
		if !ok {
			continue
		}
		ms := p.SSA.MethodSets.MethodSet(types.NewPointer(nt))
		for i := 0; i < ms.Len(); i++ {
			fn := p.SSA.MethodValue(ms.At(i))
			if fn == nil || len(fn.Blocks) == 0 {
				continue
			}
			sig := fn.Signature
			if sig.Params().Len() == 1 && isIntType(sig.Params().At(0).Type()) && sig.Results().Len() == 3 && isErrorType(sig.Results().At(2).Type()) && isIntType(sig.Results().At(1).Type()) {
				if b, ok := sig.Results().At(0).Type().Underlying().(*types.Basic); ok && b.Kind() == types.Int32 {
					d.decodeFn, d.lexerT = fn, nt
				}
			}
		}
	}
	if d.decodeFn == nil {
		d.why = "no lexer method (int) (rune, int, error): the rune decoder"
	}
	return d
}

func (d *lexDom) start() (*Engine, *State) {
	e := newEngine(d.p, d)
	d.e = e
	e.MaxVisits = 2
	st := newState()
	d.lobj = e.NewObj("lexer", d.lexerT)
	d.tobj = e.NewObj("", nil)
	d.base = avSym{id: e.fresh(), tag: "P"}
	d.expr = avSym{id: e.fresh(), tag: "expr"}
	st = e.WithInit(d.p.SSA.Package(d.p.Lexer.Types), st)
	st.store(avPtr{d.lobj, "#n"}, avConst{constant.MakeInt64(0)})
	return e, st
}

func (d *lexDom) Load(e *Engine, st *State, p avPtr, t types.Type) AV {
	if strings.HasPrefix(p.o.label, "global:") {
		if _, isIface := t.Underlying().(*types.Interface); isIface {
			return avSym{tag: p.o.label + p.path, nonNil: true}
		}
		return zeroAV(t)
	}
	if p.o == d.lobj {
		if b, ok := t.Underlying().(*types.Basic); ok {
			switch {
			case b.Info()&types.IsString != 0:
				st.store(p, d.expr)
				return d.expr
			case b.Info()&types.IsInteger != 0:
				st.store(p, d.base)
				return d.base
			}
		}
	}
	return avSym{id: e.fresh(), tag: "field" + p.path}
}

type linForm struct {
	syms map[string]int64
	c    int64
	ok   bool
}

func linear(st *State, v AV) linForm {
	switch x := v.(type) {
	case avConst:
		if i, ok := constant.Int64Val(x.v); ok && x.v.Kind() == constant.Int {
			return linForm{map[string]int64{}, i, true}
		}
	case avSym:
		return linForm{map[string]int64{avKey(x): 1}, 0, true}
	case avBin:
		a, b := linear(st, x.x), linear(st, x.y)
		if !a.ok || !b.ok || (x.op != token.ADD && x.op != token.SUB) {
			return linForm{}
		}
		sign := int64(1)
		if x.op == token.SUB {
			sign = -1
		}
		out := linForm{map[string]int64{}, a.c + sign*b.c, true}
		for k, v := range a.syms {
			out.syms[k] += v
		}
		for k, v := range b.syms {
			out.syms[k] += sign * v
		}
		for k, v := range out.syms {
			if v == 0 {
				delete(out.syms, k)
			}
		}
		return out
	}
	return linForm{}
}

func (d *lexDom) nRunes(st *State) int {
	v, _ := st.load(avPtr{d.lobj, "#n"})
	n, _ := st.KnownInt(v)
	return int(n)
}

func (d *lexDom) rune(st *State, k int) (r, sz avSym) {
	rv, _ := st.load(avPtr{d.lobj, fmt.Sprintf("#r[%d]", k)})
	sv, _ := st.load(avPtr{d.lobj, fmt.Sprintf("#s[%d]", k)})
	r, _ = rv.(avSym)
	sz, _ = sv.(avSym)
	return
}

func (d *lexDom) isASCII(st *State, k int) bool {
	r, _ := d.rune(st, k)
	lo, hi, _ := st.intRange(r)
	return lo >= 0 && hi < 0x80
}

// index resolves a position expression to the number of runes before it, or -1 with a reason.
func (d *lexDom) index(st *State, pos AV) (int, string) {
	lf := linear(st, pos)
	if !lf.ok {
		return -1, "position " + avKey(pos) + " is not the start position plus rune sizes"
	}
	if lf.syms[avKey(d.base)] != 1 {
		return -1, "position " + avKey(pos) + " is not relative to the lexer's position"
	}
	delete(lf.syms, avKey(d.base))
	n := d.nRunes(st)
	// sizes used must be a prefix s1..sj, possibly with ASCII runes counted by the constant
	used := map[int]bool{}
	for k, coef := range lf.syms {
		found := false
		for i := 1; i <= n; i++ {
			_, sz := d.rune(st, i)
			if avKey(sz) == k && coef == 1 {
				used[i], found = true, true
			}
		}
		if !found {
			return -1, "position uses " + k + " which is not the size of a decoded rune (or uses it twice)"
		}
	}
	cnt := lf.c
	idx := 0
	for i := 1; i <= n; i++ {
		switch {
		case used[i]:
			idx = i
		case cnt > 0 && d.isASCII(st, i):
			cnt--
			idx = i
		default:
			// a gap: later sizes must not be used
			for j := i + 1; j <= n; j++ {
				if used[j] {
					return -1, fmt.Sprintf("position skips rune %d but counts rune %d", i, j)
				}
			}
			i = n
		}
	}
	if cnt != 0 {
		return -1, fmt.Sprintf("position advances by a constant %d over a rune that is not known to be one byte long", lf.c)
	}
	if len(used)+int(lf.c) != idx {
		return -1, "position is not the sum of the sizes of the runes before it"
	}
	return idx, ""
}

func (d *lexDom) Call(e *Engine, st *State, site ssa.CallInstruction, callee *ssa.Function, args []AV, depth int) ([]CallOut, bool) {
	if callee == nil {
		return nil, false
	}
	if callee == d.decodeFn {
		idx, why := d.index(st, args[1])
		if why != "" {
			st.event(Event{Kind: "misstep", Pos: site.Pos(), Note: why})
			idx = d.nRunes(st)
		}
		n := d.nRunes(st)
		if idx > n {
			st.event(Event{Kind: "misstep", Pos: site.Pos(), Note: "decodes past a rune that was never decoded"})
			idx = n
		}
		bad := st.clone()
		bad.event(Event{Kind: "decode-err", Pos: site.Pos(), Note: fmt.Sprint(idx + 1)})
		errv := avSym{id: e.fresh(), tag: "decode-err", nonNil: true}
		var r, sz avSym
		if idx < n {
			r, sz = d.rune(st, idx+1) // decoded before on this path: same rune
		} else {
			r = avSym{id: e.fresh(), tag: fmt.Sprintf("c%d", n+1)}
			sz = avSym{id: e.fresh(), tag: fmt.Sprintf("s%d", n+1)}
			st.store(avPtr{d.lobj, "#n"}, avConst{constant.MakeInt64(int64(n + 1))})
			st.store(avPtr{d.lobj, fmt.Sprintf("#r[%d]", n+1)}, r)
			st.store(avPtr{d.lobj, fmt.Sprintf("#s[%d]", n+1)}, sz)
			st.assumeInt(sz.id, token.GEQ, 1)
			st.assumeInt(sz.id, token.LEQ, 4)
			st.assumeInt(r.id, token.GEQ, 0)
			st.assumeInt(r.id, token.LEQ, 0x10FFFF)
		}
		st.event(Event{Kind: "decode", Pos: site.Pos(), Note: fmt.Sprint(idx + 1)})
		return []CallOut{{St: st, Res: []AV{r, sz, avNil{}}}, {St: bad, Res: []AV{avConst{constant.MakeInt64(0)}, avConst{constant.MakeInt64(0)}, errv}}}, true
	}
	return nil, false
}

// Index models byte access expr[pos]: the byte at the start of rune k+1. For the ASCII tests a byte-level scanner makes,
// that byte is the rune itself (a path that pins it below 0x80 also pins the rune and its size of one byte); a byte that
// is not pinned to ASCII never lets a constant step pass (see index()).
func (d *lexDom) Index(e *Engine, st *State, x, idx AV, site *ssa.Index) (AV, bool) {
	if avKey(x) != avKey(d.expr) {
		return nil, false
	}
	k, why := d.index(st, idx)
	if why != "" {
		st.event(Event{Kind: "misstep", Pos: site.Pos(), Note: why})
		return avSym{id: e.fresh(), tag: "byte"}, true
	}
	n := d.nRunes(st)
	if k < n {
		r, _ := d.rune(st, k+1)
		return r, true
	}
	if k > n {
		st.event(Event{Kind: "misstep", Pos: site.Pos(), Note: "reads a byte past a rune that was never examined"})
		return avSym{id: e.fresh(), tag: "byte"}, true
	}
	r := avSym{id: e.fresh(), tag: fmt.Sprintf("c%d", n+1)}
	sz := avSym{id: e.fresh(), tag: fmt.Sprintf("s%d", n+1)}
	st.store(avPtr{d.lobj, "#n"}, avConst{constant.MakeInt64(int64(n + 1))})
	st.store(avPtr{d.lobj, fmt.Sprintf("#r[%d]", n+1)}, r)
	st.store(avPtr{d.lobj, fmt.Sprintf("#s[%d]", n+1)}, sz)
	st.assumeInt(sz.id, token.GEQ, 1)
	st.assumeInt(sz.id, token.LEQ, 4)
	st.assumeInt(r.id, token.GEQ, 0)
	st.assumeInt(r.id, token.LEQ, 0x10FFFF)
	return r, true
}

// ---------------------------------------------------------------- rendering

func runeClass(st *State, r avSym) string {
	if c, ok := st.KnownInt(r); ok {
		return fmt.Sprintf("%q", rune(c))
	}
	lo, hi, _ := st.intRange(r)
	if lo <= 0 && hi >= 0x10FFFF {
		ex := st.Excluded(r)
		if len(ex) == 0 {
			return "ANY"
		}
		var cs []string
		for c := range ex {
			cs = append(cs, fmt.Sprintf("%q", rune(c)))
		}
		sort.Strings(cs)
		return "^" + strings.Join(cs, "")
	}
	return fmt.Sprintf("[%q-%q]", rune(lo), rune(hi))
}

var debugLex = false

type lexPath struct {
	WS       int
	Consumed []string
	Token    string
	Err      string
	Note     []string
	Line     string
	Missteps []string
	Pos      token.Pos
}

func (d *lexDom) tokenNames() map[int64]string { return tokenNames(d.p) }

// describe renders one outcome of a lexer function that received the token pointer d.tobj.
func (d *lexDom) describe(o Outcome, startIdx int) lexPath {
	lp := lexPath{}
	st := o.St
	for _, ev := range st.Trace {
		if ev.Kind == "misstep" {
			lp.Missteps = append(lp.Missteps, ev.Note)
		}
	}
	if o.Ret != nil {
		lp.Pos = o.Ret.Pos()
	}
	errv := AV(nil)
	if len(o.Res) > 0 {
		errv = o.Res[len(o.Res)-1]
	}
	if errv != nil && !isDefNil(errv) {
		switch x := errv.(type) {
		case avIface:
			lp.Err = dynName(x)
		case avSym:
			lp.Err = x.tag
		default:
			lp.Err = "?"
		}
	}
	// final position
	posv, _ := st.load(avPtr{d.lobj, ".position"})
	end := -1
	if posv != nil {
		if idx, why := d.index(st, posv); why == "" {
			end = idx
		} else {
			lp.Missteps = append(lp.Missteps, "final position: "+why)
		}
	}
	if lp.Err == "" {
		tf := st.fieldsOf(avPtr{d.tobj, ""})
		if tv, ok := tf["Type"]; ok {
			if c, ok := st.KnownInt(tv); ok {
				lp.Token = strings.TrimSuffix(d.tokenNames()[c], "Token")
			} else {
				lp.Token = "?" + avKey(tv)
			}
		} else {
			lp.Token = "(none)"
		}
		// value bounds
		if vv, ok := tf["Value"]; ok {
			if sy, ok := vv.(avSym); ok && sy.tag == "slice" {
				if t, ok := sy.payload.(avTuple); ok && len(t) == 3 {
					lo, why1 := d.index(st, t[1])
					hi, why2 := d.index(st, t[2])
					switch {
					case avKey(t[0]) != avKey(d.expr):
						lp.Note = append(lp.Note, "value is not a slice of the expression")
					case why1 != "" || why2 != "":
						lp.Note = append(lp.Note, "value bounds: "+why1+why2)
					case hi != end:
						lp.Note = append(lp.Note, fmt.Sprintf("value ends after %d runes but the position moves to after %d runes", hi, end))
					default:
						startIdx = lo
					}
				}
			} else if lp.Token != "End" {
				lp.Note = append(lp.Note, "value is "+avKey(vv))
			}
		} else if lp.Token != "End" && lp.Token != "(none)" {
			lp.Note = append(lp.Note, "no value stored")
		}
	}
	n := d.nRunes(st)
	if lp.Token == "End" && end >= 0 {
		startIdx = end
	}
	// everything before the token must be white space
	for i := 1; i <= startIdx && i <= n; i++ {
		r, _ := d.rune(st, i)
		if c, ok := st.KnownInt(r); !ok || (c != ' ' && c != '\t' && c != '\n' && c != '\r') {
			lp.Note = append(lp.Note, fmt.Sprintf("rune %d (%s) is skipped before the token although it is not white space", i, runeClass(st, r)))
		} else {
			lp.WS++
		}
	}
	upto := end
	if upto < 0 || upto > n {
		upto = n
	}
	for i := startIdx + 1; i <= upto; i++ {
		r, _ := d.rune(st, i)
		lp.Consumed = append(lp.Consumed, runeClass(st, r))
	}
	// keyword decisions on the text
	for _, c := range st.Conds {
		if cmp, ok := c.V.(avCmp); ok {
			if sy, ok := cmp.x.(avSym); ok && sy.tag == "slice" {
				if k, ok := cmp.y.(avConst); ok && c.Truth == (cmp.op == token.EQL) {
					lp.Note = append(lp.Note, "text="+k.v.ExactString())
				}
			}
		}
	}
	s := strings.Join(lp.Consumed, " ")
	if lp.Err != "" {
		// what was looked at beyond the consumed runes decides the error
		var look []string
		for i := upto + 1; i <= n; i++ {
			r, _ := d.rune(st, i)
			look = append(look, runeClass(st, r))
		}
		if len(look) > 0 {
			s += " <" + strings.Join(look, " ") + ">"
		}
		s += " => error " + lp.Err
	} else {
		s += " => " + lp.Token
	}
	if len(lp.Note) > 0 {
		s += " {" + strings.Join(lp.Note, "; ") + "}"
	}
	lp.Line = strings.TrimSpace(s)
	if debugLex {
		lp.Line += fmt.Sprintf(" [n=%d end=%d pos=%s]", n, end, avKey(posv))
	}
	return lp
}
