package main

// lin.go: linear integer forms over the symbols of the abstract interpreter, and a small decision procedure
// (Fourier-Motzkin elimination with integer tightening) for conjunctions of linear inequalities over them. It is the
// relational numeric domain of the clamp rules (rules_clamp.go): where the interval facts of the engine only relate one
// symbol to a constant, the slice helpers compare start with -len, stop with start, and add len to either; every such
// condition is a linear inequality over {start, stop, step, len}. A path is a conjunction of them; the rule asks whether
// the conjunction is satisfiable (an infeasible path says nothing) and whether it entails an equality between the index
// the code uses and the index the specification prescribes. Nothing is executed and no value is ever chosen: the
// procedure eliminates variables from inequalities. Machine wrap-around is not modelled (forms are over the integers).

import (
	"fmt"
	"go/constant"
	"go/token"
	"sort"
	"strings"
)

type linF struct {
	co map[string]int64
	k  int64
}

func linK(k int64) linF { return linF{k: k} }

func linA(a string) linF { return linF{co: map[string]int64{a: 1}} }

func (f linF) isConst() bool { return len(f.co) == 0 }

func (f linF) scale(c int64) linF {
	r := linF{co: map[string]int64{}, k: f.k * c}
	for a, v := range f.co {
		if v*c != 0 {
			r.co[a] = v * c
		}
	}
	return r
}

func (f linF) add(g linF) linF {
	r := linF{co: map[string]int64{}, k: f.k + g.k}
	for a, v := range f.co {
		r.co[a] = v
	}
	for a, v := range g.co {
		r.co[a] += v
		if r.co[a] == 0 {
			delete(r.co, a)
		}
	}
	return r
}

func (f linF) sub(g linF) linF { return f.add(g.scale(-1)) }

func (f linF) String() string {
	var as []string
	for a := range f.co {
		as = append(as, a)
	}
	sort.Strings(as)
	var sb strings.Builder
	for _, a := range as {
		c := f.co[a]
		switch {
		case c == 1 && sb.Len() == 0:
			sb.WriteString(a)
		case c == 1:
			sb.WriteString(" + " + a)
		case c == -1 && sb.Len() == 0:
			sb.WriteString("-" + a)
		case c == -1:
			sb.WriteString(" - " + a)
		case c < 0 && sb.Len() > 0:
			fmt.Fprintf(&sb, " - %d*%s", -c, a)
		case sb.Len() > 0:
			fmt.Fprintf(&sb, " + %d*%s", c, a)
		default:
			fmt.Fprintf(&sb, "%d*%s", c, a)
		}
	}
	switch {
	case sb.Len() == 0:
		return fmt.Sprint(f.k)
	case f.k > 0:
		fmt.Fprintf(&sb, " + %d", f.k)
	case f.k < 0:
		fmt.Fprintf(&sb, " - %d", -f.k)
	}
	return sb.String()
}

func (f linF) key() string { return f.String() }

// linNamer gives the integer atoms of a run readable names (start, stop, step, len) instead of symbol ids.
type linNamer struct {
	names map[string]string
}

func (n *linNamer) atom(v avSym) (string, bool) {
	k := avKey(v)
	if nm, ok := n.names[k]; ok {
		return nm, true
	}
	switch {
	case v.tag == "runecount":
		// the length of the subject in code points (string)
		n.names[k] = "len"
		return "len", true
	case v.tag == "len":
		// the length of the subject in elements (array); the byte length of a string is a quantity of its own
		nm := "bytelen:" + avKey(v.payload)
		if ps, ok := v.payload.(avSym); ok && strings.HasPrefix(ps.tag, "asserted:[]") {
			nm = "len"
		}
		n.names[k] = nm
		return nm, true
	case strings.HasPrefix(v.tag, "arg:"):
		nm := strings.TrimPrefix(v.tag, "arg:")
		n.names[k] = nm
		return nm, true
	}
	return "", false
}

// linOf: v as a linear form over the integer atoms, when it is one.
func (n *linNamer) linOf(st *State, v AV) (linF, bool) {
	switch x := v.(type) {
	case avConst:
		if x.v.Kind() == constant.Int {
			if i, ok := constant.Int64Val(x.v); ok && i > -(1<<40) && i < 1<<40 {
				return linK(i), true
			}
		}
	case avSym:
		if k, ok := st.KnownInt(x); ok && k > -(1<<40) && k < 1<<40 {
			return linK(k), true
		}
		if a, ok := n.atom(x); ok {
			return linA(a), true
		}
	case avBin:
		switch x.op {
		case token.ADD, token.SUB:
			a, ok1 := n.linOf(st, x.x)
			b, ok2 := n.linOf(st, x.y)
			if ok1 && ok2 {
				if x.op == token.ADD {
					return a.add(b), true
				}
				return a.sub(b), true
			}
		case token.QUO, token.REM:
			// division by one (a shared helper called with the constant step 1)
			a, ok1 := n.linOf(st, x.x)
			b, ok2 := n.linOf(st, x.y)
			if ok1 && ok2 && b.isConst() && (b.k == 1 || b.k == -1) {
				if x.op == token.REM {
					return linK(0), true
				}
				return a.scale(b.k), true
			}
		case token.MUL:
			a, ok1 := n.linOf(st, x.x)
			b, ok2 := n.linOf(st, x.y)
			if ok1 && ok2 {
				if a.isConst() && a.k > -1024 && a.k < 1024 {
					return b.scale(a.k), true
				}
				if b.isConst() && b.k > -1024 && b.k < 1024 {
					return a.scale(b.k), true
				}
			}
		}
	}
	return linF{}, false
}

// linCons is the constraint f <= 0.
type linCons struct{ f linF }

// consOf: x op y as constraints of the form f <= 0 over the integers; ok=false for != (not convex).
func consOf(op token.Token, x, y linF) ([]linCons, bool) {
	d := x.sub(y)
	switch op {
	case token.LEQ:
		return []linCons{{d}}, true
	case token.LSS:
		return []linCons{{d.add(linK(1))}}, true
	case token.GEQ:
		return []linCons{{d.scale(-1)}}, true
	case token.GTR:
		return []linCons{{d.scale(-1).add(linK(1))}}, true
	case token.EQL:
		return []linCons{{d}, {d.scale(-1)}}, true
	}
	return nil, false
}

func gcd64(a, b int64) int64 {
	if a < 0 {
		a = -a
	}
	if b < 0 {
		b = -b
	}
	for b != 0 {
		a, b = b, a%b
	}
	return a
}

// tighten divides f <= 0 by the gcd of its coefficients and rounds the constant up (integer solutions only).
func tighten(f linF) linF {
	var g int64
	for _, c := range f.co {
		g = gcd64(g, c)
	}
	if g <= 1 {
		return f
	}
	r := linF{co: map[string]int64{}}
	for a, c := range f.co {
		r.co[a] = c / g
	}
	// sum + k/g <= 0 with an integer sum: sum <= floor(-k/g), i.e. k' = ceil(k/g)
	q := f.k / g
	if f.k%g != 0 && f.k > 0 {
		q++
	}
	r.k = q
	return r
}

// linFeasible: does the conjunction have a solution? Rational Fourier-Motzkin elimination with gcd tightening: "false" is
// exact (no integer solution), "true" may in rare cases be a rational solution only, which costs precision, not soundness
// of a refutation.
func linFeasible(cs []linCons) bool {
	cur := map[string]linF{}
	addc := func(m map[string]linF, f linF) bool {
		f = tighten(f)
		if f.isConst() {
			return f.k <= 0
		}
		m[f.key()] = f
		return true
	}
	for _, c := range cs {
		if !addc(cur, c.f) {
			return false
		}
	}
	for {
		// pick the variable with the cheapest elimination
		cnt := map[string][2]int{}
		for _, f := range cur {
			for a, c := range f.co {
				x := cnt[a]
				if c > 0 {
					x[0]++
				} else {
					x[1]++
				}
				cnt[a] = x
			}
		}
		if len(cnt) == 0 {
			return true
		}
		best, bestCost := "", -1
		var names []string
		for a := range cnt {
			names = append(names, a)
		}
		sort.Strings(names)
		for _, a := range names {
			cost := cnt[a][0] * cnt[a][1]
			if bestCost < 0 || cost < bestCost {
				best, bestCost = a, cost
			}
		}
		var pos, neg []linF
		next := map[string]linF{}
		for k, f := range cur {
			switch c := f.co[best]; {
			case c > 0:
				pos = append(pos, f)
			case c < 0:
				neg = append(neg, f)
			default:
				next[k] = f
			}
		}
		for _, p := range pos {
			for _, q := range neg {
				a, b := p.co[best], -q.co[best]
				g := gcd64(a, b)
				comb := p.scale(b / g).add(q.scale(a / g))
				delete(comb.co, best)
				if !addc(next, comb) {
					return false
				}
			}
		}
		if len(next) > 4000 {
			return true // give up: treated as satisfiable
		}
		cur = next
	}
}

// linEntails: do the constraints entail x op y?
func linEntails(cs []linCons, op token.Token, x, y linF) bool {
	switch op {
	case token.EQL:
		return linEntails(cs, token.LEQ, x, y) && linEntails(cs, token.GEQ, x, y)
	case token.NEQ:
		return linEntails(cs, token.LSS, x, y) || linEntails(cs, token.GTR, x, y)
	}
	neg, ok := consOf(negateOp(op), x, y)
	if !ok {
		return false
	}
	all := append(append([]linCons{}, cs...), neg...)
	return !linFeasible(all)
}

// pathCons: the linear part of what a path knows: its branch decisions on comparisons of linear forms, the interval
// facts of the atoms, and the non-negativity of lengths.
func (n *linNamer) pathCons(st *State) []linCons {
	var cs []linCons
	for _, c := range st.Conds {
		v, truth := c.V, c.Truth
		for {
			nn, ok := v.(avNot)
			if !ok {
				break
			}
			v, truth = nn.x, !truth
		}
		cmp, ok := v.(avCmp)
		if !ok {
			continue
		}
		x, ok1 := n.linOf(st, cmp.x)
		y, ok2 := n.linOf(st, cmp.y)
		if !ok1 || !ok2 {
			continue
		}
		op := cmp.op
		if !truth {
			op = negateOp(op)
		}
		if k, ok := consOf(op, x, y); ok {
			cs = append(cs, k...)
		}
	}
	for key, name := range n.names {
		if name == "len" || strings.HasPrefix(name, "bytelen:") {
			cs = append(cs, linCons{linA(name).scale(-1)})
		}
		_ = key
	}
	// UTF-8: a string of n code points (ill-formed bytes count as one each) has between n and 4n bytes
	for key, name := range n.names {
		if name != "len" || !strings.HasPrefix(key, "runecount(") {
			continue
		}
		inner := strings.TrimSuffix(strings.TrimPrefix(key, "runecount("), ")#0")
		if bl := "bytelen:" + inner; n.has(bl) {
			cs = append(cs, linCons{linA("len").sub(linA(bl))}, linCons{linA(bl).sub(linA("len").scale(4))})
		}
	}
	for _, id := range n.ids(st) {
		f := st.ints[id.id]
		if f == nil {
			continue
		}
		if f.lo > -(1 << 40) {
			cs = append(cs, linCons{linK(f.lo).sub(linA(id.name))})
		}
		if f.hi < 1<<40 {
			cs = append(cs, linCons{linA(id.name).sub(linK(f.hi))})
		}
	}
	return cs
}

type linID struct {
	id   int
	name string
}

// ids: the fact ids of the named atoms that have an identity of their own (parameters).
func (n *linNamer) ids(st *State) []linID {
	var out []linID
	for key, name := range n.names {
		if i := strings.LastIndex(key, "#"); i >= 0 {
			var id int
			if _, err := fmt.Sscanf(key[i+1:], "%d", &id); err == nil && id != 0 {
				out = append(out, linID{id, name})
				continue
			}
		}
		if id, ok := st.named[key]; ok {
			out = append(out, linID{id, name})
		}
	}
	sort.Slice(out, func(i, j int) bool { return out[i].name < out[j].name })
	return out
}

func (n *linNamer) has(name string) bool {
	for _, v := range n.names {
		if v == name {
			return true
		}
	}
	return false
}
