package main

import (
	"fmt"
	"go/ast"
	"go/token"
	"go/types"
	"os"
	"path/filepath"
	"sort"
	"strings"
	"sync"

	"golang.org/x/tools/go/callgraph"
	"golang.org/x/tools/go/callgraph/cha"
	"golang.org/x/tools/go/callgraph/vta"
	"golang.org/x/tools/go/packages"
	"golang.org/x/tools/go/ssa"
	"golang.org/x/tools/go/ssa/ssautil"
)

const modPath = "github.com/woodsbury/jmespath"

// Program is the resolved program every rule works on.
type Program struct {
	RepoDir string
	Fset    *token.FileSet
	// the four repository packages by short role name
	Root, Lexer, Parser, Eval *packages.Package
	Pkgs                      []*packages.Package // the four, fixed order
	SSA                       *ssa.Program
	SSAPkg                    map[*packages.Package]*ssa.Package
	Funcs                     []*ssa.Function // every source-level function (incl. closures) of the four packages, by position
	CG                        *callgraph.Graph
	CGKind                    string
	Reach                     map[*ssa.Function]bool // reachable from the four API entry points
	API                       []*ssa.Function
	GoArch                    string
	fnByDecl                  map[*ast.FuncDecl]*ssa.Function
	// per-program memo of derived facts (one goroutine analyses one Program, so no locking)
	memoRoles       *roles
	memoIndexFacts  *indexFacts
	memoProjEff     sync.Map
	memoHelperFacts *helperFacts
	memoNumRoles    *numRoles
	memoLitHelpers  map[string]*ssa.Function
	memoArithParams map[*ssa.Parameter]bool
	memoLoopHeaders map[*ssa.Function]map[*ssa.BasicBlock]bool
	memoRoleMap     *roleMap
}

// programs maps an SSA program back to its Program while it is being analysed.
var programs sync.Map

func programOf(sp *ssa.Program) *Program {
	if v, ok := programs.Load(sp); ok {
		return v.(*Program)
	}
	return nil
}

type LoadOpts struct {
	RepoDir string
	Overlay map[string][]byte
	GoArch  string // "" = host
	Tags    string
	AllSyn  bool // load dependencies from source too (needed for VTA)
	VTA     bool
}

func Load(o LoadOpts) (*Program, error) {
	mode := packages.LoadSyntax | packages.NeedModule
	if o.AllSyn || o.VTA {
		mode = packages.LoadAllSyntax | packages.NeedModule
	}
	env := os.Environ()
	if o.GoArch != "" {
		env = append(env, "GOARCH="+o.GoArch, "CGO_ENABLED=0")
	}
	cfg := &packages.Config{
		Mode:    mode,
		Dir:     o.RepoDir,
		Env:     env,
		Tests:   false,
		Overlay: o.Overlay,
		Fset:    token.NewFileSet(),
	}
	if o.Tags != "" {
		cfg.BuildFlags = []string{"-tags=" + o.Tags}
	}
	// slices and maps are loaded from source as well: their generic functions are interpreted like repository code
	// (a helper rewritten around slices.IndexFunc keeps its meaning for the interpreter)
	pkgs, err := packages.Load(cfg, "./...", "slices", "maps")
	if err != nil {
		return nil, fmt.Errorf("packages.Load: %w", err)
	}
	if len(pkgs) == 0 {
		return nil, fmt.Errorf("no packages loaded from %s", o.RepoDir)
	}
	var errs []string
	packages.Visit(pkgs, nil, func(p *packages.Package) {
		for _, e := range p.Errors {
			errs = append(errs, e.Error())
		}
	})
	if len(errs) > 0 {
		return nil, fmt.Errorf("load/type errors: %s", strings.Join(errs, "; "))
	}
	p := &Program{RepoDir: o.RepoDir, Fset: cfg.Fset, GoArch: o.GoArch, SSAPkg: map[*packages.Package]*ssa.Package{}}
	for _, pk := range pkgs {
		switch pk.PkgPath {
		case modPath:
			p.Root = pk
		case modPath + "/internal/lexer":
			p.Lexer = pk
		case modPath + "/internal/parser":
			p.Parser = pk
		case modPath + "/internal/evaluator":
			p.Eval = pk
		}
	}
	if p.Root == nil || p.Lexer == nil || p.Parser == nil || p.Eval == nil {
		return nil, fmt.Errorf("expected the packages jmespath, internal/lexer, internal/parser, internal/evaluator; loaded %d packages", len(pkgs))
	}
	p.Pkgs = []*packages.Package{p.Root, p.Lexer, p.Parser, p.Eval}
	var prog *ssa.Program
	var spkgs []*ssa.Package
	if o.AllSyn || o.VTA {
		prog, spkgs = ssautil.AllPackages(pkgs, ssa.InstantiateGenerics)
	} else {
		prog, spkgs = ssautil.Packages(pkgs, ssa.InstantiateGenerics)
	}
	prog.Build()
	p.SSA = prog
	for i, pk := range pkgs {
		if spkgs[i] == nil {
			return nil, fmt.Errorf("no SSA for %s", pk.PkgPath)
		}
		p.SSAPkg[pk] = spkgs[i]
	}
	// source functions
	repoSSA := map[*ssa.Package]bool{}
	for _, pk := range p.Pkgs {
		repoSSA[p.SSAPkg[pk]] = true
	}
	p.fnByDecl = map[*ast.FuncDecl]*ssa.Function{}
	for fn := range ssautil.AllFunctions(prog) {
		if fn.Blocks == nil || (fn.Synthetic != "" && !strings.HasPrefix(fn.Synthetic, "instance of")) {
			continue
		}
		pk := fn.Pkg
		if pk == nil && fn.Origin() != nil {
			pk = fn.Origin().Pkg // an instantiation of a generic function: analysed like any other function of its package
		}
		if pk == nil && fn.Parent() != nil {
			for q := fn; q != nil; q = q.Parent() {
				if q.Pkg != nil {
					pk = q.Pkg
				}
			}
		}
		if pk == nil || !repoSSA[pk] {
			continue
		}
		p.Funcs = append(p.Funcs, fn)
		if d, ok := fn.Syntax().(*ast.FuncDecl); ok {
			p.fnByDecl[d] = fn
		}
	}
	sort.Slice(p.Funcs, func(i, j int) bool {
		a, b := p.Fset.Position(p.Funcs[i].Pos()), p.Fset.Position(p.Funcs[j].Pos())
		if a.Filename != b.Filename {
			return a.Filename < b.Filename
		}
		if a.Line != b.Line {
			return a.Line < b.Line
		}
		return a.Column < b.Column
	})
	if len(p.Funcs) < 80 {
		return nil, fmt.Errorf("only %d source functions found in the repository packages (expected >= 80)", len(p.Funcs))
	}
	// call graph
	if o.VTA {
		p.CG = vta.CallGraph(ssautil.AllFunctions(prog), cha.CallGraph(prog))
		p.CGKind = "vta"
	} else {
		p.CG = cha.CallGraph(prog)
		p.CGKind = "cha"
	}
	// API entry points
	for _, name := range []string{"Search", "Compile", "MustCompile"} {
		f := p.SSAPkg[p.Root].Func(name)
		if f == nil {
			return nil, fmt.Errorf("API function %s not found", name)
		}
		p.API = append(p.API, f)
	}
	if t := p.SSAPkg[p.Root].Type("Expression"); t != nil {
		m := prog.LookupMethod(types.NewPointer(t.Type()), p.Root.Types, "Search")
		if m == nil {
			return nil, fmt.Errorf("(*Expression).Search not found")
		}
		p.API = append(p.API, m)
	} else {
		return nil, fmt.Errorf("type Expression not found")
	}
	p.Reach = map[*ssa.Function]bool{}
	var walk func(f *ssa.Function)
	walk = func(f *ssa.Function) {
		if p.Reach[f] {
			return
		}
		p.Reach[f] = true
		if n := p.CG.Nodes[f]; n != nil {
			for _, e := range n.Out {
				walk(e.Callee.Func)
			}
		}
		for _, an := range f.AnonFuncs {
			walk(an)
		}
	}
	for _, f := range p.API {
		walk(f)
	}
	// Methods of repository types that are converted to an interface in reachable code can be
	// called back by library code whose bodies are not loaded (sort.Stable -> Swap, errors.Is -> Is,
	// json.Marshal -> MarshalJSON): treat their whole method set as reachable.
	for changed := true; changed; {
		changed = false
		var fns []*ssa.Function
		for f := range p.Reach {
			fns = append(fns, f)
		}
		for _, f := range fns {
			for _, b := range f.Blocks {
				for _, in := range b.Instrs {
					mi, ok := in.(*ssa.MakeInterface)
					if !ok {
						continue
					}
					t := mi.X.Type()
					ms := prog.MethodSets.MethodSet(t)
					for i := 0; i < ms.Len(); i++ {
						m := prog.MethodValue(ms.At(i))
						if m != nil && p.IsRepo(m) && !p.Reach[m] {
							walk(m)
							changed = true
						}
					}
				}
			}
		}
	}
	// a generic function is reachable when one of its instantiations is (rules over declarations look at the origin)
	for f := range p.Reach {
		if o := f.Origin(); o != nil && o != f {
			p.Reach[o] = true
		}
	}
	return p, nil
}

// IsRepo reports whether fn belongs to one of the four repository packages.
func (p *Program) IsRepo(fn *ssa.Function) bool {
	for q := fn; q != nil; q = q.Parent() {
		if q.Pkg == nil && q.Origin() != nil && q.Origin() != q {
			return p.IsRepo(q.Origin()) // an instantiation of a generic function of the repository
		}
		if q.Pkg != nil {
			for _, pk := range p.Pkgs {
				if p.SSAPkg[pk] == q.Pkg {
					return true
				}
			}
			return false
		}
	}
	return false
}

// PkgOf returns the packages.Package a function belongs to (nil if outside the repo).
func (p *Program) PkgOf(fn *ssa.Function) *packages.Package {
	for q := fn; q != nil; q = q.Parent() {
		if q.Pkg != nil {
			for _, pk := range p.Pkgs {
				if p.SSAPkg[pk] == q.Pkg {
					return pk
				}
			}
			return nil
		}
	}
	return nil
}

// ReachFuncs returns the API-reachable source functions of pkg (all four when pkg is nil).
func (p *Program) ReachFuncs(pkgs ...*packages.Package) []*ssa.Function {
	var out []*ssa.Function
	for _, f := range p.Funcs {
		if !p.Reach[f] {
			continue
		}
		if len(pkgs) == 0 {
			out = append(out, f)
			continue
		}
		pk := p.PkgOf(f)
		for _, q := range pkgs {
			if pk == q {
				out = append(out, f)
			}
		}
	}
	return out
}

// Pos renders a position relative to the repository root.
func (p *Program) Pos(pos token.Pos) string {
	if !pos.IsValid() {
		return "-"
	}
	ps := p.Fset.Position(pos)
	rel, err := filepath.Rel(p.RepoDir, ps.Filename)
	if err != nil {
		rel = ps.Filename
	}
	return fmt.Sprintf("%s:%d", rel, ps.Line)
}

// Func finds a package-level function or method by name: "parser.precedence",
// "parser.(*parser).expression", "evaluator.(*evaluator).evaluate".
func (p *Program) Func(pk *packages.Package, recv, name string) *ssa.Function {
	if fn := p.RoleFunc(pk.Name, recv, name); fn != nil {
		return fn
	}
	sp := p.SSAPkg[pk]
	if recv == "" {
		return sp.Func(name)
	}
	t := sp.Type(recv)
	if t == nil {
		return nil
	}
	for _, rt := range []types.Type{types.NewPointer(t.Type()), t.Type()} {
		ms := p.SSA.MethodSets.MethodSet(rt)
		if sel := ms.Lookup(pk.Types, name); sel != nil {
			if m := p.SSA.MethodValue(sel); m != nil {
				// unwrap the synthetic pointer-receiver wrapper of a value method
				if m.Synthetic != "" {
					continue
				}
				return m
			}
		}
	}
	return nil
}

// FuncDecl finds the syntax of a function or method declared in pk.
func (p *Program) FuncDecl(pk *packages.Package, recv, name string) *ast.FuncDecl {
	if fn := p.RoleFunc(pk.Name, recv, name); fn != nil {
		if fd := declOf(fn); fd != nil {
			return fd
		}
	}
	for _, f := range pk.Syntax {
		for _, d := range f.Decls {
			fd, ok := d.(*ast.FuncDecl)
			if !ok || fd.Name.Name != name {
				continue
			}
			if recv == "" {
				if fd.Recv == nil {
					return fd
				}
				continue
			}
			if fd.Recv == nil || len(fd.Recv.List) != 1 {
				continue
			}
			t := fd.Recv.List[0].Type
			if s, ok := t.(*ast.StarExpr); ok {
				t = s.X
			}
			if id, ok := t.(*ast.Ident); ok && id.Name == recv {
				return fd
			}
		}
	}
	return nil
}

// FuncDecls lists every function declaration (with body) of pk in source order.
func (p *Program) FuncDecls(pk *packages.Package) []*ast.FuncDecl {
	var out []*ast.FuncDecl
	for _, f := range pk.Syntax {
		if strings.HasSuffix(p.Fset.Position(f.Pos()).Filename, "_test.go") {
			continue
		}
		for _, d := range f.Decls {
			if fd, ok := d.(*ast.FuncDecl); ok && fd.Body != nil {
				out = append(out, fd)
			}
		}
	}
	sort.Slice(out, func(i, j int) bool { return p.lessPos(out[i].Pos(), out[j].Pos()) })
	return out
}

func (p *Program) lessPos(a, b token.Pos) bool {
	x, y := p.Fset.Position(a), p.Fset.Position(b)
	if x.Filename != y.Filename {
		return x.Filename < y.Filename
	}
	if x.Line != y.Line {
		return x.Line < y.Line
	}
	return x.Column < y.Column
}

// DeclName gives "recv.name" or "name" for a declaration.
// declCanonical: function declarations that bear a canonical (role) name, filled by Program.roles for the program
// being analysed and removed when its analysis ends.
var declCanonical sync.Map

func DeclName(fd *ast.FuncDecl) string {
	if c, ok := declCanonical.Load(fd); ok {
		return c.(string)
	}
	if fd.Recv != nil && len(fd.Recv.List) == 1 {
		t := fd.Recv.List[0].Type
		if s, ok := t.(*ast.StarExpr); ok {
			t = s.X
		}
		if id, ok := t.(*ast.Ident); ok {
			return id.Name + "." + fd.Name.Name
		}
	}
	return fd.Name.Name
}

// ReachDecl reports whether the SSA function of a declaration is API-reachable.
func (p *Program) ReachDecl(fd *ast.FuncDecl) bool {
	f := p.fnByDecl[fd]
	return f != nil && p.Reach[f]
}

// FuncName gives a short stable name for an SSA function: pkg.recv.name or pkg.name$1.
func (p *Program) FuncName(fn *ssa.Function) string {
	if fn.Parent() == nil {
		if c, ok := p.roles().canon[fn]; ok {
			return c
		}
	}
	pk := p.PkgOf(fn)
	prefix := ""
	if pk != nil {
		prefix = pk.Name + "."
	}
	if fn.Parent() != nil {
		return p.FuncName(fn.Parent()) + "$" + strings.TrimPrefix(fn.Name(), fn.Parent().Name()+"$")
	}
	if recv := fn.Signature.Recv(); recv != nil {
		t := recv.Type()
		if pt, ok := t.(*types.Pointer); ok {
			t = pt.Elem()
		}
		if n, ok := t.(*types.Named); ok {
			if c, ok := p.roles().recv[n]; ok {
				return prefix + c + "." + fn.Name()
			}
			return prefix + n.Obj().Name() + "." + fn.Name()
		}
	}
	return prefix + fn.Name()
}
