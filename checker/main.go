package main

import (
	"encoding/json"
	"flag"
	"fmt"
	"os"
	"path/filepath"
	"sort"
	"strings"
	"time"
)

type KnownFinding struct {
	Properties   []string `json:"properties"`
	Rule         string   `json:"rule"`
	Key          string   `json:"key"`
	What         string   `json:"what"`
	FailingInput string   `json:"failing_input,omitempty"`
	Status       string   `json:"status"` // known | fixed
	Commit       string   `json:"commit,omitempty"`
}

type violationFile struct {
	Property   string     `json:"property"`
	Obligation Obligation `json:"obligation"`
	RuleDoc    string     `json:"rule_doc"`
	Repo       string     `json:"repo"`
	Tier       string     `json:"tier"`
	GoArch     string     `json:"goarch,omitempty"`
}

func main() {
	repo := flag.String("repo", "/repo", "repository root")
	prop := flag.String("prop", "", "property id (C01..C20)")
	tier := flag.String("tier", "quick", "quick|thorough")
	verif := flag.String("verif", "/verif", "verification directory")
	replay := flag.String("replay", "", "violation file to replay")
	list := flag.Bool("list", false, "list rules")
	listDoc := flag.Bool("listdoc", false, "print the rule catalogue as a markdown table")
	dump := flag.Bool("dump", false, "print every obligation")
	onlyRule := flag.String("rule", "", "run only this rule (debugging)")
	noSelf := flag.Bool("noselftest", false, "skip the mutant self-test")
	allRulesFlag := flag.Bool("allrules", false, "run every rule once and print the non-discharged obligations (development aid)")
	flag.Parse()
	if *allRulesFlag {
		res, err := analyse(*repo, allRules, LoadOpts{})
		if err != nil {
			fmt.Println("LOAD-ERROR", err)
			os.Exit(2)
		}
		known, _ := loadKnown(*verif)
		bad := 0
		for _, o := range res.Obs {
			if o.Status == Discharged || matchKnown(known, o) != nil {
				continue
			}
			bad++
			r := ruleByID(o.Rule)
			fmt.Printf("%s %s [%s] %s %s :: %s\n", o.Status, o.Rule, strings.Join(r.Props, ","), o.Pos, o.Key, o.Detail)
		}
		if os.Getenv("JMESCHECK_COUNTS") != "" {
			cnt := map[string]int{}
			for _, o := range res.Obs {
				cnt[o.Rule]++
			}
			for _, r := range allRules {
				fmt.Printf("COUNT %s %d floor=%d\n", r.ID, cnt[r.ID], r.Floor)
			}
		}
		fmt.Printf("allrules: %d obligations, %d not discharged\n", len(res.Obs), bad)
		if bad > 0 {
			os.Exit(1)
		}
		return
	}

	if *list {
		for _, r := range allRules {
			fmt.Printf("%-22s %-40s floor=%d\n", r.ID, strings.Join(r.Props, ","), r.Floor)
		}
		return
	}
	if *listDoc {
		rs := append([]*Rule{}, allRules...)
		sort.Slice(rs, func(i, j int) bool { return rs[i].ID < rs[j].ID })
		for _, r := range rs {
			fmt.Printf("| %s | %s | %s |\n", r.ID, strings.Join(r.Props, " "), r.Doc)
		}
		return
	}
	if *replay != "" {
		os.Exit(doReplay(*repo, *replay))
	}
	if *prop == "" && *onlyRule == "" {
		fmt.Fprintln(os.Stderr, "usage: jmescheck -prop Cnn [-tier quick|thorough]")
		os.Exit(2)
	}
	os.Exit(runCheck(*repo, *verif, *prop, *tier, *onlyRule, *dump, *noSelf))
}

func loadKnown(verif string) ([]KnownFinding, error) {
	b, err := os.ReadFile(filepath.Join(verif, "known_findings.json"))
	if err != nil {
		if os.IsNotExist(err) {
			return nil, nil
		}
		return nil, err
	}
	var k []KnownFinding
	if err := json.Unmarshal(b, &k); err != nil {
		return nil, err
	}
	return k, nil
}

type archResult struct {
	Arch   string
	Obs    []Obligation
	NFuncs int
	NReach int
	CGKind string
	NEdges int
}

func analyse(repo string, rules []*Rule, o LoadOpts) (*archResult, error) {
	o.RepoDir = repo
	p, err := Load(o)
	if err != nil {
		return nil, err
	}
	res := &archResult{Arch: o.GoArch, NFuncs: len(p.Funcs), CGKind: p.CGKind}
	for _, f := range p.Funcs {
		if p.Reach[f] {
			res.NReach++
		}
	}
	for _, n := range p.CG.Nodes {
		res.NEdges += len(n.Out)
	}
	programs.Store(p.SSA, p)
	defer programs.Delete(p.SSA)
	rm := p.roles()
	defer func() {
		for fn := range rm.canon {
			if fd := declOf(fn); fd != nil {
				declCanonical.Delete(fd)
			}
		}
	}()
	for _, r := range rules {
		res.Obs = append(res.Obs, runRule(p, r)...)
	}
	return res, nil
}

func runCheck(repo, verif, prop, tier, onlyRule string, dump, noSelf bool) int {
	start := time.Now()
	var rules []*Rule
	if onlyRule != "" {
		for _, id := range strings.Split(onlyRule, ",") {
			r := ruleByID(id)
			if r == nil {
				fmt.Fprintln(os.Stderr, "unknown rule", id)
				return 2
			}
			rules = append(rules, r)
		}
	} else {
		rules = rulesFor(prop)
	}
	if len(rules) == 0 {
		fmt.Fprintf(os.Stderr, "no rules registered for %s\n", prop)
		return 2
	}
	known, err := loadKnown(verif)
	if err != nil {
		fmt.Fprintln(os.Stderr, "known_findings.json:", err)
		return 2
	}

	var results []*archResult
	main, err := analyse(repo, rules, LoadOpts{VTA: tier == "thorough"})
	if err != nil {
		fmt.Fprintf(os.Stderr, "CHECK-BROKEN property=%s: %v\n", prop, err)
		writeEvidence(verif, prop, tier, start, nil, nil, nil, nil, fmt.Sprintf("could not load /repo: %v", err), nil)
		// A tree that does not load or type-check cannot be analysed; this is reported as a failure of the check.
		return 2
	}
	results = append(results, main)
	if tier == "thorough" {
		for _, arch := range []string{"386", "arm64"} {
			r, err := analyse(repo, rules, LoadOpts{GoArch: arch})
			if err != nil {
				fmt.Fprintf(os.Stderr, "CHECK-BROKEN property=%s GOARCH=%s: %v\n", prop, arch, err)
				return 2
			}
			results = append(results, r)
		}
	}

	// merge obligations across architectures by (rule,key): worst status wins
	rank := map[string]int{Discharged: 0, Undecided: 1, Violated: 2}
	merged := map[string]*Obligation{}
	var order []string
	for _, res := range results {
		for i := range res.Obs {
			o := res.Obs[i]
			k := o.Rule + "\x00" + o.Key
			if m, ok := merged[k]; ok {
				if rank[o.Status] > rank[m.Status] {
					o.Detail += " [GOARCH=" + res.Arch + "]"
					*m = o
				}
				continue
			}
			if res.Arch != "" {
				o.Detail += " [only under GOARCH=" + res.Arch + "]"
			}
			merged[k] = &o
			order = append(order, k)
		}
	}
	var obs []Obligation
	for _, k := range order {
		obs = append(obs, *merged[k])
	}

	if dump {
		for _, o := range obs {
			fmt.Printf("%-10s %-20s %-34s %s :: %s\n", o.Status, o.Rule, o.Pos, o.Key, o.Detail)
		}
	}

	// classify
	var viol, undec []Obligation
	var knownHit []KnownFinding
	for _, o := range obs {
		switch o.Status {
		case Violated:
			if kf := matchKnown(known, o); kf != nil {
				// a recorded finding is a finding of the properties it was recorded for; a rule that also serves other
				// properties does not make it one of theirs (integer division of mixed signs is outside what C05 pins)
				inScope := len(kf.Properties) == 0 || prop == ""
				for _, kp := range kf.Properties {
					inScope = inScope || kp == prop
				}
				if inScope {
					knownHit = append(knownHit, *kf)
				}
				continue
			}
			viol = append(viol, o)
		case Undecided:
			undec = append(undec, o)
		}
	}

	var selfRes *selfTestResult
	if !noSelf && onlyRule == "" {
		selfRes = runSelfTest(repo, verif, prop, tier, rules, obs)
	}

	exit := 0
	vdir := filepath.Join(verif, "evidence", "violations")
	if len(viol)+len(undec) > 0 {
		os.MkdirAll(vdir, 0o755)
	}
	n := 0
	for _, kf := range knownHit {
		fmt.Printf("KNOWN-FINDING: property=%s %s [%s %s]\n", prop, kf.What, kf.Rule, kf.Key)
	}
	ruleDoc := func(id string) string {
		if r := ruleByID(id); r != nil {
			return r.Doc
		}
		return ""
	}
	for _, o := range viol {
		n++
		path := filepath.Join(vdir, fmt.Sprintf("%s-%d.json", prop, n))
		b, _ := json.MarshalIndent(violationFile{Property: prop, Obligation: o, RuleDoc: ruleDoc(o.Rule), Repo: repo, Tier: tier}, "", " ")
		os.WriteFile(path, b, 0o644)
		fmt.Printf("VIOLATION property=%s replay=%s\n", prop, path)
		fmt.Printf("  rule=%s at %s: %s :: %s\n", o.Rule, o.Pos, o.Key, o.Detail)
		exit = 1
	}
	for _, o := range undec {
		n++
		path := filepath.Join(vdir, fmt.Sprintf("%s-%d.json", prop, n))
		b, _ := json.MarshalIndent(violationFile{Property: prop, Obligation: o, RuleDoc: ruleDoc(o.Rule), Repo: repo, Tier: tier}, "", " ")
		os.WriteFile(path, b, 0o644)
		// An obligation the rule cannot decide is reported like a violation: a rule that stops
		// understanding its construct must not pass vacuously.
		fmt.Printf("VIOLATION property=%s replay=%s\n", prop, path)
		fmt.Printf("  UNDECIDED rule=%s at %s: %s :: %s\n", o.Rule, o.Pos, o.Key, o.Detail)
		exit = 1
	}
	writeEvidence(verif, prop, tier, start, rules, results, obs, knownHit, "", selfRes)
	fmt.Printf("property=%s tier=%s rules=%d obligations=%d violated=%d undecided=%d known=%d wall=%.1fs\n",
		prop, tier, len(rules), len(obs), len(viol), len(undec), len(knownHit), time.Since(start).Seconds())
	return exit
}

func matchKnown(known []KnownFinding, o Obligation) *KnownFinding {
	for i := range known {
		k := &known[i]
		if k.Status == "known" && k.Rule == o.Rule && k.Key == o.Key {
			return k
		}
	}
	return nil
}

func doReplay(repo, path string) int {
	b, err := os.ReadFile(path)
	if err != nil {
		fmt.Fprintln(os.Stderr, err)
		return 2
	}
	var v violationFile
	if err := json.Unmarshal(b, &v); err != nil {
		fmt.Fprintln(os.Stderr, err)
		return 2
	}
	r := ruleByID(v.Obligation.Rule)
	if r == nil {
		fmt.Fprintln(os.Stderr, "unknown rule", v.Obligation.Rule)
		return 2
	}
	res, err := analyse(repo, []*Rule{r}, LoadOpts{GoArch: v.GoArch})
	if err != nil {
		fmt.Fprintln(os.Stderr, err)
		return 2
	}
	for _, o := range res.Obs {
		if o.Key == v.Obligation.Key {
			fmt.Printf("replay rule=%s key=%q at %s: %s :: %s\n", o.Rule, o.Key, o.Pos, o.Status, o.Detail)
			if o.Status != Discharged {
				fmt.Printf("VIOLATION property=%s replay=%s\n", v.Property, path)
				return 1
			}
			return 0
		}
	}
	fmt.Printf("replay rule=%s key=%q: construct no longer present (rule found %d instances)\n", r.ID, v.Obligation.Key, len(res.Obs))
	return 0
}

type evidence struct {
	PropertyID  string         `json:"property_id"`
	Tier        string         `json:"tier"`
	Seed        int            `json:"seed"`
	Level       string         `json:"level"`
	Coverage    map[string]any `json:"coverage"`
	Assumptions []string       `json:"assumptions"`
	WallS       float64        `json:"wall_s"`
	Violations  int            `json:"violations"`
}

func writeEvidence(verif, prop, tier string, start time.Time, rules []*Rule, results []*archResult, obs []Obligation, knownHit []KnownFinding, broken string, self *selfTestResult) {
	if prop == "" {
		return
	}
	seed := 0
	fmt.Sscanf(os.Getenv("VERIF_SEED"), "%d", &seed)
	cov := map[string]any{}
	perRule := map[string]map[string]int{}
	distinct := map[string]bool{}
	nviol := 0
	var samples []any
	perRuleSample := map[string]int{}
	for _, o := range obs {
		m := perRule[o.Rule]
		if m == nil {
			m = map[string]int{}
			perRule[o.Rule] = m
		}
		m[o.Status]++
		if o.NonTrivial {
			distinct[o.Rule+"\x00"+o.Key] = true
		}
		if o.Status != Discharged {
			nviol++
		}
		if perRuleSample[o.Rule] < 3 || o.Status != Discharged {
			perRuleSample[o.Rule]++
			samples = append(samples, map[string]string{"rule": o.Rule, "construct": o.Key, "at": o.Pos, "status": o.Status, "argument": o.Detail})
		}
	}
	var ruleDocs []map[string]any
	for _, r := range rules {
		ruleDocs = append(ruleDocs, map[string]any{"rule": r.ID, "what": r.Doc, "instances": perRule[r.ID], "floor": r.Floor})
	}
	expl := "Static analysis of /repo's current source (go/packages + go/types + go/ssa + call graph; nothing from the library is executed). " +
		"The property is decided only as far as the listed structural rules reach: each rule enumerates its constructs in the API-reachable code, " +
		"and every instance must be discharged; an instance the rule cannot decide fails the check. See DESIGN.md for what is not covered."
	if broken != "" {
		expl = "CHECK BROKEN: " + broken
	}
	cov["explanation"] = expl
	cov["evaluations"] = len(obs)
	cov["distinct_nontrivial"] = len(distinct)
	cov["obligations"] = len(obs)
	cov["discharged"] = len(obs) - nviol
	cov["rule"] = "one obligation per (rule, construct); non-trivial = needed a dominance/dataflow/table argument rather than a type or syntax fact alone; distinct by rule+construct key"
	if samples == nil {
		samples = []any{}
	}
	cov["samples"] = samples
	cov["rules"] = ruleDocs
	var archs []map[string]any
	for _, r := range results {
		a := r.Arch
		if a == "" {
			a = "host"
		}
		archs = append(archs, map[string]any{"goarch": a, "source_functions": r.NFuncs, "api_reachable_functions": r.NReach, "callgraph": r.CGKind, "callgraph_edges": r.NEdges, "obligations": len(r.Obs)})
	}
	cov["analysed"] = archs
	var kf []string
	for _, k := range knownHit {
		kf = append(kf, k.Rule+" "+k.Key+": "+k.What)
	}
	sort.Strings(kf)
	cov["known_findings"] = kf
	if self != nil {
		cov["selftest"] = self
	}
	cov["checker_cmd"] = fmt.Sprintf("/verif/check %s %s", prop, tier)
	ev := evidence{PropertyID: prop, Tier: tier, Seed: seed, Level: "other", Coverage: cov,
		Assumptions: []string{
			"go/types, go/ssa and the call-graph construction of golang.org/x/tools v0.50.0 are correct",
			"github.com/woodsbury/decimal128 and the Go standard library behave as documented (their bodies are not analysed)",
			"the specification-side tables embedded in the checker (DESIGN.md Appendix D) transcribe the JMESPath Community specification correctly",
		},
		WallS: time.Since(start).Seconds(), Violations: nviol - len(knownHit)}
	if ev.Violations < 0 {
		ev.Violations = 0
	}
	dir := filepath.Join(verif, "evidence")
	os.MkdirAll(dir, 0o755)
	b, _ := json.MarshalIndent(ev, "", " ")
	os.WriteFile(filepath.Join(dir, prop+".json"), b, 0o644)
}
