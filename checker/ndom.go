package main

// ndom.go: the numeric domain of the abstract interpreter. An operator helper is run on symbolic operands; the numeric
// coercions (identified by signature) return an opaque converted value on their success path, library calls (decimal128,
// math) are uninterpreted functions of their arguments, and the repository's own helpers are inlined. The rule reads the
// expression each successful path returns, e.g. Add(dec(x),dec(y)) or math.Floor((fp0(x,y) / fp1(x,y))).

import (
	"fmt"
	"go/constant"
	"go/token"
	"go/types"
	"sort"
	"strings"

	"golang.org/x/tools/go/ssa"
)

type numDom struct {
	p    *Program
	e    *Engine
	x, y AV
}

func (d *numDom) Load(e *Engine, st *State, p avPtr, t types.Type) AV {
	if strings.HasPrefix(p.o.label, "global:") {
		// package-level error sentinels: opaque and non-nil; anything else not set by the initialiser is zero
		if _, isIface := t.Underlying().(*types.Interface); isIface {
			return avSym{tag: p.o.label + p.path, nonNil: true}
		}
		return zeroAV(t)
	}
	return zeroAV(t)
}

func (d *numDom) Call(e *Engine, st *State, site ssa.CallInstruction, callee *ssa.Function, args []AV, depth int) ([]CallOut, bool) {
	if callee == nil {
		return nil, false
	}
	sig := callee.Signature
	nres := sig.Results().Len()
	for _, role := range []string{"toDecimal", "toFloat", "toFloatPair", "toInt"} {
		if !isRole(callee, role) {
			continue
		}
		okRes := make([]AV, nres)
		badRes := make([]AV, nres)
		for i := 0; i < nres; i++ {
			rt := sig.Results().At(i).Type()
			if isBoolType(rt) {
				okRes[i] = avConst{constant.MakeBool(true)}
				badRes[i] = avConst{constant.MakeBool(false)}
				if role == "toInt" && i == 1 {
					// (n, isNumber, isInteger): a non-integral number is a number
					badRes[i] = avSym{id: e.fresh(), tag: "isnum"}
				}
				continue
			}
			tag := map[string]string{"toDecimal": "dec", "toFloat": "flt", "toFloatPair": fmt.Sprintf("fp%d", i), "toInt": "int"}[role]
			okRes[i] = avSym{tag: tag, payload: avTuple(args)}
			badRes[i] = zeroAV(rt)
		}
		bad := st.clone()
		bad.event(Event{Kind: "coerce-failed", Fn: callee, Args: args, Res: badRes})
		st.event(Event{Kind: "coerced", Fn: callee, Args: args})
		return []CallOut{{St: st, Res: okRes}, {St: bad, Res: badRes}}, true
	}
	if d.p.IsRepo(callee) {
		return nil, false
	}
	// library call: uninterpreted function of its arguments; boolean results are memoised predicates
	name := callee.Name()
	for _, suf := range []string{"$thunk", "$bound"} {
		name = strings.TrimSuffix(name, suf) // method expressions and method values stored in tables
	}
	if callee.Pkg != nil && callee.Signature.Recv() == nil {
		name = callee.Pkg.Pkg.Name() + "." + name
	}
	res := make([]AV, nres)
	for i := range res {
		tag := "ext:" + name
		if nres > 1 {
			tag = fmt.Sprintf("ext:%s.%d", name, i)
		}
		res[i] = avSym{tag: tag, payload: avTuple(args)}
	}
	return []CallOut{{St: st, Res: res}}, true
}

func (d *numDom) render(v AV) string {
	if v != nil {
		if avKey(v) == avKey(d.x) {
			return "x"
		}
		if avKey(v) == avKey(d.y) {
			return "y"
		}
	}
	switch x := v.(type) {
	case nil:
		return "?"
	case avNil:
		return "nil"
	case avConst:
		return x.v.ExactString()
	case avIface:
		n := dynName(x)
		if strings.HasSuffix(n, "Error") {
			return "error:" + n
		}
		return d.render(x.v)
	case avBin:
		return "(" + d.render(x.x) + " " + x.op.String() + " " + d.render(x.y) + ")"
	case avCmp:
		return "(" + d.render(x.x) + " " + x.op.String() + " " + d.render(x.y) + ")"
	case avNot:
		return "!" + d.render(x.x)
	case avSym:
		var as []string
		if t, ok := x.payload.(avTuple); ok {
			for _, a := range t {
				as = append(as, d.render(a))
			}
		} else if x.payload != nil {
			as = append(as, d.render(x.payload))
		}
		tag := strings.TrimPrefix(x.tag, "ext:")
		if len(as) > 0 || strings.HasPrefix(x.tag, "ext:") {
			return tag + "(" + strings.Join(as, ",") + ")"
		}
		return tag
	}
	return avKey(v)
}

// runBinary enumerates fn(x, y) and returns the rendered results of its successful paths.
func (d *numDom) runBinary(fn *ssa.Function) (map[string]token.Pos, string) {
	e := newEngine(d.p, d)
	d.e = e
	e.MaxVisits = 2
	d.x = avSym{id: e.fresh(), tag: "x"}
	d.y = avSym{id: e.fresh(), tag: "y"}
	st := e.WithInit(fn.Pkg, newState())
	args := []AV{d.x, d.y}
	if len(fn.Params) != 2 {
		return nil, fmt.Sprintf("%s does not take two operands", fn.Name())
	}
	outs := e.Run(fn, args, st)
	if e.Aborted != "" {
		return nil, e.Aborted
	}
	res := map[string]token.Pos{}
	for _, o := range outs {
		if o.Panic || o.Cut || len(o.Res) == 0 {
			continue
		}
		if len(o.Res) == 2 && !isDefNil(o.Res[1]) {
			continue // error path
		}
		// a path is numeric when both operands were coerced to decimals or the pair to floats
		nDec, nFP := 0, 0
		for _, ev := range o.St.Trace {
			if ev.Kind == "coerced" {
				if isRole(ev.Fn, "toDecimal") {
					nDec++
				}
				if isRole(ev.Fn, "toFloatPair") {
					nFP++
				}
			}
		}
		s := d.render(o.Res[0])
		if nDec >= 2 || nFP >= 1 {
			s = "numeric: " + s
		}
		res[s] = o.Ret.Pos()
	}
	return res, ""
}

func sortedKeysPos(m map[string]token.Pos) []string {
	var out []string
	for k := range m {
		out = append(out, k)
	}
	sort.Strings(out)
	return out
}
