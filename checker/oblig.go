package main

import (
	"fmt"
	"go/token"
	"os"
	"sort"
)

const (
	Discharged = "discharged"
	Violated   = "violated"
	Undecided  = "undecided"
)

// Obligation is one instance of a rule on one construct of the repository.
type Obligation struct {
	Rule   string `json:"rule"`
	Key    string `json:"key"` // rule-relative construct identity, never a line number
	Pos    string `json:"pos"`
	Status string `json:"status"`
	Detail string `json:"detail,omitempty"`
	// NonTrivial marks obligations whose discharge needed a path, dataflow or table argument.
	NonTrivial bool `json:"nontrivial,omitempty"`
	pos        token.Pos
}

// Rule is one repository-specific static rule.
type Rule struct {
	ID    string
	Props []string
	Doc   string
	// Floor is the minimum number of instances the rule must find; fewer means the checker went blind.
	Floor int
	Run   func(p *Program, r *Reporter)
}

type Reporter struct {
	p    *Program
	rule *Rule
	obs  []Obligation
	seen map[string]int
}

func (r *Reporter) add(status string, pos token.Pos, key, detail string, nontrivial bool) {
	if r.seen == nil {
		r.seen = map[string]int{}
	}
	r.seen[key]++
	if n := r.seen[key]; n > 1 {
		key = fmt.Sprintf("%s#%d", key, n)
	}
	r.obs = append(r.obs, Obligation{Rule: r.rule.ID, Key: key, Pos: r.p.Pos(pos), Status: status, Detail: detail, NonTrivial: nontrivial, pos: pos})
}

// OK records a discharged obligation that needed an argument (path, dataflow, table).
func (r *Reporter) OK(pos token.Pos, key, detail string) { r.add(Discharged, pos, key, detail, true) }

// Trivial records an obligation discharged by type or syntax alone.
func (r *Reporter) Trivial(pos token.Pos, key, detail string) {
	r.add(Discharged, pos, key, detail, false)
}

func (r *Reporter) Bad(pos token.Pos, key, detail string) { r.add(Violated, pos, key, detail, true) }

func (r *Reporter) Unknown(pos token.Pos, key, detail string) {
	r.add(Undecided, pos, key, detail, true)
}

func (r *Reporter) Check(ok bool, pos token.Pos, key, good, bad string) {
	if ok {
		r.OK(pos, key, good)
	} else {
		r.Bad(pos, key, bad)
	}
}

var allRules []*Rule

func register(r *Rule) { allRules = append(allRules, r) }

func rulesFor(prop string) []*Rule {
	var out []*Rule
	for _, r := range allRules {
		for _, p := range r.Props {
			if p == prop {
				out = append(out, r)
			}
		}
	}
	sort.Slice(out, func(i, j int) bool { return out[i].ID < out[j].ID })
	return out
}

func ruleByID(id string) *Rule {
	for _, r := range allRules {
		if r.ID == id {
			return r
		}
	}
	return nil
}

// runRule executes one rule, converting panics into an undecided obligation (a checker fault fails the check).
func runRule(p *Program, rule *Rule) (obs []Obligation) {
	rep := &Reporter{p: p, rule: rule}
	func() {
		defer func() {
			if e := recover(); e != nil {
				if os.Getenv("JMESCHECK_PANIC") != "" {
					panic(e)
				}
				rep.Unknown(token.NoPos, "rule-panic", fmt.Sprintf("rule panicked: %v", e))
			}
		}()
		rule.Run(p, rep)
	}()
	if len(rep.obs) < rule.Floor {
		rep.Unknown(token.NoPos, "instance-floor", fmt.Sprintf("found %d instances, expected at least %d: the rule no longer recognises its constructs", len(rep.obs), rule.Floor))
	}
	return rep.obs
}
