package main

// roles.go: canonical names. Tables and obligation keys of the rules refer to the functions of the repository by a
// canonical name; which function bears a canonical name is decided by what the function *is* (its role), not by how it
// is spelled today:
//
//   - the helper the dispatcher hands node type XNode to bears the name the convention gives that node's helper
//     (ProjectArrayNode -> evaluator.evaluator.projectArray, EqualNode/NotEqualNode -> evaluator.equal, ...);
//   - the truth predicate of the not case is evaluator.isTrue, the number test of unary plus evaluator.isNumber, the
//     node predicate guarding the string bypass evaluator.isSliceNode;
//   - the dispatcher is evaluator.evaluator.evaluate, the scope methods evaluator.variableScope.get / .new, the numeric
//     coercions (by signature) evaluator.toInt / toDecimal / toFloat / toFloatPair;
//   - the grammar functions (by inferred role) parser.parser.expression / primaryExpression / infix / projection /
//     index / filter / selectArray / selectObject / let / function / parse, parser.precedence, parser.isProjectNode,
//     the literal decoders parser.parseJSONLiteral / parseQuotedIdentifier / parseStringLiteral;
//   - lexer.Lexer.Next and lexer.Lexer.decodeRune.
//
// On the pinned tree every canonical name equals the actual one. After a rename the rules keep working and their keys
// (and the known-findings file) stay valid.

import (
	"go/types"
	"sort"
	"strings"
	"unicode"

	"golang.org/x/tools/go/ssa"
)

type roleMap struct {
	canon  map[*ssa.Function]string // fn -> canonical full name (FuncName format)
	byName map[string]*ssa.Function
	recv   map[*types.Named]string // receiver type -> canonical type name
}

func lowerFirst(s string) string {
	r := []rune(s)
	if len(r) > 0 {
		r[0] = unicode.ToLower(r[0])
	}
	return string(r)
}

func (p *Program) roles() *roleMap {
	if p.memoRoleMap != nil {
		return p.memoRoleMap
	}
	rm := &roleMap{canon: map[*ssa.Function]string{}, byName: map[string]*ssa.Function{}, recv: map[*types.Named]string{}}
	p.memoRoleMap = rm // set first: role inference itself never asks for canonical names
	named := func(t types.Type) *types.Named {
		if pt, ok := t.(*types.Pointer); ok {
			t = pt.Elem()
		}
		n, _ := t.(*types.Named)
		return n
	}
	set := func(fn *ssa.Function, pkg, recv, name string) {
		if fn == nil {
			return
		}
		for fn.Origin() != nil && fn.Origin() != fn {
			fn = fn.Origin()
		}
		if _, dup := rm.canon[fn]; dup {
			return
		}
		full := pkg + "."
		if fn.Signature.Recv() != nil {
			if recv == "" {
				if n := named(fn.Signature.Recv().Type()); n != nil {
					recv = n.Obj().Name()
					if c, ok := rm.recv[n]; ok {
						recv = c
					}
				}
			}
			full += recv + "."
		}
		full += name
		if _, taken := rm.byName[full]; taken {
			return
		}
		rm.canon[fn] = full
		rm.byName[full] = fn
		if fd := declOf(fn); fd != nil {
			declCanonical.Store(fd, strings.TrimPrefix(full, pkg+"."))
		}
	}
	// --- evaluator
	if p.Eval != nil {
		d := newEvalDom(p)
		if d.why == "" {
			if n := named(d.scopeT); n != nil {
				rm.recv[n] = "variableScope"
			}
			if d.evalFn.Signature.Recv() != nil {
				if n := named(d.evalFn.Signature.Recv().Type()); n != nil {
					rm.recv[n] = "evaluator"
				}
			}
			set(d.evalFn, "evaluator", "", "evaluate")
			ms := p.SSA.MethodSets.MethodSet(d.scopeT)
			for i := 0; i < ms.Len(); i++ {
				fn := p.SSA.MethodValue(ms.At(i))
				if fn == nil || len(fn.Blocks) == 0 {
					continue
				}
				sig := fn.Signature
				switch {
				case sig.Results().Len() == 1 && types.Identical(sig.Results().At(0).Type(), d.scopeT):
					set(fn, "evaluator", "variableScope", "new")
				case sig.Params().Len() == 1 && sig.Results().Len() == 2 && isBoolType(sig.Results().At(1).Type()):
					set(fn, "evaluator", "variableScope", "get")
				}
			}
			names, forms := sortedForms(p)
			// predicate functions by name, to resolve the predicate symbols of the paths
			preds := map[string]*ssa.Function{}
			for _, f := range p.Funcs {
				if f.Pkg == d.pkg && f.Parent() == nil && f.Signature.Results().Len() == 1 && isBoolType(f.Signature.Results().At(0).Type()) {
					preds[f.Name()] = f
				}
			}
			predOf := func(s string) *ssa.Function {
				s = strings.TrimPrefix(s, "!")
				if i := strings.Index(s, "("); i > 0 {
					return preds[s[:i]]
				}
				return nil
			}
			for _, n := range names {
				base, _ := nodeBase(n)
				outs, e := d.run(forms[n])
				if e.Aborted != "" {
					continue
				}
				for _, o := range outs {
					if o.Panic || o.Cut {
						continue
					}
					pf := d.facts(o)
					if !(pf.Err == "" || strings.HasPrefix(pf.Err, "h")) {
						continue
					}
					switch {
					case n == "NotNode":
						set(predOf(pf.Result), "evaluator", "", "isTrue")
					case n == "AssertNumberNode":
						for _, c := range pf.Conds {
							set(predOf(c), "evaluator", "", "isNumber")
						}
					case n == "EqualNode" && len(pf.Calls) == 0:
						set(predOf(pf.Result), "evaluator", "", "equal")
					case n == "ProjectArrayNode" && len(pf.Calls) == 0:
						for _, c := range pf.Conds {
							if strings.HasSuffix(c, "(node.Left)") {
								set(predOf(c), "evaluator", "", "isSliceNode")
							}
						}
					}
					if inlineNodes[base] || len(pf.Calls) != 1 {
						continue
					}
					set(pf.Calls[0].Fn, "evaluator", "", expectedHelper(base))
				}
			}
		}
		nr := numericRoles(p)
		set(nr.toInt, "evaluator", "", "toInt")
		set(nr.toDecimal, "evaluator", "", "toDecimal")
		set(nr.toFloat, "evaluator", "", "toFloat")
		set(nr.toFloatPair, "evaluator", "", "toFloatPair")
	}
	// --- parser
	if p.Parser != nil {
		d := newParserDom(p)
		if d.why == "" {
			if d.ptype != nil {
				rm.recv[d.ptype] = "parser"
			}
			rl := d.inferRoles()
			set(d.exprFn, "parser", "", "expression")
			set(rl.primary, "parser", "", "primaryExpression")
			set(rl.infix, "parser", "", "infix")
			set(rl.proj, "parser", "", "projection")
			set(rl.index, "parser", "", "index")
			set(rl.filter, "parser", "", "filter")
			set(rl.selArr, "parser", "", "selectArray")
			set(rl.selObj, "parser", "", "selectObject")
			set(rl.let, "parser", "", "let")
			set(rl.function, "parser", "", "function")
			set(rl.top, "parser", "", "parse")
			set(d.precFn, "parser", "", "precedence")
			// the node predicate: the one func(Node) bool of the package that the grammar functions call
			var cands []*ssa.Function
			for _, f := range p.Funcs {
				sig := f.Signature
				if f.Pkg != nil && f.Pkg.Pkg == p.Parser.Types && f.Parent() == nil && sig.Recv() == nil && sig.Params().Len() == 1 && sig.Results().Len() == 1 &&
					isNodeType(sig.Params().At(0).Type()) && isBoolType(sig.Results().At(0).Type()) {
					cands = append(cands, f)
				}
			}
			if len(cands) == 1 {
				set(cands[0], "parser", "", "isProjectNode")
			}
			lh := literalHelpers(p)
			set(lh["json"], "parser", "", "parseJSONLiteral")
			set(lh["quoted"], "parser", "", "parseQuotedIdentifier")
			set(lh["string"], "parser", "", "parseStringLiteral")
		}
	}
	// --- lexer
	if p.Lexer != nil {
		d := newLexDom(p)
		if d.why == "" {
			if d.lexerT != nil {
				rm.recv[d.lexerT] = "Lexer"
			}
			set(d.decodeFn, "lexer", "", "decodeRune")
			set(d.nextFn(), "lexer", "", "Next")
		}
	}
	return rm
}

// RoleFunc resolves a canonical name ("evaluator", "", "equal") to the function that plays that role today.
func (p *Program) RoleFunc(pkgName, recv, name string) *ssa.Function {
	full := pkgName + "."
	if recv != "" {
		full += recv + "."
	}
	return p.roles().byName[full+name]
}

func sortedRoleNames(rm *roleMap) []string {
	var out []string
	for n := range rm.byName {
		out = append(out, n)
	}
	sort.Strings(out)
	return out
}
