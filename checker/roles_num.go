package main

// roles_num.go: the numeric coercion helpers of the evaluator, identified by signature (never by name):
//
//	toDecimal   func(any) (decimal128.Decimal, bool)
//	toFloat     func(any) (float64, bool)
//	toFloatPair func(any, any) (float64, float64, bool)
//	toInt       func(any) (int, bool, ...bool)
//
// and the helpers that exist only for them (every static caller is already in the set).

import (
	"go/ast"
	"go/types"

	"golang.org/x/tools/go/ssa"
)

type numRoles struct {
	toDecimal, toFloat, toFloatPair, toInt *ssa.Function
	callers                                map[*ssa.Function]map[*ssa.Function]bool
	why                                    string
}

func numericRoles(p *Program) *numRoles {
	if p.memoNumRoles != nil {
		return p.memoNumRoles
	}
	nr := &numRoles{callers: map[*ssa.Function]map[*ssa.Function]bool{}}
	p.memoNumRoles = nr
	pkg := p.SSA.Package(p.Eval.Types)
	if pkg == nil {
		nr.why = "evaluator package has no SSA form"
		return nr
	}
	isFloat64 := func(t types.Type) bool {
		b, ok := t.Underlying().(*types.Basic)
		return ok && b.Kind() == types.Float64
	}
	amb := func(slot **ssa.Function, fn *ssa.Function, what string) {
		if *slot != nil {
			nr.why = "two functions have the signature of " + what + ": " + (*slot).Name() + " and " + fn.Name()
			return
		}
		*slot = fn
	}
	for _, fn := range p.Funcs {
		if fn.Pkg != pkg {
			continue
		}
		for _, c := range staticCallees(fn) {
			if c.Pkg == pkg {
				if nr.callers[c] == nil {
					nr.callers[c] = map[*ssa.Function]bool{}
				}
				root := fn
				for root.Parent() != nil {
					root = root.Parent()
				}
				nr.callers[c][root] = true
			}
		}
		if fn.Parent() != nil || fn.Signature.Recv() != nil {
			continue
		}
		sig := fn.Signature
		np, nres := sig.Params().Len(), sig.Results().Len()
		allAny := np > 0
		for i := 0; i < np; i++ {
			if !isAnyType(sig.Params().At(i).Type()) {
				allAny = false
			}
		}
		if !allAny {
			continue
		}
		switch {
		case np == 1 && nres == 2 && isDecimal(sig.Results().At(0).Type()) && isBoolType(sig.Results().At(1).Type()):
			amb(&nr.toDecimal, fn, "the decimal coercion")
		case np == 1 && nres == 2 && isFloat64(sig.Results().At(0).Type()) && isBoolType(sig.Results().At(1).Type()):
			amb(&nr.toFloat, fn, "the float coercion")
		case np == 2 && nres == 3 && isFloat64(sig.Results().At(0).Type()) && isFloat64(sig.Results().At(1).Type()) && isBoolType(sig.Results().At(2).Type()):
			amb(&nr.toFloatPair, fn, "the float pair coercion")
		case np == 1 && nres >= 2 && isIntType(sig.Results().At(0).Type()) && isBoolType(sig.Results().At(1).Type()):
			amb(&nr.toInt, fn, "the integer-argument coercion")
		}
	}
	if nr.why == "" {
		for what, fn := range map[string]*ssa.Function{"decimal coercion func(any) (Decimal, bool)": nr.toDecimal, "integer-argument coercion func(any) (int, bool, ...)": nr.toInt} {
			if fn == nil {
				nr.why = "no function with the signature of the " + what
			}
		}
	}
	return nr
}

// onlyFor reports whether fn is root or a helper all of whose callers (transitively) are.
func (nr *numRoles) onlyFor(fn, root *ssa.Function) bool {
	if root == nil {
		return false
	}
	seen := map[*ssa.Function]bool{}
	var ok func(f *ssa.Function) bool
	ok = func(f *ssa.Function) bool {
		for f.Parent() != nil {
			f = f.Parent()
		}
		if f == root {
			return true
		}
		if seen[f] {
			return true
		}
		seen[f] = true
		cs := nr.callers[f]
		if len(cs) == 0 {
			return false
		}
		for c := range cs {
			if !ok(c) {
				return false
			}
		}
		return true
	}
	return ok(fn)
}

func (nr *numRoles) isCoercion(fn *ssa.Function) bool {
	return fn != nil && (fn == nr.toDecimal || fn == nr.toFloat || fn == nr.toFloatPair || fn == nr.toInt)
}

// declOf returns the syntax of a function.
func declOf(fn *ssa.Function) *ast.FuncDecl {
	if fn == nil {
		return nil
	}
	fd, _ := fn.Syntax().(*ast.FuncDecl)
	return fd
}
