package main

import (
	"fmt"
	"go/ast"
	"go/constant"
	"go/token"
	"go/types"
	"sort"
	"strings"

	"golang.org/x/tools/go/packages"
	"golang.org/x/tools/go/ssa"
)

func init() {
	register(&Rule{ID: "A-ERR-IS", Props: []string{"C08"}, Floor: 8,
		Doc: "every error type of the root package matches exactly one exported sentinel in its Is method and has no Unwrap; every internal evaluator error type matches at most one internal sentinel",
		Run: ruleAErrIs})
	register(&Rule{ID: "A-ERRMAP", Props: []string{"C08", "C04", "C03", "C05", "C02", "C19", "C09", "C13"}, Floor: 7,
		Doc: "every concrete error type that can leave parser.Parse / evaluator.Evaluate is pushed through the decision chain of parseError / evaluateError (type assertions and errors.Is tests, in order, using the internal Is methods); the resulting public sentinel must be the category the specification names for that fault; wrappers with Unwrap may only wrap errors of library calls",
		Run: ruleAErrMap})
	register(&Rule{ID: "A-NIL-RESULT", Props: []string{"C08"}, Floor: 2,
		Doc: "in the API functions every return carrying a non-nil error carries the nil constant as result",
		Run: ruleANilResult})
	register(&Rule{ID: "A-API-SHAPE", Props: []string{"C08", "C06"}, Floor: 3,
		Doc: "Search/Compile/MustCompile pass their expression parameter to parser.Parse on every path before returning; evaluation happens only under the nil-error edge of Parse; results come only from evaluator.Evaluate(node, data); errors are routed through parseError / evaluateError; MustCompile panics exactly on the Parse error; Parse never sees the data",
		Run: ruleAAPIShape})
	register(&Rule{ID: "A-PANIC", Props: []string{"C03", "C06"}, Floor: 1,
		Doc: "API-reachable code contains no explicit panic except MustCompile's, no call to a Must* function, and every call to a decimal128 method documented to panic on NaN/Inf (Int, Int32, Int64, Uint32, Uint64, Float, Rat, Sign, Payload) is dominated by the false edge of IsNaN (and IsInf where needed) on the same value",
		Run: ruleAPanic})
}

// isMethodSentinel extracts `return target == Sentinel` from an Is method; "" if the body has another shape.
func isMethodSentinels(pk *packages.Package, fd *ast.FuncDecl) ([]string, bool) {
	if fd.Body == nil || len(fd.Body.List) != 1 || fd.Type.Params == nil || len(fd.Type.Params.List) != 1 {
		return nil, false
	}
	ret, ok := fd.Body.List[0].(*ast.ReturnStmt)
	if !ok || len(ret.Results) != 1 {
		return nil, false
	}
	var out []string
	okAll := true
	var walk func(e ast.Expr)
	walk = func(e ast.Expr) {
		be, ok := ast.Unparen(e).(*ast.BinaryExpr)
		if !ok {
			okAll = false
			return
		}
		switch be.Op {
		case token.LOR:
			walk(be.X)
			walk(be.Y)
		case token.EQL:
			var s ast.Expr
			if id, ok := be.X.(*ast.Ident); ok && pk.TypesInfo.Uses[id] != nil && isParamOf(pk, id, fd) {
				s = be.Y
			} else if id, ok := be.Y.(*ast.Ident); ok && isParamOf(pk, id, fd) {
				s = be.X
			} else {
				okAll = false
				return
			}
			name := ""
			switch x := ast.Unparen(s).(type) {
			case *ast.Ident:
				name = x.Name
				if _, isVar := pk.TypesInfo.Uses[x].(*types.Var); !isVar {
					okAll = false
				}
			case *ast.SelectorExpr:
				name = x.Sel.Name
			default:
				okAll = false
			}
			out = append(out, name)
		default:
			okAll = false
		}
	}
	walk(ret.Results[0])
	return out, okAll
}

func isParamOf(pk *packages.Package, id *ast.Ident, fd *ast.FuncDecl) bool {
	o := pk.TypesInfo.Uses[id]
	if o == nil {
		return false
	}
	for _, f := range fd.Type.Params.List {
		for _, n := range f.Names {
			if pk.TypesInfo.Defs[n] == o {
				return true
			}
		}
	}
	return false
}

// errorTypes lists named types of pk whose pointer (or value) implements error, with their methods.
type errTypeInfo struct {
	name      string
	named     *types.Named
	isDecl    *ast.FuncDecl
	unwrap    *ast.FuncDecl
	sentinels []string
	isOK      bool
	pos       token.Pos
}

func errorTypesOf(p *Program, pk *packages.Package) []*errTypeInfo {
	errIface := types.Universe.Lookup("error").Type().Underlying().(*types.Interface)
	var out []*errTypeInfo
	scope := pk.Types.Scope()
	for _, n := range scope.Names() {
		tn, ok := scope.Lookup(n).(*types.TypeName)
		if !ok {
			continue
		}
		nt, ok := tn.Type().(*types.Named)
		if !ok {
			continue
		}
		if _, isIface := nt.Underlying().(*types.Interface); isIface {
			continue
		}
		if !types.Implements(types.NewPointer(nt), errIface) && !types.Implements(nt, errIface) {
			continue
		}
		ei := &errTypeInfo{name: n, named: nt, pos: tn.Pos()}
		ei.isDecl = p.FuncDecl(pk, n, "Is")
		ei.unwrap = p.FuncDecl(pk, n, "Unwrap")
		if ei.isDecl != nil {
			ei.sentinels, ei.isOK = isMethodSentinels(pk, ei.isDecl)
		}
		out = append(out, ei)
	}
	return out
}

func ruleAErrIs(p *Program, r *Reporter) {
	sentinels := exportedSentinels(p)
	if len(sentinels) == 0 {
		r.Unknown(token.NoPos, "exported sentinels", "no exported Err* variable of type error in the root package")
		return
	}
	used := map[string][]string{}
	// every public error type: no Unwrap; matches exactly one exported sentinel (by interpreting errors.Is on a value of the type)
	for _, ei := range errorTypesOf(p, p.Root) {
		key := "jmespath." + ei.name
		if ei.unwrap != nil {
			r.Bad(ei.unwrap.Pos(), key, "public error type has an Unwrap method: errors.Is could match a second category through the wrapped error")
			continue
		}
		obj, _ := p.Root.Types.Scope().Lookup(ei.name).(*types.TypeName)
		if obj == nil {
			continue
		}
		d, e := newErrDom(p)
		st := d.base.clone()
		var val AV
		var dyn types.Type = types.NewPointer(obj.Type())
		if ms := p.SSA.MethodSets.MethodSet(obj.Type()); ms.Lookup(nil, "Error") != nil {
			dyn = obj.Type()
			val = avIface{dyn: dyn, v: avSym{id: e.fresh(), tag: "errval"}}
		} else {
			val = avIface{dyn: dyn, v: avPtr{e.NewObj("err", obj.Type()), ""}}
		}
		var yes []string
		undecided := false
		for _, g := range sentinels {
			tv, found := st.load(avPtr{e.globalObj(g), ""})
			if !found {
				tv = d.Load(e, st, avPtr{e.globalObj(g), ""}, derefType(g.Type()))
			}
			res := d.errorsIs(e, st, val, tv, 0)
			if c, ok := res.(avConst); ok {
				if constant.BoolVal(c.v) {
					yes = append(yes, g.Name())
				}
			} else {
				undecided = true
			}
		}
		switch {
		case undecided:
			r.Trivial(ei.pos, key, "the category is carried by the value (a field), not by the type: decided per mapped error by A-ERRMAP")
		case len(yes) == 0:
			r.Bad(ei.pos, key, "public error type matches none of the exported categories under errors.Is")
		case len(yes) > 1:
			r.Bad(ei.pos, key, "errors.Is matches "+fmt.Sprint(len(yes))+" sentinels ("+strings.Join(yes, ", ")+"); the contract is exactly one")
		default:
			used[yes[0]] = append(used[yes[0]], ei.name)
			r.OK(ei.pos, key, "errors.Is matches exactly "+yes[0])
		}
	}
	// every exported sentinel is the category of something the mappers can return
	parseM, evalM := errorMappers(p)
	collect := func(mappers []*ssa.Function, pkgs ...*packages.Package) {
		seen := map[string]bool{}
		for _, fn := range p.ReachFuncs(pkgs...) {
			for _, b := range fn.Blocks {
				for _, in := range b.Instrs {
					n := ""
					switch x := in.(type) {
					case *ssa.MakeInterface:
						if isErrorType(x.Type()) {
							n = typeShort(x.X.Type())
						}
					case *ssa.UnOp:
						if g, ok := x.X.(*ssa.Global); ok && x.Op == token.MUL && isErrorType(x.Type()) && g.Pkg != nil && usedAsValue(x) {
							n = g.Pkg.Pkg.Name() + "." + g.Name()
						}
					}
					if n == "" || seen[n] {
						continue
					}
					seen[n] = true
					for _, m := range mappers {
						if _, cats, why := classifyError(p, m, n); why == "" {
							for _, c := range cats {
								used[c] = append(used[c], n)
							}
						}
					}
				}
			}
		}
	}
	collect(parseM, p.Lexer, p.Parser)
	collect(evalM, p.Eval)
	for _, g := range sentinels {
		n := g.Name()
		if len(used[n]) == 0 {
			r.Bad(g.Pos(), "sentinel "+n, "exported sentinel is the category of no error the library can return")
		} else {
			r.Trivial(g.Pos(), "sentinel "+n, "category of "+strings.Join(uniqStrings(used[n]), ", "))
		}
	}
	for _, ei := range errorTypesOf(p, p.Eval) {
		key := "evaluator." + ei.name
		switch {
		case ei.isDecl == nil:
			r.Trivial(ei.pos, key, "no Is method of its own (category decided by A-ERRMAP)")
		case !ei.isOK:
			r.Trivial(ei.isDecl.Pos(), key, "Is method of another form (category decided by A-ERRMAP)")
		case len(ei.sentinels) != 1:
			r.Bad(ei.isDecl.Pos(), key, "Is matches several internal sentinels: "+strings.Join(ei.sentinels, ", "))
		default:
			r.OK(ei.isDecl.Pos(), key, "Is matches exactly "+ei.sentinels[0])
		}
	}
}

func uniqStrings(in []string) []string {
	seen := map[string]bool{}
	var out []string
	for _, s := range in {
		if !seen[s] {
			seen[s] = true
			out = append(out, s)
		}
	}
	sort.Strings(out)
	if len(out) > 6 {
		out = append(out[:6], "…")
	}
	return out
}

// ---------------------------------------------------------------- A-ERRMAP

type mapStep struct {
	kind   string // "assert" | "is" | "default"
	target string // type name (pkg.Name) or sentinel name (pkg.Name)
	result string // public type name
	pos    token.Pos
}

// extractMapper interprets parseError / evaluateError: a sequence of `if <test> { return &T{…} }` and a final return.
func extractMapper(pk *packages.Package, fd *ast.FuncDecl) ([]mapStep, string) {
	var steps []mapStep
	resultType := func(e ast.Expr) string {
		if u, ok := ast.Unparen(e).(*ast.UnaryExpr); ok && u.Op == token.AND {
			if cl, ok := u.X.(*ast.CompositeLit); ok {
				return exprStr(cl.Type)
			}
		}
		return ""
	}
	for i, st := range fd.Body.List {
		switch s := st.(type) {
		case *ast.IfStmt:
			if s.Else != nil || len(s.Body.List) != 1 {
				return nil, "if statement with else or multi-statement body at " + fmt.Sprint(i)
			}
			ret, ok := s.Body.List[0].(*ast.ReturnStmt)
			if !ok || len(ret.Results) != 1 {
				return nil, "if body is not a single return"
			}
			res := resultType(ret.Results[0])
			if res == "" {
				return nil, "return value is not &T{…}"
			}
			// test forms
			if s.Init != nil {
				// `x, ok := err.(*pkg.T); ok`
				as, ok := s.Init.(*ast.AssignStmt)
				if !ok || len(as.Rhs) != 1 {
					return nil, "unsupported if-init"
				}
				ta, ok := as.Rhs[0].(*ast.TypeAssertExpr)
				if !ok {
					return nil, "if-init is not a type assertion"
				}
				if id, ok := s.Cond.(*ast.Ident); !ok || id.Name != exprStr(as.Lhs[len(as.Lhs)-1]) {
					return nil, "condition is not the ok of the assertion"
				}
				steps = append(steps, mapStep{"assert", typeShort(pk.TypesInfo.TypeOf(ta.Type)), res, s.Pos()})
				continue
			}
			call, ok := s.Cond.(*ast.CallExpr)
			if !ok || calleeName(pk, call) != "errors.Is" || len(call.Args) != 2 {
				return nil, "condition is neither a type assertion nor errors.Is"
			}
			steps = append(steps, mapStep{"is", exprStr(call.Args[1]), res, s.Pos()})
		case *ast.ReturnStmt:
			if len(s.Results) != 1 {
				return nil, "bad final return"
			}
			res := resultType(s.Results[0])
			if res == "" {
				return nil, "final return is not &T{…}"
			}
			steps = append(steps, mapStep{"default", "", res, s.Pos()})
		default:
			return nil, fmt.Sprintf("unsupported statement %T", st)
		}
	}
	if len(steps) == 0 || steps[len(steps)-1].kind != "default" {
		return nil, "no final default return"
	}
	return steps, ""
}

// expected categories (DESIGN.md Appendix D.4), keyed by the repository's internal error vocabulary.
var parseCategory = map[string]string{
	"*parser.InvalidFunctionArgumentError": "ErrInvalidType",
	"*parser.InvalidFunctionCallError":     "ErrInvalidArity",
	"*parser.InvalidSliceStepError":        "ErrInvalidValue",
	"*parser.UnknownFunctionError":         "ErrUnknownFunction",
}
var evalCategory = map[string]string{
	"*evaluator.InvalidTypeError":       "ErrInvalidType",
	"*evaluator.fromItemsKeyTypeError":  "ErrInvalidValue",
	"*evaluator.fromItemsLengthError":   "ErrInvalidValue",
	"*evaluator.integerConversionError": "ErrInvalidValue",
	"*evaluator.negativeIntegerError":   "ErrInvalidValue",
	"*evaluator.padLengthError":         "ErrInvalidValue",
	"evaluator.ErrInfinity":             "ErrNotANumber",
	"evaluator.ErrNotANumber":           "ErrNotANumber",
	"*evaluator.UndefinedVariableError": "ErrUndefinedVariable",
}

func ruleAErrMap(p *Program, r *Reporter) {
	pubSentinel := map[string]string{}
	for _, ei := range errorTypesOf(p, p.Root) {
		if ei.isOK && len(ei.sentinels) == 1 {
			pubSentinel[ei.name] = ei.sentinels[0]
		}
	}
	internalIs := map[string][]string{} // "*evaluator.T" -> internal sentinels matched
	hasUnwrap := map[string]bool{}
	for _, pk := range []*packages.Package{p.Eval, p.Parser, p.Lexer} {
		for _, ei := range errorTypesOf(p, pk) {
			k := "*" + pk.Name + "." + ei.name
			if ei.isDecl != nil && ei.isOK {
				for _, s := range ei.sentinels {
					internalIs[k] = append(internalIs[k], pk.Name+"."+s)
				}
			}
			if ei.isDecl != nil && !ei.isOK {
				internalIs[k] = append(internalIs[k], "?")
			}
			if ei.unwrap != nil {
				hasUnwrap[k] = true
			}
		}
	}
	// sources: concrete types converted to `error` in reachable code, plus error-typed globals that are returned
	type src struct {
		name string
		pos  token.Pos
		fn   string
	}
	collect := func(pkgs ...*packages.Package) []src {
		seen := map[string]bool{}
		var out []src
		for _, fn := range p.ReachFuncs(pkgs...) {
			for _, b := range fn.Blocks {
				for _, in := range b.Instrs {
					switch x := in.(type) {
					case *ssa.MakeInterface:
						if !isErrorType(x.Type()) {
							continue
						}
						n := typeShort(x.X.Type())
						if !seen[n] {
							seen[n] = true
							out = append(out, src{n, instrPos(x), p.FuncName(fn)})
						}
					case *ssa.Call:
						// fmt.Errorf with %w: a library wrapper around an error of the repository. It matches what the wrapped
						// error matches under errors.Is, and nothing under a type assertion or ==.
						if inner := fmtWrapped(x); inner != "" {
							n := "wrap:" + inner
							if !seen[n] {
								seen[n] = true
								out = append(out, src{n, instrPos(x), p.FuncName(fn)})
							}
						}
					case *ssa.UnOp:
						if g, ok := x.X.(*ssa.Global); ok && x.Op == token.MUL && isErrorType(x.Type()) && g.Pkg != nil && usedAsValue(x) {
							n := g.Pkg.Pkg.Name() + "." + g.Name()
							if !seen[n] {
								seen[n] = true
								out = append(out, src{n, instrPos(x), p.FuncName(fn)})
							}
						}
					}
				}
			}
		}
		sort.Slice(out, func(i, j int) bool { return out[i].name < out[j].name })
		return out
	}
	run := func(side string, mappers []*ssa.Function, srcs []src, expect map[string]string, dflt string) {
		if len(mappers) == 0 {
			r.Unknown(token.NoPos, side+" mapper", "no function of the root package receives the "+side+" error of the API functions")
			return
		}
		sites := mapperSites(p)[side]
		for _, fn := range mappers {
			fnName := fn.Name()
			for _, s := range srcs {
				key := side + " " + s.name
				// once per distinct set of constant arguments the API functions pass on this side
				var pub string
				var cats []string
				why := ""
				seenSets := map[string]bool{}
				catSet := map[string]bool{}
				for _, cs := range append(sites[fn], nil) {
					if cs == nil && len(seenSets) > 0 {
						break
					}
					sig := fmt.Sprint(cs)
					if seenSets[sig] {
						continue
					}
					seenSets[sig] = true
					pb, ct, w := classifyErrorWith(p, fn, s.name, cs)
					if w != "" {
						why = w
						break
					}
					pub = pb
					for _, c := range ct {
						catSet[c] = true
					}
				}
				for c := range catSet {
					cats = append(cats, c)
				}
				sort.Strings(cats)
				if why != "" {
					r.Unknown(s.pos, key, fnName+": "+why)
					continue
				}
				want, have := expect[strings.TrimPrefix(s.name, "wrap:")]
				if !have {
					want = dflt
				}
				if len(cats) != 1 || cats[0] == "(none)" {
					r.Bad(s.pos, key, fmt.Sprintf("%s maps it to %s which matches %v: an error must match exactly one exported category", fnName, pub, cats))
					continue
				}
				sent := cats[0]
				if side == "eval" && (sent == "ErrSyntax" || sent == "ErrInvalidArity" || sent == "ErrUnknownFunction") {
					r.Bad(s.pos, key, fmt.Sprintf("an evaluation error is reported as the static category %s", sent))
					continue
				}
				if sent != want {
					r.Bad(s.pos, key, fmt.Sprintf("raised in %s; %s maps it to %s (%s) but the category for this fault is %s", s.fn, fnName, pub, sent, want))
					continue
				}
				r.OK(s.pos, key, fmt.Sprintf("%s → %s → %s", fnName, pub, sent))
			}
			shared := false
			for _, o := range map[string][]*ssa.Function{"parse": evalMappersOf(p), "eval": parseMappersOf(p)}[side] {
				shared = shared || o == fn
			}
			if side == "eval" && !shared {
				// the evaluation-side mapper must not be able to produce the static categories (for a mapper shared by
				// both sides the classification above, made with each side's own arguments, decides)
				bad := ""
				for _, ret := range returnsOf(fn) {
					if mi, ok := ret.Results[0].(*ssa.MakeInterface); ok {
						t := strings.TrimPrefix(typeShort(mi.X.Type()), "*jmespath.")
						if sent := pubSentinel[t]; sent == "ErrSyntax" || sent == "ErrInvalidArity" || sent == "ErrUnknownFunction" {
							bad = t + " (" + sent + ")"
						}
					}
				}
				if bad != "" {
					r.Bad(fn.Pos(), fnName+" static categories", "an evaluation error can be reported as the static category "+bad)
				} else {
					r.OK(fn.Pos(), fnName+" static categories", "no return of the evaluation-side mapper yields ErrSyntax, ErrInvalidArity or ErrUnknownFunction")
				}
			}
		}
		var exp []string
		for k := range expect {
			exp = append(exp, k)
		}
		sort.Strings(exp)
		have := map[string]bool{}
		for _, s := range srcs {
			have[s.name] = true
		}
		for _, k := range exp {
			if !have[k] {
				r.Trivial(token.NoPos, side+" table "+k, "error type of the category table is no longer raised")
			}
		}
	}
	parseM, evalM := errorMappers(p)
	run("parse", parseM, collect(p.Lexer, p.Parser), parseCategory, "ErrSyntax")
	run("eval", evalM, collect(p.Eval), evalCategory, "ErrEvaluationFailed")
	// (iii) wrappers with Unwrap may wrap only errors of library calls
	for _, fn := range p.ReachFuncs(p.Eval, p.Parser, p.Lexer) {
		for _, b := range fn.Blocks {
			for _, in := range b.Instrs {
				mi, ok := in.(*ssa.MakeInterface)
				if !ok || !isErrorType(mi.Type()) || !hasUnwrap[typeShort(mi.X.Type())] {
					continue
				}
				al, ok := mi.X.(*ssa.Alloc)
				key := fmt.Sprintf("%s wraps into %s", p.FuncName(fn), typeShort(mi.X.Type()))
				if !ok {
					r.Unknown(instrPos(mi), key, "wrapper construction not understood")
					continue
				}
				bad := ""
				for _, ref := range *al.Referrers() {
					fa, ok := ref.(*ssa.FieldAddr)
					if !ok {
						continue
					}
					for _, r2 := range *fa.Referrers() {
						st, ok := r2.(*ssa.Store)
						if !ok || !isErrorType(st.Val.Type()) {
							continue
						}
						if !fromLibraryCall(p, st.Val) {
							bad = "wrapped error " + st.Val.String() + " can be a repository error: its category would be hidden from the type assertions of evaluateError"
						}
					}
				}
				if bad != "" {
					r.Bad(instrPos(mi), key, bad)
				} else {
					r.OK(instrPos(mi), key, "wraps only the error of a library call")
				}
			}
		}
	}
}

func fromLibraryCall(p *Program, v ssa.Value) bool {
	switch x := v.(type) {
	case *ssa.Extract:
		return fromLibraryCall(p, x.Tuple)
	case *ssa.Call:
		c := calleeOf(&x.Call)
		return c != nil && !p.IsRepo(c)
	case *ssa.Phi:
		for _, e := range x.Edges {
			if !fromLibraryCall(p, e) {
				return false
			}
		}
		return true
	}
	return false
}

func findCalls(fn *ssa.Function, full string) []*ssa.Call {
	var out []*ssa.Call
	for _, b := range fn.Blocks {
		for _, in := range b.Instrs {
			if c, ok := in.(*ssa.Call); ok && calleeFullName(&c.Call) == full {
				out = append(out, c)
			}
		}
	}
	return out
}

// extractOf returns the idx-th result of a multi-result call if it is extracted and used at all.
func extractOf(call *ssa.Call, idx int) ssa.Value {
	for _, ref := range *call.Referrers() {
		if ex, ok := ref.(*ssa.Extract); ok && ex.Index == idx {
			if rs := ex.Referrers(); rs != nil && len(*rs) > 0 {
				return ex
			}
		}
	}
	return nil
}

// nilEdgeDominates reports whether block b is dominated by the edge on which errv == nil (wantNil) or != nil.
func errEdgeDominates(b *ssa.BasicBlock, errv ssa.Value, wantNil bool) bool {
	for _, f := range blockFacts(b) {
		op, x, y, ok := f.rel()
		if !ok {
			continue
		}
		var other ssa.Value
		if x == errv {
			other = y
		} else if y == errv {
			other = x
		} else {
			continue
		}
		if !isNilConst(other) {
			continue
		}
		if wantNil && op == token.EQL || !wantNil && op == token.NEQ {
			return true
		}
	}
	return false
}

// ---------------------------------------------------------------- A-PANIC

var nanPanickers = map[string]bool{"Int": true, "Int32": true, "Int64": true, "Uint32": true, "Uint64": true, "Float": true, "Rat": true, "Sign": true}

func ruleAPanic(p *Program, r *Reporter) {
	explicit := 0
	for _, fn := range p.ReachFuncs() {
		name := p.FuncName(fn)
		for _, b := range fn.Blocks {
			for _, in := range b.Instrs {
				switch x := in.(type) {
				case *ssa.Panic:
					// the misuse checks the compiler's lowering of `for x := range iteratorFunc` inserts (blocks named
					// yield-invalid / rangefunc.*): not written by anyone, not reachable with the iterators of this package
					if bc := x.Block().Comment; bc == "yield-invalid" || strings.HasPrefix(bc, "rangefunc.") {
						continue
					}
					explicit++
					if fn.Name() == "MustCompile" && p.PkgOf(fn) == p.Root {
						r.OK(x.Pos(), name+" panic", "documented panic of MustCompile")
					} else {
						r.Bad(instrPos(x), name+" panic", "explicit panic in API-reachable code")
					}
				case ssa.CallInstruction:
					c := x.Common()
					callee := calleeOf(c)
					if callee == nil {
						continue
					}
					if strings.HasPrefix(callee.Name(), "Must") && !p.IsRepo(callee) {
						r.Bad(instrPos(in), name+" calls "+calleeFullName(c), "Must* functions panic on invalid input")
						continue
					}
					if callee.Pkg != nil && callee.Pkg.Pkg.Path() == "github.com/woodsbury/decimal128" && callee.Signature.Recv() != nil && nanPanickers[callee.Name()] {
						recv := c.Args[0]
						key := fmt.Sprintf("%s calls Decimal.%s", name, callee.Name())
						if nanExcluded(in.Block(), recv) {
							r.OK(instrPos(in), key, "dominated by the false edge of IsNaN on the same value")
						} else {
							r.Bad(instrPos(in), key, "Decimal."+callee.Name()+" panics for NaN (and some for infinities); no IsNaN test on "+recv.String()+" dominates the call")
						}
					}
					if callee.Pkg != nil && callee.Pkg.Pkg.Path() == "github.com/woodsbury/decimal128" && callee.Name() == "Payload" {
						r.Bad(instrPos(in), name+" calls Decimal.Payload", "Payload panics for non-NaN values")
					}
				}
			}
		}
	}
	r.OK(token.NoPos, "scan", fmt.Sprintf("%d API-reachable functions scanned; %d explicit panic statements", len(p.ReachFuncs()), explicit))
}

// nanExcluded: some dominating fact says recv.IsNaN() is false.
func nanExcluded(b *ssa.BasicBlock, recv ssa.Value) bool {
	for _, f := range blockFacts(b) {
		if factExcludesNaN(f.Cond, f.Truth, recv) {
			return true
		}
	}
	return false
}

func factExcludesNaN(cond ssa.Value, truth bool, recv ssa.Value) bool {
	switch c := cond.(type) {
	case *ssa.Call:
		if callee := calleeOf(&c.Call); callee != nil && callee.Name() == "IsNaN" && len(c.Call.Args) > 0 && sameValue(c.Call.Args[0], recv) {
			return !truth
		}
	case *ssa.UnOp:
		if c.Op == token.NOT {
			return factExcludesNaN(c.X, !truth, recv)
		}
	case *ssa.Phi:
		// a boolean computed by a short-circuit expression (`ok := !d.IsNaN() && ...`): when the phi is known true,
		// it came through an edge whose value is not the constant false; every such edge must exclude NaN, either by
		// the facts of the predecessor it comes from or by the edge value itself
		if !truth {
			return false
		}
		any := false
		for i, e := range c.Edges {
			if k, ok := e.(*ssa.Const); ok && k.Value != nil && k.Value.Kind() == constant.Bool && !constant.BoolVal(k.Value) {
				continue
			}
			any = true
			pred := c.Block().Preds[i]
			if nanExcluded(pred, recv) || factExcludesNaN(e, true, recv) {
				continue
			}
			return false
		}
		return any
	}
	return false
}

// usedAsValue: a loaded sentinel is returned, stored or passed on (not merely compared).
func usedAsValue(v ssa.Value) bool {
	rs := v.Referrers()
	if rs == nil {
		return false
	}
	for _, ref := range *rs {
		switch ref.(type) {
		case *ssa.BinOp:
		default:
			return true
		}
	}
	return false
}

// errorMappers finds the root-package functions that receive the error of parser.Parse / evaluator.Evaluate
// (directly in an API function or in a root-package helper) and return an error.
// mapperSites: for each side ("parse", "eval") and mapper, the constant arguments each call site passes besides the
// error (a mapper shared by both sides is told by a flag which side it serves).
func mapperSites(p *Program) map[string]map[*ssa.Function][]map[int]constant.Value {
	out := map[string]map[*ssa.Function][]map[int]constant.Value{"parse": {}, "eval": {}}
	parseName := p.Parser.PkgPath + ".Parse"
	evalName := p.Eval.PkgPath + ".Evaluate"
	for _, fn := range p.ReachFuncs(p.Root) {
		for _, b := range fn.Blocks {
			for _, in := range b.Instrs {
				c, ok := in.(*ssa.Call)
				if !ok {
					continue
				}
				callee := calleeOf(&c.Call)
				if callee == nil || p.PkgOf(callee) != p.Root {
					continue
				}
				side := ""
				for _, a := range c.Call.Args {
					if ex, ok := a.(*ssa.Extract); ok {
						if src, ok := ex.Tuple.(*ssa.Call); ok {
							switch calleeFullName(&src.Call) {
							case parseName:
								side = "parse"
							case evalName:
								side = "eval"
							}
						}
					}
				}
				if side == "" {
					continue
				}
				consts := map[int]constant.Value{}
				for i, a := range c.Call.Args {
					if k, ok := a.(*ssa.Const); ok && k.Value != nil {
						consts[i] = k.Value
					}
				}
				out[side][callee] = append(out[side][callee], consts)
			}
		}
	}
	return out
}

func parseMappersOf(p *Program) []*ssa.Function { a, _ := errorMappers(p); return a }
func evalMappersOf(p *Program) []*ssa.Function  { _, b := errorMappers(p); return b }

func errorMappers(p *Program) (parseM, evalM []*ssa.Function) {
	seenP, seenE := map[*ssa.Function]bool{}, map[*ssa.Function]bool{}
	parseName := p.Parser.PkgPath + ".Parse"
	evalName := p.Eval.PkgPath + ".Evaluate"
	for _, fn := range p.ReachFuncs(p.Root) {
		for _, b := range fn.Blocks {
			for _, in := range b.Instrs {
				c, ok := in.(*ssa.Call)
				if !ok {
					continue
				}
				callee := calleeOf(&c.Call)
				if callee == nil || p.PkgOf(callee) != p.Root {
					continue
				}
				res := callee.Signature.Results()
				if res.Len() != 1 || !isErrorType(res.At(0).Type()) {
					continue
				}
				for _, a := range c.Call.Args {
					ex, ok := a.(*ssa.Extract)
					if !ok {
						continue
					}
					src, ok := ex.Tuple.(*ssa.Call)
					if !ok {
						continue
					}
					switch calleeFullName(&src.Call) {
					case parseName:
						if !seenP[callee] {
							seenP[callee] = true
							parseM = append(parseM, callee)
						}
					case evalName:
						if !seenE[callee] {
							seenE[callee] = true
							evalM = append(evalM, callee)
						}
					}
				}
			}
		}
	}
	return
}

// simulateMapper walks the CFG of an error-mapping function for one concrete error type and returns the public type it
// produces. Conditions understood: comma-ok assertions of the error parameter, errors.Is(err, Sentinel), errors.As into a
// pointer of a concrete type, comparisons of the error with nil, and negations. On failure it returns the position.
func simulateMapper(fn *ssa.Function, concrete string, internalIs map[string][]string) (string, bool) {
	var errParam *ssa.Parameter
	for _, prm := range fn.Params {
		if isErrorType(prm.Type()) {
			errParam = prm
		}
	}
	if errParam == nil {
		return "no error parameter", false
	}
	isErr := func(v ssa.Value) bool {
		for i := 0; i < 4; i++ {
			if v == ssa.Value(errParam) {
				return true
			}
			switch x := v.(type) {
			case *ssa.ChangeInterface:
				v = x.X
			case *ssa.MakeInterface:
				v = x.X
			default:
				return false
			}
		}
		return false
	}
	var evalCond func(v ssa.Value) (bool, bool)
	evalCond = func(v ssa.Value) (bool, bool) {
		switch x := v.(type) {
		case *ssa.UnOp:
			if x.Op == token.NOT {
				t, ok := evalCond(x.X)
				return !t, ok
			}
		case *ssa.Extract:
			if ta, ok := x.Tuple.(*ssa.TypeAssert); ok && x.Index == 1 && isErr(ta.X) {
				return typeShort(ta.AssertedType) == concrete, true
			}
		case *ssa.Call:
			n := calleeFullName(&x.Call)
			if n == "errors.Is" && len(x.Call.Args) == 2 && isErr(x.Call.Args[0]) {
				if ld, ok := x.Call.Args[1].(*ssa.UnOp); ok {
					if g, ok := ld.X.(*ssa.Global); ok && g.Pkg != nil {
						sent := g.Pkg.Pkg.Name() + "." + g.Name()
						if concrete == sent {
							return true, true
						}
						for _, m := range internalIs[concrete] {
							if m == sent || m == "?" {
								return true, true
							}
						}
						return false, true
					}
				}
			}
			if n == "errors.As" && len(x.Call.Args) == 2 && isErr(x.Call.Args[0]) {
				if mi, ok := x.Call.Args[1].(*ssa.MakeInterface); ok {
					if pt, ok := mi.X.Type().Underlying().(*types.Pointer); ok {
						return typeShort(pt.Elem()) == concrete, true
					}
				}
			}
		case *ssa.BinOp:
			if (x.Op == token.EQL || x.Op == token.NEQ) && (isErr(x.X) && isNilConst(x.Y) || isErr(x.Y) && isNilConst(x.X)) {
				return x.Op == token.NEQ, true
			}
		case *ssa.Const:
			if x.Value != nil {
				return x.Value.String() == "true", true
			}
		}
		return false, false
	}
	b := fn.Blocks[0]
	for steps := 0; steps < 200; steps++ {
		if len(b.Instrs) == 0 {
			return "empty block", false
		}
		switch t := b.Instrs[len(b.Instrs)-1].(type) {
		case *ssa.Return:
			if len(t.Results) != 1 {
				return "return arity", false
			}
			switch rv := t.Results[0].(type) {
			case *ssa.MakeInterface:
				return strings.TrimPrefix(typeShort(rv.X.Type()), "*jmespath."), true
			case *ssa.Phi:
				return "merged return value", false
			default:
				if isErr(rv) {
					return "<the internal error itself>", true
				}
				return rv.String(), false
			}
		case *ssa.If:
			tv, ok := evalCond(t.Cond)
			if !ok {
				return fn.Prog.Fset.Position(instrPos(t)).String(), false
			}
			if tv {
				b = b.Succs[0]
			} else {
				b = b.Succs[1]
			}
		case *ssa.Jump:
			b = b.Succs[0]
		default:
			return "unexpected terminator", false
		}
	}
	return "too many steps", false
}

// fmtWrapped: for a call fmt.Errorf(format, args...) whose constant format has a %w verb, the error source (a concrete
// error type "*pkg.T" or a sentinel "pkg.Name") of the operand that verb wraps; "" otherwise.
func fmtWrapped(c *ssa.Call) string {
	fn := c.Common().StaticCallee()
	if fn == nil || fn.String() != "fmt.Errorf" || len(c.Call.Args) != 2 {
		return ""
	}
	fc, ok := c.Call.Args[0].(*ssa.Const)
	if !ok || fc.Value == nil || fc.Value.Kind() != constant.String {
		return ""
	}
	format := constant.StringVal(fc.Value)
	// index of the operand the first %w consumes
	argIdx, wIdx := 0, -1
	for i := 0; i < len(format); i++ {
		if format[i] != '%' {
			continue
		}
		j := i + 1
		for j < len(format) && strings.ContainsRune("+-# 0123456789.[]*", rune(format[j])) {
			j++
		}
		if j >= len(format) {
			break
		}
		if format[j] == '%' {
			i = j
			continue
		}
		if format[j] == 'w' {
			wIdx = argIdx
			break
		}
		argIdx++
		i = j
	}
	if wIdx < 0 {
		return ""
	}
	sl, ok := c.Call.Args[1].(*ssa.Slice)
	if !ok {
		return ""
	}
	al, ok := sl.X.(*ssa.Alloc)
	if !ok {
		return ""
	}
	for _, ref := range *al.Referrers() {
		ia, ok := ref.(*ssa.IndexAddr)
		if !ok {
			continue
		}
		k, ok := ia.Index.(*ssa.Const)
		if !ok || k.Int64() != int64(wIdx) {
			continue
		}
		for _, r2 := range *ia.Referrers() {
			st, ok := r2.(*ssa.Store)
			if !ok {
				continue
			}
			v := st.Val
			for depth := 0; depth < 6; depth++ {
				switch x := v.(type) {
				case *ssa.ChangeInterface:
					v = x.X
					continue
				case *ssa.MakeInterface:
					if _, isI := x.X.Type().Underlying().(*types.Interface); isI {
						v = x.X
						continue
					}
					if _, isPtr := x.X.Type().(*types.Pointer); isPtr || isErrorImpl(x.X.Type()) {
						return typeShort(x.X.Type())
					}
					return ""
				case *ssa.UnOp:
					if g, ok := x.X.(*ssa.Global); ok && x.Op == token.MUL && g.Pkg != nil {
						return g.Pkg.Pkg.Name() + "." + g.Name()
					}
				}
				break
			}
		}
	}
	return ""
}

func isErrorImpl(t types.Type) bool {
	errT := types.Universe.Lookup("error").Type().Underlying().(*types.Interface)
	return types.Implements(t, errT)
}
