package main

import (
	"fmt"
	"go/ast"
	"go/token"
	"go/types"
	"sort"
	"strings"

	"golang.org/x/tools/go/packages"
	"golang.org/x/tools/go/ssa"
)

func init() {
	register(&Rule{ID: "A-ERR-IS", Props: []string{"C08"}, Floor: 10,
		Doc: "every error type of the root package matches exactly one exported sentinel in its Is method and has no Unwrap; every internal evaluator error type matches at most one internal sentinel",
		Run: ruleAErrIs})
	register(&Rule{ID: "A-ERRMAP", Props: []string{"C08", "C04", "C03", "C05", "C02", "C19"}, Floor: 20,
		Doc: "every concrete error type that can leave parser.Parse / evaluator.Evaluate is pushed through the decision chain of parseError / evaluateError (type assertions and errors.Is tests, in order, using the internal Is methods); the resulting public sentinel must be the category the specification names for that fault; wrappers with Unwrap may only wrap errors of library calls",
		Run: ruleAErrMap})
	register(&Rule{ID: "A-NIL-RESULT", Props: []string{"C08"}, Floor: 6,
		Doc: "in the API functions every return carrying a non-nil error carries the nil constant as result",
		Run: ruleANilResult})
	register(&Rule{ID: "A-API-SHAPE", Props: []string{"C08", "C06"}, Floor: 8,
		Doc: "Search/Compile/MustCompile pass their expression parameter to parser.Parse on every path before returning; evaluation happens only under the nil-error edge of Parse; results come only from evaluator.Evaluate(node, data); errors are routed through parseError / evaluateError; MustCompile panics exactly on the Parse error; Parse never sees the data",
		Run: ruleAAPIShape})
	register(&Rule{ID: "A-PANIC", Props: []string{"C03", "C06"}, Floor: 2,
		Doc: "API-reachable code contains no explicit panic except MustCompile's, no call to a Must* function, and every call to a decimal128 method documented to panic on NaN/Inf (Int, Int32, Int64, Uint32, Uint64, Float, Rat, Sign, Payload) is dominated by the false edge of IsNaN (and IsInf where needed) on the same value",
		Run: ruleAPanic})
}

// isMethodSentinel extracts `return target == Sentinel` from an Is method; "" if the body has another shape.
func isMethodSentinels(pk *packages.Package, fd *ast.FuncDecl) ([]string, bool) {
	if fd.Body == nil || len(fd.Body.List) != 1 || fd.Type.Params == nil || len(fd.Type.Params.List) != 1 {
		return nil, false
	}
	ret, ok := fd.Body.List[0].(*ast.ReturnStmt)
	if !ok || len(ret.Results) != 1 {
		return nil, false
	}
	var out []string
	okAll := true
	var walk func(e ast.Expr)
	walk = func(e ast.Expr) {
		be, ok := ast.Unparen(e).(*ast.BinaryExpr)
		if !ok {
			okAll = false
			return
		}
		switch be.Op {
		case token.LOR:
			walk(be.X)
			walk(be.Y)
		case token.EQL:
			var s ast.Expr
			if id, ok := be.X.(*ast.Ident); ok && pk.TypesInfo.Uses[id] != nil && isParamOf(pk, id, fd) {
				s = be.Y
			} else if id, ok := be.Y.(*ast.Ident); ok && isParamOf(pk, id, fd) {
				s = be.X
			} else {
				okAll = false
				return
			}
			name := ""
			switch x := ast.Unparen(s).(type) {
			case *ast.Ident:
				name = x.Name
				if _, isVar := pk.TypesInfo.Uses[x].(*types.Var); !isVar {
					okAll = false
				}
			case *ast.SelectorExpr:
				name = x.Sel.Name
			default:
				okAll = false
			}
			out = append(out, name)
		default:
			okAll = false
		}
	}
	walk(ret.Results[0])
	return out, okAll
}

func isParamOf(pk *packages.Package, id *ast.Ident, fd *ast.FuncDecl) bool {
	o := pk.TypesInfo.Uses[id]
	if o == nil {
		return false
	}
	for _, f := range fd.Type.Params.List {
		for _, n := range f.Names {
			if pk.TypesInfo.Defs[n] == o {
				return true
			}
		}
	}
	return false
}

// errorTypes lists named types of pk whose pointer (or value) implements error, with their methods.
type errTypeInfo struct {
	name      string
	named     *types.Named
	isDecl    *ast.FuncDecl
	unwrap    *ast.FuncDecl
	sentinels []string
	isOK      bool
	pos       token.Pos
}

func errorTypesOf(p *Program, pk *packages.Package) []*errTypeInfo {
	errIface := types.Universe.Lookup("error").Type().Underlying().(*types.Interface)
	var out []*errTypeInfo
	scope := pk.Types.Scope()
	for _, n := range scope.Names() {
		tn, ok := scope.Lookup(n).(*types.TypeName)
		if !ok {
			continue
		}
		nt, ok := tn.Type().(*types.Named)
		if !ok {
			continue
		}
		if _, isIface := nt.Underlying().(*types.Interface); isIface {
			continue
		}
		if !types.Implements(types.NewPointer(nt), errIface) && !types.Implements(nt, errIface) {
			continue
		}
		ei := &errTypeInfo{name: n, named: nt, pos: tn.Pos()}
		ei.isDecl = p.FuncDecl(pk, n, "Is")
		ei.unwrap = p.FuncDecl(pk, n, "Unwrap")
		if ei.isDecl != nil {
			ei.sentinels, ei.isOK = isMethodSentinels(pk, ei.isDecl)
		}
		out = append(out, ei)
	}
	return out
}

func ruleAErrIs(p *Program, r *Reporter) {
	exported := map[string]bool{}
	for _, n := range p.Root.Types.Scope().Names() {
		if v, ok := p.Root.Types.Scope().Lookup(n).(*types.Var); ok && isErrorType(v.Type()) && v.Exported() {
			exported[n] = true
		}
	}
	used := map[string][]string{}
	for _, ei := range errorTypesOf(p, p.Root) {
		key := "jmespath." + ei.name
		switch {
		case ei.unwrap != nil:
			r.Bad(ei.unwrap.Pos(), key, "public error type has an Unwrap method: errors.Is could match a second category through the wrapped error")
		case ei.isDecl == nil:
			r.Bad(ei.pos, key, "public error type has no Is method: it matches none of the exported categories")
		case !ei.isOK:
			r.Unknown(ei.isDecl.Pos(), key, "Is method is not of the form `return target == Sentinel`")
		case len(ei.sentinels) != 1:
			r.Bad(ei.isDecl.Pos(), key, "Is matches "+fmt.Sprint(len(ei.sentinels))+" sentinels ("+strings.Join(ei.sentinels, ", ")+"); the contract is exactly one")
		case !exported[ei.sentinels[0]]:
			r.Bad(ei.isDecl.Pos(), key, "Is matches "+ei.sentinels[0]+" which is not an exported sentinel of the package")
		default:
			used[ei.sentinels[0]] = append(used[ei.sentinels[0]], ei.name)
			r.OK(ei.isDecl.Pos(), key, "Is matches exactly "+ei.sentinels[0])
		}
	}
	var names []string
	for n := range exported {
		names = append(names, n)
	}
	sort.Strings(names)
	for _, n := range names {
		if len(used[n]) == 0 {
			r.Bad(token.NoPos, "sentinel "+n, "exported sentinel is matched by no error type")
		} else {
			r.Trivial(token.NoPos, "sentinel "+n, "matched by "+strings.Join(used[n], ", "))
		}
	}
	for _, ei := range errorTypesOf(p, p.Eval) {
		key := "evaluator." + ei.name
		switch {
		case ei.isDecl == nil:
			r.Trivial(ei.pos, key, "no Is method (falls to the evaluation-failed category)")
		case !ei.isOK:
			r.Unknown(ei.isDecl.Pos(), key, "Is method is not of the form `return target == Sentinel`")
		case len(ei.sentinels) != 1:
			r.Bad(ei.isDecl.Pos(), key, "Is matches several internal sentinels: "+strings.Join(ei.sentinels, ", "))
		default:
			r.OK(ei.isDecl.Pos(), key, "Is matches exactly "+ei.sentinels[0])
		}
	}
}

// ---------------------------------------------------------------- A-ERRMAP

type mapStep struct {
	kind   string // "assert" | "is" | "default"
	target string // type name (pkg.Name) or sentinel name (pkg.Name)
	result string // public type name
	pos    token.Pos
}

// extractMapper interprets parseError / evaluateError: a sequence of `if <test> { return &T{…} }` and a final return.
func extractMapper(pk *packages.Package, fd *ast.FuncDecl) ([]mapStep, string) {
	var steps []mapStep
	resultType := func(e ast.Expr) string {
		if u, ok := ast.Unparen(e).(*ast.UnaryExpr); ok && u.Op == token.AND {
			if cl, ok := u.X.(*ast.CompositeLit); ok {
				return exprStr(cl.Type)
			}
		}
		return ""
	}
	for i, st := range fd.Body.List {
		switch s := st.(type) {
		case *ast.IfStmt:
			if s.Else != nil || len(s.Body.List) != 1 {
				return nil, "if statement with else or multi-statement body at " + fmt.Sprint(i)
			}
			ret, ok := s.Body.List[0].(*ast.ReturnStmt)
			if !ok || len(ret.Results) != 1 {
				return nil, "if body is not a single return"
			}
			res := resultType(ret.Results[0])
			if res == "" {
				return nil, "return value is not &T{…}"
			}
			// test forms
			if s.Init != nil {
				// `x, ok := err.(*pkg.T); ok`
				as, ok := s.Init.(*ast.AssignStmt)
				if !ok || len(as.Rhs) != 1 {
					return nil, "unsupported if-init"
				}
				ta, ok := as.Rhs[0].(*ast.TypeAssertExpr)
				if !ok {
					return nil, "if-init is not a type assertion"
				}
				if id, ok := s.Cond.(*ast.Ident); !ok || id.Name != exprStr(as.Lhs[len(as.Lhs)-1]) {
					return nil, "condition is not the ok of the assertion"
				}
				steps = append(steps, mapStep{"assert", typeShort(pk.TypesInfo.TypeOf(ta.Type)), res, s.Pos()})
				continue
			}
			call, ok := s.Cond.(*ast.CallExpr)
			if !ok || calleeName(pk, call) != "errors.Is" || len(call.Args) != 2 {
				return nil, "condition is neither a type assertion nor errors.Is"
			}
			steps = append(steps, mapStep{"is", exprStr(call.Args[1]), res, s.Pos()})
		case *ast.ReturnStmt:
			if len(s.Results) != 1 {
				return nil, "bad final return"
			}
			res := resultType(s.Results[0])
			if res == "" {
				return nil, "final return is not &T{…}"
			}
			steps = append(steps, mapStep{"default", "", res, s.Pos()})
		default:
			return nil, fmt.Sprintf("unsupported statement %T", st)
		}
	}
	if len(steps) == 0 || steps[len(steps)-1].kind != "default" {
		return nil, "no final default return"
	}
	return steps, ""
}

// expected categories (DESIGN.md Appendix D.4), keyed by the repository's internal error vocabulary.
var parseCategory = map[string]string{
	"*parser.InvalidFunctionArgumentError": "ErrInvalidType",
	"*parser.InvalidFunctionCallError":     "ErrInvalidArity",
	"*parser.InvalidSliceStepError":        "ErrInvalidValue",
	"*parser.UnknownFunctionError":         "ErrUnknownFunction",
}
var evalCategory = map[string]string{
	"*evaluator.InvalidTypeError":       "ErrInvalidType",
	"*evaluator.fromItemsKeyTypeError":  "ErrInvalidValue",
	"*evaluator.fromItemsLengthError":   "ErrInvalidValue",
	"*evaluator.integerConversionError": "ErrInvalidValue",
	"*evaluator.negativeIntegerError":   "ErrInvalidValue",
	"*evaluator.padLengthError":         "ErrInvalidValue",
	"evaluator.ErrInfinity":             "ErrNotANumber",
	"evaluator.ErrNotANumber":           "ErrNotANumber",
	"*evaluator.UndefinedVariableError": "ErrUndefinedVariable",
}

func ruleAErrMap(p *Program, r *Reporter) {
	pubSentinel := map[string]string{}
	for _, ei := range errorTypesOf(p, p.Root) {
		if ei.isOK && len(ei.sentinels) == 1 {
			pubSentinel[ei.name] = ei.sentinels[0]
		}
	}
	internalIs := map[string][]string{} // "*evaluator.T" -> internal sentinels matched
	hasUnwrap := map[string]bool{}
	for _, pk := range []*packages.Package{p.Eval, p.Parser, p.Lexer} {
		for _, ei := range errorTypesOf(p, pk) {
			k := "*" + pk.Name + "." + ei.name
			if ei.isDecl != nil && ei.isOK {
				for _, s := range ei.sentinels {
					internalIs[k] = append(internalIs[k], pk.Name+"."+s)
				}
			}
			if ei.isDecl != nil && !ei.isOK {
				internalIs[k] = append(internalIs[k], "?")
			}
			if ei.unwrap != nil {
				hasUnwrap[k] = true
			}
		}
	}
	// sources: concrete types converted to `error` in reachable code, plus error-typed globals that are returned
	type src struct {
		name string
		pos  token.Pos
		fn   string
	}
	collect := func(pkgs ...*packages.Package) []src {
		seen := map[string]bool{}
		var out []src
		for _, fn := range p.ReachFuncs(pkgs...) {
			for _, b := range fn.Blocks {
				for _, in := range b.Instrs {
					switch x := in.(type) {
					case *ssa.MakeInterface:
						if !isErrorType(x.Type()) {
							continue
						}
						n := typeShort(x.X.Type())
						if !seen[n] {
							seen[n] = true
							out = append(out, src{n, instrPos(x), p.FuncName(fn)})
						}
					case *ssa.UnOp:
						if g, ok := x.X.(*ssa.Global); ok && x.Op == token.MUL && isErrorType(x.Type()) && g.Pkg != nil && usedAsValue(x) {
							n := g.Pkg.Pkg.Name() + "." + g.Name()
							if !seen[n] {
								seen[n] = true
								out = append(out, src{n, instrPos(x), p.FuncName(fn)})
							}
						}
					}
				}
			}
		}
		sort.Slice(out, func(i, j int) bool { return out[i].name < out[j].name })
		return out
	}
	simulate := func(steps []mapStep, concrete string) string {
		for _, s := range steps {
			switch s.kind {
			case "assert":
				if s.target == concrete {
					return s.result
				}
			case "is":
				if concrete == s.target { // the sentinel itself
					return s.result
				}
				for _, m := range internalIs[concrete] {
					if m == s.target || m == "?" {
						return s.result
					}
				}
			case "default":
				return s.result
			}
		}
		return ""
	}
	run := func(fnName string, srcs []src, expect map[string]string, dflt string, side string) {
		fd := p.FuncDecl(p.Root, "", fnName)
		if fd == nil {
			r.Unknown(token.NoPos, fnName, "mapping function not found in the root package")
			return
		}
		steps, why := extractMapper(p.Root, fd)
		if steps == nil {
			r.Unknown(fd.Pos(), fnName, "decision chain not understood: "+why)
			return
		}
		for _, s := range srcs {
			key := side + " " + s.name
			pub := simulate(steps, s.name)
			sent := pubSentinel[pub]
			want, ok := expect[s.name]
			if !ok {
				want = dflt
			}
			if sent == "" {
				r.Bad(s.pos, key, fmt.Sprintf("%s maps it to %s which matches no exported sentinel", fnName, pub))
				continue
			}
			if sent != want {
				r.Bad(s.pos, key, fmt.Sprintf("raised in %s; %s maps it to %s (%s) but the category for this fault is %s", s.fn, fnName, pub, sent, want))
				continue
			}
			r.OK(s.pos, key, fmt.Sprintf("%s → %s → %s", fnName, pub, sent))
		}
		// every expected special type must still exist as a source (otherwise the table went stale)
		var exp []string
		for k := range expect {
			exp = append(exp, k)
		}
		sort.Strings(exp)
		have := map[string]bool{}
		for _, s := range srcs {
			have[s.name] = true
		}
		for _, k := range exp {
			if !have[k] {
				r.Trivial(token.NoPos, side+" table "+k, "error type of the category table is no longer raised")
			}
		}
	}
	run("parseError", collect(p.Lexer, p.Parser), parseCategory, "ErrSyntax", "parse")
	evalSrcs := collect(p.Eval)
	run("evaluateError", evalSrcs, evalCategory, "ErrEvaluationFailed", "eval")
	// (ii) evaluateError must not be able to produce the static categories
	if fd := p.FuncDecl(p.Root, "", "evaluateError"); fd != nil {
		if steps, _ := extractMapper(p.Root, fd); steps != nil {
			for _, s := range steps {
				if sent := pubSentinel[s.result]; sent == "ErrSyntax" || sent == "ErrInvalidArity" || sent == "ErrUnknownFunction" {
					r.Bad(s.pos, "evaluateError→"+s.result, "an evaluation error can be reported as the static category "+sent)
				}
			}
			r.OK(fd.Pos(), "evaluateError static categories", "no step of evaluateError yields ErrSyntax, ErrInvalidArity or ErrUnknownFunction")
		}
	}
	// (iii) wrappers with Unwrap may wrap only errors of library calls
	for _, fn := range p.ReachFuncs(p.Eval, p.Parser, p.Lexer) {
		for _, b := range fn.Blocks {
			for _, in := range b.Instrs {
				mi, ok := in.(*ssa.MakeInterface)
				if !ok || !isErrorType(mi.Type()) || !hasUnwrap[typeShort(mi.X.Type())] {
					continue
				}
				al, ok := mi.X.(*ssa.Alloc)
				key := fmt.Sprintf("%s wraps into %s", p.FuncName(fn), typeShort(mi.X.Type()))
				if !ok {
					r.Unknown(instrPos(mi), key, "wrapper construction not understood")
					continue
				}
				bad := ""
				for _, ref := range *al.Referrers() {
					fa, ok := ref.(*ssa.FieldAddr)
					if !ok {
						continue
					}
					for _, r2 := range *fa.Referrers() {
						st, ok := r2.(*ssa.Store)
						if !ok || !isErrorType(st.Val.Type()) {
							continue
						}
						if !fromLibraryCall(p, st.Val) {
							bad = "wrapped error " + st.Val.String() + " can be a repository error: its category would be hidden from the type assertions of evaluateError"
						}
					}
				}
				if bad != "" {
					r.Bad(instrPos(mi), key, bad)
				} else {
					r.OK(instrPos(mi), key, "wraps only the error of a library call")
				}
			}
		}
	}
}

func fromLibraryCall(p *Program, v ssa.Value) bool {
	switch x := v.(type) {
	case *ssa.Extract:
		return fromLibraryCall(p, x.Tuple)
	case *ssa.Call:
		c := calleeOf(&x.Call)
		return c != nil && !p.IsRepo(c)
	case *ssa.Phi:
		for _, e := range x.Edges {
			if !fromLibraryCall(p, e) {
				return false
			}
		}
		return true
	}
	return false
}

// ---------------------------------------------------------------- A-NIL-RESULT

func ruleANilResult(p *Program, r *Reporter) {
	for _, fn := range p.API {
		res := fn.Signature.Results()
		if res.Len() != 2 || !isErrorType(res.At(1).Type()) {
			continue
		}
		for i, ret := range returnsOf(fn) {
			key := fmt.Sprintf("%s return#%d", p.FuncName(fn), i+1)
			if isNilConst(ret.Results[1]) {
				r.Trivial(ret.Pos(), key, "success return")
				continue
			}
			if isNilConst(ret.Results[0]) {
				r.OK(ret.Pos(), key, "error return carries a nil result")
			} else {
				r.Bad(ret.Pos(), key, "returns a non-nil error together with result "+ret.Results[0].String())
			}
		}
	}
}

// ---------------------------------------------------------------- A-API-SHAPE

func findCalls(fn *ssa.Function, full string) []*ssa.Call {
	var out []*ssa.Call
	for _, b := range fn.Blocks {
		for _, in := range b.Instrs {
			if c, ok := in.(*ssa.Call); ok && calleeFullName(&c.Call) == full {
				out = append(out, c)
			}
		}
	}
	return out
}

// extractOf returns the idx-th result of a multi-result call if it is extracted and used at all.
func extractOf(call *ssa.Call, idx int) ssa.Value {
	for _, ref := range *call.Referrers() {
		if ex, ok := ref.(*ssa.Extract); ok && ex.Index == idx {
			if rs := ex.Referrers(); rs != nil && len(*rs) > 0 {
				return ex
			}
		}
	}
	return nil
}

// nilEdgeDominates reports whether block b is dominated by the edge on which errv == nil (wantNil) or != nil.
func errEdgeDominates(b *ssa.BasicBlock, errv ssa.Value, wantNil bool) bool {
	for _, f := range blockFacts(b) {
		op, x, y, ok := f.rel()
		if !ok {
			continue
		}
		var other ssa.Value
		if x == errv {
			other = y
		} else if y == errv {
			other = x
		} else {
			continue
		}
		if !isNilConst(other) {
			continue
		}
		if wantNil && op == token.EQL || !wantNil && op == token.NEQ {
			return true
		}
	}
	return false
}

func ruleAAPIShape(p *Program, r *Reporter) {
	parseName := p.Parser.PkgPath + ".Parse"
	evalName := p.Eval.PkgPath + ".Evaluate"
	for _, fn := range p.API {
		name := p.FuncName(fn)
		isMethod := fn.Signature.Recv() != nil
		parses := findCalls(fn, parseName)
		evals := findCalls(fn, evalName)
		if !isMethod {
			// exactly one Parse call on the expression parameter, dominating every return
			if len(parses) != 1 {
				r.Bad(fn.Pos(), name+" Parse call", fmt.Sprintf("%d calls to parser.Parse (expected exactly one)", len(parses)))
				continue
			}
			pc := parses[0]
			if prm, ok := pc.Call.Args[0].(*ssa.Parameter); ok && prm == fn.Params[0] {
				r.OK(pc.Pos(), name+" Parse(arg)", "parser.Parse receives the expression parameter unchanged")
			} else {
				r.Bad(pc.Pos(), name+" Parse(arg)", "parser.Parse does not receive the expression parameter itself: "+pc.Call.Args[0].String())
			}
			for i, ret := range returnsOf(fn) {
				key := fmt.Sprintf("%s return#%d after Parse", name, i+1)
				if pc.Block().Dominates(ret.Block()) {
					r.OK(ret.Pos(), key, "dominated by the call to parser.Parse")
				} else {
					r.Bad(ret.Pos(), key, "a return is reachable without calling parser.Parse: the static checks depend on the path taken (and so possibly on the data)")
				}
			}
			perr := extractOf(pc, 1)
			pnode := extractOf(pc, 0)
			if perr == nil {
				r.Bad(pc.Pos(), name+" Parse error", "the error result of parser.Parse is discarded")
				continue
			}
			// everything that uses the node must be under the nil edge
			for _, ec := range evals {
				key := name + " Evaluate under Parse success"
				if errEdgeDominates(ec.Block(), perr, true) {
					r.OK(ec.Pos(), key, "evaluator.Evaluate is dominated by the err == nil edge of parser.Parse")
				} else {
					r.Bad(ec.Pos(), key, "evaluator.Evaluate can run although parser.Parse failed")
				}
				if pnode == nil || ec.Call.Args[0] != pnode {
					r.Bad(ec.Pos(), name+" Evaluate(node)", "evaluator.Evaluate does not receive the node returned by parser.Parse")
				} else {
					r.OK(ec.Pos(), name+" Evaluate(node)", "evaluates the node returned by parser.Parse")
				}
			}
			if fn.Name() == "MustCompile" {
				// exactly one panic, dominated by err != nil, and the err != nil edge leads only to panic
				var panics []*ssa.Panic
				for _, b := range fn.Blocks {
					for _, in := range b.Instrs {
						if pn, ok := in.(*ssa.Panic); ok {
							panics = append(panics, pn)
						}
					}
				}
				if len(panics) != 1 {
					r.Bad(fn.Pos(), name+" panic", fmt.Sprintf("%d panic statements (expected exactly one)", len(panics)))
				} else if errEdgeDominates(panics[0].Block(), perr, false) {
					r.OK(panics[0].Pos(), name+" panic", "the only panic is dominated by the err != nil edge of parser.Parse")
				} else {
					r.Bad(panics[0].Pos(), name+" panic", "panic is not restricted to the failure of parser.Parse")
				}
				for i, ret := range returnsOf(fn) {
					key := fmt.Sprintf("%s return#%d on success only", name, i+1)
					if errEdgeDominates(ret.Block(), perr, true) {
						r.OK(ret.Pos(), key, "return dominated by err == nil")
					} else {
						r.Bad(ret.Pos(), key, "MustCompile can return although parser.Parse failed")
					}
				}
			} else {
				// error returns: through parseError(expr, perr) when Parse failed
				for i, ret := range returnsOf(fn) {
					if isNilConst(ret.Results[1]) {
						continue
					}
					key := fmt.Sprintf("%s error-return#%d", name, i+1)
					c, ok := ret.Results[1].(*ssa.Call)
					cn := ""
					if ok {
						cn = calleeFullName(&c.Call)
					}
					switch {
					case cn == p.Root.PkgPath+".parseError" && c.Call.Args[1] == perr && errEdgeDominates(ret.Block(), perr, false):
						r.OK(ret.Pos(), key, "Parse failure routed through parseError")
					case cn == p.Root.PkgPath+".evaluateError" && errEdgeDominates(ret.Block(), perr, true):
						r.OK(ret.Pos(), key, "evaluation failure routed through evaluateError")
					default:
						r.Bad(ret.Pos(), key, "error is not routed through parseError/evaluateError on the matching edge: "+ret.Results[1].String())
					}
				}
			}
		}
		// results of Search-like functions come from Evaluate only
		if fn.Name() == "Search" {
			if len(evals) != 1 {
				r.Bad(fn.Pos(), name+" Evaluate call", fmt.Sprintf("%d calls to evaluator.Evaluate (expected exactly one)", len(evals)))
				continue
			}
			ec := evals[0]
			eres, eerr := extractOf(ec, 0), extractOf(ec, 1)
			dataParam := fn.Params[len(fn.Params)-1]
			if mi := ec.Call.Args[1]; mi != ssa.Value(dataParam) {
				r.Bad(ec.Pos(), name+" Evaluate(data)", "evaluator.Evaluate does not receive the data parameter unchanged")
			} else {
				r.OK(ec.Pos(), name+" Evaluate(data)", "data parameter passed unchanged")
			}
			for i, ret := range returnsOf(fn) {
				if !isNilConst(ret.Results[1]) {
					if isMethod {
						key := fmt.Sprintf("%s error-return#%d", name, i+1)
						c, ok := ret.Results[1].(*ssa.Call)
						if ok && calleeFullName(&c.Call) == p.Root.PkgPath+".evaluateError" && eerr != nil && c.Call.Args[0] == eerr {
							r.OK(ret.Pos(), key, "evaluation failure routed through evaluateError")
						} else {
							r.Bad(ret.Pos(), key, "error is not routed through evaluateError")
						}
					}
					continue
				}
				key := fmt.Sprintf("%s success-return#%d", name, i+1)
				if eres != nil && ret.Results[0] == eres && eerr != nil && errEdgeDominates(ret.Block(), eerr, true) {
					r.OK(ret.Pos(), key, "result is the value returned by evaluator.Evaluate under its nil-error edge")
				} else {
					r.Bad(ret.Pos(), key, "a success return yields something other than evaluator.Evaluate's result: "+ret.Results[0].String())
				}
			}
			if isMethod {
				// node argument is the receiver's node field
				if ld, ok := ec.Call.Args[0].(*ssa.UnOp); ok {
					if fa, ok := ld.X.(*ssa.FieldAddr); ok && fa.X == ssa.Value(fn.Params[0]) {
						r.OK(ec.Pos(), name+" Evaluate(node)", "evaluates the receiver's compiled node")
					} else {
						r.Bad(ec.Pos(), name+" Evaluate(node)", "node argument is not the receiver's field")
					}
				} else {
					r.Bad(ec.Pos(), name+" Evaluate(node)", "node argument is not the receiver's field")
				}
			}
		}
		if fn.Name() == "Compile" || fn.Name() == "MustCompile" {
			pc := parses[0]
			pnode := extractOf(pc, 0)
			for i, ret := range returnsOf(fn) {
				if len(ret.Results) == 2 && !isNilConst(ret.Results[1]) {
					continue
				}
				key := fmt.Sprintf("%s success-return#%d", name, i+1)
				al, ok := ret.Results[0].(*ssa.Alloc)
				good := false
				if ok {
					for _, ref := range *al.Referrers() {
						if fa, ok := ref.(*ssa.FieldAddr); ok {
							for _, r2 := range *fa.Referrers() {
								if st, ok := r2.(*ssa.Store); ok && st.Val == pnode {
									good = true
								}
							}
						}
					}
				}
				if good {
					r.OK(ret.Pos(), key, "returns a new Expression holding the node returned by parser.Parse")
				} else {
					r.Bad(ret.Pos(), key, "the returned Expression does not hold the node returned by parser.Parse")
				}
			}
		}
	}
	// Parse has a single string parameter: it cannot see the data
	if pf := p.SSAPkg[p.Parser].Func("Parse"); pf != nil {
		if len(pf.Params) == 1 {
			if b, ok := pf.Params[0].Type().Underlying().(*types.Basic); ok && b.Kind() == types.String {
				r.OK(pf.Pos(), "parser.Parse signature", "Parse(expression string): the data cannot influence static checks")
			} else {
				r.Bad(pf.Pos(), "parser.Parse signature", "Parse takes a non-string parameter")
			}
		} else {
			r.Bad(pf.Pos(), "parser.Parse signature", "Parse takes more than the expression text")
		}
	} else {
		r.Unknown(token.NoPos, "parser.Parse signature", "parser.Parse not found")
	}
}

// ---------------------------------------------------------------- A-PANIC

var nanPanickers = map[string]bool{"Int": true, "Int32": true, "Int64": true, "Uint32": true, "Uint64": true, "Float": true, "Rat": true, "Sign": true}

func ruleAPanic(p *Program, r *Reporter) {
	explicit := 0
	for _, fn := range p.ReachFuncs() {
		name := p.FuncName(fn)
		for _, b := range fn.Blocks {
			for _, in := range b.Instrs {
				switch x := in.(type) {
				case *ssa.Panic:
					explicit++
					if fn.Name() == "MustCompile" && p.PkgOf(fn) == p.Root {
						r.OK(x.Pos(), name+" panic", "documented panic of MustCompile")
					} else {
						r.Bad(instrPos(x), name+" panic", "explicit panic in API-reachable code")
					}
				case ssa.CallInstruction:
					c := x.Common()
					callee := calleeOf(c)
					if callee == nil {
						continue
					}
					if strings.HasPrefix(callee.Name(), "Must") && !p.IsRepo(callee) {
						r.Bad(instrPos(in), name+" calls "+calleeFullName(c), "Must* functions panic on invalid input")
						continue
					}
					if callee.Pkg != nil && callee.Pkg.Pkg.Path() == "github.com/woodsbury/decimal128" && callee.Signature.Recv() != nil && nanPanickers[callee.Name()] {
						recv := c.Args[0]
						key := fmt.Sprintf("%s calls Decimal.%s", name, callee.Name())
						if nanExcluded(in.Block(), recv) {
							r.OK(instrPos(in), key, "dominated by the false edge of IsNaN on the same value")
						} else {
							r.Bad(instrPos(in), key, "Decimal."+callee.Name()+" panics for NaN (and some for infinities); no IsNaN test on "+recv.String()+" dominates the call")
						}
					}
					if callee.Pkg != nil && callee.Pkg.Pkg.Path() == "github.com/woodsbury/decimal128" && callee.Name() == "Payload" {
						r.Bad(instrPos(in), name+" calls Decimal.Payload", "Payload panics for non-NaN values")
					}
				}
			}
		}
	}
	r.OK(token.NoPos, "scan", fmt.Sprintf("%d API-reachable functions scanned; %d explicit panic statements", len(p.ReachFuncs()), explicit))
}

// nanExcluded: some dominating fact says recv.IsNaN() is false.
func nanExcluded(b *ssa.BasicBlock, recv ssa.Value) bool {
	for _, f := range blockFacts(b) {
		if factExcludesNaN(f.Cond, f.Truth, recv) {
			return true
		}
	}
	return false
}

func factExcludesNaN(cond ssa.Value, truth bool, recv ssa.Value) bool {
	switch c := cond.(type) {
	case *ssa.Call:
		if callee := calleeOf(&c.Call); callee != nil && callee.Name() == "IsNaN" && len(c.Call.Args) > 0 && sameValue(c.Call.Args[0], recv) {
			return !truth
		}
	case *ssa.UnOp:
		if c.Op == token.NOT {
			return factExcludesNaN(c.X, !truth, recv)
		}
	case *ssa.Phi:
		// short-circuit `a || b` lowered to a phi of constants and b: only handled through the nested Ifs
	}
	return false
}

// usedAsValue: a loaded sentinel is returned, stored or passed on (not merely compared).
func usedAsValue(v ssa.Value) bool {
	rs := v.Referrers()
	if rs == nil {
		return false
	}
	for _, ref := range *rs {
		switch ref.(type) {
		case *ssa.BinOp:
		default:
			return true
		}
	}
	return false
}
