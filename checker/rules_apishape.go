package main

import (
	"fmt"
	"go/token"
	"sort"
	"strings"

	"golang.org/x/tools/go/ssa"
)

// An abstract, path-enumerating interpretation of the (loop-free) API functions of the root package, inlining
// root-package helpers. It replaces shape matching: Search may be written inline or through parse()/evaluate()
// helpers, with if or switch, and the verdict is the same.

type absKind int

const (
	aUnknown absKind = iota
	aNil
	aParamExpr
	aParamData
	aRecvNode
	aParseNode
	aParseErr
	aEvalRes
	aEvalErr
	aMappedParseErr
	aMappedEvalErr
	aExprOfParseNode // *Expression holding the node returned by Parse
	aExprOther
	aRecv
	aTuple
)

func (k absKind) String() string {
	return [...]string{"unknown", "nil", "expression-parameter", "data-parameter", "receiver.node", "Parse-node", "raw-Parse-error",
		"Evaluate-result", "raw-Evaluate-error", "mapped-Parse-error", "mapped-Evaluate-error", "Expression{Parse-node}", "Expression{?}", "receiver", "tuple"}[k]
}

type absVal struct {
	k     absKind
	elems []absVal
}

type apiPath struct {
	results []absVal
	panics  bool
	facts   map[string]bool // ParseOK, ParseFail, EvalOK, EvalFail
	notes   []string
	pos     token.Pos
}

type apiInterp struct {
	p      *Program
	budget int
	issues []string
}

func copyFacts(m map[string]bool) map[string]bool {
	o := map[string]bool{}
	for k, v := range m {
		o[k] = v
	}
	return o
}

// run enumerates the paths of fn with the given abstract arguments.
func (ai *apiInterp) run(fn *ssa.Function, args []absVal, facts map[string]bool, depth int) []apiPath {
	if depth > 4 || fn.Blocks == nil {
		return []apiPath{{results: nil, facts: facts, notes: []string{"call too deep or without body: " + fn.Name()}}}
	}
	env := map[ssa.Value]absVal{}
	for i, prm := range fn.Params {
		if i < len(args) {
			env[prm] = args[i]
		}
	}
	var out []apiPath
	type allocState map[*ssa.Alloc]absVal
	var walk func(b, from *ssa.BasicBlock, env map[ssa.Value]absVal, facts map[string]bool, notes []string, steps int)
	walk = func(b, from *ssa.BasicBlock, env map[ssa.Value]absVal, facts map[string]bool, notes []string, steps int) {
		ai.budget--
		if ai.budget < 0 || steps > 60 {
			out = append(out, apiPath{facts: facts, notes: append(notes, "path budget exhausted")})
			return
		}
		env2 := map[ssa.Value]absVal{}
		for k, v := range env {
			env2[k] = v
		}
		env = env2
		get := func(v ssa.Value) absVal {
			if c, ok := v.(*ssa.Const); ok {
				if c.IsNil() {
					return absVal{k: aNil}
				}
				return absVal{k: aUnknown}
			}
			if a, ok := env[v]; ok {
				return a
			}
			return absVal{k: aUnknown}
		}
		for idx, in := range b.Instrs {
			switch x := in.(type) {
			case *ssa.Phi:
				for i, pred := range b.Preds {
					if pred == from {
						env[x] = get(x.Edges[i])
					}
				}
			case *ssa.Call:
				full := calleeFullName(&x.Call)
				callee := calleeOf(&x.Call)
				var cargs []absVal
				for _, a := range x.Call.Args {
					cargs = append(cargs, get(a))
				}
				switch {
				case full == ai.p.Parser.PkgPath+".Parse":
					if len(cargs) != 1 || cargs[0].k != aParamExpr {
						notes = append(notes, "parser.Parse called with something other than the expression parameter")
					}
					if facts["parsed"] {
						notes = append(notes, "parser.Parse called twice on one path")
					}
					facts = copyFacts(facts)
					facts["parsed"] = true
					env[x] = absVal{k: aTuple, elems: []absVal{{k: aParseNode}, {k: aParseErr}}}
				case full == ai.p.Eval.PkgPath+".Evaluate":
					if len(cargs) != 2 || (cargs[0].k != aParseNode && cargs[0].k != aRecvNode) {
						notes = append(notes, "evaluator.Evaluate called with a node that is neither the Parse result nor the receiver's node")
					}
					if len(cargs) == 2 && cargs[1].k != aParamData {
						notes = append(notes, "evaluator.Evaluate does not receive the data parameter unchanged")
					}
					if len(cargs) > 0 && cargs[0].k == aParseNode && !facts["ParseOK"] {
						notes = append(notes, "evaluator.Evaluate can run although parser.Parse has not been seen to succeed")
					}
					facts = copyFacts(facts)
					facts["evaluated"] = true
					env[x] = absVal{k: aTuple, elems: []absVal{{k: aEvalRes}, {k: aEvalErr}}}
				case callee != nil && ai.p.PkgOf(callee) == ai.p.Root:
					// error mapper: one error parameter carrying a raw internal error, one error result
					res := callee.Signature.Results()
					mapped := absVal{k: aUnknown}
					if res.Len() == 1 && isErrorType(res.At(0).Type()) {
						for _, ca := range cargs {
							switch ca.k {
							case aParseErr:
								mapped = absVal{k: aMappedParseErr}
							case aEvalErr:
								mapped = absVal{k: aMappedEvalErr}
							}
						}
					}
					if mapped.k != aUnknown {
						env[x] = mapped
						break
					}
					// inline the helper: fork on its paths
					sub := ai.run(callee, cargs, facts, depth+1)
					rest := b.Instrs[idx+1:]
					_ = rest
					for _, sp := range sub {
						if sp.panics {
							out = append(out, apiPath{panics: true, facts: sp.facts, notes: append(append([]string{}, notes...), sp.notes...), pos: sp.pos})
							continue
						}
						e3 := map[ssa.Value]absVal{}
						for k, v := range env {
							e3[k] = v
						}
						if len(sp.results) == 1 {
							e3[x] = sp.results[0]
						} else {
							e3[x] = absVal{k: aTuple, elems: sp.results}
						}
						// continue this block after the call by re-walking the remainder in a synthetic way
						ai.contBlock(b, idx+1, from, e3, sp.facts, append(append([]string{}, notes...), sp.notes...), steps, &out, walk)
					}
					return
				default:
					env[x] = absVal{k: aUnknown}
				}
			case *ssa.Extract:
				t := get(x.Tuple)
				if t.k == aTuple && x.Index < len(t.elems) {
					env[x] = t.elems[x.Index]
				} else {
					env[x] = absVal{k: aUnknown}
				}
			case *ssa.UnOp:
				if x.Op == token.MUL {
					if fa, ok := x.X.(*ssa.FieldAddr); ok {
						base := get(fa.X)
						switch {
						case base.k == aRecv && fieldName(fa) == "node":
							env[x] = absVal{k: aRecvNode}
						case base.k == aExprOfParseNode && fieldName(fa) == "node":
							env[x] = absVal{k: aParseNode}
						default:
							env[x] = absVal{k: aUnknown}
						}
					} else {
						env[x] = get(x.X)
					}
				}
			case *ssa.Alloc:
				if strings.HasSuffix(typeShort(x.Type()), "jmespath.Expression") {
					env[x] = absVal{k: aExprOther}
				}
			case *ssa.Store:
				if fa, ok := x.Addr.(*ssa.FieldAddr); ok {
					if al, ok := fa.X.(*ssa.Alloc); ok && fieldName(fa) == "node" {
						if get(x.Val).k == aParseNode {
							env[al] = absVal{k: aExprOfParseNode}
						}
					}
				}
			case *ssa.MakeInterface:
				env[x] = get(x.X)
			case *ssa.ChangeInterface:
				env[x] = get(x.X)
			case *ssa.Panic:
				out = append(out, apiPath{panics: true, facts: facts, notes: notes, pos: x.Pos()})
				return
			case *ssa.Return:
				var rs []absVal
				for _, rv := range x.Results {
					rs = append(rs, get(rv))
				}
				out = append(out, apiPath{results: rs, facts: facts, notes: notes, pos: x.Pos()})
				return
			case *ssa.Jump:
				walk(b.Succs[0], b, env, facts, notes, steps+1)
				return
			case *ssa.If:
				ai.branch(x, b, env, facts, notes, steps, get, walk)
				return
			}
		}
	}
	walk(fn.Blocks[0], nil, env, facts, nil, 0)
	return out
}

// contBlock continues the interpretation of block b from instruction index i (after an inlined call).
func (ai *apiInterp) contBlock(b *ssa.BasicBlock, i int, from *ssa.BasicBlock, env map[ssa.Value]absVal, facts map[string]bool, notes []string, steps int, out *[]apiPath,
	walk func(b, from *ssa.BasicBlock, env map[ssa.Value]absVal, facts map[string]bool, notes []string, steps int)) {
	// build a shallow clone of the block semantics by interpreting the tail here
	get := func(v ssa.Value) absVal {
		if c, ok := v.(*ssa.Const); ok {
			if c.IsNil() {
				return absVal{k: aNil}
			}
			return absVal{k: aUnknown}
		}
		if a, ok := env[v]; ok {
			return a
		}
		return absVal{k: aUnknown}
	}
	for idx := i; idx < len(b.Instrs); idx++ {
		switch x := b.Instrs[idx].(type) {
		case *ssa.Extract:
			t := get(x.Tuple)
			if t.k == aTuple && x.Index < len(t.elems) {
				env[x] = t.elems[x.Index]
			} else {
				env[x] = absVal{k: aUnknown}
			}
		case *ssa.Call:
			// a second call in the same block after an inlined helper: restart generic handling through a tiny trampoline
			full := calleeFullName(&x.Call)
			callee := calleeOf(&x.Call)
			var cargs []absVal
			for _, a := range x.Call.Args {
				cargs = append(cargs, get(a))
			}
			switch {
			case full == ai.p.Eval.PkgPath+".Evaluate":
				if len(cargs) != 2 || (cargs[0].k != aParseNode && cargs[0].k != aRecvNode) {
					notes = append(notes, "evaluator.Evaluate called with a node that is neither the Parse result nor the receiver's node")
				}
				if len(cargs) == 2 && cargs[1].k != aParamData {
					notes = append(notes, "evaluator.Evaluate does not receive the data parameter unchanged")
				}
				if len(cargs) > 0 && cargs[0].k == aParseNode && !facts["ParseOK"] {
					notes = append(notes, "evaluator.Evaluate can run although parser.Parse has not been seen to succeed")
				}
				facts = copyFacts(facts)
				facts["evaluated"] = true
				env[x] = absVal{k: aTuple, elems: []absVal{{k: aEvalRes}, {k: aEvalErr}}}
			case callee != nil && ai.p.PkgOf(callee) == ai.p.Root:
				res := callee.Signature.Results()
				mapped := absVal{k: aUnknown}
				if res.Len() == 1 && isErrorType(res.At(0).Type()) {
					for _, ca := range cargs {
						switch ca.k {
						case aParseErr:
							mapped = absVal{k: aMappedParseErr}
						case aEvalErr:
							mapped = absVal{k: aMappedEvalErr}
						}
					}
				}
				if mapped.k != aUnknown {
					env[x] = mapped
					continue
				}
				sub := ai.run(callee, cargs, facts, 2)
				for _, sp := range sub {
					if sp.panics {
						*out = append(*out, apiPath{panics: true, facts: sp.facts, notes: append(append([]string{}, notes...), sp.notes...), pos: sp.pos})
						continue
					}
					e3 := map[ssa.Value]absVal{}
					for k, v := range env {
						e3[k] = v
					}
					if len(sp.results) == 1 {
						e3[x] = sp.results[0]
					} else {
						e3[x] = absVal{k: aTuple, elems: sp.results}
					}
					ai.contBlock(b, idx+1, from, e3, sp.facts, append(append([]string{}, notes...), sp.notes...), steps, out, walk)
				}
				return
			default:
				env[x] = absVal{k: aUnknown}
			}
		case *ssa.UnOp:
			if x.Op == token.MUL {
				if fa, ok := x.X.(*ssa.FieldAddr); ok {
					base := get(fa.X)
					switch {
					case base.k == aRecv && fieldName(fa) == "node":
						env[x] = absVal{k: aRecvNode}
					case base.k == aExprOfParseNode && fieldName(fa) == "node":
						env[x] = absVal{k: aParseNode}
					default:
						env[x] = absVal{k: aUnknown}
					}
				} else {
					env[x] = get(x.X)
				}
			}
		case *ssa.Alloc:
			if strings.HasSuffix(typeShort(x.Type()), "jmespath.Expression") {
				env[x] = absVal{k: aExprOther}
			}
		case *ssa.Store:
			if fa, ok := x.Addr.(*ssa.FieldAddr); ok {
				if al, ok := fa.X.(*ssa.Alloc); ok && fieldName(fa) == "node" {
					if get(x.Val).k == aParseNode {
						env[al] = absVal{k: aExprOfParseNode}
					}
				}
			}
		case *ssa.MakeInterface:
			env[x] = get(x.X)
		case *ssa.ChangeInterface:
			env[x] = get(x.X)
		case *ssa.Panic:
			*out = append(*out, apiPath{panics: true, facts: facts, notes: notes, pos: x.Pos()})
			return
		case *ssa.Return:
			var rs []absVal
			for _, rv := range x.Results {
				rs = append(rs, get(rv))
			}
			*out = append(*out, apiPath{results: rs, facts: facts, notes: notes, pos: x.Pos()})
			return
		case *ssa.Jump:
			walk(b.Succs[0], b, env, facts, notes, steps+1)
			return
		case *ssa.If:
			ai.branch(x, b, env, facts, notes, steps, get, walk)
			return
		}
	}
}

// branch decides or forks an If on the nil-ness of an abstract value.
func (ai *apiInterp) branch(x *ssa.If, b *ssa.BasicBlock, env map[ssa.Value]absVal, facts map[string]bool, notes []string, steps int,
	get func(ssa.Value) absVal, walk func(b, from *ssa.BasicBlock, env map[ssa.Value]absVal, facts map[string]bool, notes []string, steps int)) {
	cond := x.Cond
	neg := false
	for {
		u, ok := cond.(*ssa.UnOp)
		if !ok || u.Op != token.NOT {
			break
		}
		cond, neg = u.X, !neg
	}
	goBoth := func() {
		walk(b.Succs[0], b, env, facts, notes, steps+1)
		walk(b.Succs[1], b, env, facts, notes, steps+1)
	}
	bin, ok := cond.(*ssa.BinOp)
	if !ok || (bin.Op != token.EQL && bin.Op != token.NEQ) {
		goBoth()
		return
	}
	var v absVal
	switch {
	case isNilConst(bin.Y):
		v = get(bin.X)
	case isNilConst(bin.X):
		v = get(bin.Y)
	default:
		goBoth()
		return
	}
	// take(nonNil) walks the successor for "value is non-nil" = nonNil
	take := func(nonNil bool, f map[string]bool) {
		t := nonNil
		if bin.Op == token.EQL {
			t = !t
		}
		if neg {
			t = !t
		}
		if t {
			walk(b.Succs[0], b, env, f, notes, steps+1)
		} else {
			walk(b.Succs[1], b, env, f, notes, steps+1)
		}
	}
	switch v.k {
	case aNil:
		take(false, facts)
	case aMappedParseErr, aMappedEvalErr, aExprOfParseNode, aExprOther:
		take(true, facts)
	case aParseErr:
		switch {
		case facts["ParseOK"]:
			take(false, facts)
		case facts["ParseFail"]:
			take(true, facts)
		default:
			f1 := copyFacts(facts)
			f1["ParseFail"] = true
			take(true, f1)
			f2 := copyFacts(facts)
			f2["ParseOK"] = true
			take(false, f2)
		}
	case aEvalErr:
		switch {
		case facts["EvalOK"]:
			take(false, facts)
		case facts["EvalFail"]:
			take(true, facts)
		default:
			f1 := copyFacts(facts)
			f1["EvalFail"] = true
			take(true, f1)
			f2 := copyFacts(facts)
			f2["EvalOK"] = true
			take(false, f2)
		}
	default:
		goBoth()
	}
}

func describePath(pt apiPath) string {
	var fs []string
	for k, v := range pt.facts {
		if v && k != "parsed" && k != "evaluated" {
			fs = append(fs, k)
		}
	}
	sort.Strings(fs)
	if pt.panics {
		return "panic under {" + strings.Join(fs, ",") + "}"
	}
	var rs []string
	for _, r := range pt.results {
		rs = append(rs, r.k.String())
	}
	return "return (" + strings.Join(rs, ", ") + ") under {" + strings.Join(fs, ",") + "}"
}

func ruleAAPIShape(p *Program, r *Reporter) {
	for _, fn := range p.API {
		name := p.FuncName(fn)
		ai := &apiInterp{p: p, budget: 4000}
		var args []absVal
		isMethod := fn.Signature.Recv() != nil
		for i, prm := range fn.Params {
			switch {
			case isMethod && i == 0:
				args = append(args, absVal{k: aRecv})
			case isStringType(prm.Type()):
				args = append(args, absVal{k: aParamExpr})
			default:
				args = append(args, absVal{k: aParamData})
			}
		}
		paths := ai.run(fn, args, map[string]bool{}, 0)
		if len(paths) == 0 {
			r.Unknown(fn.Pos(), name+" paths", "no path through the function could be interpreted")
			continue
		}
		seen := map[string]bool{}
		for i, pt := range paths {
			key := fmt.Sprintf("%s path#%d", name, i+1)
			desc := describePath(pt)
			bad := ""
			for _, n := range pt.notes {
				bad = n
			}
			f := pt.facts
			has := func(k string) bool { return f[k] }
			res := func(i int) absKind {
				if i < len(pt.results) {
					return pt.results[i].k
				}
				return aUnknown
			}
			if bad == "" {
				switch fn.Name() {
				case "Search":
					if isMethod {
						switch {
						case pt.panics:
							bad = "Expression.Search can panic"
						case !has("evaluated"):
							bad = "a return is reachable without calling evaluator.Evaluate"
						case has("EvalFail") && (res(0) != aNil || res(1) != aMappedEvalErr):
							bad = "when evaluation fails the call must return (nil, mapped evaluation error)"
						case has("EvalOK") && (res(0) != aEvalRes || res(1) != aNil):
							bad = "when evaluation succeeds the call must return (Evaluate's result, nil)"
						case !has("EvalFail") && !has("EvalOK"):
							bad = "the outcome does not depend on the error of evaluator.Evaluate"
						}
					} else {
						switch {
						case pt.panics:
							bad = "Search can panic"
						case !has("parsed"):
							bad = "a return is reachable without calling parser.Parse: static faults then depend on the path taken (possibly on the data)"
						case has("ParseFail") && (res(0) != aNil || res(1) != aMappedParseErr || has("evaluated")):
							bad = "when Parse fails the call must return (nil, mapped parse error) without evaluating"
						case has("ParseOK") && has("EvalFail") && (res(0) != aNil || res(1) != aMappedEvalErr):
							bad = "when evaluation fails the call must return (nil, mapped evaluation error)"
						case has("ParseOK") && has("EvalOK") && (res(0) != aEvalRes || res(1) != aNil):
							bad = "when both succeed the call must return (Evaluate's result, nil)"
						case !has("ParseFail") && !(has("ParseOK") && (has("EvalOK") || has("EvalFail"))):
							bad = "the outcome does not depend on the errors of Parse and Evaluate"
						}
					}
				case "Compile":
					switch {
					case pt.panics:
						bad = "Compile can panic"
					case !has("parsed"):
						bad = "a return is reachable without calling parser.Parse"
					case has("evaluated"):
						bad = "Compile evaluates"
					case has("ParseFail") && (res(0) != aNil || res(1) != aMappedParseErr):
						bad = "when Parse fails Compile must return (nil, mapped parse error)"
					case has("ParseOK") && (res(0) != aExprOfParseNode || res(1) != aNil):
						bad = "when Parse succeeds Compile must return (an Expression holding Parse's node, nil)"
					case !has("ParseFail") && !has("ParseOK"):
						bad = "the outcome does not depend on the error of parser.Parse"
					}
				case "MustCompile":
					switch {
					case !has("parsed"):
						bad = "a path avoids parser.Parse"
					case has("ParseFail") && !pt.panics:
						bad = "MustCompile returns although parser.Parse failed (it must panic exactly when Compile fails)"
					case has("ParseOK") && (pt.panics || res(0) != aExprOfParseNode):
						bad = "when Parse succeeds MustCompile must return an Expression holding Parse's node"
					case !has("ParseFail") && !has("ParseOK"):
						bad = "the outcome does not depend on the error of parser.Parse"
					}
				}
			}
			sig := desc
			if seen[sig] && bad == "" {
				continue
			}
			seen[sig] = true
			if bad != "" {
				r.Bad(pt.pos, key, desc+": "+bad)
			} else {
				r.OK(pt.pos, key, desc)
			}
		}
	}
	// Parse has a single string parameter: it cannot see the data
	if pf := p.SSAPkg[p.Parser].Func("Parse"); pf != nil {
		if len(pf.Params) == 1 && isStringType(pf.Params[0].Type()) {
			r.OK(pf.Pos(), "parser.Parse signature", "Parse(expression string): the data cannot influence static checks")
		} else {
			r.Bad(pf.Pos(), "parser.Parse signature", "Parse takes more than the expression text")
		}
	} else {
		r.Unknown(token.NoPos, "parser.Parse signature", "parser.Parse not found")
	}
}

// A-NIL-RESULT is decided on the same interpretation: every path with a non-nil error carries a nil result.
func ruleANilResult(p *Program, r *Reporter) {
	for _, fn := range p.API {
		res := fn.Signature.Results()
		if res.Len() != 2 || !isErrorType(res.At(1).Type()) {
			continue
		}
		name := p.FuncName(fn)
		ai := &apiInterp{p: p, budget: 4000}
		var args []absVal
		isMethod := fn.Signature.Recv() != nil
		for i, prm := range fn.Params {
			switch {
			case isMethod && i == 0:
				args = append(args, absVal{k: aRecv})
			case isStringType(prm.Type()):
				args = append(args, absVal{k: aParamExpr})
			default:
				args = append(args, absVal{k: aParamData})
			}
		}
		n := 0
		seen := map[string]bool{}
		for _, pt := range ai.run(fn, args, map[string]bool{}, 0) {
			if pt.panics || len(pt.results) != 2 {
				continue
			}
			d := describePath(pt)
			if seen[d] {
				continue
			}
			seen[d] = true
			n++
			key := fmt.Sprintf("%s outcome#%d", name, n)
			errNonNil := pt.results[1].k != aNil
			switch {
			case !errNonNil:
				r.Trivial(pt.pos, key, d)
			case pt.results[0].k == aNil:
				r.OK(pt.pos, key, d+": error outcome carries a nil result")
			default:
				r.Bad(pt.pos, key, d+": a non-nil error is returned together with a non-nil result")
			}
		}
	}
}
