package main

// rules_balance.go: counters that are incremented on entry must be decremented on every exit (a pairing rule).

import (
	"fmt"
	"go/constant"
	"go/token"

	"golang.org/x/tools/go/ssa"
)

func init() {
	register(&Rule{ID: "P-BALANCED", Props: []string{"C04", "C09", "C06", "C03"}, Floor: 0,
		Doc: "Pairing: when a function adds one to a field of its receiver or of a parameter (a nesting-depth or recursion counter) then every path from that increment to a return of the same function passes a store that takes it back, or a deferred function that does was registered before; otherwise the counter drifts with the shape of the input and a limit tested against it rejects (or admits) the wrong expressions. The rule has no instance on a tree without such counters.",
		Run: rulePBalanced})
}

// fieldStep recognises `x.f = x.f + c` / `x.f = x.f - c` and returns the field address and the signed constant.
func fieldStep(st *ssa.Store) (*ssa.FieldAddr, int64, bool) {
	fa, ok := st.Addr.(*ssa.FieldAddr)
	if !ok {
		return nil, 0, false
	}
	bin, ok := st.Val.(*ssa.BinOp)
	if !ok || (bin.Op != token.ADD && bin.Op != token.SUB) {
		return nil, 0, false
	}
	c, ok := bin.Y.(*ssa.Const)
	if !ok || c.Value == nil || c.Value.Kind() != constant.Int {
		return nil, 0, false
	}
	ld, ok := bin.X.(*ssa.UnOp)
	if !ok || ld.Op != token.MUL {
		return nil, 0, false
	}
	fa2, ok := ld.X.(*ssa.FieldAddr)
	if !ok || fa2.Field != fa.Field || !sameValue(fa2.X, fa.X) {
		return nil, 0, false
	}
	v, _ := constant.Int64Val(c.Value)
	if bin.Op == token.SUB {
		v = -v
	}
	return fa, v, v != 0
}

func rulePBalanced(p *Program, r *Reporter) {
	for _, fn := range p.ReachFuncs() {
		if fn.Parent() != nil {
			continue
		}
		name := p.FuncName(fn)
		n := 0
		for _, b := range fn.Blocks {
			for i, in := range b.Instrs {
				st, ok := in.(*ssa.Store)
				if !ok {
					continue
				}
				fa, step, ok := fieldStep(st)
				if !ok || step <= 0 {
					continue
				}
				// the object must outlive the call: receiver or parameter (or loaded from one)
				if _, isAlloc := fa.X.(*ssa.Alloc); isAlloc {
					continue
				}
				// only counters: the same function (or a function it defers) also steps the field back somewhere
				paired := false
				for _, fb := range append([]*ssa.Function{fn}, fn.AnonFuncs...) {
					for _, bb := range fb.Blocks {
						for _, in2 := range bb.Instrs {
							if s2, ok := in2.(*ssa.Store); ok {
								if fa2, step2, ok := fieldStep(s2); ok && step2 == -step && fa2.Field == fa.Field {
									paired = true
								}
							}
						}
					}
				}
				if !paired {
					continue
				}
				n++
				key := fmt.Sprintf("%s counter %s#%d", name, fieldName(fa), n)
				undoes := func(x ssa.Instruction) bool {
					s2, ok := x.(*ssa.Store)
					if !ok {
						return false
					}
					fa2, step2, ok := fieldStep(s2)
					return ok && step2 == -step && fa2.Field == fa.Field && sameValue(fa2.X, fa.X)
				}
				// a deferred closure registered before the increment that undoes it
				deferred := false
				for _, b2 := range fn.Blocks {
					for _, in2 := range b2.Instrs {
						df, ok := in2.(*ssa.Defer)
						if !ok {
							continue
						}
						if !(b2.Dominates(b)) {
							continue
						}
						var cl *ssa.Function
						switch f := df.Call.Value.(type) {
						case *ssa.MakeClosure:
							cl, _ = f.Fn.(*ssa.Function)
						case *ssa.Function:
							cl = f
						}
						if cl == nil {
							continue
						}
						for _, cb := range cl.Blocks {
							for _, cin := range cb.Instrs {
								if s2, ok := cin.(*ssa.Store); ok {
									if fa2, step2, ok := fieldStep(s2); ok && step2 == -step && fa2.Field == fa.Field {
										deferred = true
									}
								}
							}
						}
					}
				}
				if deferred {
					r.OK(st.Pos(), key, "taken back by a deferred function")
					continue
				}
				// search for a return reachable without passing an undoing store
				var bad *ssa.Return
				seen := map[*ssa.BasicBlock]bool{}
				var walk func(blk *ssa.BasicBlock, from int)
				walk = func(blk *ssa.BasicBlock, from int) {
					if bad != nil {
						return
					}
					for k := from; k < len(blk.Instrs); k++ {
						if undoes(blk.Instrs[k]) {
							return
						}
						if ret, ok := blk.Instrs[k].(*ssa.Return); ok {
							bad = ret
							return
						}
					}
					for _, s := range blk.Succs {
						if !seen[s] {
							seen[s] = true
							walk(s, 0)
						}
					}
				}
				walk(b, i+1)
				if bad != nil {
					r.Bad(bad.Pos(), key, fmt.Sprintf("the counter incremented at %s is not taken back on the path that returns here: it grows with every such exit, so a limit tested against it depends on how many times this path was taken, not on the nesting depth", p.Pos(st.Pos())))
				} else {
					r.OK(st.Pos(), key, "every path to a return takes the increment back")
				}
			}
		}
	}
}
