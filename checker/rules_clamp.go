package main

// rules_clamp.go: E-CLAMP-SPEC. The slice helpers (the functions the dispatcher hands Slice and SliceStep nodes to) are
// interpreted on a symbolic subject with symbolic integers start, stop, step; every comparison between linear forms
// over {start, stop, step, len} is decided by the relational domain of lin.go or forks the path. Each feasible path is
// then compared, region by region, with the slice algorithm of the specification:
//
//	step > 0: lo = clamp(start, 0, len), hi = clamp(stop, 0, len), the walk is lo, lo+step, ... < hi
//	step < 0: lo = clamp(start, -1, len-1), hi = clamp(stop, -1, len-1), the walk is lo, lo+step, ... > hi
//	(a negative start or stop first has len added to it)
//
// A region is one of the four cases of start, one of the four cases of stop and whether the walk is empty; inside a
// region lo and hi are linear forms, so "the code reads from index lo" is an entailment between linear constraints.

import (
	"fmt"
	"go/constant"
	"go/token"
	"go/types"
	"os"
	"sort"
	"strings"

	"golang.org/x/tools/go/ssa"
)

func init() {
	register(&Rule{ID: "E-CLAMP-SPEC", Props: []string{"C12", "C01", "C03"}, Floor: 4,
		Doc: "the clamping arithmetic of the two slice helpers, by interpretation on a symbolic subject with symbolic start, stop and step and a relational (linear-inequality) numeric domain: on every feasible path over an array, and in every region of (start, stop, len, sign of step) the specification's slice algorithm distinguishes, an empty result is returned only where the specified walk is empty, a[lo:hi] is returned with exactly the specified bounds, and a stepped result has the specified number of elements ceil(|hi-lo| / |step|), is read from the specified first index and advances by step; for strings the empty results and the number of characters reserved for the result are checked the same way (the walk over the characters itself is not)",
		Run: ruleEClampSpec})
}

type clampDom struct {
	*valDom
	nm *linNamer
}

func (d *clampDom) Cmp(e *Engine, st *State, op token.Token, x, y AV) (AV, bool) {
	lx, ok1 := d.nm.linOf(st, x)
	ly, ok2 := d.nm.linOf(st, y)
	if ok1 && ok2 && !(lx.isConst() && ly.isConst()) {
		cs := d.nm.pathCons(st)
		if linEntails(cs, op, lx, ly) {
			return avConst{constant.MakeBool(true)}, true
		}
		if linEntails(cs, negateOp(op), lx, ly) {
			return avConst{constant.MakeBool(false)}, true
		}
		return nil, false
	}
	// a rounded-up quotient of two quantities the path knows to be positive is at least one
	if v, decided := d.cmpQuotient(st, op, x, y, ok1, ok2, lx, ly); decided {
		return avConst{constant.MakeBool(v)}, true
	}
	return d.valDom.Cmp(e, st, op, x, y)
}

func (d *clampDom) cmpQuotient(st *State, op token.Token, x, y AV, xLin, yLin bool, lx, ly linF) (bool, bool) {
	q, k := x, ly
	switch {
	case !xLin && yLin && ly.isConst():
	case xLin && !yLin && lx.isConst():
		q, k, op = y, lx, flipOp(op)
	default:
		return false, false
	}
	if b, isBin := q.(avBin); !isBin || (b.op != token.QUO && b.op != token.ADD) {
		return false, false
	}
	c, s, ok, _ := ceilDivOf(d.nm, st, q)
	if !ok {
		return false, false
	}
	cs := d.nm.pathCons(st)
	if !linEntails(cs, token.GEQ, c, linK(1)) || !linEntails(cs, token.GEQ, s, linK(1)) {
		return false, false
	}
	// q >= 1
	switch op {
	case token.EQL:
		if k.k < 1 {
			return false, true
		}
	case token.NEQ:
		if k.k < 1 {
			return true, true
		}
	case token.GTR:
		if k.k < 1 {
			return true, true
		}
	case token.GEQ:
		if k.k <= 1 {
			return true, true
		}
	case token.LSS:
		if k.k <= 1 {
			return false, true
		}
	case token.LEQ:
		if k.k < 1 {
			return false, true
		}
	}
	return false, false
}

func (d *clampDom) Call(e *Engine, st *State, site ssa.CallInstruction, callee *ssa.Function, args []AV, depth int) ([]CallOut, bool) {
	if callee != nil {
		switch callee.String() {
		case "unicode/utf8.RuneCountInString", "unicode/utf8.RuneCount":
			if len(args) == 1 {
				sy := avSym{tag: "runecount", payload: args[0]}
				st.assumeInt(st.idOf(sy), token.GEQ, 0)
				return []CallOut{{St: st, Res: []AV{sy}}}, true
			}
		case "unicode/utf8.DecodeRuneInString", "unicode/utf8.DecodeLastRuneInString", "unicode/utf8.DecodeRune", "unicode/utf8.DecodeLastRune":
			// from here on the path walks over the characters of the text
			st.event(Event{Kind: "decode", Pos: site.Pos()})
		case "(*strings.Builder).Grow":
			if len(args) == 2 {
				// the number of characters the result is expected to have; what follows is the walk over the text, which
				// this rule does not decide: the path ends here
				st.event(Event{Kind: "grow", Args: []AV{args[1]}, Pos: site.Pos()})
				return []CallOut{{End: &Outcome{St: st, Cut: true}}}, true
			}
		}
	}
	return d.valDom.Call(e, st, site, callee, args, depth)
}

func (d *clampDom) ObserveIndex(e *Engine, st *State, x, idx AV, site *ssa.IndexAddr) {
	if sy, ok := x.(avSym); ok && idx != nil {
		st.event(Event{Kind: "index", Args: []AV{sy, idx}, Pos: site.Pos()})
	}
}

type clampRegion struct {
	desc string
	cs   []linCons
	v    linF
}

// clampCases: the four cases of a slice bound x under the sign of step.
func clampCases(name string, x, l linF, neg bool) []clampRegion {
	zero, one := linK(0), linK(1)
	mk := func(desc string, v linF, cons ...[]linCons) clampRegion {
		r := clampRegion{desc: desc, v: v}
		for _, c := range cons {
			r.cs = append(r.cs, c...)
		}
		return r
	}
	c := func(op token.Token, a, b linF) []linCons { k, _ := consOf(op, a, b); return k }
	hiV, loV := l, zero
	if neg {
		hiV, loV = l.sub(one), zero.sub(one)
	}
	return []clampRegion{
		mk(name+" >= len", hiV, c(token.GEQ, x, l)),
		mk("0 <= "+name+" < len", x, c(token.GEQ, x, zero), c(token.LSS, x, l)),
		mk("-len <= "+name+" < 0", x.add(l), c(token.LSS, x, zero), c(token.GEQ, x, l.scale(-1))),
		mk(name+" < -len", loV, c(token.LSS, x, l.scale(-1))),
	}
}

func ruleEClampSpec(p *Program, r *Reporter) {
	vd := newValDom(p)
	if vd.why != "" {
		r.Unknown(token.NoPos, "evaluator model", vd.why)
		return
	}
	for _, name := range []string{"slice", "sliceStep"} {
		fn := producerFunc(p, name)
		if fn == nil {
			r.Unknown(token.NoPos, "evaluator."+name, "slice helper not found")
			continue
		}
		clampCheck(p, r, vd, fn, name)
	}
}

func clampCheck(p *Program, r *Reporter, vd *valDom, fn *ssa.Function, name string) {
	nm := &linNamer{names: map[string]string{}}
	d := &clampDom{valDom: vd, nm: nm}
	e := newEngine(p, d)
	e.MaxVisits = 2
	e.SymSlices = true
	e.TraceMake = true
	st := e.WithInit(vd.ed.pkg, newState())
	subject := avSym{id: e.fresh(), tag: "subject"}
	args := make([]AV, len(fn.Params))
	ints := []string{"start", "stop", "step"}
	nInts := 0
	subjIdx := -1
	var stepSym *avSym
	for i, prm := range fn.Params {
		b, isBasic := prm.Type().Underlying().(*types.Basic)
		switch {
		case subjIdx < 0 && isAnyType(prm.Type()) && !isNodeType(prm.Type()):
			subjIdx = i
			args[i] = subject
		case isBasic && b.Info()&types.IsInteger != 0 && nInts < len(ints):
			sy := avSym{id: e.fresh(), tag: "arg:" + ints[nInts]}
			if ints[nInts] == "step" {
				st.assumeInt(sy.id, token.NEQ, 0) // a zero step is rejected by the parser (P-STEP-ZERO, T-INDEX)
				stepSym = &sy
			}
			nm.atom(sy)
			nInts++
			args[i] = sy
		default:
			// the bounds handed over in one struct (by value or by pointer): its integer fields, in declaration order
			if stt, isStruct := derefType(prm.Type()).Underlying().(*types.Struct); isStruct && nInts == 0 {
				flat := map[string]AV{}
				for k := 0; k < stt.NumFields(); k++ {
					fb, ok := stt.Field(k).Type().Underlying().(*types.Basic)
					if !ok || fb.Info()&types.IsInteger == 0 || nInts >= len(ints) {
						continue
					}
					sy := avSym{id: e.fresh(), tag: "arg:" + ints[nInts]}
					if ints[nInts] == "step" {
						st.assumeInt(sy.id, token.NEQ, 0)
						stepSym = &sy
					}
					nm.atom(sy)
					nInts++
					flat[stt.Field(k).Name()] = sy
				}
				if _, isPtr := prm.Type().Underlying().(*types.Pointer); isPtr {
					o := e.NewObj("", derefType(prm.Type()))
					for f, v := range flat {
						st.store(avPtr{o, "." + f}, v)
					}
					args[i] = avPtr{o, ""}
				} else {
					args[i] = avStruct{f: flat}
				}
				continue
			}
			args[i] = avSym{id: e.fresh(), tag: "other:" + prm.Name()}
		}
	}
	keyBase := "evaluator." + name
	if subjIdx < 0 || nInts < 2 {
		r.Unknown(fn.Pos(), keyBase+" array", fmt.Sprintf("the helper does not have the expected parameters (a subject and start, stop[, step] integers): %s", fn.Signature))
		return
	}
	outs := e.Run(fn, args, st)
	if e.Aborted != "" {
		r.Unknown(fn.Pos(), keyBase+" array", "path enumeration aborted: "+e.Aborted)
		return
	}
	start, stop, l := linA("start"), linA("stop"), linA("len")
	step := linK(1)
	if stepSym != nil {
		step = linA("step")
	}
	type tally struct {
		checked   int
		bad       []string
		badPos    token.Pos
		unknown   []string
		unkPos    token.Pos
		kinds     map[string]int
		pathCount int
	}
	tl := map[string]*tally{"array": {kinds: map[string]int{}}, "string": {kinds: map[string]int{}}}
	for _, o := range outs {
		if o.Panic {
			continue
		}
		passed, _ := o.St.subjectTests(subject)
		kindOfSubject := ""
		var base AV
		for _, t := range passed {
			if t == "[]any" {
				kindOfSubject = "array"
			} else if t == "string" {
				kindOfSubject = "string"
			}
			if kindOfSubject != "" {
				base = avSym{tag: "asserted:" + t, payload: subject}
				break
			}
		}
		if kindOfSubject == "" {
			continue
		}
		t := tl[kindOfSubject]
		pos := fn.Pos()
		if o.Ret != nil {
			pos = o.Ret.Pos()
		}
		pcs := nm.pathCons(o.St)
		if !linFeasible(pcs) {
			continue
		}
		t.pathCount++
		res := classifyClampResult(nm, o, kindOfSubject, base)
		if res.kind == "skip" {
			continue
		}
		if res.kind == "unknown" {
			if kindOfSubject == "array" {
				t.unknown = append(t.unknown, res.why)
				t.unkPos = pos
			}
			continue
		}
		if res.pos != token.NoPos {
			pos = res.pos
		}
		t.kinds[res.kind]++
		for _, neg := range []bool{false, true} {
			if neg && stepSym == nil {
				continue
			}
			scs := pcs
			sdesc := "step > 0"
			if stepSym != nil {
				k, _ := consOf(token.GEQ, step, linK(1))
				if neg {
					k, _ = consOf(token.LEQ, step, linK(-1))
					sdesc = "step < 0"
				}
				scs = append(append([]linCons{}, pcs...), k...)
				if !linFeasible(scs) {
					continue
				}
			} else {
				sdesc = "step 1"
			}
			for _, sc := range clampCases("start", start, l, neg) {
				for _, tc := range clampCases("stop", stop, l, neg) {
					cs := append(append(append([]linCons{}, scs...), sc.cs...), tc.cs...)
					if !linFeasible(cs) {
						continue
					}
					lo, hi := sc.v, tc.v
					emptyOp := token.GEQ // the walk is empty when lo >= hi (step > 0), lo <= hi (step < 0)
					if neg {
						emptyOp = token.LEQ
					}
					for _, empty := range []bool{true, false} {
						op := emptyOp
						if !empty {
							op = negateOp(emptyOp)
						}
						ek, _ := consOf(op, lo, hi)
						rcs := append(append([]linCons{}, cs...), ek...)
						if !linFeasible(rcs) {
							continue
						}
						desc := fmt.Sprintf("%s, %s, %s, walk %s", sdesc, sc.desc, tc.desc, map[bool]string{true: "empty", false: "not empty"}[empty])
						t.checked++
						if msg := res.check(nm, o.St, rcs, lo, hi, step, neg, empty); msg != "" {
							if os.Getenv("JMESCHECK_DEBUG_CLAMP") != "" {
								fmt.Fprintf(os.Stderr, "BAD %s %s: %s\n", name, desc, msg)
								for _, c := range o.St.Conds {
									fmt.Fprintf(os.Stderr, "    cond %v %s\n", c.Truth, avKey(c.V))
								}
								for _, c := range rcs {
									fmt.Fprintf(os.Stderr, "    cons %s <= 0\n", c.f)
								}
								if len(o.Res) > 0 {
									fmt.Fprintf(os.Stderr, "    res %s cut=%v\n", avKey(o.Res[0]), o.Cut)
								}
							}
							if len(t.bad) < 4 {
								t.bad = append(t.bad, fmt.Sprintf("[%s] %s (specified: lo = %s, hi = %s)", desc, msg, lo, hi))
							}
							t.badPos = pos
						}
					}
				}
			}
		}
	}
	for _, k := range []string{"array", "string"} {
		t := tl[k]
		key := keyBase + " " + k
		var ks []string
		for kk, n := range t.kinds {
			ks = append(ks, fmt.Sprintf("%s %d", kk, n))
		}
		sort.Strings(ks)
		switch {
		case len(t.bad) > 0:
			r.Bad(t.badPos, key, strings.Join(t.bad, "; "))
		case len(t.unknown) > 0:
			r.Unknown(t.unkPos, key, "a result the rule cannot relate to the walk: "+t.unknown[0])
		case t.checked == 0 && k == "array":
			r.Unknown(fn.Pos(), key, fmt.Sprintf("no path over an array subject was compared with the specification (%d feasible paths)", t.pathCount))
		case t.checked == 0:
			r.Unknown(fn.Pos(), key, fmt.Sprintf("no path over a string subject was compared with the specification (%d feasible paths)", t.pathCount))
		default:
			r.OK(fn.Pos(), key, fmt.Sprintf("%d feasible paths, %d (path, region) pairs agree with the specified walk (results: %s)", t.pathCount, t.checked, strings.Join(ks, ", ")))
		}
	}
}

type clampResult struct {
	kind string // empty, range, walk, count, skip, unknown
	why  string
	pos  token.Pos
	// range
	lo, hi linF
	// walk / count
	c, s    linF
	cOK     bool
	cWhy    string
	indices []linF
	idxWhy  string
}

func classifyClampResult(nm *linNamer, o Outcome, subjKind string, base AV) clampResult {
	st := o.St
	var makeEv, growEv *Event
	var idx []Event
	walked := false
	for i := range st.Trace {
		ev := &st.Trace[i]
		switch ev.Kind {
		case "make":
			if ev.Note == "[]any" {
				makeEv = ev
			}
		case "grow":
			growEv = ev
		case "decode":
			walked = walked || growEv == nil
		case "index":
			if avKey(ev.Args[0]) == avKey(base) {
				idx = append(idx, *ev)
			}
		}
	}
	if subjKind == "string" {
		if growEv != nil {
			res := clampResult{kind: "count", pos: growEv.Pos}
			res.c, res.s, res.cOK, res.cWhy = ceilDivOf(nm, st, growEv.Args[0])
			return res
		}
		if o.Ret == nil || len(o.Res) == 0 || walked {
			// what a walk over the characters finds (a text that ends early) is related to the number of code points in
			// ways this rule does not model: only results decided by the clamping alone are compared
			return clampResult{kind: "skip"}
		}
		v := unboxed(o.Res[0])
		if c, ok := v.(avConst); ok && c.v.Kind() == constant.String && constant.StringVal(c.v) == "" {
			return clampResult{kind: "empty"}
		}
		if sy, ok := v.(avSym); ok && sy.tag == "slice" {
			if t, ok := sy.payload.(avTuple); ok && len(t) == 3 {
				lo, ok1 := nm.linOf(st, t[1])
				hi, ok2 := nm.linOf(st, t[2])
				if ok1 && ok2 && lo.isConst() && hi.isConst() && lo.k == hi.k {
					return clampResult{kind: "empty"}
				}
			}
		}
		return clampResult{kind: "skip"} // a walk over the characters: not decided by this rule
	}
	// array subject
	if makeEv != nil {
		res := clampResult{kind: "walk", pos: makeEv.Pos}
		res.c, res.s, res.cOK, res.cWhy = ceilDivOf(nm, st, makeEv.Args[0])
		for _, ev := range idx {
			f, ok := nm.linOf(st, ev.Args[1])
			if !ok {
				res.idxWhy = "the array is read at " + renderVal(ev.Args[1]) + ", which is not a linear form of start, stop, step and the length"
				break
			}
			res.indices = append(res.indices, f)
		}
		return res
	}
	if o.Ret == nil || len(o.Res) == 0 {
		return clampResult{kind: "unknown", why: "the path over an array is cut before any result is built"}
	}
	v := unboxed(o.Res[0])
	switch x := v.(type) {
	case avSlice:
		if x.n == 0 {
			return clampResult{kind: "empty"}
		}
	case avNil:
		return clampResult{kind: "skip"} // E-CONTAINER-KIND
	case avSym:
		if x.tag == "slice" {
			if t, ok := x.payload.(avTuple); ok && len(t) == 3 {
				if avKey(t[0]) != avKey(base) {
					return clampResult{kind: "unknown", why: "a slice of " + renderVal(t[0]) + ", not of the subject"}
				}
				lo, ok1 := nm.linOf(st, t[1])
				hi, ok2 := nm.linOf(st, t[2])
				if hs, isSym := t[2].(avSym); isSym && hs.tag == "len" && avKey(hs.payload) == avKey(base) {
					hi, ok2 = linA("len"), true
				}
				if ok1 && ok2 {
					return clampResult{kind: "range", lo: lo, hi: hi}
				}
				return clampResult{kind: "unknown", why: "the bounds of " + renderVal(x) + " are not linear forms of start, stop and the length"}
			}
		}
		if avKey(x) == avKey(base) {
			return clampResult{kind: "range", lo: linK(0), hi: linA("len")}
		}
	}
	return clampResult{kind: "unknown", why: "the result " + renderVal(o.Res[0])}
}

// ceilDivOf recognises n as ceil(C / S) for linear forms C and S (valid where C >= 1 and S >= 1):
// C/S plus one exactly when C%S is not zero; (C + S - 1) / S; (C - 1) / S + 1.
func ceilDivOf(nm *linNamer, st *State, n AV) (c, s linF, ok bool, why string) {
	inc := false
	if b, isBin := n.(avBin); isBin && b.op == token.ADD {
		if k, isK := st.KnownInt(b.y); isK && k == 1 {
			inc, n = true, b.x
		} else if k, isK := st.KnownInt(b.x); isK && k == 1 {
			inc, n = true, b.y
		}
	}
	q, isBin := n.(avBin)
	if !isBin || q.op != token.QUO {
		if f, isLin := nm.linOf(st, n); isLin && !inc {
			// a count that is itself linear: ceil(C / 1)
			return f, linK(1), true, ""
		}
		return c, s, false, "the number of elements " + renderVal(n) + " is not a quotient the rule recognises"
	}
	num, ok1 := nm.linOf(st, q.x)
	den, ok2 := nm.linOf(st, q.y)
	if !ok1 || !ok2 {
		return c, s, false, "the number of elements " + renderVal(n) + " divides quantities that are not linear forms of start, stop, step and the length"
	}
	// a decision of the path about the remainder of the same division
	for _, cd := range st.Conds {
		v, truth := cd.V, cd.Truth
		for {
			nn, isNot := v.(avNot)
			if !isNot {
				break
			}
			v, truth = nn.x, !truth
		}
		cmp, isCmp := v.(avCmp)
		if !isCmp {
			continue
		}
		rem, isRem := cmp.x.(avBin)
		if !isRem || rem.op != token.REM {
			continue
		}
		if k, isK := st.KnownInt(cmp.y); !isK || k != 0 {
			continue
		}
		rn, ok1 := nm.linOf(st, rem.x)
		rd, ok2 := nm.linOf(st, rem.y)
		if !ok1 || !ok2 || rn.key() != num.key() || rd.key() != den.key() {
			continue
		}
		var nonZero bool
		switch cmp.op {
		case token.GTR, token.NEQ:
			nonZero = truth
		case token.EQL, token.LEQ:
			nonZero = !truth
		default:
			continue
		}
		if nonZero != inc {
			if inc {
				return c, s, false, "one is added to the quotient although the remainder is zero"
			}
			return c, s, false, "the quotient is not rounded up although the remainder is not zero"
		}
		return num, den, true, ""
	}
	if inc {
		return num.add(linK(1)), den, true, "" // (C-1)/S + 1
	}
	return num.sub(den).add(linK(1)), den, true, "" // (C+S-1)/S
}

func (res clampResult) check(nm *linNamer, st *State, cs []linCons, lo, hi, step linF, neg, empty bool) string {
	switch res.kind {
	case "empty":
		if !empty {
			return "an empty result is returned where the specified walk visits at least one element"
		}
	case "range":
		if neg {
			return "a contiguous part of the array is returned for a negative step"
		}
		if !linEntails(cs, token.EQL, step, linK(1)) {
			return "a contiguous part of the array is returned although the step need not be 1"
		}
		if empty {
			if !linEntails(cs, token.EQL, res.lo, res.hi) {
				return fmt.Sprintf("a[%s : %s] is returned where the specified walk is empty", res.lo, res.hi)
			}
			return ""
		}
		if !linEntails(cs, token.EQL, res.lo, lo) || !linEntails(cs, token.EQL, res.hi, hi) {
			return fmt.Sprintf("a[%s : %s] is returned", res.lo, res.hi)
		}
	case "walk", "count":
		if !res.cOK {
			return res.cWhy
		}
		wantC, wantS := hi.sub(lo), step
		if neg {
			wantC, wantS = lo.sub(hi), step.scale(-1)
		}
		if res.s.isConst() && res.s.k == 1 {
			// the number of elements is the linear form res.c itself
			switch {
			case empty:
				if !linEntails(cs, token.EQL, res.c, linK(0)) {
					return fmt.Sprintf("a result of %s elements is built where the specified walk is empty", res.c)
				}
				return ""
			case linEntails(cs, token.EQL, wantS, linK(1)):
				if !linEntails(cs, token.EQL, res.c, wantC) {
					return fmt.Sprintf("the result has %s elements, the specified walk %s", res.c, wantC)
				}
			case linEntails(cs, token.LEQ, wantC, wantS):
				if !linEntails(cs, token.EQL, res.c, linK(1)) {
					return fmt.Sprintf("the result has %s elements, the specified walk one", res.c)
				}
			default:
				return fmt.Sprintf("the result has %s elements, the specified walk ceil((%s) / (%s))", res.c, wantC, wantS)
			}
			return res.checkIndices(cs, lo, step)
		}
		if !linEntails(cs, token.GEQ, res.c, linK(1)) || !linEntails(cs, token.GEQ, res.s, linK(1)) {
			return fmt.Sprintf("the number of elements is ceil((%s) / (%s)), whose operands the path does not know to be positive", res.c, res.s)
		}
		if empty {
			return fmt.Sprintf("a result of ceil((%s) / (%s)) >= 1 elements is built where the specified walk is empty", res.c, res.s)
		}
		if !linEntails(cs, token.EQL, res.c, wantC) || !linEntails(cs, token.EQL, res.s, wantS) {
			return fmt.Sprintf("the result has ceil((%s) / (%s)) elements, the specified walk ceil((%s) / (%s))", res.c, res.s, wantC, wantS)
		}
		return res.checkIndices(cs, lo, step)
	}
	return ""
}

func (res clampResult) checkIndices(cs []linCons, lo, step linF) string {
	if res.kind != "walk" {
		return ""
	}
	if res.idxWhy != "" {
		return res.idxWhy
	}
	for i, f := range res.indices {
		want := lo.add(step.scale(int64(i)))
		if !linEntails(cs, token.EQL, f, want) {
			return fmt.Sprintf("element %d of the result is read from index %s, the specified walk reads index %s", i, f, want)
		}
	}
	return ""
}
