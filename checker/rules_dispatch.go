package main

import (
	"fmt"
	"go/ast"
	"go/constant"
	"go/token"
	"go/types"
	"sort"
	"strings"
	"unicode"

	"golang.org/x/tools/go/ssa"
)

func init() {
	register(&Rule{ID: "E-NODESETS", Props: []string{"C12", "C17", "C01"}, Floor: 1,
		Doc: "isSliceNode names exactly the node types whose case calls slice/sliceStep and isProjectNode exactly those whose case calls a projecting helper; the string bypass of the array projection (right-hand side applied to the whole value) is guarded by a condition on the node's left operand, not only on the data",
		Run: ruleENodeSets})
	register(&Rule{ID: "E-PRUNE", Props: []string{"C01", "C17"}, Floor: 3,
		Doc: "every projection producer (projectArray, filterAndProjectArray, flattenAndProjectArray, projectObject, objectValues, filter, flatten, pruneArray) adds an element to its result only under a dominating test that the element is not null",
		Run: ruleEPrune})
	register(&Rule{ID: "E-EXHAUST", Props: []string{"C01", "C15", "C17"}, Floor: 6,
		Doc: "by interpretation of every projection producer: on every path that returns a result, every array whose length the path looked at has a length the path determined and every map iteration was run until exhausted (no loop over the subject is left early)",
		Run: ruleEExhaust})
	register(&Rule{ID: "E-SELECTOR-NULL", Props: []string{"C01"}, Floor: 3,
		Doc: "selectors and projection helpers return null (and no error) when their subject has the wrong type: the failure edge of the container assertion returns the nil constant",
		Run: ruleESelectorNull})
	register(&Rule{ID: "E-EQUALITY", Props: []string{"C20", "C09", "C01", "C03", "C05"}, Floor: 1,
		Doc: "!= is the negation of the same equality helper as ==; contains tests membership with that helper; in equal the array and object loops are dominated by a length-equality test, the object loop tests key presence with a comma-ok lookup before comparing values, and different JSON types never compare equal by falling through",
		Run: ruleEEquality})
	register(&Rule{ID: "E-TRUTHY", Props: []string{"C20", "C14"}, Floor: 6,
		Doc: "isTrue implements the specification's truth table (null/false/empty string/array/object are false-like, every number of every kind and every other value true-like) and !, &&, ||, filters and filter projections decide truth only by calling isTrue",
		Run: ruleETruthy})
	register(&Rule{ID: "E-RESULT-TYPES", Props: []string{"C18"}, Floor: 46,
		Doc: "every value the evaluator converts to `any` has one of the JSON carrier types: bool, string, []any, map[string]any or one of the 14 numeric kinds; strings are never re-typed as json.Number",
		Run: ruleEResultTypes})
	register(&Rule{ID: "P-CASE-SIBLINGS", Props: []string{"C12", "C17", "C01"}, Floor: 0,
		Doc: "AST nodes of one type that are built under the same token in different parser functions (infix form and prefix form of one construct) set the same fields",
		Run: rulePCaseSiblings})
}

// expected helper for a node type, by naming convention with listed exceptions.
var helperExceptions = map[string]string{
	"Max": "arrayMax", "Min": "arrayMin", "MaxBy": "arrayMaxBy", "MinBy": "arrayMinBy", "Map": "mapArray",
	"Sort": "sortArray", "SortBy": "sortArrayBy", "Type": "typeName", "NotEqual": "equal",
	"FilterAndProject": "filterAndProjectArray", "FlattenAndProject": "flattenAndProjectArray",
	"SmallIndex": "index",
}

// inline cases: implemented in the dispatcher itself.
var inlineNodes = map[string]bool{
	"And": true, "Or": true, "Not": true, "Array": true, "AssertNumber": true, "Bool": true, "Current": true, "DefineVariables": true,
	"Merge": true, "Negate": true, "NotNull": true, "Null": true, "Number": true, "Object": true, "Pipe": true, "Root": true,
	"SelectArray": true, "SelectArraySingle": true, "SelectObject": true, "SelectObjectSingle": true, "String": true, "Variable": true, "Zip": true,
}

func nodeBase(n string) (base string, current bool) {
	n = strings.TrimSuffix(n, "Node")
	if strings.HasSuffix(n, "Current") && n != "Current" {
		return strings.TrimSuffix(n, "Current"), true
	}
	return n, false
}

func expectedHelper(base string) string {
	if h, ok := helperExceptions[base]; ok {
		return h
	}
	r := []rune(base)
	r[0] = unicode.ToLower(r[0])
	return string(r)
}

type caseInfo struct {
	typ     string // "*parser.XNode" or "parser.XNode"
	name    string // XNode
	clause  *ast.CaseClause
	helper  string
	args    []string // symbolic arguments of the helper call
	negated bool
}

// evaluatorCases parses the type switch of evaluate.
func evaluatorCases(p *Program) ([]*caseInfo, *ast.TypeSwitchStmt, string) {
	pk := p.Eval
	fd := p.FuncDecl(pk, "evaluator", "evaluate")
	if fd == nil {
		return nil, nil, "evaluator.evaluate not found"
	}
	var ts *ast.TypeSwitchStmt
	for _, st := range fd.Body.List {
		if x, ok := st.(*ast.TypeSwitchStmt); ok {
			ts = x
		}
	}
	if ts == nil {
		return nil, nil, "evaluate has no top-level type switch"
	}
	var out []*caseInfo
	for _, c := range ts.Body.List {
		cc := c.(*ast.CaseClause)
		for _, e := range cc.List {
			t := typeShort(pk.TypesInfo.TypeOf(e))
			ci := &caseInfo{typ: t, name: strings.TrimPrefix(strings.TrimPrefix(t, "*"), "parser."), clause: cc}
			out = append(out, ci)
		}
	}
	return out, ts, ""
}

// symbolicArgs resolves the arguments of the final helper call of a case clause.
func analyseClause(p *Program, ci *caseInfo) {
	pk := p.Eval
	binds := map[string]string{} // local name -> symbolic value
	sym := func(e ast.Expr) string {
		switch x := ast.Unparen(e).(type) {
		case *ast.Ident:
			if s, ok := binds[x.Name]; ok {
				return s
			}
			return x.Name
		case *ast.SelectorExpr:
			return "field(" + strings.TrimPrefix(exprStr(x), "node.") + ")"
		case *ast.IndexExpr:
			return "field(" + strings.TrimPrefix(exprStr(x), "node.") + ")"
		case *ast.CallExpr:
			if len(x.Args) == 1 {
				if tv, ok := pk.TypesInfo.Types[x.Fun]; ok && tv.IsType() {
					return "field(" + strings.TrimPrefix(exprStr(x.Args[0]), "node.") + ")"
				}
			}
		}
		return exprStr(e)
	}
	var last *ast.ReturnStmt
	for _, st := range ci.clause.Body {
		switch s := st.(type) {
		case *ast.AssignStmt:
			if len(s.Rhs) == 1 {
				if call, ok := s.Rhs[0].(*ast.CallExpr); ok && methodOn(pk, call) == "evaluate" && len(call.Args) == 3 {
					if id, ok := s.Lhs[0].(*ast.Ident); ok {
						binds[id.Name] = "eval(" + strings.TrimPrefix(exprStr(call.Args[0]), "node.") + "," + sym(call.Args[1]) + "," + sym(call.Args[2]) + ")"
					}
				}
			}
		case *ast.ReturnStmt:
			last = s
		}
	}
	if last == nil || len(last.Results) == 0 {
		return
	}
	e := ast.Unparen(last.Results[0])
	if u, ok := e.(*ast.UnaryExpr); ok && u.Op == token.NOT {
		ci.negated = true
		e = ast.Unparen(u.X)
	}
	call, ok := e.(*ast.CallExpr)
	if !ok {
		return
	}
	if f, ok := calleeObj(pk, call).(*types.Func); ok && f.Pkg() == pk.Types {
		ci.helper = f.Name()
		for _, a := range call.Args {
			ci.args = append(ci.args, sym(a))
		}
	}
}

func methodOn(pk interface{}, call *ast.CallExpr) string {
	if sel, ok := call.Fun.(*ast.SelectorExpr); ok {
		return sel.Sel.Name
	}
	return ""
}

func ruleEDispatch(p *Program, r *Reporter) {
	cases, ts, why := evaluatorCases(p)
	if why != "" {
		r.Unknown(token.NoPos, "dispatcher", why)
		return
	}
	// (1) constructed node types == case types
	constructed := map[string]token.Pos{}
	for _, fd := range p.FuncDecls(p.Parser) {
		if !p.ReachDecl(fd) {
			continue
		}
		ast.Inspect(fd.Body, func(n ast.Node) bool {
			cl, ok := n.(*ast.CompositeLit)
			if !ok {
				return true
			}
			t := p.Parser.TypesInfo.TypeOf(cl)
			nt, ok := types.Unalias(t).(*types.Named)
			if !ok || nt.Obj().Pkg() != p.Parser.Types {
				return true
			}
			// does it implement Node?
			if _, isStruct := nt.Underlying().(*types.Struct); !isStruct {
				return true
			}
			nodeIface := p.Parser.Types.Scope().Lookup("Node")
			if nodeIface == nil {
				return true
			}
			iface := nodeIface.Type().Underlying().(*types.Interface)
			form := ""
			switch {
			case types.Implements(nt, iface):
				form = "parser." + nt.Obj().Name()
			case types.Implements(types.NewPointer(nt), iface):
				form = "*parser." + nt.Obj().Name()
			default:
				return true
			}
			if _, have := constructed[form]; !have {
				constructed[form] = cl.Pos()
			}
			return true
		})
	}
	// value-receiver node types can be used in either form; take the form from how the literal is used (& or not)
	caseSet := map[string]bool{}
	for _, ci := range cases {
		caseSet[ci.typ] = true
	}
	var cons []string
	for k := range constructed {
		cons = append(cons, k)
	}
	sort.Strings(cons)
	for _, k := range cons {
		key := "node " + k + " has a case"
		alt := "*" + k
		if strings.HasPrefix(k, "*") {
			alt = strings.TrimPrefix(k, "*")
		}
		switch {
		case caseSet[k]:
			r.OK(constructed[k], key, "constructed by the parser and handled by the dispatcher")
		case caseSet[alt] && !strings.HasPrefix(k, "*"):
			// value-method type built with & somewhere: check how it is actually stored
			r.OK(constructed[k], key, "handled (pointer form)")
		default:
			r.Bad(constructed[k], key, "the parser constructs "+k+" but the dispatcher has no case for it: evaluation fails with an unexpected-operation error")
		}
	}
	for _, ci := range cases {
		k := ci.typ
		_, a := constructed[k]
		_, b := constructed[strings.TrimPrefix(k, "*")]
		if !a && !b {
			r.Trivial(ci.clause.Pos(), "case "+k+" is constructed", "dispatcher case for a node the parser never builds (dead)")
		}
	}
	// (2)(3) helper and argument threading
	byName := map[string]*caseInfo{}
	for _, ci := range cases {
		analyseClause(p, ci)
		byName[ci.name] = ci
	}
	for _, ci := range cases {
		base, cur := nodeBase(ci.name)
		key := "case " + ci.name
		if inlineNodes[base] {
			continue
		}
		want := expectedHelper(base)
		if ci.helper == "" {
			r.Unknown(ci.clause.Pos(), key, "the case does not end in a helper call")
			continue
		}
		if ci.helper != want && !nameImplements(ci.helper, base) {
			r.Bad(ci.clause.Pos(), key, "dispatches to "+ci.helper+" but the helper implementing "+base+" is "+want)
			continue
		}
		// exactly one value-producing return: a second one is a fast path that bypasses the helper
		nret := 0
		for _, st := range ci.clause.Body {
			ast.Inspect(st, func(m ast.Node) bool {
				if _, isLit := m.(*ast.FuncLit); isLit {
					return false
				}
				if ret, ok := m.(*ast.ReturnStmt); ok {
					if !(len(ret.Results) == 2 && exprStr(ret.Results[0]) == "nil" && exprStr(ret.Results[1]) == "err") {
						nret++
					}
				}
				return true
			})
		}
		wantRet := 1
		if ci.name == "ProjectArrayNode" {
			wantRet = 2 // the string bypass, checked by E-NODESETS
		}
		if nret != wantRet {
			r.Bad(ci.clause.Pos(), key, fmt.Sprintf("the case has %d value-producing returns (expected %d): a path produces the result without going through %s, so the two forms can drift apart", nret, wantRet, want))
			continue
		}
		if base == "NotEqual" != ci.negated {
			r.Bad(ci.clause.Pos(), key, "wrong polarity: only != negates its helper's result")
			continue
		}
		// children evaluated in declaration order with (current, variables); value helpers receive them in that order
		bad := ""
		evalIdx := 0
		st := nodeStruct(p, ci.name)
		var childFields []string
		if st != nil {
			for i := 0; i < st.NumFields(); i++ {
				f := st.Field(i)
				switch {
				case namedIs(f.Type(), p.Parser.PkgPath, "Node"):
					childFields = append(childFields, f.Name())
				default:
					if arr, ok := f.Type().Underlying().(*types.Array); ok && namedIs(arr.Elem(), p.Parser.PkgPath, "Node") {
						for k := int64(0); k < arr.Len(); k++ {
							childFields = append(childFields, fmt.Sprintf("%s[%d]", f.Name(), k))
						}
					}
				}
			}
		}
		for _, a := range ci.args {
			if strings.HasPrefix(a, "eval(") {
				parts := strings.Split(strings.TrimSuffix(strings.TrimPrefix(a, "eval("), ")"), ",")
				if len(parts) != 3 || parts[1] != "current" || parts[2] != "variables" {
					bad = "child " + parts[0] + " is not evaluated against the enclosing current node and scope: " + a
					break
				}
				// order among evaluated children: must follow declaration order, except map(&expr, array) which evaluates its second argument
				pos := -1
				for i, cf := range childFields {
					if cf == parts[0] {
						pos = i
					}
				}
				if pos < 0 {
					bad = "evaluates " + parts[0] + " which is not a child field of the node"
					break
				}
				if pos < evalIdx {
					bad = "arguments reach the helper in an order different from the node's fields: " + strings.Join(ci.args, ", ")
					break
				}
				evalIdx = pos
			}
		}
		if bad != "" {
			r.Bad(ci.clause.Pos(), key, bad)
			continue
		}
		// all-value helpers: every child field must be evaluated and passed
		if !cur {
			nEval := 0
			for _, a := range ci.args {
				if strings.HasPrefix(a, "eval(") {
					nEval++
				}
			}
			nNodeArgs := 0
			for _, a := range ci.args {
				if strings.HasPrefix(a, "field(") {
					nNodeArgs++
				}
			}
			if st != nil && nEval+nNodeArgs < len(childFields) {
				r.Bad(ci.clause.Pos(), key, fmt.Sprintf("the node has %d children but only %d reach the helper (%s)", len(childFields), nEval+nNodeArgs, strings.Join(ci.args, ", ")))
				continue
			}
		}
		r.OK(ci.clause.Pos(), key, ci.helper+"("+strings.Join(ci.args, ", ")+")")
	}
	// (4) Current pairs
	for _, ci := range cases {
		base, cur := nodeBase(ci.name)
		if !cur || inlineNodes[base] {
			continue
		}
		sib := byName[base+"Node"]
		if sib == nil {
			continue
		}
		key := "pair " + ci.name + " / " + sib.name
		if ci.helper != sib.helper {
			r.Bad(ci.clause.Pos(), key, "the two forms of the construct dispatch to different helpers: "+ci.helper+" vs "+sib.helper)
			continue
		}
		if len(ci.args) != len(sib.args) {
			r.Bad(ci.clause.Pos(), key, fmt.Sprintf("the two forms pass a different number of arguments (%d vs %d)", len(ci.args), len(sib.args)))
			continue
		}
		bad := ""
		for i := range ci.args {
			a, b := ci.args[i], sib.args[i]
			switch {
			case strings.HasPrefix(b, "eval("):
				if a != "current" {
					bad = fmt.Sprintf("argument %d: the unfused form passes %s, the current-node form must pass current but passes %s", i+1, b, a)
				}
			case strings.HasPrefix(b, "field("):
				fa, fb := strings.TrimSuffix(strings.TrimPrefix(a, "field("), ")"), strings.TrimSuffix(strings.TrimPrefix(b, "field("), ")")
				if fa != fb && !(fb == "Right" && fa == "Child") {
					bad = fmt.Sprintf("argument %d: field %s in the current-node form corresponds to %s in the other form", i+1, fa, fb)
				}
			default:
				if a != b {
					bad = fmt.Sprintf("argument %d differs: %s vs %s", i+1, a, b)
				}
			}
		}
		if bad != "" {
			r.Bad(ci.clause.Pos(), key, bad)
		} else {
			r.OK(ci.clause.Pos(), key, "same helper, current node in place of the evaluated child, corresponding fields")
		}
	}
	// default: falls to unexpectedOperationError
	_ = ts
}

func nodeStruct(p *Program, name string) *types.Struct {
	o := p.Parser.Types.Scope().Lookup(name)
	if o == nil {
		return nil
	}
	st, _ := o.Type().Underlying().(*types.Struct)
	return st
}

// ---------------------------------------------------------------- E-EVAL-ONCE

func ruleEEvalOnce(p *Program, r *Reporter) {
	ev := p.Func(p.Eval, "evaluator", "evaluate")
	if ev == nil {
		r.Unknown(token.NoPos, "evaluate", "evaluator.evaluate not found")
		return
	}
	// group recursive evaluate calls by the access path of their node argument
	type site struct {
		call *ssa.Call
		path string
	}
	byPath := map[string][]site{}
	n := 0
	for _, b := range ev.Blocks {
		for _, in := range b.Instrs {
			c, ok := in.(*ssa.Call)
			if !ok || calleeOf(&c.Call) != ev {
				continue
			}
			n++
			path := nodeArgPath(c.Call.Args[1])
			if path == "" {
				continue // loop over Arguments / map values: evaluated once per element by construction of the range
			}
			byPath[path] = append(byPath[path], site{c, path})
		}
	}
	var paths []string
	for k := range byPath {
		paths = append(paths, k)
	}
	sort.Strings(paths)
	for _, path := range paths {
		sites := byPath[path]
		key := "evaluate child " + path
		bad := ""
		for i := 0; i < len(sites); i++ {
			for j := 0; j < len(sites); j++ {
				if i == j {
					continue
				}
				a, b := sites[i].call, sites[j].call
				if a.Block() == b.Block() || reaches(a.Block(), b.Block(), nil) && a.Block() != b.Block() {
					if a.Block() != b.Block() || instrIndex(a) < instrIndex(b) {
						bad = fmt.Sprintf("evaluated at %s and again on the same path at %s", p.Pos(a.Pos()), p.Pos(b.Pos()))
					}
				}
			}
		}
		if bad != "" {
			r.Bad(sites[0].call.Pos(), key, "child node "+bad+": nested expressions cost time exponential in their depth")
		} else {
			r.OK(sites[0].call.Pos(), key, fmt.Sprintf("%d evaluation site(s), at most one per path", len(sites)))
		}
	}
	if n < 100 {
		r.Unknown(ev.Pos(), "evaluate recursion sites", fmt.Sprintf("only %d recursive evaluate calls found", n))
	}
}

func instrIndex(in ssa.Instruction) int {
	for i, x := range in.Block().Instrs {
		if x == in {
			return i
		}
	}
	return -1
}

// nodeArgPath renders loads like node.(*parser.XNode).Left or .Arguments[2] as "XNode.Left" / "XNode.Arguments[2]".
func nodeArgPath(v ssa.Value) string {
	ld, ok := v.(*ssa.UnOp)
	if !ok || ld.Op != token.MUL {
		return ""
	}
	switch a := ld.X.(type) {
	case *ssa.FieldAddr:
		return typeShort(derefType(a.X.Type())) + "." + fieldName(a)
	case *ssa.IndexAddr:
		if fa, ok := a.X.(*ssa.FieldAddr); ok {
			if c, ok := a.Index.(*ssa.Const); ok {
				return typeShort(derefType(fa.X.Type())) + "." + fieldName(fa) + "[" + c.Value.String() + "]"
			}
		}
	}
	return ""
}

// ---------------------------------------------------------------- E-NODESETS

func typeSwitchTypes(p *Program, fd *ast.FuncDecl) []string {
	var out []string
	ast.Inspect(fd.Body, func(n ast.Node) bool {
		ts, ok := n.(*ast.TypeSwitchStmt)
		if !ok {
			return true
		}
		for _, c := range ts.Body.List {
			cc := c.(*ast.CaseClause)
			isTrue := false
			for _, st := range cc.Body {
				if ret, ok := st.(*ast.ReturnStmt); ok && len(ret.Results) == 1 && exprStr(ret.Results[0]) == "true" {
					isTrue = true
				}
			}
			if !isTrue {
				continue
			}
			for _, e := range cc.List {
				var t types.Type
				for _, pk := range p.Pkgs {
					if tt := pk.TypesInfo.TypeOf(e); tt != nil {
						t = tt
					}
				}
				if t != nil {
					out = append(out, strings.TrimPrefix(strings.TrimPrefix(typeShort(t), "*"), "parser."))
				}
			}
		}
		return false
	})
	sort.Strings(out)
	return out
}

func ruleENodeSets(p *Program, r *Reporter) {
	d := newEvalDom(p)
	if d.why != "" {
		r.Unknown(token.NoPos, "evaluator model", d.why)
		return
	}
	names, forms := sortedForms(p)
	rm := p.roles()
	short := func(fn *ssa.Function) string {
		c := rm.canon[fn]
		if i := strings.LastIndex(c, "."); i >= 0 {
			return c[i+1:]
		}
		return fn.Name()
	}
	// what the dispatcher does with each node type
	var sliceNodes, projNodes []string
	for _, n := range names {
		outs, e := d.run(forms[n])
		if e.Aborted != "" {
			continue
		}
		helper := ""
		for _, o := range outs {
			if o.Panic || o.Cut {
				continue
			}
			pf := d.facts(o)
			if (pf.Err == "" || strings.HasPrefix(pf.Err, "h")) && len(pf.Calls) == 1 {
				helper = short(pf.Calls[0].Fn)
			}
		}
		switch helper {
		case "slice", "sliceStep":
			sliceNodes = append(sliceNodes, n)
		case "projectArray", "filterAndProjectArray", "flattenAndProjectArray":
			projNodes = append(projNodes, n)
		}
	}
	// what each node predicate answers for each node type (the predicate is interpreted on a node of that dynamic type)
	answers := func(fn *ssa.Function) ([]string, string) {
		var yes []string
		for _, n := range names {
			e := newEngine(p, scopeDom{})
			st := newState()
			var nv AV = avIface{dyn: forms[n], v: avPtr{e.NewObj("", derefType(forms[n])), ""}}
			if _, isPtr := forms[n].(*types.Pointer); !isPtr {
				nv = avIface{dyn: forms[n], v: avStruct{f: map[string]AV{}}}
			}
			outs := e.Run(fn, []AV{nv}, st)
			if len(outs) != 1 || outs[0].Panic || outs[0].Cut || len(outs[0].Res) != 1 {
				return nil, fmt.Sprintf("%s(%s) has %d paths", fn.Name(), n, len(outs))
			}
			c, ok := outs[0].Res[0].(avConst)
			if !ok {
				return nil, fmt.Sprintf("%s(%s) is not a constant", fn.Name(), n)
			}
			if constant.BoolVal(c.v) {
				yes = append(yes, n)
			}
		}
		sort.Strings(yes)
		return yes, ""
	}
	sort.Strings(sliceNodes)
	sort.Strings(projNodes)
	if fn := p.RoleFunc("evaluator", "", "isSliceNode"); fn != nil {
		got, why := answers(fn)
		switch {
		case why != "":
			r.Unknown(fn.Pos(), "isSliceNode", why)
		case strings.Join(got, ",") == strings.Join(sliceNodes, ","):
			r.OK(fn.Pos(), "isSliceNode", "true for exactly the nodes evaluated by slice/sliceStep: "+strings.Join(got, ","))
		default:
			r.Bad(fn.Pos(), "isSliceNode", "true for "+strings.Join(got, ",")+" but the nodes evaluated by slice/sliceStep are "+strings.Join(sliceNodes, ",")+": a slice of a string in the missing form is projected (null) instead of returned")
		}
	} else {
		r.Trivial(token.NoPos, "isSliceNode", "the array projection case has no node predicate (no string bypass; D-DISPATCH decides the case)")
	}
	if fn := p.RoleFunc("parser", "", "isProjectNode"); fn != nil {
		got, why := answers(fn)
		switch {
		case why != "":
			r.Unknown(fn.Pos(), "isProjectNode", why)
		case strings.Join(got, ",") == strings.Join(projNodes, ","):
			r.OK(fn.Pos(), "isProjectNode", "true for exactly the nodes evaluated by a projecting helper: "+strings.Join(got, ","))
		default:
			r.Bad(fn.Pos(), "isProjectNode", "true for "+strings.Join(got, ",")+" but the projecting nodes are "+strings.Join(projNodes, ",")+": a selector after the missing node pipes instead of continuing the projection (or the reverse)")
		}
	} else {
		r.Unknown(token.NoPos, "isProjectNode", "the parser's node predicate func(Node) bool was not found")
	}
}

// ---------------------------------------------------------------- E-PRUNE

var pruneProducers = []string{"projectArray", "filterAndProjectArray", "flattenAndProjectArray", "projectObject", "objectValues", "filter", "flatten", "pruneArray"}

func producerFunc(p *Program, name string) *ssa.Function {
	fn := p.Func(p.Eval, "evaluator", name)
	if fn == nil {
		fn = p.Func(p.Eval, "", name)
	}
	return fn
}

// ruleEPrune: by interpretation of each producer on a symbolic subject (vdom.go). On every path that returns an array,
// every element of that array is known, on that path, not to be null.
func ruleEPrune(p *Program, r *Reporter) {
	d := newValDom(p)
	if d.why != "" {
		r.Unknown(token.NoPos, "producers", d.why)
		return
	}
	for _, name := range pruneProducers {
		fn := producerFunc(p, name)
		if fn == nil {
			r.Unknown(token.NoPos, "evaluator."+name, "projection producer not found")
			continue
		}
		key := "evaluator." + name + " elements"
		vr, why := d.run(fn, 3, nil)
		if why != "" {
			r.Unknown(fn.Pos(), key, why)
			continue
		}
		paths, arrays, elems := 0, 0, 0
		var bad, unknown []string
		var badPos token.Pos
		for _, o := range vr.outs {
			if o.Cut || o.Panic || o.Ret == nil || len(o.Res) == 0 {
				continue
			}
			paths++
			if vr.errIdx >= 0 && vr.errIdx < len(o.Res) && !isDefNil(o.Res[vr.errIdx]) {
				continue // an error path: no result
			}
			res := o.Res[0]
			if isDefNil(res) {
				continue
			}
			if sy, ok := res.(avSym); ok && sy.tag == "val" {
				continue // the right-hand side applied to the value as a whole (a sliced string): not a projection result
			}
			es, why := vr.arrayElems(o.St, res)
			if why != "" {
				unknown = append(unknown, fmt.Sprintf("%s returns %s", p.Fset.Position(o.Ret.Pos()), why))
			} else {
				arrays++
			}
			for i, ev := range es {
				elems++
				if !o.St.knownNonNil(ev) {
					bad = append(bad, fmt.Sprintf("%s: element %d of the returned array (%s) is not known to be non-null", p.Fset.Position(o.Ret.Pos()), i, renderVal(ev)))
					if badPos == token.NoPos {
						badPos = o.Ret.Pos()
					}
				}
			}
		}
		switch {
		case len(bad) > 0:
			r.Bad(badPos, key, "null results are not omitted from a projection: "+bad[0]+fmt.Sprintf(" (%d such paths)", len(bad)))
		case len(unknown) > 0:
			r.Unknown(fn.Pos(), key, "the elements of the result could not be determined: "+unknown[0])
		case arrays == 0:
			r.Unknown(fn.Pos(), key, fmt.Sprintf("no path of the producer returns an array (%d paths)", paths))
		default:
			r.OK(fn.Pos(), key, fmt.Sprintf("%d paths (arrays of up to 2 elements, loops cut after that), %d return an array, each of its %d elements known non-null on its path", paths, arrays, elems))
		}
	}
}

func renderVal(v AV) string {
	s := avKey(v)
	if len(s) > 80 {
		s = s[:80] + "..."
	}
	return s
}

// ---------------------------------------------------------------- E-SELECTOR-NULL

var selectors = []string{"field", "index", "slice", "sliceStep", "flatten", "pruneArray", "objectValues", "filter", "projectArray", "filterAndProjectArray", "flattenAndProjectArray", "projectObject"}

// ruleESelectorNull: by interpretation of each selector on a symbolic subject: the paths on which every type test of
// the subject failed return null and no error.
func ruleESelectorNull(p *Program, r *Reporter) {
	d := newValDom(p)
	if d.why != "" {
		r.Unknown(token.NoPos, "selectors", d.why)
		return
	}
	for _, name := range selectors {
		fn := producerFunc(p, name)
		if fn == nil {
			r.Unknown(token.NoPos, "evaluator."+name, "selector helper not found")
			continue
		}
		key := "evaluator." + name + " wrong-type subject"
		// the containers the selector is defined on; paths on which the subject is one of them are of no interest
		containers := map[string]bool{"[]any": true}
		switch name {
		case "field", "projectObject", "objectValues":
			containers = map[string]bool{"map[string]any": true}
		case "slice", "sliceStep":
			containers = map[string]bool{"[]any": true, "string": true}
		}
		isContainer := func(ts []string) bool {
			for _, t := range ts {
				if containers[t] {
					return true
				}
			}
			return false
		}
		vr, why := d.run(fn, 3, func(st *State, subject avSym) bool {
			passed, _ := st.subjectTests(subject)
			return isContainer(passed)
		})
		if why != "" {
			r.Unknown(fn.Pos(), key, why)
			continue
		}
		found := 0
		var bad string
		var badPos token.Pos
		var tested []string
		for _, o := range vr.outs {
			passed, failed := o.St.subjectTests(vr.subject)
			if isContainer(passed) || len(passed)+len(failed) == 0 {
				continue
			}
			if len(passed) > 0 {
				// the subject is something else the helper knows (a string handed to an array projection): null, unless
				// the caller asked for it by a flag (what the dispatcher passes there is decided by D-DISPATCH/E-NODESETS)
				flagged := false
				for _, c := range o.St.Conds {
					if sy, ok := c.V.(avSym); ok && strings.HasPrefix(sy.tag, "arg:") && c.Truth {
						flagged = true
					}
				}
				if flagged {
					continue
				}
				failed = append(failed, "(a "+strings.Join(passed, "/")+" it is)")
			}
			pos := fn.Pos()
			if o.Ret != nil {
				pos = o.Ret.Pos()
			}
			switch {
			case o.Cut:
				continue
			case o.Panic:
				bad, badPos = "panics", pos
				continue
			}
			found++
			tested = failed
			for i, rv := range o.Res {
				if !isDefNil(rv) {
					bad, badPos = fmt.Sprintf("returns %s as result %d", renderVal(rv), i), pos
				}
			}
		}
		switch {
		case bad != "":
			r.Bad(badPos, key, "a selector applied to a value of the wrong type does not yield null: with the subject none of "+strings.Join(tested, "/")+" it "+bad)
		case found == 0:
			r.Unknown(fn.Pos(), key, "the subject is never type-tested")
		default:
			r.OK(fn.Pos(), key, fmt.Sprintf("returns null (and no error) on the %d path(s) where the subject is none of %s", found, strings.Join(tested, "/")))
		}
	}
}

func extractOf2(v ssa.Value, idx int) ssa.Value {
	rs := v.Referrers()
	if rs == nil {
		return nil
	}
	for _, ref := range *rs {
		if ex, ok := ref.(*ssa.Extract); ok && ex.Index == idx {
			return ex
		}
	}
	return nil
}

// ---------------------------------------------------------------- E-PIPE

func ruleEPipe(p *Program, r *Reporter) {
	cases, _, why := evaluatorCases(p)
	if why != "" {
		r.Unknown(token.NoPos, "dispatcher", why)
		return
	}
	for _, ci := range cases {
		if ci.name != "PipeNode" {
			continue
		}
		body := ci.clause.Body
		good := len(body) == 3
		if good {
			as, ok := body[0].(*ast.AssignStmt)
			good = ok && len(as.Rhs) == 1 && exprStr(as.Rhs[0]) == "e.evaluate(node.Left, current, variables)"
			_, ok2 := body[1].(*ast.IfStmt)
			ret, ok3 := body[2].(*ast.ReturnStmt)
			good = good && ok2 && ok3 && len(ret.Results) == 1 && ok && exprStr(ret.Results[0]) == "e.evaluate(node.Right, "+exprStr(as.Lhs[0])+", variables)"
			if ifs, ok := body[1].(*ast.IfStmt); ok && errNeqNil(p.Eval, ifs.Cond) == nil {
				good = false
			}
		}
		if good {
			r.OK(ci.clause.Pos(), "case PipeNode", "right operand evaluated with the left result as current node, same scope, unconditionally")
		} else {
			r.Bad(ci.clause.Pos(), "case PipeNode", "the pipe case is not `left := evaluate(Left, current, scope); return evaluate(Right, left, scope)`: the left result must become the current node of the right side (also when it is null)")
		}
		return
	}
	r.Unknown(token.NoPos, "case PipeNode", "no PipeNode case")
}

// ---------------------------------------------------------------- E-EQUALITY

func ruleEEquality(p *Program, r *Reporter) {
	// == and != : by interpretation of the dispatcher (edom.go): on the success paths of both nodes the result is the
	// same predicate applied to (left result, right result), negated for != only
	{
		d := newEvalDom(p)
		key := "!= is the negation of =="
		if d.why != "" {
			r.Unknown(token.NoPos, key, d.why)
		} else {
			_, forms := sortedForms(p)
			res := map[string]map[string]bool{}
			why := ""
			for _, n := range []string{"EqualNode", "NotEqualNode"} {
				form, ok := forms[n]
				if !ok {
					why = "the parser builds no " + n
					break
				}
				outs, e := d.run(form)
				if e.Aborted != "" {
					why = e.Aborted
					break
				}
				res[n] = map[string]bool{}
				for _, o := range outs {
					if o.Panic || o.Cut {
						continue
					}
					pf := d.facts(o)
					if pf.Err != "" {
						continue
					}
					res[n][pf.Line] = true
				}
			}
			eq, ne := keysOfSet(res["EqualNode"]), keysOfSet(res["NotEqualNode"])
			switch {
			case why != "":
				r.Unknown(d.evalFn.Pos(), key, why)
			case len(eq) == 1 && len(ne) == 1 && strings.Contains(eq[0], "=> ") && !strings.Contains(eq[0], "=> !") &&
				strings.Replace(eq[0], "=> ", "=> !", 1) == ne[0]:
				r.OK(d.evalFn.Pos(), key, "== : "+eq[0]+" ; != : "+ne[0])
			default:
				r.Bad(d.evalFn.Pos(), key, fmt.Sprintf("== computes [%s]; != computes [%s]: != must be the negation of the very predicate == applies to the same operands", strings.Join(eq, " | "), strings.Join(ne, " | ")))
			}
		}
	}
	equal := p.Func(p.Eval, "", "equal")
	contains := p.Func(p.Eval, "", "contains")
	if equal == nil || contains == nil {
		r.Unknown(token.NoPos, "equal/contains", "helpers not found")
		return
	}
	// contains: membership loop calls equal(element, needle)
	usesEqual := false
	// the needle: the second parameter, directly or captured by a predicate handed to a library search (slices.ContainsFunc)
	isNeedle := func(v ssa.Value) bool {
		if v == ssa.Value(contains.Params[1]) {
			return true
		}
		if ld, ok := v.(*ssa.UnOp); ok && ld.Op == token.MUL {
			v = ld.X // a variable captured by reference: the closure loads it
		}
		paramCell := func(b ssa.Value) bool {
			if b == ssa.Value(contains.Params[1]) {
				return true
			}
			al, ok := b.(*ssa.Alloc)
			if !ok {
				return false
			}
			n, good := 0, true
			for _, ref := range *al.Referrers() {
				if st, ok := ref.(*ssa.Store); ok && st.Addr == ssa.Value(al) {
					n++
					if st.Val != ssa.Value(contains.Params[1]) {
						good = false
					}
				}
			}
			return n == 1 && good
		}
		if fv, ok := v.(*ssa.FreeVar); ok {
			for _, b := range contains.Blocks {
				for _, in := range b.Instrs {
					if mc, ok := in.(*ssa.MakeClosure); ok && mc.Fn == ssa.Value(fv.Parent()) {
						for i, bound := range mc.Bindings {
							if fv.Parent().FreeVars[i] == fv && paramCell(bound) {
								return true
							}
						}
					}
				}
			}
		}
		return false
	}
	for _, fb := range append([]*ssa.Function{contains}, contains.AnonFuncs...) {
		for _, b := range fb.Blocks {
			for _, in := range b.Instrs {
				if c, ok := in.(*ssa.Call); ok && calleeOf(&c.Call) == equal {
					usesEqual = isNeedle(c.Call.Args[1])
				}
			}
		}
	}
	if usesEqual {
		r.OK(contains.Pos(), "contains uses equal", "array membership is decided by equal(element, needle)")
	} else {
		r.Bad(contains.Pos(), "contains uses equal", "contains does not decide array membership with the equality helper of ==")
	}
	// equal: recursive calls inside loops must be dominated by a len(x) != len(y) exit; map loop must use comma-ok lookup
	// the loops of equal itself and of the helpers it shares its recursion with (functions equal calls that call it back)
	type eqLoop struct {
		h    *ssa.BasicBlock
		body map[*ssa.BasicBlock]bool
	}
	var all []eqLoop
	eqFns := []*ssa.Function{equal}
	for _, c := range staticCallees(equal) {
		if c == equal || !p.IsRepo(c) {
			continue
		}
		for _, cc := range staticCallees(c) {
			if cc == equal {
				eqFns = append(eqFns, c)
				break
			}
		}
	}
	for _, f := range eqFns {
		for h, body := range loopsOf(f) {
			all = append(all, eqLoop{h, body})
		}
	}
	sort.Slice(all, func(i, j int) bool {
		return all[i].h.Parent().Pos() < all[j].h.Parent().Pos() || all[i].h.Parent() == all[j].h.Parent() && all[i].h.Index < all[j].h.Index
	})
	nrec := 0
	for _, lp := range all {
		h, body := lp.h, lp.body
		isMapLoop := false
		for _, in := range h.Instrs {
			if nx, ok := in.(*ssa.Next); ok {
				if rg, ok := nx.Iter.(*ssa.Range); ok {
					if _, ok := rg.X.Type().Underlying().(*types.Map); ok {
						isMapLoop = true
					}
				}
			}
		}
		kind := "array"
		if isMapLoop {
			kind = "object"
		}
		var rec *ssa.Call
		for blk := range body {
			for _, in := range blk.Instrs {
				if c, ok := in.(*ssa.Call); ok && calleeOf(&c.Call) == equal {
					rec = c
				}
			}
		}
		if rec == nil {
			continue
		}
		nrec++
		key := "equal " + kind + " loop"
		// length guard: a fact len(a) == len(b) (from `!=` false edge) dominating the header
		lenGuard := false
		for _, f := range blockFacts(h) {
			op, x, y, ok := f.rel()
			if !ok || op != token.EQL {
				continue
			}
			cx, okx := x.(*ssa.Call)
			cy, oky := y.(*ssa.Call)
			if okx && oky && builtinName(&cx.Call) == "len" && builtinName(&cy.Call) == "len" && !sameValue(cx.Call.Args[0], cy.Call.Args[0]) {
				lenGuard = true // the lengths of two different containers (len(x) != len(x) guards nothing)
			}
		}
		if !lenGuard {
			r.Bad(blockPos(h), key, "members are compared without a dominating test that both containers have the same length: a container equals any longer one that extends it")
			continue
		}
		if isMapLoop {
			// the value compared must come from a comma-ok lookup whose ok is tested
			okLookup := false
			for blk := range body {
				for _, in := range blk.Instrs {
					lk, ok := in.(*ssa.Lookup)
					if !ok || !lk.CommaOk {
						continue
					}
					okv := extractOf2(lk, 1)
					if okv == nil {
						continue
					}
					if boolFact(rec.Block(), okv, true) {
						okLookup = true
					}
				}
			}
			if !okLookup {
				r.Bad(instrPos(rec), key, "member values are compared without first testing that the key is present in the other object (comma-ok): a missing key reads as null and equals a null member")
				continue
			}
		}
		r.OK(blockPos(h), key, "length equality tested before the loop"+map[bool]string{true: "; key presence tested with a comma-ok lookup before values are compared", false: ""}[isMapLoop])
	}
	// the member-wise comparison handed to the standard library: slices.EqualFunc / maps.EqualFunc with the equality
	// helper itself as the element relation compare lengths and (for maps) key presence themselves; slices.Equal and
	// maps.Equal compare elements with ==, which is not the equality of the language (1.0 and 1; nested containers panic)
	for _, f := range eqFns {
		for _, b := range f.Blocks {
			for _, in := range b.Instrs {
				c, ok := in.(*ssa.Call)
				if !ok {
					continue
				}
				cf := calleeOf(&c.Call)
				if cf == nil {
					continue
				}
				pp, nm := originPkgPath(cf), strings.SplitN(cf.Name(), "[", 2)[0]
				if (pp != "slices" && pp != "maps") || !strings.HasPrefix(nm, "Equal") {
					continue
				}
				key := "equal " + pp + "." + nm
				switch {
				case nm == "EqualFunc" && len(c.Call.Args) == 3 && funcValueIs(c.Call.Args[2], equal):
					nrec++
					r.OK(c.Pos(), key, "members compared by the library with the equality helper itself as the element relation (lengths, and key presence for maps, are the library's)")
				case nm == "EqualFunc":
					r.Bad(instrPos(c), key, "members are compared with a relation that is not the equality helper of ==")
				default:
					r.Bad(instrPos(c), key, "members are compared with Go's == (slices.Equal / maps.Equal): numbers that differ in spelling or carrier compare unequal and nested containers panic")
				}
			}
		}
	}
	if nrec < 2 {
		r.Bad(equal.Pos(), "equal member-wise loops", fmt.Sprintf("%d member-wise comparisons found in equal (arrays and objects expected)", nrec))
	}
}

// funcValueIs: v is function fn used as a value (possibly through a conversion of its type).
func funcValueIs(v ssa.Value, fn *ssa.Function) bool {
	for {
		switch x := v.(type) {
		case *ssa.Function:
			return x == fn
		case *ssa.ChangeType:
			v = x.X
		case *ssa.MakeClosure:
			f, _ := x.Fn.(*ssa.Function)
			return f == fn
		default:
			return false
		}
	}
}

// ---------------------------------------------------------------- E-TRUTHY

func ruleETruthy(p *Program, r *Reporter) {
	pk := p.Eval
	truth := p.RoleFunc("evaluator", "", "isTrue")
	if truth == nil {
		r.Unknown(token.NoPos, "isTrue", "the truth predicate (the predicate the not case negates) was not found")
		return
	}
	// the truth table, by interpreting the predicate on a value of each dynamic type
	type kind struct {
		name string
		t    types.Type
		want string
	}
	anyT := types.NewInterfaceType(nil, nil)
	kinds := []kind{
		{"nil", nil, "false"},
		{"bool", types.Typ[types.Bool], "itself"},
		{"string", types.Typ[types.String], "nonempty"},
		{"[]any", types.NewSlice(anyT), "nonempty"},
		{"map[string]any", types.NewMap(types.Typ[types.String], anyT), "nonempty"},
	}
	for _, b := range []types.BasicKind{types.Int, types.Int8, types.Int16, types.Int32, types.Int64, types.Uint, types.Uint8, types.Uint16, types.Uint32, types.Uint64, types.Float32, types.Float64} {
		kinds = append(kinds, kind{types.Typ[b].Name(), types.Typ[b], "true"})
	}
	for _, f := range p.Funcs {
		// json.Number and decimal128.Decimal: take the types from the signatures of the coercions
		if isRole(f, "toDecimal") {
			kinds = append(kinds, kind{"decimal128.Decimal", f.Signature.Results().At(0).Type(), "true"})
		}
	}
	if jn := lookupNamed(p, "encoding/json", "Number"); jn != nil {
		kinds = append(kinds, kind{"json.Number", jn, "true|nonempty"})
	}
	kinds = append(kinds, kind{"other (foreign Go value)", types.NewStruct(nil, nil), "true"})
	for _, k := range kinds {
		key := "isTrue(" + k.name + ")"
		e := newEngine(p, scopeDom{})
		st := newState()
		var arg AV = avNil{}
		val := avSym{id: e.fresh(), tag: "v"}
		if k.t != nil {
			arg = avIface{dyn: k.t, v: val}
		}
		outs := e.Run(truth, []AV{arg}, st)
		if e.Aborted != "" {
			r.Unknown(truth.Pos(), key, "path enumeration aborted")
			continue
		}
		classes := map[string]bool{}
		for _, o := range outs {
			if o.Panic || o.Cut || len(o.Res) != 1 {
				classes["?"] = true
				continue
			}
			classes[truthClass(o.Res[0], val)] = true
		}
		var cl []string
		for c := range classes {
			cl = append(cl, c)
		}
		sort.Strings(cl)
		got := strings.Join(cl, "|")
		ok := false
		for _, w := range strings.Split(k.want, "|") {
			if got == w {
				ok = true
			}
		}
		switch {
		case ok:
			r.OK(truth.Pos(), key, got)
		case k.want == "true":
			r.Bad(truth.Pos(), key, "a value of kind "+k.name+" is classified by `"+got+"`: numbers of every kind and every other value are true-like whatever their value")
		default:
			r.Bad(truth.Pos(), key, "classified by `"+got+"`, the specification says `"+k.want+"`")
		}
	}
	// users: Not/And/Or cases and filter helpers decide with isTrue only
	isTrueFn := p.Func(pk, "", "isTrue")
	users := map[string]*ssa.Function{"filter": p.Func(pk, "evaluator", "filter"), "filterAndProjectArray": p.Func(pk, "evaluator", "filterAndProjectArray")}
	vd := newValDom(p)
	for _, name := range []string{"filter", "filterAndProjectArray"} {
		fn := users[name]
		key := "evaluator." + name + " truth test"
		if fn == nil || isTrueFn == nil || vd.why != "" {
			r.Unknown(token.NoPos, key, "helper not found")
			continue
		}
		ff := filterFactsOf(p, vd, fn)
		switch {
		case ff.why != "":
			r.Unknown(fn.Pos(), key, ff.why)
		case len(ff.keptUntested) > 0:
			r.Bad(fn.Pos(), key, "elements are kept under a condition that is not isTrue(predicate result): this filter form uses a different truthiness rule ("+ff.keptUntested[0]+")")
		case len(ff.dropped) > 0:
			r.Bad(fn.Pos(), key, "an element is dropped although the predicate is true-like for it: whether it stays depends on something other than the predicate (and the element not being null) ("+ff.dropped[0]+")")
		case ff.kept == 0:
			r.Unknown(fn.Pos(), key, "no path keeps an element")
		default:
			r.OK(fn.Pos(), key, fmt.Sprintf("by interpretation: on %d paths every element that is kept (or projected) is one for which isTrue(result of the predicate on that element) holds (%d elements)", ff.paths, ff.kept))
		}
	}
	_ = pk
}

// filterFacts: a filtering helper interpreted on a symbolic array (vdom.go). The predicate node is the node parameter
// whose evaluation results are handed to the truth predicate.
type filterFacts struct {
	why          string
	paths, kept  int
	keptUntested []string             // an element kept, or projected, without isTrue(predicate(element)) on its path
	dropped      []string             // an element the predicate accepted is missing from a result made of elements, and the path does not know it to be null
	rhsSites     map[token.Pos]string // evaluation sites of the other node: "" when always under the predicate, else why not
}

func filterFactsOf(p *Program, vd *valDom, fn *ssa.Function) *filterFacts {
	ff := &filterFacts{rhsSites: map[token.Pos]string{}}
	vr, why := vd.run(fn, 3, nil)
	if why != "" {
		ff.why = why
		return ff
	}
	isTrueOn := func(st *State, v AV) bool {
		t, ok := st.memo[avKey(avSym{tag: "true?", payload: v})]
		return ok && t
	}
	// the predicate node
	predNode := ""
	for _, o := range vr.outs {
		for _, ev := range o.St.Trace {
			if ev.Kind != "eval" {
				continue
			}
			if _, tested := o.St.memo[avKey(avSym{tag: "true?", payload: ev.Res[0]})]; tested {
				predNode = avKey(ev.Args[0])
			}
		}
	}
	if predNode == "" {
		ff.keptUntested = append(ff.keptUntested, "no evaluation result is ever handed to the truth predicate")
		return ff
	}
	for _, o := range vr.outs {
		if o.Panic {
			continue
		}
		ff.paths++
		passed := map[string]bool{} // current values the predicate accepted so far on this path
		for _, ev := range o.St.Trace {
			if ev.Kind != "eval" {
				continue
			}
			ck := avKey(ev.Args[1])
			if avKey(ev.Args[0]) == predNode {
				if isTrueOn(o.St, ev.Res[0]) {
					passed[ck] = true
				}
				continue
			}
			if _, seen := ff.rhsSites[ev.Pos]; !seen {
				ff.rhsSites[ev.Pos] = ""
			}
			if passed[ck] {
				ff.kept++
			} else {
				msg := "the other node is evaluated against " + renderVal(ev.Args[1]) + " which the predicate has not accepted on that path"
				ff.rhsSites[ev.Pos] = msg
				ff.keptUntested = append(ff.keptUntested, msg)
			}
		}
		if o.Cut || o.Ret == nil || len(o.Res) == 0 || (vr.errIdx >= 0 && vr.errIdx < len(o.Res) && !isDefNil(o.Res[vr.errIdx])) || isDefNil(o.Res[0]) {
			continue
		}
		// elements of the input that are kept as they are
		es, why := vr.arrayElems(o.St, o.Res[0])
		if why != "" {
			continue // E-PRUNE reports an undeterminable result
		}
		allElems, inResult := len(es) >= 0, map[string]bool{}
		for _, ev := range es {
			sy, ok := ev.(avSym)
			if !ok || !strings.HasPrefix(sy.tag, "elem") {
				allElems = false
				continue // a projected result: its evaluation was checked above
			}
			inResult[avKey(ev)] = true
			if passed[avKey(ev)] {
				ff.kept++
			} else {
				ff.keptUntested = append(ff.keptUntested, fmt.Sprintf("%s: the result contains %s, which the predicate has not accepted on that path", p.Fset.Position(o.Ret.Pos()), renderVal(ev)))
			}
		}
		// a filter without a right-hand side keeps every element its predicate accepts, null elements excepted
		if as, k, ok := vr.subjectArray(o.St); ok && allElems {
			onlyPred := true
			for _, ev := range o.St.Trace {
				if ev.Kind == "eval" && avKey(ev.Args[0]) != predNode {
					onlyPred = false
				}
			}
			for i := int64(0); onlyPred && i < k; i++ {
				el := elemSym(as, i)
				if !passed[avKey(el)] || inResult[avKey(el)] {
					continue
				}
				isNull := false
				for _, c := range []struct {
					op   token.Token
					x, y AV
					want bool
				}{{token.EQL, el, avNil{}, true}, {token.EQL, avNil{}, el, true}, {token.NEQ, el, avNil{}, false}, {token.NEQ, avNil{}, el, false}} {
					if t, ok := o.St.memo[avKey(avCmp{c.op, c.x, c.y})]; ok && t == c.want {
						isNull = true
					}
				}
				if !isNull {
					ff.dropped = append(ff.dropped, fmt.Sprintf("%s: element %d, which the predicate accepted, is missing from the result on a path that has not found it to be null", p.Fset.Position(o.Ret.Pos()), i))
				}
			}
		}
	}
	return ff
}

// truthClass classifies what the truth predicate returns for a value v of one dynamic type.
func truthClass(res AV, v avSym) string {
	switch x := res.(type) {
	case avConst:
		return x.v.ExactString()
	case avSym:
		if avKey(x) == avKey(v) {
			return "itself"
		}
	case avCmp:
		// len(v) > 0, len(v) != 0, v != ""
		lenOfV := func(a AV) bool {
			sy, ok := a.(avSym)
			return ok && sy.tag == "len" && sy.payload != nil && avKey(sy.payload) == avKey(v)
		}
		isZero := func(a AV) bool {
			c, ok := a.(avConst)
			return ok && (c.v.ExactString() == "0" || c.v.ExactString() == `""`)
		}
		if (lenOfV(x.x) || avKey(x.x) == avKey(v)) && isZero(x.y) && (x.op == token.GTR || x.op == token.NEQ) {
			return "nonempty"
		}
		if (lenOfV(x.y) || avKey(x.y) == avKey(v)) && isZero(x.x) && (x.op == token.LSS || x.op == token.NEQ) {
			return "nonempty"
		}
	}
	return "?" + avKey(res)
}

// lookupNamed finds a named type of an imported package by path and name.
func lookupNamed(p *Program, path, name string) types.Type {
	for _, pk := range p.Pkgs {
		for _, imp := range pk.Types.Imports() {
			if imp.Path() == path {
				if o := imp.Scope().Lookup(name); o != nil {
					return o.Type()
				}
			}
		}
	}
	return nil
}

// ---------------------------------------------------------------- E-ANDOR-OPERAND

func ruleEAndOrOperand(p *Program, r *Reporter) {
	cases, _, _ := evaluatorCases(p)
	for _, ci := range cases {
		if ci.name != "AndNode" && ci.name != "OrNode" {
			continue
		}
		key := "case " + ci.name + " results"
		bad := ""
		leftName := ""
		for _, st := range ci.clause.Body {
			if as, ok := st.(*ast.AssignStmt); ok && len(as.Rhs) == 1 && exprStr(as.Rhs[0]) == "e.evaluate(node.Left, current, variables)" {
				leftName = exprStr(as.Lhs[0])
			}
		}
		for _, st := range ci.clause.Body {
			ast.Inspect(st, func(n ast.Node) bool {
				ret, ok := n.(*ast.ReturnStmt)
				if !ok {
					return true
				}
				s := ""
				for i, e := range ret.Results {
					if i > 0 {
						s += ", "
					}
					s += exprStr(e)
				}
				switch s {
				case "nil, err", leftName + ", nil", "e.evaluate(node.Right, current, variables)":
				default:
					bad = "returns `" + s + "`"
				}
				return true
			})
		}
		if leftName == "" {
			bad = "left operand evaluation not found"
		}
		if bad != "" {
			r.Bad(ci.clause.Pos(), key, bad+": && and || must return the left value itself or the result of evaluating the right operand")
		} else {
			r.OK(ci.clause.Pos(), key, "returns the left value unchanged or the evaluation of the right operand")
		}
	}
}

// ---------------------------------------------------------------- E-RESULT-TYPES

func ruleEResultTypes(p *Program, r *Reporter) {
	allowed := func(t types.Type) bool {
		s := typeShort(t)
		switch s {
		case "bool", "string", "[]any", "map[string]any", "[]interface{}", "map[string]interface{}":
			return true
		}
		return isNumericKind(s)
	}
	for _, fn := range p.ReachFuncs(p.Eval) {
		name := p.FuncName(fn)
		n := 0
		for _, b := range fn.Blocks {
			for _, in := range b.Instrs {
				switch x := in.(type) {
				case *ssa.MakeInterface:
					if isErrorType(x.Type()) {
						continue
					}
					// only conversions to the empty interface (JSON values)
					if it, ok := x.Type().Underlying().(*types.Interface); !ok || it.NumMethods() != 0 {
						continue
					}
					n++
					key := fmt.Sprintf("%s any(%s)#%d", name, typeShort(x.X.Type()), n)
					if allowed(x.X.Type()) {
						r.Trivial(x.Pos(), key, "JSON carrier type")
					} else {
						r.Bad(instrPos(x), key, "a value of type "+typeShort(x.X.Type())+" becomes part of a result: it is not one of the JSON carrier types and is not accepted again as input")
					}
				case *ssa.ChangeType:
					if typeShort(x.Type()) == "json.Number" {
						if bt, ok := x.X.Type().Underlying().(*types.Basic); ok && bt.Kind() == types.String {
							if _, isConst := x.X.(*ssa.Const); !isConst {
								r.Bad(instrPos(x), fmt.Sprintf("%s json.Number(string)", name), "an arbitrary string is re-typed as json.Number: text such as NaN or Infinity then passes for a number")
							}
						}
					}
				case *ssa.Convert:
					if typeShort(x.Type()) == "json.Number" {
						r.Bad(instrPos(x), fmt.Sprintf("%s json.Number(string)", name), "an arbitrary string is re-typed as json.Number")
					}
				}
			}
		}
	}
}

// ---------------------------------------------------------------- P-CASE-SIBLINGS

func rulePCaseSiblings(p *Program, r *Reporter) {
	pk := p.Parser
	type site struct {
		fields string
		pos    token.Pos
		fn     string
	}
	groups := map[string][]site{}
	p.inspectFuncs(pk, func(fd *ast.FuncDecl) {
		var caseTok []string
		var visit func(n ast.Node)
		visit = func(n ast.Node) {
			ast.Inspect(n, func(m ast.Node) bool {
				switch x := m.(type) {
				case *ast.CaseClause:
					if x == n {
						return true
					}
					var toks []string
					for _, e := range x.List {
						if tn := tokenConstName(pk, e); tn != "" {
							toks = append(toks, tn)
						}
					}
					if len(toks) > 0 {
						saved := caseTok
						caseTok = toks
						for _, st := range x.Body {
							visit(st)
						}
						caseTok = saved
						return false
					}
				case *ast.CompositeLit:
					nt, ok := types.Unalias(pk.TypesInfo.TypeOf(x)).(*types.Named)
					if !ok || nt.Obj().Pkg() != pk.Types || len(caseTok) == 0 {
						return true
					}
					if !strings.HasSuffix(nt.Obj().Name(), "Node") {
						return true
					}
					var fs []string
					for _, el := range x.Elts {
						if kv, ok := el.(*ast.KeyValueExpr); ok {
							fs = append(fs, exprStr(kv.Key))
						}
					}
					sort.Strings(fs)
					for _, tk := range caseTok {
						k := nt.Obj().Name() + " under " + tk
						groups[k] = append(groups[k], site{strings.Join(fs, ","), x.Pos(), DeclName(fd)})
					}
				}
				return true
			})
		}
		visit(fd.Body)
	})
	var keys []string
	for k := range groups {
		keys = append(keys, k)
	}
	sort.Strings(keys)
	for _, k := range keys {
		sites := groups[k]
		if len(sites) < 2 {
			continue
		}
		same := true
		for _, s := range sites[1:] {
			if s.fields != sites[0].fields {
				same = false
			}
		}
		if same {
			r.OK(sites[0].pos, k, fmt.Sprintf("%d construction sites set the same fields {%s}", len(sites), sites[0].fields))
		} else {
			var ds []string
			for _, s := range sites {
				ds = append(ds, s.fn+" at "+p.Pos(s.pos)+" sets {"+s.fields+"}")
			}
			r.Bad(sites[0].pos, k, "sibling construction sites of one construct set different fields: "+strings.Join(ds, "; "))
		}
	}
}

// nameImplements: the helper's name contains every word of the node's base name (CeilNode -> ceil, ceiling, decimalCeil;
// MaxBy -> arrayMaxBy), so a renamed helper is still recognised while a helper of another operation is not.
func nameImplements(helper, base string) bool {
	if exc, ok := helperExceptions[base]; ok && strings.EqualFold(exc, helper) {
		return true
	}
	h := strings.ToLower(helper)
	var words []string
	cur := ""
	for _, r := range base {
		if unicode.IsUpper(r) && cur != "" {
			words = append(words, strings.ToLower(cur))
			cur = ""
		}
		cur += string(r)
	}
	if cur != "" {
		words = append(words, strings.ToLower(cur))
	}
	if base == "NotEqual" || base == "SmallIndex" {
		words = words[1:]
	}
	for _, w := range words {
		if w == "and" {
			continue
		}
		i := strings.Index(h, w)
		if i < 0 {
			return false
		}
	}
	// a helper of the opposite operation must not match by accident (min/max, left/right, first/last, floor/ceil)
	for _, pair := range [][2]string{{"min", "max"}, {"left", "right"}, {"first", "last"}, {"floor", "ceil"}, {"lower", "upper"}, {"starts", "ends"}, {"less", "greater"}} {
		for k := 0; k < 2; k++ {
			has := false
			for _, w := range words {
				if w == pair[k] {
					has = true
				}
			}
			if has && strings.Contains(h, pair[1-k]) && !strings.Contains(strings.ToLower(base), pair[1-k]) {
				return false
			}
		}
	}
	return true
}

// ---------------------------------------------------------------- E-TIES

func init() {
	register(&Rule{ID: "E-TIES", Props: []string{"C13", "C02"}, Floor: 2,
		Doc: "max_by and min_by, by interpretation on a symbolic array of two elements with the three-way comparison of their keys as one unknown in {-1,0,1}: the second element is returned only on paths that establish that its key is strictly greater (max_by) or strictly smaller (min_by) than the first one's, and the first element only on paths that establish it is not: among equal keys the first element wins, whatever the source form (two functions, one function with a mode, a collector)",
		Run: ruleETies})
}

func ruleETies(p *Program, r *Reporter) {
	d := newValDom(p)
	if d.why != "" {
		r.Unknown(token.NoPos, "evaluator model", d.why)
		return
	}
	d.toDecimal = numericRoles(p).toDecimal
	for _, job := range []struct {
		name string
		sign int64 // the sign ord(key1,key0) must have for element 1 to win
	}{{"arrayMaxBy", 1}, {"arrayMinBy", -1}} {
		fn := p.Func(p.Eval, "evaluator", job.name)
		if fn == nil {
			r.Unknown(token.NoPos, "evaluator."+job.name, "helper not found")
			continue
		}
		key := "evaluator." + job.name + " ties"
		vr, why := d.run(fn, 4, nil)
		if why != "" {
			r.Unknown(fn.Pos(), key, why)
			continue
		}
		checked := 0
		bad := ""
		var badPos token.Pos
		for _, o := range vr.outs {
			if o.Cut || o.Panic || o.Ret == nil || len(o.Res) == 0 || (vr.errIdx >= 0 && !isDefNil(o.Res[vr.errIdx])) {
				continue
			}
			res, ok := o.Res[0].(avSym)
			if !ok || res.tag != "elem" {
				continue
			}
			t, _ := res.payload.(avTuple)
			if len(t) != 2 {
				continue
			}
			which, known := o.St.KnownInt(t[1])
			if !known {
				continue
			}
			// the keys: results of the evaluations against elements 0, 1, (2)
			byElem := map[string]AV{}
			for _, ev := range o.St.Trace {
				if ev.Kind == "eval" {
					if c, ok := ev.Args[1].(avSym); ok && c.tag == "elem" {
						byElem[avKey(c)] = ev.Res[0]
					}
				}
			}
			n := len(byElem)
			if n < 2 || n > 3 || which >= int64(n) {
				continue
			}
			keys := make([]AV, n)
			okKeys := true
			for i := 0; i < n; i++ {
				keys[i] = byElem[avKey(elemSym(t[0], int64(i)))]
				okKeys = okKeys && keys[i] != nil
			}
			if !okKeys {
				continue
			}
			// what the path knows about the order of the keys, in whichever form it compared them (strings or decimals),
			// closed under transitivity: lt[i][j] key i strictly before key j, le[i][j] not after
			lt := make([][]bool, n)
			le := make([][]bool, n)
			for i := range lt {
				lt[i], le[i] = make([]bool, n), make([]bool, n)
				le[i][i] = true
			}
			for _, wrap := range []func(AV) AV{
				func(v AV) AV { return avSym{tag: "dec", payload: v} },
				func(v AV) AV { return avSym{tag: "asserted:string", payload: v} },
			} {
				for i := 0; i < n; i++ {
					for j := 0; j < n; j++ {
						if i == j {
							continue
						}
						if lo, hi, found := ordRange(o.St, wrap(keys[i]), wrap(keys[j])); found {
							_ = lo
							lt[i][j] = lt[i][j] || hi < 0
							le[i][j] = le[i][j] || hi <= 0
						}
					}
				}
			}
			for k := 0; k < n; k++ {
				for i := 0; i < n; i++ {
					for j := 0; j < n; j++ {
						if (lt[i][k] && le[k][j]) || (le[i][k] && lt[k][j]) {
							lt[i][j] = true
						}
						if le[i][k] && le[k][j] {
							le[i][j] = true
						}
					}
				}
			}
			checked++
			w := int(which)
			for j := 0; j < n && bad == ""; j++ {
				if j == w {
					continue
				}
				// better(a, b): key a strictly better than key b; notWorse(a, b): key a at least as good as key b
				better := func(a, b int) bool {
					if job.sign > 0 {
						return lt[b][a]
					}
					return lt[a][b]
				}
				notWorse := func(a, b int) bool {
					if job.sign > 0 {
						return le[b][a]
					}
					return le[a][b]
				}
				switch {
				case j < w && !better(w, j):
					bad, badPos = fmt.Sprintf("of %d elements, element %d is returned on a path that does not know its key to be strictly better than that of the earlier element %d (equal keys let the later element win, or the keys were never compared with each other)", n, w, j), o.Ret.Pos()
				case j > w && !notWorse(w, j):
					bad, badPos = fmt.Sprintf("of %d elements, element %d is returned on a path that does not know its key to be at least as good as that of the later element %d (a strictly better later element is passed over, or the keys were never compared with each other)", n, w, j), o.Ret.Pos()
				}
			}
		}
		switch {
		case bad != "":
			r.Bad(badPos, key, bad)
		case checked == 0:
			r.Unknown(fn.Pos(), key, "no path over two or three elements returns one of them")
		default:
			r.OK(fn.Pos(), key, fmt.Sprintf("%d paths over two and three elements: the element returned is strictly better than every earlier one and at least as good as every later one under the comparisons of its path (closed under transitivity)", checked))
		}
	}
}

// ---------------------------------------------------------------- E-EXHAUST

// ruleEExhaust: a projection applies its right-hand side to every element of its subject. By interpretation of each
// projection producer: on every path that returns a result (no error), every array whose length the path looked at has
// a length the path determined (the loop over it ran to its end), and every map iterator the path advanced was advanced
// until it was exhausted. A loop that is left early (break for continue, a return from inside the loop) leaves the
// length open or the iterator unexhausted on the path that returns.
func ruleEExhaust(p *Program, r *Reporter) {
	d := newValDom(p)
	if d.why != "" {
		r.Unknown(token.NoPos, "producers", d.why)
		return
	}
	for _, name := range pruneProducers {
		fn := producerFunc(p, name)
		if fn == nil {
			r.Unknown(token.NoPos, "evaluator."+name, "projection producer not found")
			continue
		}
		key := "evaluator." + name + " enumerates its subject"
		vr, why := d.run(fn, 3, nil)
		if why != "" {
			r.Unknown(fn.Pos(), key, why)
			continue
		}
		paths, lens, iters := 0, 0, 0
		var bad string
		var badPos token.Pos
		for _, o := range vr.outs {
			if o.Cut || o.Panic || o.Ret == nil || len(o.Res) == 0 {
				continue
			}
			if vr.errIdx >= 0 && vr.errIdx < len(o.Res) && !isDefNil(o.Res[vr.errIdx]) {
				continue
			}
			paths++
			var names []string
			for k := range o.St.named {
				if strings.HasPrefix(k, "len(") && !strings.HasPrefix(k, "len(asserted:map[") {
					names = append(names, k)
				}
			}
			sort.Strings(names)
			for _, k := range names {
				f := o.St.ints[o.St.named[k]]
				if f == nil {
					continue
				}
				lens++
				if f.lo != f.hi && bad == "" {
					bad = fmt.Sprintf("%s: returns a result while %s is only known to be at least %d: the loop over that array was left before its end", p.Fset.Position(o.Ret.Pos()), strings.TrimSuffix(k, "#0"), f.lo)
					badPos = o.Ret.Pos()
				}
			}
			last := map[int]bool{}
			var order []int
			for _, c := range o.St.Conds {
				if sy, ok := c.V.(avSym); ok && sy.tag == "next-ok" {
					it, _ := sy.payload.(avSym)
					if _, seen := last[it.id]; !seen {
						order = append(order, it.id)
					}
					last[it.id] = c.Truth
				}
			}
			for _, id := range order {
				iters++
				if last[id] && bad == "" {
					bad = fmt.Sprintf("%s: returns a result while the iteration over a map was left before it was exhausted", p.Fset.Position(o.Ret.Pos()))
					badPos = o.Ret.Pos()
				}
			}
		}
		switch {
		case bad != "":
			r.Bad(badPos, key, "not every element of the subject reaches the result: "+bad)
		case lens+iters == 0:
			r.Unknown(fn.Pos(), key, fmt.Sprintf("no path of the producer enumerates an array or a map (%d paths)", paths))
		default:
			r.OK(fn.Pos(), key, fmt.Sprintf("%d result paths: %d array lengths determined by the path, %d map iterations run to exhaustion", paths, lens, iters))
		}
	}
}
