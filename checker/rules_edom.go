package main

// rules_edom.go: evaluator dispatch rules decided by path enumeration (edom.go / absint.go).

import (
	"fmt"
	"go/token"
	"go/types"
	"os"
	"sort"
	"strings"
)

func init() {
	register(&Rule{ID: "D-DISPATCH", Props: []string{"C01", "C17", "C02", "C05", "C20", "C09", "C06", "C19", "C18", "C16", "C10", "C12", "C13", "C14", "C15"}, Floor: 100,
		Doc: "The evaluator's dispatcher, by path enumeration once per node type the parser builds (thin wrappers around the recursive evaluation inlined, helpers named by what they are, any source form): every node type has a case; a node implemented by a helper evaluates its children once each, in declaration order, against the enclosing current value and scope, and returns exactly the result of the one helper that implements it (negated only for !=), with no path that bypasses the helper; the current-node variant of a node calls the same helper with the current value in place of the evaluated child; pipe evaluates its right operand against the left result; && and || return one of their operands and ! the negated truth of its operand, all through the one truth predicate; literals return the stored value, @ the current value, $ the root; a variable is looked up in the scope and is an undefined-variable error when absent; let evaluates its bindings in the outer scope and only its body in the one child scope; no other scope is ever created or substituted.",
		Run: ruleDDispatch})
}

func sortedForms(p *Program) ([]string, map[string]types.Type) {
	forms := nodeForms(p)
	var names []string
	for n := range forms {
		names = append(names, n)
	}
	sort.Strings(names)
	return names, forms
}

func ruleDDump(p *Program, r *Reporter) {
	d := newEvalDom(p)
	if d.why != "" {
		r.Unknown(token.NoPos, "evaluator model", d.why)
		return
	}
	names, forms := sortedForms(p)
	for _, n := range names {
		outs, e := d.run(forms[n])
		if e.Aborted != "" {
			r.Unknown(d.evalFn.Pos(), n, e.Aborted)
			continue
		}
		seen := map[string]bool{}
		for _, o := range outs {
			s := ""
			switch {
			case o.Panic:
				s = "PANIC"
			case o.Cut:
				s = "CUT " + d.facts(o).Line
			default:
				pf := d.facts(o)
				if pf.Err == "eval" {
					continue
				}
				s = pf.Line
			}
			if !seen[s] {
				seen[s] = true
				r.Trivial(d.evalFn.Pos(), n+" :: "+s, "")
			}
		}
		_ = fmt.Sprint
		_ = strings.TrimSpace
	}
}

// inlineLines: the complete set of success lines of the nodes the dispatcher implements itself.
// P stands for the truth predicate (whatever it is called; the rule checks it is the same function everywhere).
var inlineLines = map[string][]string{
	"AndNode":          {"eval(Left) | !P($1) => $1", "eval(Left) eval(Right) | P($1) => $2"},
	"OrNode":           {"eval(Left) | P($1) => $1", "eval(Left) eval(Right) | !P($1) => $2"},
	"NotNode":          {"eval(Child) => !P($1)"},
	"PipeNode":         {"eval(Left) eval(Right,$1) => $2"},
	"ArrayNode":        {"=> node.Value"},
	"BoolNode":         {"=> node.Value"},
	"NumberNode":       {"=> node.Value"},
	"ObjectNode":       {"=> node.Value"},
	"StringNode":       {"=> node.Value"},
	"NullNode":         {"=> nil"},
	"CurrentNode":      {"=> @"},
	"RootNode":         {"=> root"},
	"VariableNode":     {"lookup(S,node.Name) | found => var"},
	"AssertNumberNode": {"eval(Child) | isNumber($1) => $1", "eval(Child) | !isNumber($1) => nil"},
}

// contextual evaluation: the fields that are evaluated against the result of the node's first child instead of the current value
var againstChild = map[string]string{
	"PipeNode": "Right", "ProjectArrayNode": "Right", "SelectArrayNode": "Fields", "SelectArraySingleNode": "Field", "SelectObjectNode": "Fields", "SelectObjectSingleNode": "Field",
}

func ruleDDispatch(p *Program, r *Reporter) {
	d := newEvalDom(p)
	if d.why != "" {
		r.Unknown(token.NoPos, "evaluator model", d.why)
		return
	}
	names, forms := sortedForms(p)
	pos := d.evalFn.Pos()
	type nodeFacts struct {
		paths []pathFacts
		cuts  []pathFacts
	}
	all := map[string]*nodeFacts{}
	truthPred := ""
	for _, n := range names {
		outs, e := d.run(forms[n])
		key := "node " + n
		if e.Aborted != "" {
			r.Unknown(pos, key, "path enumeration aborted: "+e.Aborted)
			continue
		}
		nf := &nodeFacts{}
		all[n] = nf
		noCase := false
		for _, o := range outs {
			if o.Panic {
				r.Bad(pos, key+" panic", "a path of the dispatcher panics for this node")
				continue
			}
			pf := d.facts(o)
			if o.Cut {
				nf.cuts = append(nf.cuts, pf)
				continue
			}
			if strings.Contains(strings.ToLower(pf.Err), "unexpectedoperation") {
				noCase = true
			}
			nf.paths = append(nf.paths, pf)
		}
		if noCase {
			r.Bad(pos, key+" has a case", "the parser builds "+typeShort(forms[n])+" but the dispatcher has no case for it: evaluation fails with an unexpected-operation error")
			delete(all, n)
			continue
		}
		r.OK(pos, key+" has a case", "built by the parser as "+typeShort(forms[n])+" and handled")
	}
	// the truth predicate: the one used by the not case
	if nf := all["NotNode"]; nf != nil {
		for _, pf := range nf.paths {
			if pf.Err == "" && strings.HasPrefix(pf.Result, "!") {
				if i := strings.Index(pf.Result, "("); i > 1 {
					truthPred = pf.Result[1:i]
				}
			}
		}
	}
	// which helper each base reaches (first successful single-call path), to detect two operations sharing a helper
	helperOfBase := map[string]string{}
	for _, n := range names {
		nf := all[n]
		if nf == nil {
			continue
		}
		base, _ := nodeBase(n)
		for _, pf := range nf.paths {
			if (pf.Err == "" || strings.HasPrefix(pf.Err, "h")) && len(pf.Calls) == 1 && helperOfBase[base] == "" {
				helperOfBase[base] = pf.Calls[0].Fn.Name()
			}
		}
	}
	for _, n := range names {
		nf := all[n]
		if nf == nil {
			continue
		}
		base, cur := nodeBase(n)
		key := "node " + n
		if os.Getenv("JMESCHECK_DEBUG_NODE") == n {
			for _, pf := range nf.paths {
				fmt.Fprintf(os.Stderr, "path %s: %s  [result=%s err=%s]\n", n, pf.Line, pf.Result, pf.Err)
			}
		}
		st := nodeStruct(p, n)
		var childFields []string
		if st != nil {
			for i := 0; i < st.NumFields(); i++ {
				f := st.Field(i)
				switch {
				case isNodeType(f.Type()):
					childFields = append(childFields, f.Name())
				default:
					if arr, ok := f.Type().Underlying().(*types.Array); ok && isNodeType(arr.Elem()) {
						for k := int64(0); k < arr.Len(); k++ {
							childFields = append(childFields, fmt.Sprintf("%s[%d]", f.Name(), k))
						}
					}
				}
			}
		}
		// (a) contexts of every recursive evaluation, on every path including cut ones
		ctxBad := false
		for _, pf := range append(append([]pathFacts{}, nf.paths...), nf.cuts...) {
			seen := map[string]int{}
			for _, ev := range pf.Evals {
				seen[ev.Field]++
				if seen[ev.Field] > 1 && !strings.Contains(ev.Field, "[*]") && !ctxBad {
					r.Bad(ev.ev.Pos, key+" evaluates "+ev.Field+" once", "the child "+ev.Field+" is evaluated more than once on a path: the work doubles per nesting level")
					ctxBad = true
				}
				wantScope := "S"
				if n == "DefineVariables" && ev.Field == "Child" {
					wantScope = "S+"
				}
				if ev.Scope != wantScope && !ctxBad {
					r.Bad(ev.ev.Pos, key+" scope of "+ev.Field, "evaluated in scope "+ev.Scope+", want "+wantScope+" (only the body of a let sees the new bindings)")
					ctxBad = true
				}
				wantCur := "@"
				if f, ok := againstChild[n]; ok && strings.HasPrefix(ev.Field, f) {
					wantCur = "$1"
					if n == "ProjectArrayNode" {
						wantCur = "$1"
					}
				}
				if ev.Cur != wantCur && !ctxBad {
					r.Bad(ev.ev.Pos, key+" current of "+ev.Field, "evaluated against "+ev.Cur+", want "+wantCur)
					ctxBad = true
				}
			}
			for _, c := range pf.Calls {
				sig := c.Fn.Signature
				for i := 0; i < sig.Params().Len() && i < len(c.Args); i++ {
					if types.Identical(sig.Params().At(i).Type(), d.scopeT) && c.Args[i] != "S" && !ctxBad {
						r.Bad(c.ev.Pos, key+" scope passed to "+c.Fn.Name(), "the helper receives scope "+c.Args[i]+" instead of the enclosing scope")
						ctxBad = true
					}
				}
			}
			for _, c := range pf.Calls {
				// a helper that receives unevaluated children must receive a value to evaluate them against
				raw, val := false, false
				for _, a := range c.Args {
					if strings.HasPrefix(a, "node.") && nodeValuedArg(p, n, a) {
						raw = true
					}
					if a == "@" || strings.HasPrefix(a, "$") {
						val = true
					}
				}
				if raw && !val && !ctxBad {
					r.Bad(c.ev.Pos, key+" current value for "+c.Fn.Name(), "the helper receives unevaluated children but neither the current value nor an evaluated child: it can only evaluate them against something else (the root, nothing)")
					ctxBad = true
				}
			}
			if len(pf.Pushes) > 0 && n != "DefineVariables" && !ctxBad {
				r.Bad(pf.Pushes[0].Pos, key+" creates a scope", "only let creates a scope")
				ctxBad = true
			}
			if len(pf.Lookups) > 0 && n != "VariableNode" && !ctxBad {
				r.Bad(pf.Lookups[0].Pos, key+" reads a variable", "only a variable reference reads the scope")
				ctxBad = true
			}
		}
		if !ctxBad {
			r.OK(pos, key+" contexts", "every child is evaluated at most once per path, in the enclosing scope and against the specified current value")
		}
		// success paths
		var succ []pathFacts
		lines := map[string]bool{}
		for _, pf := range nf.paths {
			if pf.Err == "" || strings.HasPrefix(pf.Err, "h") {
				succ = append(succ, pf)
				lines[pf.Line] = true
			}
		}
		// (b) inline nodes: exact lines
		if want, ok := inlineLines[n]; ok {
			w := map[string]bool{}
			for _, l := range want {
				w[strings.ReplaceAll(l, "P(", truthPred+"(")] = true
			}
			// other single-argument predicates (the number test of unary plus) may be called anything
			if n == "AssertNumberNode" {
				if qf := p.RoleFunc("evaluator", "", "isNumber"); qf != nil && qf.Name() != "isNumber" {
					w2 := map[string]bool{}
					for l := range w {
						w2[strings.ReplaceAll(l, "isNumber(", qf.Name()+"(")] = true
					}
					w = w2
				}
			}
			bad := false
			for _, l := range keysOfSet(lines) {
				if !w[l] {
					r.Bad(pos, key+" :: "+l, "the dispatcher computes this for "+n+"; the specified behaviour is: "+strings.Join(keysOfSet(w), " ; "))
					bad = true
				}
			}
			for _, l := range keysOfSet(w) {
				if !lines[l] {
					r.Bad(pos, key+" :: "+l, "no path of the dispatcher implements this")
					bad = true
				}
			}
			if n == "VariableNode" {
				okErr := false
				for _, pf := range nf.paths {
					if pf.Err == "UndefinedVariableError" && len(pf.Conds) == 1 && pf.Conds[0] == "!found" {
						okErr = true
					}
				}
				if !okErr {
					r.Bad(pos, key+" undefined", "an absent variable is not reported as an undefined-variable error")
					bad = true
				}
			}
			if !bad {
				r.OK(pos, key+" behaviour", strings.Join(keysOfSet(w), " ; "))
			}
			continue
		}
		if n == "DefineVariables" {
			bad := ""
			var letPaths []pathFacts
			for _, pf := range succ {
				if pf.Err == "" {
					letPaths = append(letPaths, pf) // a path that only hands on a helper's error is not a success
				}
			}
			succ = letPaths
			for _, pf := range succ {
				if len(pf.Pushes) != 1 {
					bad = "a let evaluates its body without creating exactly one child scope"
					break
				}
				pa := pf.Pushes[0].Args
				if len(pa) < 2 || avKey(pa[0]) != avKey(d.scope) {
					bad = "the child scope of a let is not linked to the enclosing scope"
					break
				}
				last := pf.Evals[len(pf.Evals)-1]
				if last.Field != "Child" || pf.Result != fmt.Sprintf("$%d", len(pf.Evals)) {
					bad = "the result of a let is not the value of its body"
					break
				}
				// which bindings a let evaluates depends on the let alone: a path decided by a test of the current value
				// (a null guard borrowed from the multi-selects) binds nothing where the let stands on null
				for _, c := range pf.CurNil {
					if bad == "" {
						bad = "the bindings of a let depend on a test of the current value (" + c + "): a let that stands where the current value is null must still bind its variables"
					}
				}
				for _, ev := range pf.Evals[:len(pf.Evals)-1] {
					if !strings.HasPrefix(ev.Field, "Variables") {
						bad = "a let evaluates " + ev.Field + " before its body"
					}
				}
				// bindings evaluated by a helper: it must receive the binding expressions, the current value and the outer scope
				for _, c := range pf.Calls {
					hasVars := false
					for _, a := range c.Args {
						if strings.HasPrefix(a, "node.Variables") {
							hasVars = true
						}
					}
					if hasVars {
						for i := 0; i < c.Fn.Signature.Params().Len() && i < len(c.Args); i++ {
							if isAnyType(c.Fn.Signature.Params().At(i).Type()) && c.Args[i] != "@" {
								bad = "the bindings of a let are evaluated against " + c.Args[i] + ", not the enclosing current value"
							}
						}
					}
				}
			}
			if len(succ) == 0 {
				bad = "no successful path"
			}
			if bad != "" {
				r.Bad(pos, key+" behaviour", bad)
			} else {
				r.OK(pos, key+" behaviour", "bindings evaluated in the outer scope, one child scope linked to it, result is the body's value")
			}
			continue
		}
		if base == "Negate" || base == "Not" || base == "AssertNumber" {
			// a unary operator computes with the value of the operand it evaluated: once that child is evaluated, nothing
			// on the path converts or tests the current value in its place
			bad := ""
			for _, pf := range succ {
				if len(pf.Evals) == 0 {
					continue
				}
				for _, c := range pf.Calls {
					for _, a := range c.Args {
						if a == "@" && bad == "" {
							bad = pf.Line
						}
					}
				}
			}
			if bad != "" {
				r.Bad(pos, key+" operand", "after evaluating its operand the case hands the current value, not the operand's value, to a helper ("+bad+"): the operator is applied to the wrong value wherever the two differ")
			} else {
				r.OK(pos, key+" operand", "every helper the case calls after evaluating its operand is given the operand's value")
			}
		}
		if inlineNodes[base] {
			continue // data-level logic inside the dispatcher (merge, zip, not_null, negate, multi-selects): contexts checked above
		}
		// (c) helper-implemented nodes
		wantLines := 1
		if n == "ProjectArrayNode" {
			wantLines = 3 // helper path (twice: with and without the slice-node decision) and the string bypass, checked by E-NODESETS
		}
		if len(lines) == 0 {
			r.Bad(pos, key+" helper", "no successful path")
			continue
		}
		bad := ""
		var ref *pathFacts
		for i := range succ {
			pf := &succ[i]
			hname, hargs, neg := "", []string(nil), false
			switch {
			case len(pf.Calls) == 1:
				hname, hargs = pf.Calls[0].Fn.Name(), pf.Calls[0].Args
				if pf.Result != "h1" {
					bad = "the result is " + pf.Result + ", not the result of " + hname
				}
			case len(pf.Calls) == 0 && strings.Contains(pf.Result, "("):
				res := pf.Result
				if strings.HasPrefix(res, "!") {
					neg, res = true, res[1:]
				}
				i := strings.Index(res, "(")
				hname = res[:i]
				hargs = strings.Split(strings.TrimSuffix(res[i+1:], ")"), ",")
			case len(pf.Calls) == 0 && n == "ProjectArrayNode":
				guarded := false
				for _, c := range pf.Conds {
					if strings.HasSuffix(c, "(node.Left)") && !strings.HasPrefix(c, "!") {
						guarded = true
					}
				}
				if !guarded {
					bad = "the right-hand side is applied to the whole left value on a path that does not depend on what kind of node the left operand is (only a slice of a string bypasses the projection)"
				}
				if bad != "" {
					break
				}
				continue
			default:
				bad = fmt.Sprintf("a path produces the result through %d helper calls (%s)", len(pf.Calls), pf.Line)
			}
			if bad != "" {
				break
			}
			if !nameImplements(hname, base) {
				// a helper may be called anything; it must not be the helper of another operation (by the words of its
				// name, or because another node type with a different base already dispatches to it)
				other := ""
				for _, n2 := range names {
					b2, _ := nodeBase(n2)
					if b2 == base || inlineNodes[b2] || sharesHelper(b2, base) {
						continue
					}
					// shared with another operation, or named after another operation whose own helper is not
					if helperOfBase[b2] == hname || (nameImplements(hname, b2) && helperOfBase[b2] != "" && !nameImplements(helperOfBase[b2], b2)) {
						other = b2
					}
				}
				if other != "" {
					bad = "dispatches to " + hname + ", the helper of " + other + ", which does not implement " + base
					break
				}
			}
			if neg != (base == "NotEqual") {
				bad = "wrong polarity: only != negates its helper's result"
				break
			}
			// arguments
			evalIdx, nUsed := -1, 0
			for _, a := range hargs {
				switch {
				case strings.HasPrefix(a, "$"):
					var k int
					fmt.Sscanf(a, "$%d", &k)
					if k < 1 || k > len(pf.Evals) {
						bad = "helper argument " + a + " is not an evaluated child"
						break
					}
					f := pf.Evals[k-1].Field
					pos := -1
					for i, cf := range childFields {
						if cf == f {
							pos = i
						}
					}
					if pos < 0 {
						bad = "evaluates " + f + " which is not a child of the node"
					} else if pos < evalIdx && base != "Map" {
						bad = "arguments reach the helper in an order different from the node's fields: " + strings.Join(hargs, ", ")
					}
					evalIdx = pos
					nUsed++
				case strings.HasPrefix(a, "node."):
					for _, cf := range childFields {
						if "node."+cf == a {
							nUsed++
						}
					}
				}
			}
			if bad != "" {
				break
			}
			if len(pf.Evals) != strings.Count(strings.Join(hargs, ","), "$") {
				bad = "a child is evaluated but its value does not reach the helper"
				break
			}
			if !cur && nUsed < len(childFields) {
				bad = fmt.Sprintf("the node has %d children but only %d reach the helper (%s)", len(childFields), nUsed, strings.Join(hargs, ", "))
				break
			}
			if ref == nil {
				ref = pf
			}
		}
		if bad == "" && len(lines) > wantLines {
			bad = fmt.Sprintf("%d different ways of producing the result (expected %d): a path bypasses the helper or calls it differently: %s", len(lines), wantLines, strings.Join(keysOfSet(lines), " ; "))
		}
		if bad != "" {
			r.Bad(pos, key+" helper", bad)
			continue
		}
		r.OK(pos, key+" helper", strings.Join(keysOfSet(lines), " ; "))
	}
	// (d) current-node pairs
	for _, n := range names {
		base, cur := nodeBase(n)
		if !cur || inlineNodes[base] || all[n] == nil || all[base+"Node"] == nil {
			continue
		}
		key := "pair " + n + " / " + base + "Node"
		get := func(nf *nodeFacts) *callFact {
			for _, pf := range nf.paths {
				if (pf.Err == "" || strings.HasPrefix(pf.Err, "h")) && len(pf.Calls) == 1 {
					return &pf.Calls[0]
				}
			}
			return nil
		}
		a, b := get(all[n]), get(all[base+"Node"])
		if a == nil || b == nil {
			continue
		}
		bad := ""
		switch {
		case a.Fn != b.Fn:
			bad = "the two forms of the construct dispatch to different helpers: " + a.Fn.Name() + " vs " + b.Fn.Name()
		case len(a.Args) != len(b.Args):
			bad = fmt.Sprintf("the two forms pass a different number of arguments (%d vs %d)", len(a.Args), len(b.Args))
		default:
			for i := range a.Args {
				x, y := a.Args[i], b.Args[i]
				switch {
				case strings.HasPrefix(y, "$"):
					if x != "@" {
						bad = fmt.Sprintf("argument %d: the unfused form passes an evaluated child, the current-node form must pass the current value but passes %s", i+1, x)
					}
				case strings.HasPrefix(y, "node."):
					if x != y && !(y == "node.Right" && x == "node.Child") {
						bad = fmt.Sprintf("argument %d: %s in the current-node form corresponds to %s in the other form", i+1, x, y)
					}
				default:
					// a predicate of the left-hand child (is it a slice?) in the unfused form: the current node, which
					// stands in its place in the other form, is no such node, so a constant false corresponds to it
					if x == "false" && strings.Contains(y, "(node.Left)") {
						continue
					}
					if x != y {
						bad = fmt.Sprintf("argument %d differs: %s vs %s", i+1, x, y)
					}
				}
			}
		}
		if bad != "" {
			r.Bad(pos, key, bad)
		} else {
			r.OK(pos, key, "same helper, current value in place of the evaluated child, corresponding fields")
		}
	}
	// (e) the truth predicate is the same everywhere a truth decision is made in the dispatcher
	if truthPred == "" {
		r.Bad(pos, "truth predicate", "the not case does not return the negation of a predicate of its operand")
	} else {
		r.OK(pos, "truth predicate", truthPred+" decides !, && and ||")
	}
}

// sharesHelper: two node bases that are specified to use the same helper.
func sharesHelper(a, b string) bool {
	pairs := [][2]string{{"Equal", "NotEqual"}, {"Index", "SmallIndex"}}
	for _, p := range pairs {
		if (a == p[0] && b == p[1]) || (a == p[1] && b == p[0]) {
			return true
		}
	}
	return false
}

// nodeValuedArg: the rendered argument "node.F" names a field of node type n that holds nodes (a node, or an array, slice or
// map of nodes), as opposed to a plain value such as an index or a name.
func nodeValuedArg(p *Program, n, arg string) bool {
	st := nodeStruct(p, n)
	if st == nil {
		return false
	}
	f := strings.TrimPrefix(arg, "node.")
	if i := strings.IndexAny(f, "[."); i >= 0 {
		f = f[:i]
	}
	for i := 0; i < st.NumFields(); i++ {
		if st.Field(i).Name() != f {
			continue
		}
		t := st.Field(i).Type()
		for {
			switch u := t.Underlying().(type) {
			case *types.Array:
				t = u.Elem()
				continue
			case *types.Slice:
				t = u.Elem()
				continue
			case *types.Map:
				t = u.Elem()
				continue
			}
			break
		}
		return isNodeType(t)
	}
	return false
}
