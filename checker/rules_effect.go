package main

import (
	"fmt"
	"go/token"
	"go/types"
	"sort"
	"strings"

	"golang.org/x/tools/go/packages"
	"golang.org/x/tools/go/ssa"
)

func init() {
	register(&Rule{ID: "E-WRITE-OWNERSHIP", Props: []string{"C06", "C07", "C13", "C15", "C01", "C17", "C12", "C18", "C19"}, Floor: 40,
		Doc: "every memory write in API-reachable code of the evaluator and root packages (store through an element/field/pointer address, map update, first argument of append, argument written by a mutating library call) targets memory allocated in the same call; types whose methods write through their fields are constructed only from fresh memory",
		Run: ruleEWriteOwnership})
	register(&Rule{ID: "E-AST-READONLY", Props: []string{"C06", "C07", "C19"}, Floor: 3,
		Doc: "no store to a field of a parser node, of Expression or of the evaluator outside their constructors; Expression.node is set only in the literals of Compile/MustCompile, evaluator fields only in Evaluate",
		Run: ruleEAstReadonly})
	register(&Rule{ID: "A-GLOBALS", Props: []string{"C07", "C06", "C15", "C16", "C04", "C19"}, Floor: 4,
		Doc: "every package-level variable of the four packages is never stored to, updated through, or passed by address in API-reachable code; only error sentinels and read-only tables are allowed, sync/atomic-typed state is outside the analysable fragment",
		Run: ruleAGlobals})
	register(&Rule{ID: "A-NOGO", Props: []string{"C07", "C15"}, Floor: 1,
		Doc: "API-reachable code starts no goroutine and uses no channel operation, select or defer/recover-based control flow",
		Run: ruleANoGo})
	register(&Rule{ID: "E-NONDET-API", Props: []string{"C15", "C07"}, Floor: 1,
		Doc: "no API-reachable repository function calls into time, math/rand, crypto/rand, os, runtime, sync or unsafe, converts a pointer to an integer, or formats a pointer",
		Run: ruleENondetAPI})
	register(&Rule{ID: "E-MAPRANGE", Props: []string{"C15", "C19"}, Floor: 3,
		Doc: "every range over a map in API-reachable code is order-insensitive: no value is carried between iterations except writes keyed by the iteration key, early error returns and (only in the member enumerators the property exempts) the output position",
		Run: ruleEMapRange})
}

// mutatorArgs lists library callees that write through an argument (index of the written argument).
var mutatorArgs = map[string][]int{
	"slices.SortFunc": {0}, "slices.SortStableFunc": {0}, "slices.Sort": {0}, "slices.Reverse": {0},
	"sort.Sort": {0}, "sort.Stable": {0}, "sort.Slice": {0}, "sort.SliceStable": {0}, "sort.Strings": {0}, "sort.Ints": {0},
	"slices.Insert": {0}, "slices.Delete": {0}, "slices.Compact": {0}, "slices.CompactFunc": {0}, "slices.Grow": {0}, "slices.Clip": {},
	"slices.DeleteFunc": {0}, "slices.Replace": {0}, "slices.AppendSeq": {0}, "slices.SortStable": {0}, "sort.Float64s": {0},
	"maps.Insert": {0}, "maps.Clear": {0}, "fmt.Sscan": {1}, "fmt.Sscanf": {2}, "fmt.Sscanln": {1}, "fmt.Fscan": {1}, "fmt.Fscanf": {2},
	"strconv.AppendInt": {0}, "strconv.AppendQuote": {0}, "strconv.AppendFloat": {0}, "strconv.AppendBool": {0}, "strconv.AppendUint": {0},
	"unicode/utf8.AppendRune": {0}, "unicode/utf8.EncodeRune": {0}, "unicode/utf16.AppendRune": {0}, "fmt.Append": {0}, "fmt.Appendf": {0}, "fmt.Appendln": {0},
	"encoding/json.Unmarshal": {1}, "(*encoding/json.Decoder).Decode": {1},
	"maps.Copy": {0}, "maps.DeleteFunc": {0}, "copy": {0}, "clear": {0}, "delete": {0},
}

// pureCallees are library callees known not to write through reference-typed arguments they receive.
var pureCallees = map[string]bool{
	"errors.Is": true, "errors.As": false, "reflect.TypeOf": true, "encoding/json.Marshal": true,
	"strings.NewReader": true, "slices.Clone": true, "(*encoding/json.Decoder).UseNumber": true,
	"(*encoding/json.Decoder).Token": true, "(*encoding/json.Decoder).More": true, "encoding/json.NewDecoder": true,
	"(*strings.Builder).Grow": true, "(*strings.Builder).WriteString": true, "(*strings.Builder).WriteByte": true,
	"(*strings.Builder).WriteRune": true, "(*strings.Builder).String": true, "(*strings.Builder).Len": true,
	"(*github.com/woodsbury/decimal128.Decimal).UnmarshalJSON": true,
	"fmt.Fprintf": true, "slices.Clip": true,
}

func ruleEWriteOwnership(p *Program, r *Reporter) {
	fns := p.ReachFuncs(p.Eval, p.Root)
	// functions of the other packages that evaluation calls into (a method of a syntax-tree node used by the evaluator)
	// are part of evaluation as well
	{
		in := map[*ssa.Function]bool{}
		for _, f := range fns {
			in[f] = true
		}
		work := append([]*ssa.Function(nil), p.ReachFuncs(p.Eval)...)
		for len(work) > 0 {
			f := work[0]
			work = work[1:]
			for _, c := range staticCallees(f) {
				if in[c] || !p.IsRepo(c) || len(c.Blocks) == 0 {
					continue
				}
				in[c] = true
				fns = append(fns, c)
				work = append(work, c)
			}
		}
	}
	// types whose methods write through receiver fields: their construction sites carry the obligation
	fieldWriters := map[*types.Named]map[int]bool{}
	// methods that assign fields of their own receiver object (a cursor, a collector): the object must be the caller's own
	selfWriters := map[*ssa.Function]bool{}
	for _, fn := range fns {
		a := newFresh(fn)
		// closures: a free variable is fresh when the enclosing function binds it to a fresh value
		if fn.Parent() != nil {
			a.freshFree = func(fv *ssa.FreeVar) bool { return freeVarFresh(fn, fv) }
		}
		name := p.FuncName(fn)
		for _, b := range fn.Blocks {
			for _, in := range b.Instrs {
				switch in := in.(type) {
				case *ssa.Store:
					if _, isAlloc := in.Addr.(*ssa.Alloc); isAlloc {
						continue
					}
					if _, isGlobal := in.Addr.(*ssa.Global); isGlobal {
						continue // A-GLOBALS
					}
					key := fmt.Sprintf("%s store %s", name, describeAddr(in.Addr))
					if a.fresh(in.Addr) {
						r.OK(in.Pos(), key, "address derives from memory allocated in this call")
						continue
					}
					if withinReceiver(fn, in.Addr) {
						selfWriters[fn] = true
						r.OK(in.Pos(), key, "assigns a field of the method's own receiver object; obligation moved to the call sites (the object must be the caller's own local)")
						continue
					}
					if nt, fld, ok := receiverField(fn, in.Addr); ok {
						if fieldWriters[nt] == nil {
							fieldWriters[nt] = map[int]bool{}
						}
						fieldWriters[nt][fld] = true
						r.OK(in.Pos(), key, "writes through field of receiver type "+nt.Obj().Name()+"; obligation moved to its construction sites")
						continue
					}
					r.Bad(instrPos(in), key, "store through an address that is not allocated in this call (caller's data, AST or shared state): "+in.Addr.String())
				case *ssa.MapUpdate:
					key := fmt.Sprintf("%s mapupdate %s", name, describeAddr(in.Map))
					if a.fresh(in.Map) {
						r.OK(in.Pos(), key, "map allocated in this call")
					} else {
						r.Bad(instrPos(in), key, "update of a map that is not allocated in this call: "+in.Map.String())
					}
				case ssa.CallInstruction:
					c := in.Common()
					bn := builtinName(c)
					full := calleeFullName(c)
					if bn == "append" {
						key := fmt.Sprintf("%s append %s", name, describeAddr(c.Args[0]))
						if a.fresh(c.Args[0]) {
							r.OK(in.Pos(), key, "appends to a slice allocated in this call (or nil)")
						} else if nt, fld, ok := receiverField(fn, c.Args[0]); ok {
							if fieldWriters[nt] == nil {
								fieldWriters[nt] = map[int]bool{}
							}
							fieldWriters[nt][fld] = true
							r.OK(in.Pos(), key, "appends to a field of receiver type "+nt.Obj().Name()+"; obligation moved to its construction sites")
						} else {
							r.Bad(instrPos(in), key, "append to a slice that is not allocated in this call may write into the caller's spare capacity: "+c.Args[0].String())
						}
						continue
					}
					nm := full
					if bn != "" {
						nm = bn
					}
					if idx, ok := mutatorArgs[nm]; ok {
						for _, i := range idx {
							if i >= len(c.Args) {
								continue
							}
							arg := c.Args[i]
							key := fmt.Sprintf("%s %s(arg%d)", name, nm, i)
							if a.fresh(arg) || freshThroughInterface(a, arg) {
								r.OK(in.Pos(), key, "written argument is allocated in this call")
							} else {
								r.Bad(instrPos(in), key, nm+" writes through argument "+arg.String()+" which is not allocated in this call")
							}
						}
						continue
					}
					// unknown external callee receiving reference-typed data
					if callee := calleeOf(c); callee != nil && !p.IsRepo(callee) && bn == "" {
						if pureCallees[full] || stdlibReadOnly(callee) {
							continue
						}
						for i, arg := range c.Args {
							if !holdsRefs(arg.Type()) {
								continue
							}
							if _, isFn := arg.Type().Underlying().(*types.Signature); isFn {
								continue
							}
							if a.fresh(arg) || freshThroughInterface(a, arg) {
								continue
							}
							key := fmt.Sprintf("%s extcall %s(arg%d)", name, full, i)
							r.Bad(instrPos(in), key, "library function "+full+" receives non-fresh reference-typed data and is not in the table of pure/mutating callees (DESIGN.md Appendix B)")
						}
					}
				}
			}
		}
	}
	// call sites of methods that assign their receiver's fields: the receiver is the caller's own local object, or part of
	// the caller's own receiver (then the caller carries the same obligation)
	for changed := true; changed; {
		changed = false
		for _, fn := range fns {
			if selfWriters[fn] {
				continue
			}
			for _, b := range fn.Blocks {
				for _, in := range b.Instrs {
					ci, ok := in.(ssa.CallInstruction)
					if !ok {
						continue
					}
					callee := ci.Common().StaticCallee()
					if callee == nil || !selfWriters[callee] || len(ci.Common().Args) == 0 {
						continue
					}
					if arg := ci.Common().Args[0]; withinReceiver(fn, arg) || (len(fn.Params) > 0 && fn.Signature.Recv() != nil && arg == ssa.Value(fn.Params[0])) {
						selfWriters[fn] = true
						changed = true
					}
				}
			}
		}
	}
	for _, fn := range fns {
		a := newFresh(fn)
		if fn.Parent() != nil {
			a.freshFree = func(fv *ssa.FreeVar) bool { return freeVarFresh(fn, fv) }
		}
		n := 0
		for _, b := range fn.Blocks {
			for _, in := range b.Instrs {
				ci, ok := in.(ssa.CallInstruction)
				if !ok {
					continue
				}
				callee := ci.Common().StaticCallee()
				if callee == nil || !selfWriters[callee] || len(ci.Common().Args) == 0 {
					continue
				}
				n++
				arg := ci.Common().Args[0]
				key := fmt.Sprintf("%s receiver of %s#%d", p.FuncName(fn), callee.Name(), n)
				switch {
				case a.fresh(arg):
					r.OK(in.Pos(), key, "the object whose fields the method assigns is a local of this call")
				case selfWriters[fn] && (withinReceiver(fn, arg) || arg == ssa.Value(fn.Params[0])):
					r.OK(in.Pos(), key, "the caller's own receiver (or a part of it); obligation moved to the caller's call sites")
				default:
					r.Bad(instrPos(in), key, "a method that assigns fields of its receiver is called on an object that is not a local of this call: "+arg.String()+" (shared state written during evaluation)")
				}
			}
		}
	}
	// construction sites of field-writer types
	var names []*types.Named
	for nt := range fieldWriters {
		names = append(names, nt)
	}
	sort.Slice(names, func(i, j int) bool { return names[i].Obj().Name() < names[j].Obj().Name() })
	for _, nt := range names {
		sites := 0
		for _, fn := range p.ReachFuncs() {
			a := newFresh(fn)
			for _, b := range fn.Blocks {
				for _, in := range b.Instrs {
					al, ok := in.(*ssa.Alloc)
					if !ok || !types.Identical(derefType(al.Type()), nt) {
						continue
					}
					// skip spills of parameters/receivers (they are copies of an already constructed value)
					spill := false
					for _, ref := range *al.Referrers() {
						if st, ok := ref.(*ssa.Store); ok && st.Addr == al {
							if _, isParam := st.Val.(*ssa.Parameter); isParam {
								spill = true
							}
						}
					}
					if spill {
						continue
					}
					sites++
					st := nt.Underlying().(*types.Struct)
					for fld := range fieldWriters[nt] {
						if !holdsRefs(st.Field(fld).Type()) {
							continue
						}
						key := fmt.Sprintf("%s construct %s.%s", p.FuncName(fn), nt.Obj().Name(), st.Field(fld).Name())
						if a.fieldStoresFresh(al, fld) {
							r.OK(al.Pos(), key, "field initialised with memory allocated in this call (its methods write through it)")
						} else {
							r.Bad(al.Pos(), key, "field "+st.Field(fld).Name()+" of "+nt.Obj().Name()+" is initialised with non-fresh memory but methods of the type write through it (in-place sort of the caller's data)")
						}
					}
				}
			}
		}
		if sites == 0 {
			r.Unknown(token.NoPos, "construct "+nt.Obj().Name(), "no construction site found for a type whose methods write through receiver fields")
		}
	}
}

func freshThroughInterface(a *freshAn, v ssa.Value) bool {
	if mi, ok := v.(*ssa.MakeInterface); ok {
		// an interface wrapping a struct value whose reference fields are fresh (checked at construction sites)
		_ = mi
	}
	return false
}

// freeVarFresh: the closure's binding for fv in the enclosing function is a fresh value.
func freeVarFresh(fn *ssa.Function, fv *ssa.FreeVar) bool {
	parent := fn.Parent()
	idx := -1
	for i, f := range fn.FreeVars {
		if f == fv {
			idx = i
		}
	}
	if parent == nil || idx < 0 {
		return false
	}
	a := newFresh(parent)
	if parent.Parent() != nil {
		a.freshFree = func(f2 *ssa.FreeVar) bool { return freeVarFresh(parent, f2) }
	}
	found := false
	for _, b := range parent.Blocks {
		for _, in := range b.Instrs {
			mc, ok := in.(*ssa.MakeClosure)
			if !ok || mc.Fn != fn {
				continue
			}
			found = true
			if !a.fresh(mc.Bindings[idx]) {
				return false
			}
			// a closure that outlives the call that made it (returned, stored in a variable of the package or in a
			// structure) runs against the same captured variables every time it is called, from whatever goroutine: to
			// such a closure they are shared state, not memory of the current call
			if closureOutlivesCall(mc) {
				return false
			}
		}
	}
	return found
}

// withinReceiver: addr is the address of a field (of a field ...) of the object the method's pointer receiver points
// to, reached without loading any pointer: a store there assigns part of the receiver object itself.
func withinReceiver(fn *ssa.Function, addr ssa.Value) bool {
	if fn.Signature.Recv() == nil || len(fn.Params) == 0 {
		return false
	}
	if _, isPtr := fn.Params[0].Type().Underlying().(*types.Pointer); !isPtr {
		return false
	}
	v := addr
	for i := 0; i < 8; i++ {
		switch x := v.(type) {
		case *ssa.FieldAddr:
			if x.X == ssa.Value(fn.Params[0]) {
				return true
			}
			v = x.X
		case *ssa.IndexAddr:
			if _, isArr := derefType(x.X.Type()).Underlying().(*types.Array); !isArr {
				return false
			}
			if _, isPtr := x.X.Type().Underlying().(*types.Pointer); !isPtr {
				return false
			}
			v = x.X
		default:
			return false
		}
	}
	return false
}

// closureOutlivesCall: the function value is returned, stored outside the frame, boxed, sent, or kept in a local
// variable; calling it and handing it to a callee as an argument are the uses that end with the enclosing call.
func closureOutlivesCall(mc *ssa.MakeClosure) bool {
	rs := mc.Referrers()
	if rs == nil {
		return false
	}
	for _, ref := range *rs {
		switch x := ref.(type) {
		case *ssa.DebugRef:
		case ssa.CallInstruction:
			// the callee may of course keep it; the repository's higher-order helpers and the library's (sort, slices,
			// range-over-func) call it and return
			_ = x
		default:
			return true
		}
	}
	return false
}

// receiverField recognises an address derived from a field of the method receiver of a repository struct type.
func receiverField(fn *ssa.Function, addr ssa.Value) (*types.Named, int, bool) {
	if fn.Signature.Recv() == nil || len(fn.Params) == 0 {
		return nil, 0, false
	}
	recv := fn.Params[0]
	rt := recv.Type()
	if pt, ok := rt.Underlying().(*types.Pointer); ok {
		rt = pt.Elem()
	}
	nt, ok := types.Unalias(rt).(*types.Named)
	if !ok {
		return nil, 0, false
	}
	if _, ok := nt.Underlying().(*types.Struct); !ok {
		return nil, 0, false
	}
	// walk back: IndexAddr/Slice over a load of FieldAddr(spill-alloc or recv)
	v := addr
	for i := 0; i < 8; i++ {
		switch x := v.(type) {
		case *ssa.IndexAddr:
			v = x.X
		case *ssa.Slice:
			v = x.X
		case *ssa.UnOp:
			if x.Op != token.MUL {
				return nil, 0, false
			}
			v = x.X
		case *ssa.Field:
			if x.X == ssa.Value(recv) {
				return nt, x.Field, true
			}
			return nil, 0, false
		case *ssa.FieldAddr:
			base := x.X
			if base == ssa.Value(recv) {
				return nt, x.Field, true
			}
			if al, ok := base.(*ssa.Alloc); ok {
				for _, ref := range *al.Referrers() {
					if st, ok := ref.(*ssa.Store); ok && st.Addr == al && st.Val == ssa.Value(recv) {
						return nt, x.Field, true
					}
				}
			}
			return nil, 0, false
		default:
			return nil, 0, false
		}
	}
	return nil, 0, false
}

func describeAddr(v ssa.Value) string {
	switch x := v.(type) {
	case *ssa.IndexAddr:
		return describeAddr(x.X) + "[i]"
	case *ssa.FieldAddr:
		return describeAddr(x.X) + "." + fieldName(x)
	case *ssa.UnOp:
		if x.Op == token.MUL {
			return describeAddr(x.X)
		}
	case *ssa.Alloc:
		if x.Comment != "" {
			return x.Comment
		}
		return "local"
	case *ssa.Parameter:
		return x.Name()
	case *ssa.FreeVar:
		return x.Name()
	case *ssa.MakeSlice:
		return "make([])"
	case *ssa.MakeMap:
		return "make(map)"
	case *ssa.Phi:
		if x.Comment != "" {
			return x.Comment
		}
		return "phi"
	case *ssa.Call:
		if n := builtinName(&x.Call); n != "" {
			return n + "(…)"
		}
		return calleeFullName(&x.Call) + "(…)"
	case *ssa.TypeAssert:
		return describeAddr(x.X) + ".(" + typeShort(x.AssertedType) + ")"
	case *ssa.Extract:
		return describeAddr(x.Tuple)
	case *ssa.Slice:
		return describeAddr(x.X) + "[:]"
	case *ssa.Global:
		return x.Name()
	case *ssa.Lookup:
		return describeAddr(x.X) + "[k]"
	}
	return v.Name()
}

// ---------------------------------------------------------------- E-AST-READONLY

func ruleEAstReadonly(p *Program, r *Reporter) {
	parserPath := p.Parser.PkgPath
	isProtected := func(t types.Type) (string, bool) {
		t = derefType(t)
		nt, ok := types.Unalias(t).(*types.Named)
		if !ok || nt.Obj().Pkg() == nil {
			return "", false
		}
		switch {
		case nt.Obj().Pkg().Path() == parserPath && strings.HasSuffix(nt.Obj().Name(), "Node") || nt.Obj().Pkg().Path() == parserPath && nt.Obj().Name() == "DefineVariables":
			return "parser." + nt.Obj().Name(), true
		case nt.Obj().Pkg().Path() == p.Root.PkgPath && nt.Obj().Name() == "Expression":
			return "Expression", true
		case nt.Obj().Pkg().Path() == p.Eval.PkgPath && nt.Obj().Name() == "evaluator":
			return "evaluator", true
		}
		return "", false
	}
	count := 0
	for _, fn := range p.ReachFuncs() {
		pk := p.PkgOf(fn)
		for _, b := range fn.Blocks {
			for _, in := range b.Instrs {
				st, ok := in.(*ssa.Store)
				if !ok {
					continue
				}
				fa, ok := st.Addr.(*ssa.FieldAddr)
				if !ok {
					continue
				}
				tn, prot := isProtected(fa.X.Type())
				if !prot {
					continue
				}
				count++
				key := fmt.Sprintf("%s store %s.%s", p.FuncName(fn), tn, fieldName(fa))
				_, isLocal := fa.X.(*ssa.Alloc)
				switch {
				case strings.HasPrefix(tn, "parser.") && pk == p.Parser && isLocal:
					r.Trivial(st.Pos(), key, "field of a node under construction in the parser (composite literal)")
				case tn == "Expression" && isLocal && (fn.Name() == "Compile" || fn.Name() == "MustCompile"):
					r.OK(st.Pos(), key, "Expression constructed once in "+fn.Name())
				case tn == "evaluator" && isLocal && fn.Name() == "Evaluate":
					r.OK(st.Pos(), key, "per-call evaluator constructed in Evaluate")
				default:
					r.Bad(instrPos(st), key, "field of "+tn+" written after construction: compiled expressions, the AST and the evaluator must stay immutable during evaluation")
				}
			}
		}
	}
	// structural part: Expression has exactly the node field; evaluator exactly root
	if obj := p.Root.Types.Scope().Lookup("Expression"); obj != nil {
		if st, ok := obj.Type().Underlying().(*types.Struct); ok {
			for i := 0; i < st.NumFields(); i++ {
				f := st.Field(i)
				key := "Expression field " + f.Name()
				if namedIs(f.Type(), parserPath, "Node") {
					r.OK(f.Pos(), key, "holds the immutable AST")
				} else if !holdsRefs(f.Type()) {
					r.OK(f.Pos(), key, "value-typed field set at construction")
				} else {
					r.Bad(f.Pos(), key, "Expression carries reference-typed state besides the AST ("+typeShort(f.Type())+"): shared between all Search calls on the expression")
				}
			}
		}
	} else {
		r.Unknown(token.NoPos, "Expression", "type Expression not found")
	}
	_ = count
}

// ---------------------------------------------------------------- A-GLOBALS

func ruleAGlobals(p *Program, r *Reporter) {
	type ginfo struct {
		g   *ssa.Global
		pk  *packages.Package
		bad []string
		pos token.Pos
	}
	var globals []*ginfo
	byG := map[*ssa.Global]*ginfo{}
	for _, pk := range p.Pkgs {
		sp := p.SSAPkg[pk]
		var names []string
		for n, m := range sp.Members {
			if _, ok := m.(*ssa.Global); ok {
				names = append(names, n)
			}
		}
		sort.Strings(names)
		for _, n := range names {
			g := sp.Members[n].(*ssa.Global)
			if strings.HasPrefix(n, "init$") {
				continue
			}
			gi := &ginfo{g: g, pk: pk, pos: g.Pos()}
			globals = append(globals, gi)
			byG[g] = gi
		}
	}
	// scan every reachable function (and closures) for uses of globals
	for _, fn := range p.ReachFuncs() {
		if fn.Name() == "init" {
			continue
		}
		for _, b := range fn.Blocks {
			for _, in := range b.Instrs {
				for _, op := range in.Operands(nil) {
					g, ok := (*op).(*ssa.Global)
					if !ok {
						continue
					}
					gi := byG[g]
					if gi == nil {
						continue
					}
					where := p.FuncName(fn) + " at " + p.Pos(instrPos(in))
					switch x := in.(type) {
					case *ssa.UnOp:
						if x.Op == token.MUL {
							// a load: then check what is done with the loaded value
							for _, ref := range *x.Referrers() {
								switch y := ref.(type) {
								case *ssa.MapUpdate:
									if y.Map == ssa.Value(x) {
										gi.bad = append(gi.bad, "map update in "+where)
									}
								case *ssa.IndexAddr:
									for _, r2 := range *y.Referrers() {
										if st, ok := r2.(*ssa.Store); ok && st.Addr == ssa.Value(y) {
											gi.bad = append(gi.bad, "element store in "+where)
										}
									}
								case *ssa.FieldAddr:
									for _, r2 := range *y.Referrers() {
										if st, ok := r2.(*ssa.Store); ok && st.Addr == ssa.Value(y) {
											gi.bad = append(gi.bad, "field store through pointer in "+where)
										}
									}
								case ssa.CallInstruction:
									c := y.Common()
									if builtinName(c) == "append" && len(c.Args) > 0 && c.Args[0] == ssa.Value(x) {
										gi.bad = append(gi.bad, "append to global slice in "+where)
									}
									if c.IsInvoke() && c.Value == ssa.Value(x) {
										// method call on an interface-typed global (error sentinels: Error())
										continue
									}
								}
							}
							continue
						}
					case *ssa.Store:
						if x.Addr == ssa.Value(g) {
							gi.bad = append(gi.bad, "store in "+where)
							continue
						}
					case *ssa.FieldAddr, *ssa.IndexAddr:
						// address of a part of the global: any store or escape through it
						v := in.(ssa.Value)
						if bad := addressOnlyRead(v, 0); bad != "" {
							gi.bad = append(gi.bad, "address of a part of the global used by "+bad+" in "+where)
						}
						continue
					}
					if _, isLoad := in.(*ssa.UnOp); !isLoad {
						gi.bad = append(gi.bad, "address taken / passed to "+in.String()+" in "+where)
					}
				}
			}
		}
	}
	for _, gi := range globals {
		t := derefType(gi.g.Type())
		key := gi.pk.Name + "." + gi.g.Name()
		ts := typeShort(t)
		if strings.Contains(ts, "sync.") || strings.Contains(ts, "atomic.") {
			r.Bad(gi.pos, key, "package-level state of type "+ts+": synchronised shared state is outside the fragment this analysis can decide (results could depend on interleaving)")
			continue
		}
		if len(gi.bad) > 0 {
			r.Bad(gi.pos, key, "package-level variable is modified in API-reachable code: "+strings.Join(gi.bad, "; "))
			continue
		}
		r.OK(gi.pos, key, "type "+ts+": never written, updated through or passed by address in API-reachable code")
	}
}

// ---------------------------------------------------------------- A-NOGO

func ruleANoGo(p *Program, r *Reporter) {
	n := 0
	for _, fn := range p.ReachFuncs() {
		for _, b := range fn.Blocks {
			for _, in := range b.Instrs {
				bad := ""
				switch x := in.(type) {
				case *ssa.Go:
					bad = "go statement"
				case *ssa.Send:
					bad = "channel send"
				case *ssa.Select:
					bad = "select"
				case *ssa.MakeChan:
					bad = "channel creation"
				case *ssa.UnOp:
					if x.Op == token.ARROW {
						bad = "channel receive"
					}
				}
				if bad != "" {
					n++
					r.Bad(instrPos(in), fmt.Sprintf("%s %s", p.FuncName(fn), bad), bad+" in API-reachable code: the library is expected to be single-threaded per call")
				}
			}
		}
	}
	r.OK(token.NoPos, "scan", fmt.Sprintf("%d API-reachable functions scanned for go/chan/select: %d found", len(p.ReachFuncs()), n))
}

// ---------------------------------------------------------------- E-NONDET-API

var nondetPkgs = []string{"time", "math/rand", "math/rand/v2", "crypto/rand", "os", "runtime", "sync", "sync/atomic", "unsafe", "syscall", "net", "os/exec", "io/ioutil", "hash/maphash", "unique", "weak"}

func ruleENondetAPI(p *Program, r *Reporter) {
	calls := 0
	for _, fn := range p.ReachFuncs() {
		for _, b := range fn.Blocks {
			for _, in := range b.Instrs {
				switch x := in.(type) {
				case ssa.CallInstruction:
					calls++
					callee := calleeOf(x.Common())
					if callee == nil || callee.Pkg == nil || p.IsRepo(callee) {
						continue
					}
					path := callee.Pkg.Pkg.Path()
					for _, np := range nondetPkgs {
						if path == np {
							r.Bad(instrPos(in), fmt.Sprintf("%s calls %s", p.FuncName(fn), calleeFullName(x.Common())), "call into "+path+": results could depend on time, randomness, environment or scheduling")
						}
					}
				case *ssa.Convert:
					if _, isPtr := x.X.Type().Underlying().(*types.Pointer); isPtr {
						r.Bad(instrPos(in), fmt.Sprintf("%s pointer conversion", p.FuncName(fn)), "pointer converted to "+typeShort(x.Type()))
					}
					if b, ok := x.X.Type().Underlying().(*types.Basic); ok && b.Kind() == types.UnsafePointer {
						r.Bad(instrPos(in), fmt.Sprintf("%s unsafe conversion", p.FuncName(fn)), "unsafe.Pointer conversion")
					}
				}
			}
		}
	}
	// imports of the four packages
	for _, pk := range p.Pkgs {
		var imps []string
		for path := range pk.Imports {
			imps = append(imps, path)
		}
		sort.Strings(imps)
		for _, path := range imps {
			for _, np := range nondetPkgs {
				if path == np {
					r.Bad(token.NoPos, pk.Name+" imports "+path, "package imports "+path)
				}
			}
		}
	}
	r.OK(token.NoPos, "scan", fmt.Sprintf("%d call sites in %d API-reachable functions resolved; none into %s", calls, len(p.ReachFuncs()), strings.Join(nondetPkgs, ", ")))
}

// ---------------------------------------------------------------- E-MAPRANGE

// enumerators may let iteration order decide the position of members in the output array (exempted by C15).
var mapEnumerators = map[string]bool{
	"evaluator.items": true, "evaluator.keys": true, "evaluator.values": true, "evaluator.objectValues": true, "evaluator.evaluator.projectObject": true,
}

func ruleEMapRange(p *Program, r *Reporter) {
	for _, fn := range p.ReachFuncs() {
		name := p.FuncName(fn)
		loops := loopsOf(fn)
		mapEnumerators := mapEnumerators
		if !mapEnumerators[name] {
			if _, ok := exemptVia(p, fn, func(n string) bool { return mapEnumerators[n] }, 0); ok {
				// a helper that enumerates members only on behalf of the enumerators
				mapEnumerators = map[string]bool{name: true}
			}
		}
		// find map iterations: Range instruction over a map
		n := 0
		for _, b := range fn.Blocks {
			for _, in := range b.Instrs {
				rg, ok := in.(*ssa.Range)
				if !ok {
					continue
				}
				if _, isMap := rg.X.Type().Underlying().(*types.Map); !isMap {
					continue
				}
				n++
				key := fmt.Sprintf("%s range-map#%d over %s", name, n, describeAddr(rg.X))
				// header = block containing Next on this iterator
				var header *ssa.BasicBlock
				var next *ssa.Next
				for _, ref := range *rg.Referrers() {
					if nx, ok := ref.(*ssa.Next); ok {
						header, next = nx.Block(), nx
					}
				}
				if header == nil {
					r.Unknown(in.Pos(), key, "iterator without Next")
					continue
				}
				body := loops[header]
				if body == nil {
					r.Unknown(in.Pos(), key, "loop body not found")
					continue
				}
				var iterKey ssa.Value
				for _, ref := range *next.Referrers() {
					if ex, ok := ref.(*ssa.Extract); ok && ex.Index == 1 {
						iterKey = ex
					}
				}
				var problems []string
				// (1) loop-carried values: phis in the header other than none (the iterator is not a phi)
				for _, hin := range header.Instrs {
					phi, ok := hin.(*ssa.Phi)
					if !ok {
						continue
					}
					// a carried value is order-dependent unless it is only an output cursor in an enumerator
					desc := phi.Comment
					if desc == "" {
						desc = phi.Name()
					}
					if mapEnumerators[name] {
						continue
					}
					if isMonotoneAppendOnly(phi, body) && mapEnumerators[name] {
						continue
					}
					problems = append(problems, "value '"+desc+"' is carried from one iteration to the next")
				}
				// (2) writes inside the body: map updates must be keyed by the iteration key; stores to outer memory are order dependent
				for blk := range body {
					for _, bin := range blk.Instrs {
						switch w := bin.(type) {
						case *ssa.MapUpdate:
							if iterKey == nil || w.Key != iterKey {
								problems = append(problems, "map update at "+p.Pos(instrPos(w))+" is not keyed by the iteration key (last writer wins in iteration order)")
							}
						case *ssa.Store:
							if al, ok := w.Addr.(*ssa.Alloc); ok && !body[al.Block()] {
								if !mapEnumerators[name] {
									problems = append(problems, "store to outer variable "+describeAddr(al)+" at "+p.Pos(instrPos(w)))
								}
							}
						}
					}
				}
				// (3) nested map range whose writes use the inner key only is caught by (2) on the inner loop
				switch {
				case len(problems) > 0:
					r.Bad(in.Pos(), key, "iteration order can influence the result: "+strings.Join(problems, "; "))
				case mapEnumerators[name]:
					r.OK(in.Pos(), key, "member enumerator: only the order of the produced array depends on iteration order (exempted by the property)")
				default:
					r.OK(in.Pos(), key, "no value carried between iterations; writes keyed by the iteration key; early exits return errors only")
				}
			}
		}
	}
}

func isMonotoneAppendOnly(phi *ssa.Phi, body map[*ssa.BasicBlock]bool) bool { return false }

// stdlibReadOnly: functions of these standard-library packages never write through reference-typed arguments, except the
// ones listed in mutatorArgs (which are handled before this test). A new mutating API must be added to that table.
var readOnlyPkgs = map[string]bool{
	"strings": true, "unicode": true, "unicode/utf8": true, "unicode/utf16": true, "strconv": true, "math": true, "errors": true,
	"slices": true, "maps": true, "sort": true, "fmt": true, "iter": true, "cmp": true, "math/bits": true,
}

func stdlibReadOnly(callee *ssa.Function) bool {
	if callee.Pkg == nil {
		// methods of instantiated generic types etc.
		if o := callee.Origin(); o != nil && o.Pkg != nil {
			return readOnlyPkgs[o.Pkg.Pkg.Path()]
		}
		return false
	}
	return readOnlyPkgs[callee.Pkg.Pkg.Path()]
}

// addressOnlyRead: an address derived from a global is used only to read (loads, and addresses of sub-parts that are
// themselves only read). Returns a description of the first other use, "" when there is none.
func addressOnlyRead(v ssa.Value, depth int) string {
	if depth > 4 || v.Referrers() == nil {
		return "a deep address chain"
	}
	for _, ref := range *v.Referrers() {
		switch x := ref.(type) {
		case *ssa.UnOp:
			if x.Op == token.MUL {
				continue
			}
			return x.String()
		case *ssa.FieldAddr:
			if bad := addressOnlyRead(x, depth+1); bad != "" {
				return bad
			}
		case *ssa.IndexAddr:
			if x.X != v {
				return x.String() // the address used as an index?
			}
			if bad := addressOnlyRead(x, depth+1); bad != "" {
				return bad
			}
		case *ssa.DebugRef:
		default:
			return ref.String()
		}
	}
	return ""
}
