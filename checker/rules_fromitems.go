package main

// rules_fromitems.go: E-FROMITEMS. from_items is the one built-in whose argument has a shape of its own (an array of
// [key, value] pairs) and three kinds of fault (the specification: an element that is not an array is an invalid type; a
// pair that does not have two elements, or whose key is not a string, is an invalid value). The helper is interpreted on
// a symbolic array whose first element is looked at: what it returns is compared with what the path found out about
// that element.

import (
	"fmt"
	"go/token"
	"strings"
)

func init() {
	register(&Rule{ID: "E-FROMITEMS", Props: []string{"C02", "C08"}, Floor: 1,
		Doc: "from_items, by interpretation on a symbolic array: a result is returned only on paths on which every pair the path looked at was found to be an array of exactly two elements whose first is a string; a path that found an element not to be an array returns *InvalidTypeError, one that found a pair's length different from two returns the length error, one that found the key not to be a string returns the key-type error (the two invalid-value faults of the specification), and nothing else",
		Run: ruleEFromItems})
}

func ruleEFromItems(p *Program, r *Reporter) {
	d := newValDom(p)
	if d.why != "" {
		r.Unknown(token.NoPos, "evaluator model", d.why)
		return
	}
	fn := producerFunc(p, "fromItems")
	if fn == nil {
		r.Unknown(token.NoPos, "evaluator.fromItems", "helper not found")
		return
	}
	key := "evaluator.fromItems pair shape"
	vr, why := d.run(fn, 2, nil)
	if why != "" {
		r.Unknown(fn.Pos(), key, why)
		return
	}
	as := avSym{tag: "asserted:[]any", payload: vr.subject}
	pairRaw := elemSym(as, 0)
	pair := avSym{tag: "asserted:[]any", payload: pairRaw}
	keyRaw := elemSym(pair, 0)
	results, faults := 0, 0
	bad := ""
	var badPos token.Pos
	note := func(pos token.Pos, msg string) {
		if bad == "" {
			bad, badPos = msg, pos
		}
	}
	for _, o := range vr.outs {
		if o.Cut || o.Panic || o.Ret == nil || len(o.Res) != 2 {
			continue
		}
		st := o.St
		passedArr, _ := st.subjectTests(vr.subject)
		isArr := false
		for _, t := range passedArr {
			isArr = isArr || t == "[]any"
		}
		if !isArr {
			continue // the argument itself is not an array: E-TYPECHECK
		}
		// what the path found out about the first element
		pairOK, pairFail := false, false
		for _, c := range st.Conds {
			if sy, ok := c.V.(avSym); ok && sy.tag == "assert-ok:[]any" && sy.payload != nil && avKey(sy.payload) == avKey(pairRaw) {
				pairOK, pairFail = pairOK || c.Truth, pairFail || !c.Truth
			}
		}
		keyOK, keyFail := false, false
		for _, c := range st.Conds {
			if sy, ok := c.V.(avSym); ok && sy.tag == "assert-ok:string" && sy.payload != nil && avKey(sy.payload) == avKey(keyRaw) {
				keyOK, keyFail = keyOK || c.Truth, keyFail || !c.Truth
			}
		}
		lenKnown, lenIsTwo, lenNotTwo := false, false, false
		if k, ok := st.KnownInt(lenSym(pair)); ok {
			lenKnown, lenIsTwo, lenNotTwo = true, k == 2, k != 2
		} else if f := st.ints[st.idOf(lenSym(pair))]; f != nil && (f.lo > 2 || f.hi < 2 || f.neq[2]) {
			lenNotTwo = true
		}
		_ = lenKnown
		errv := o.Res[1]
		if isDefNil(errv) {
			// a result: every pair looked at must have been validated; a path that never looked at a first element is the
			// empty array
			if k, ok := st.KnownInt(lenSym(as)); ok && k == 0 {
				results++
				continue
			}
			if !pairOK && !pairFail && !keyOK && !keyFail {
				continue // the path did not reach the first element (length undetermined, loop not entered)
			}
			results++
			switch {
			case !pairOK:
				note(o.Ret.Pos(), "a result is returned although the first element was not found to be an array")
			case !lenIsTwo:
				note(o.Ret.Pos(), "a result is returned although the path does not know that the pair has exactly two elements (a pair of three or more elements is accepted and its tail dropped, or a shorter one is read beyond its end)")
			case !keyOK:
				note(o.Ret.Pos(), "a result is returned although the key of the pair was not found to be a string")
			}
			continue
		}
		et := dynName(errv)
		switch {
		case pairFail:
			faults++
			if et != "InvalidTypeError" {
				note(o.Ret.Pos(), "an element that is not an array is reported as "+et+", not as an invalid type")
			}
		case pairOK && lenNotTwo:
			faults++
			if !strings.Contains(strings.ToLower(et), "length") {
				note(o.Ret.Pos(), "a pair that does not have two elements is reported as "+et+", not as the invalid-value fault for the length of a pair")
			}
		case pairOK && lenIsTwo && keyFail:
			faults++
			if !strings.Contains(strings.ToLower(et), "key") {
				note(o.Ret.Pos(), "a pair whose key is not a string is reported as "+et+", not as the invalid-value fault for the key of a pair")
			}
		case pairOK && lenIsTwo && keyOK:
			// the fault concerns a later element: the same code, looked at through the first element on other paths
		}
	}
	switch {
	case bad != "":
		r.Bad(badPos, key, bad)
	case results == 0 || faults < 3:
		r.Unknown(fn.Pos(), key, fmt.Sprintf("the interpretation reached %d result paths and %d fault paths about the first pair (expected at least one result and the three faults)", results, faults))
	default:
		r.OK(fn.Pos(), key, fmt.Sprintf("%d result paths, %d fault paths: element not an array -> invalid type; length of a pair not two, key not a string -> the two invalid-value faults; a result only for validated pairs", results, faults))
	}
}
