package main

// rules_json.go: the JSON literal parser, by interpretation. The function that turns the text between backticks into a
// node is run with the JSON library modelled: strings.ReplaceAll yields a tagged text, json.Unmarshal and
// Decoder.Decode fork into success (the target holds decoded(text, number mode)) and failure, Decoder.Token forks into
// a further token, io.EOF and another error, errors.Is is decided by which of those the error is. Helpers the
// repository wraps around these calls (generic or not, reporting failure by error or by bool) are interpreted like any
// other code, so the rule does not depend on where the calls stand.

import (
	"fmt"
	"go/constant"
	"go/token"
	"go/types"
	"strings"

	"golang.org/x/tools/go/ssa"
)

func init() {
	register(&Rule{ID: "P-JSON-DECODE", Props: []string{"C16", "C04", "C05", "C08", "C01"}, Floor: 4,
		Doc: "by interpretation of the JSON literal parser with encoding/json modelled: on every path that returns a node and no error, the node's value is the result of a successful decode of exactly the literal's text with every \\` replaced by ` (or the constant the path compared that text with); a value decoded by a Decoder was decoded after UseNumber and the path saw Decoder.Token report io.EOF afterwards (nothing follows the value); json.Unmarshal is given only *string and *json.Number targets",
		Run: rulePJSONDecode})
}

type jsonDom struct {
	p   *Program
	src avSym
}

// Index: the first byte of a text is a symbol of its own (what a path finds out about it bounds the JSON types the text
// can decode to).
func (d *jsonDom) Index(e *Engine, st *State, x, idx AV, site *ssa.Index) (AV, bool) {
	sy, ok := x.(avSym)
	if !ok {
		return nil, false
	}
	if k, known := st.KnownInt(idx); known && k == 0 {
		f := avSym{tag: "first", payload: sy}
		id := st.idOf(f)
		st.assumeInt(id, token.GEQ, 0)
		st.assumeInt(id, token.LEQ, 255)
		return f, true
	}
	return nil, false
}

func (d *jsonDom) Load(e *Engine, st *State, p avPtr, t types.Type) AV {
	if strings.HasPrefix(p.o.label, "global:") {
		if t != nil && types.IsInterface(t) {
			return avSym{tag: p.o.label + p.path, nonNil: true, uniq: true}
		}
		return zeroAV(t)
	}
	v := avSym{id: e.fresh(), tag: "mem" + p.path}
	st.store(p, v)
	return v
}

func unwrapIface(v AV) AV {
	for {
		b, ok := v.(avIface)
		if !ok {
			return v
		}
		v = b.v
	}
}

func (d *jsonDom) Call(e *Engine, st *State, site ssa.CallInstruction, callee *ssa.Function, args []AV, depth int) ([]CallOut, bool) {
	if callee == nil {
		return nil, false
	}
	one := func(vs ...AV) ([]CallOut, bool) { return []CallOut{{St: st, Res: vs}}, true }
	switch callee.String() {
	case "strings.ReplaceAll":
		return one(avSym{tag: "replaced", payload: avTuple(args)})
	case "strings.Trim", "strings.TrimSpace", "strings.TrimLeft", "strings.TrimRight":
		// white space around a JSON value is insignificant (RFC 8259 ws = space, tab, line feed, carriage return): a
		// text trimmed of nothing but those decodes to the same value
		cut := " \t\n\r"
		if len(args) == 2 {
			c, ok := args[1].(avConst)
			if !ok || c.v.Kind() != constant.String {
				return nil, false
			}
			cut = constant.StringVal(c.v)
		} else if callee.String() == "strings.TrimSpace" {
			return nil, false // unicode.IsSpace is wider than JSON's white space
		}
		for _, ch := range cut {
			if !strings.ContainsRune(" \t\n\r", ch) {
				return nil, false
			}
		}
		return one(avSym{tag: "ws-trimmed", payload: args[0]})
	case "strings.NewReader":
		return one(avSym{id: e.fresh(), tag: "reader", payload: args[0], nonNil: true})
	case "encoding/json.NewDecoder":
		o := e.NewObj("decoder", nil)
		var text AV
		if r, ok := unwrapIface(args[0]).(avSym); ok && r.tag == "reader" {
			text = r.payload
		}
		st.store(avPtr{o, "#text"}, text)
		st.store(avPtr{o, "#usenumber"}, avConst{constant.MakeBool(false)})
		return one(avPtr{o, ""})
	case "(*encoding/json.Decoder).UseNumber":
		if p, ok := args[0].(avPtr); ok {
			st.store(avPtr{p.o, "#usenumber"}, avConst{constant.MakeBool(true)})
		}
		return one()
	case "(*encoding/json.Decoder).Decode":
		p, ok := args[0].(avPtr)
		tgt, ok2 := unwrapIface(args[1]).(avPtr)
		if !ok || !ok2 {
			return nil, false
		}
		text, _ := st.load(avPtr{p.o, "#text"})
		un, _ := st.load(avPtr{p.o, "#usenumber"})
		good := st
		bad := st.clone()
		dv := avSym{id: e.fresh(), tag: "decoded", payload: avTuple{text, un, avPtr{p.o, ""}}}
		good.store(tgt, dv)
		good.event(Event{Kind: "decode-ok", Args: []AV{dv}, Pos: site.Pos()})
		bad.store(tgt, avSym{id: e.fresh(), tag: "undecoded"})
		return []CallOut{{St: good, Res: []AV{avNil{}}}, {St: bad, Res: []AV{avSym{id: e.fresh(), tag: "decode-err", nonNil: true}}}}, true
	case "(*encoding/json.Decoder).Token":
		p, _ := args[0].(avPtr)
		more, eof, other := st, st.clone(), st.clone()
		eof.event(Event{Kind: "token-eof", Args: []AV{avPtr{p.o, ""}}, Pos: site.Pos()})
		return []CallOut{
			{St: more, Res: []AV{avSym{id: e.fresh(), tag: "token", nonNil: true}, avNil{}}},
			{St: eof, Res: []AV{avNil{}, avSym{id: e.fresh(), tag: "err:io.EOF", nonNil: true}}},
			{St: other, Res: []AV{avNil{}, avSym{id: e.fresh(), tag: "err:syntax", nonNil: true}}},
		}, true
	case "(*encoding/json.Decoder).More":
		// More is false before a stray closing bracket as well as at the end of the text: it establishes nothing
		return one(avSym{id: e.fresh(), tag: "more?"})
	case "errors.Is":
		errv, _ := args[0].(avSym)
		tv, _ := unwrapIface(args[1]).(avSym)
		if isDefNil(args[0]) {
			return one(avConst{constant.MakeBool(false)})
		}
		if strings.HasPrefix(errv.tag, "err:") && strings.HasSuffix(tv.tag, "EOF") {
			return one(avConst{constant.MakeBool(errv.tag == "err:io.EOF")})
		}
		return nil, false
	case "encoding/json.Unmarshal":
		tgt, ok := unwrapIface(args[1]).(avPtr)
		if !ok {
			return nil, false
		}
		tname := ""
		if b, ok := args[1].(avIface); ok {
			tname = typeShort(b.dyn)
		}
		good := st
		bad := st.clone()
		dv := avSym{id: e.fresh(), tag: "decoded", payload: avTuple{args[0], avConst{constant.MakeString("into " + tname)}, avNil{}}}
		good.store(tgt, dv)
		good.event(Event{Kind: "unmarshal-ok", Args: []AV{dv}, Pos: site.Pos(), Note: tname})
		bad.store(tgt, avSym{id: e.fresh(), tag: "undecoded"})
		bad.event(Event{Kind: "unmarshal-fail", Args: []AV{args[0]}, Pos: site.Pos(), Note: tname})
		return []CallOut{{St: good, Res: []AV{avNil{}}}, {St: bad, Res: []AV{avSym{id: e.fresh(), tag: "decode-err", nonNil: true}}}}, true
	}
	return nil, false
}

// jsonLiteralEntry: the parser function the JSON literal goes through first: the one that unescapes backticks, else the
// one that creates the decoder.
func jsonLiteralEntry(p *Program) *ssa.Function {
	var withRepl, withDec *ssa.Function
	for _, f := range p.ReachFuncs(p.Parser) {
		if f.Signature.Params().Len() != 1 || f.Signature.Results().Len() != 2 || !isNodeType(f.Signature.Results().At(0).Type()) {
			continue
		}
		if b, ok := f.Signature.Params().At(0).Type().Underlying().(*types.Basic); !ok || b.Kind() != types.String {
			continue
		}
		for _, b := range f.Blocks {
			for _, in := range b.Instrs {
				c, ok := in.(*ssa.Call)
				if !ok {
					continue
				}
				switch calleeFullName(&c.Call) {
				case "strings.ReplaceAll":
					if a1, ok := c.Call.Args[1].(*ssa.Const); ok && a1.Value != nil && a1.Value.Kind() == constant.String && strings.Contains(constant.StringVal(a1.Value), "`") {
						withRepl = f
					}
				case "encoding/json.NewDecoder":
					withDec = f
				}
			}
		}
	}
	if withRepl != nil {
		return withRepl
	}
	return withDec
}

func rulePJSONDecode(p *Program, r *Reporter) {
	fn := jsonLiteralEntry(p)
	if fn == nil {
		r.Unknown(token.NoPos, "JSON literal parser", "no parser function from a string to a node that unescapes backticks or creates a JSON decoder")
		return
	}
	name := p.FuncName(fn)
	d := &jsonDom{p: p}
	e := newEngine(p, d)
	e.MaxVisits = 2
	d.src = avSym{id: e.fresh(), tag: "literal"}
	st := e.WithInit(fn.Pkg, newState())
	outs := e.Run(fn, []AV{d.src}, st)
	if e.Aborted != "" {
		r.Unknown(fn.Pos(), name, "path enumeration aborted: "+e.Aborted)
		return
	}
	type finding struct {
		pos token.Pos
		msg string
	}
	bad := map[string]finding{}
	okN := map[string]int{}
	report := func(key string, pos token.Pos, msg string) {
		if _, seen := bad[key]; !seen {
			bad[key] = finding{pos, msg}
		}
	}
	succ, handDecoded := 0, 0
	for _, o := range outs {
		if o.Panic {
			report("no panic", fn.Pos(), "a path of the JSON literal parser panics")
			continue
		}
		if !o.Cut && o.Ret != nil && len(o.Res) == 2 && !isDefNil(o.Res[1]) {
			// a rejection after the whole text was decoded and nothing follows it: the value is a JSON value, so the path must
			// have found it to be none of the six carriers (a defensive default); a carrier the path never tested is rejected
			var dv AV
			eof := false
			for _, ev := range o.St.Trace {
				if ev.Kind == "decode-ok" && len(ev.Args) == 1 {
					dv, eof = ev.Args[0], false
				}
				if ev.Kind == "token-eof" && dv != nil {
					eof = true
				}
			}
			// a path that took a decision the domain does not understand (on a byte of the text, say: scalars recognised by
			// their first character before the decoder is tried) may know more about the value than its type tests show
			for _, c := range o.St.Conds {
				if sy, isSym := c.V.(avSym); isSym && sy.tag == "cond" {
					dv = nil
				}
			}
			if dv != nil && eof {
				failed := map[string]bool{}
				k := avKey(dv)
				for _, c := range o.St.Conds {
					switch x := c.V.(type) {
					case avSym:
						if !c.Truth && strings.HasPrefix(x.tag, "assert-ok:") && x.payload != nil && avKey(x.payload) == k {
							failed[strings.TrimPrefix(x.tag, "assert-ok:")] = true
						}
					case avCmp:
						if x.op == token.EQL && !c.Truth && ((avKey(x.x) == k && isDefNil(x.y)) || (avKey(x.y) == k && isDefNil(x.x))) {
							failed["nil"] = true
						}
						if x.op == token.NEQ && c.Truth && ((avKey(x.x) == k && isDefNil(x.y)) || (avKey(x.y) == k && isDefNil(x.x))) {
							failed["nil"] = true
						}
					}
				}
				// what the path knows about the first byte of the decoded text rules types out as well
				var text AV
				if dsy, isSym := dv.(avSym); isSym {
					if t, isT := dsy.payload.(avTuple); isT && len(t) > 0 {
						text = t[0]
					}
				}
				excluded := func(c byte) bool { return false }
				trimmed := false
				if tsy, isSym := text.(avSym); isSym {
					trimmed = tsy.tag == "ws-trimmed"
					fs := avSym{tag: "first", payload: tsy}
					if id, named := o.St.named[avKey(fs)]; named {
						if f := o.St.ints[id]; f != nil {
							excluded = func(c byte) bool { return int64(c) < f.lo || int64(c) > f.hi || f.neq[int64(c)] }
						}
					}
				}
				allExcl := func(cs string) bool {
					for i := 0; i < len(cs); i++ {
						if !excluded(cs[i]) {
							return false
						}
					}
					return true
				}
				spaceOut := trimmed || allExcl(" \t\n\r")
				starts := map[string]string{"nil": "n", "bool": "tf", "json.Number": "-0123456789", "string": "\"", "[]any": "[", "map[string]any": "{"}
				// json.Unmarshal of the same text into a *string (a *json.Number) failed earlier on the path: the text is not one
				// JSON string (number), so a complete decode of it yields something else
				for _, ev := range o.St.Trace {
					if ev.Kind == "unmarshal-fail" && len(ev.Args) == 1 && text != nil && avKey(unwrapIface(ev.Args[0])) == avKey(text) {
						failed[strings.TrimPrefix(ev.Note, "*")] = true
					}
				}
				// a text without surrounding white space that the path found different from "false" is not the JSON value false
				differs := func(lit string) bool {
					if !trimmed {
						return false
					}
					for _, c := range o.St.Conds {
						cmp, isCmp := c.V.(avCmp)
						if !isCmp || !((cmp.op == token.EQL && !c.Truth) || (cmp.op == token.NEQ && c.Truth)) {
							continue
						}
						a, b := cmp.x, cmp.y
						if _, isC := a.(avConst); isC {
							a, b = b, a
						}
						if k, isC := b.(avConst); isC && k.v.Kind() == constant.String && constant.StringVal(k.v) == lit && avKey(a) == avKey(text) {
							return true
						}
					}
					return false
				}
				if spaceOut {
					if (excluded('t') || differs("true")) && (excluded('f') || differs("false")) {
						failed["bool"] = true
					}
					if excluded('n') || differs("null") {
						failed["nil"] = true
					}
				}
				var missing []string
				for _, t := range []string{"nil", "bool", "json.Number", "string", "[]any", "map[string]any"} {
					if !failed[t] && !(spaceOut && allExcl(starts[t])) {
						missing = append(missing, t)
					}
				}
				if len(missing) > 0 {
					report("every JSON type", o.Ret.Pos(), fmt.Sprintf("a literal whose text decodes completely is rejected on a path that never found the value not to be %s: a literal of that type is a syntax error", strings.Join(missing, " / ")))
				} else {
					okN["every JSON type"]++
				}
			}
		}
		if o.Cut || o.Ret == nil || len(o.Res) != 2 || !isDefNil(o.Res[1]) {
			continue
		}
		// targets of json.Unmarshal on this path
		for _, ev := range o.St.Trace {
			if ev.Kind == "unmarshal-ok" {
				if ev.Note == "*string" || ev.Note == "*json.Number" {
					okN["unmarshal targets"]++
				} else {
					report("unmarshal targets", ev.Pos, "json.Unmarshal into "+ev.Note+": numbers would be decoded as float64 and lose precision")
				}
			}
		}
		node := o.Res[0]
		if isDefNil(node) {
			report("node", o.Ret.Pos(), "a path returns neither a node nor an error")
			continue
		}
		succ++
		nt := dynName(node)
		fields := o.St.fieldsOf(node)
		val, has := fields["Value"]
		if !has {
			// a node without a value (null): the path must have found the decoded value to be nil
			okN["value"]++
			continue
		}
		base := val
		for {
			base = unwrapIface(base)
			sy, ok := base.(avSym)
			if !ok || !strings.HasPrefix(sy.tag, "asserted:") || sy.payload == nil {
				break
			}
			base = sy.payload
		}
		switch b := base.(type) {
		case avConst:
			// a constant: the path compared the (unescaped) text with the spelling of that constant
			want := ""
			if b.v.Kind() == constant.Bool {
				want = fmt.Sprint(constant.BoolVal(b.v))
			}
			found := false
			for _, c := range o.St.Conds {
				if cmp, ok := c.V.(avCmp); ok && cmp.op == token.EQL && c.Truth {
					for _, pr := range [][2]AV{{cmp.x, cmp.y}, {cmp.y, cmp.x}} {
						if k, ok := pr[1].(avConst); ok && k.v.Kind() == constant.String && constant.StringVal(k.v) == want && d.isUnescaped(pr[0]) {
							found = true
						}
					}
				}
			}
			if found && want != "" {
				okN["value"]++
			} else {
				report("value", o.Ret.Pos(), fmt.Sprintf("%s carries the constant %s on a path that did not compare the literal's text with %q", nt, b.v.ExactString(), want))
			}
		case avSym:
			if b.tag == "slice" {
				// a proper piece of the unescaped text, cut out by code of the repository (a fast path for strings that
				// stand for themselves): what that code examined is not decided here
				if t, ok := b.payload.(avTuple); ok && len(t) == 3 && d.isUnescaped(t[0]) && (t[1] != nil || t[2] != nil) {
					handDecoded++
					continue
				}
			}
			if b.tag != "decoded" {
				report("value", o.Ret.Pos(), fmt.Sprintf("%s carries %s, which is not the result of a successful decode of the literal's text", nt, renderVal(b)))
				continue
			}
			t, _ := b.payload.(avTuple)
			if len(t) != 3 || !d.isUnescaped(t[0]) {
				report("unescape", o.Ret.Pos(), fmt.Sprintf("%s carries a value decoded from %s, which is not the literal's text between the backticks with every \\` replaced by `", nt, renderVal(t[0])))
				continue
			}
			okN["unescape"]++
			if dec, viaDecoder := t[2].(avPtr); viaDecoder {
				if c, ok := t[1].(avConst); !ok || c.v.Kind() != constant.Bool || !constant.BoolVal(c.v) {
					report("number precision", o.Ret.Pos(), nt+" carries a value decoded by a Decoder on which UseNumber had not been called: numbers in literals become float64 and lose precision")
				} else {
					okN["number precision"]++
				}
				eof := false
				seenDecode := false
				for _, ev := range o.St.Trace {
					if ev.Kind == "decode-ok" && len(ev.Args) == 1 && avKey(ev.Args[0]) == avKey(b) {
						seenDecode = true
					}
					if ev.Kind == "token-eof" && seenDecode && len(ev.Args) == 1 && avKey(ev.Args[0]) == avKey(dec) {
						eof = true
					}
				}
				// the EOF must also have been recognised as such (errors.Is true) for the path to be a success: a path that
				// took the EOF alternative and still succeeded after errors.Is said false does not exist (decided by the model)
				if eof {
					okN["trailing text"]++
				} else {
					report("trailing text", o.Ret.Pos(), nt+" is returned without the path having seen the decoder report io.EOF after the value: text after the JSON value (a stray bracket, a second value) is silently dropped")
				}
			}
			okN["value"]++
		default:
			report("value", o.Ret.Pos(), fmt.Sprintf("%s carries %s, which is not the result of a successful decode of the literal's text", nt, renderVal(base)))
		}
		_ = handDecoded
	}
	if succ == 0 {
		r.Unknown(fn.Pos(), name, "no path of the JSON literal parser returns a node")
		return
	}
	for _, k := range []string{"value", "unescape", "number precision", "trailing text", "unmarshal targets", "node", "no panic", "every JSON type"} {
		key := name + " " + k
		if f, isBad := bad[k]; isBad {
			r.Bad(f.pos, key, f.msg)
			continue
		}
		switch {
		case okN[k] > 0:
			r.OK(fn.Pos(), key, fmt.Sprintf("holds on each of the %d successful paths it applies to (%d successful paths in all)", okN[k], succ))
		case k == "node" || k == "no panic" || k == "every JSON type":
			r.Trivial(fn.Pos(), key, "no such path")
		case k == "unmarshal targets":
			r.Trivial(fn.Pos(), key, "json.Unmarshal is not used")
		default:
			r.Unknown(fn.Pos(), key, "no successful path exercises this clause")
		}
	}
}

// isUnescaped: v is strings.ReplaceAll(piece of the literal, "\\`", "`") (conversions to []byte pass through).
func (d *jsonDom) isUnescaped(v AV) bool {
	sy, ok := unwrapIface(v).(avSym)
	for ok && sy.tag == "ws-trimmed" {
		sy, ok = unwrapIface(sy.payload).(avSym)
	}
	if !ok || sy.tag != "replaced" {
		return false
	}
	t, ok := sy.payload.(avTuple)
	if !ok || len(t) != 3 {
		return false
	}
	a1, ok1 := t[1].(avConst)
	a2, ok2 := t[2].(avConst)
	if !ok1 || !ok2 || a1.v.Kind() != constant.String || a2.v.Kind() != constant.String || constant.StringVal(a1.v) != "\\`" || constant.StringVal(a2.v) != "`" {
		return false
	}
	// the piece: literal[1:len(literal)-1]
	piece, ok := t[0].(avSym)
	if !ok || piece.tag != "slice" {
		return false
	}
	pt, ok := piece.payload.(avTuple)
	return ok && len(pt) == 3 && avKey(pt[0]) == avKey(d.src)
}
