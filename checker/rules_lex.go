package main

import (
	"fmt"
	"go/ast"
	"go/token"
	"go/types"
	"sort"
	"strings"

	"golang.org/x/tools/go/packages"
)

func init() {
	register(&Rule{ID: "P-SWITCH-DEFAULT", Props: []string{"C04", "C01"}, Floor: 2,
		Doc: "every switch on a lexer.TokenType in the parser is exhaustive: it has a default clause, or no case body can fall out of the switch (so the code after it handles exactly the unmatched tokens); an unmatched token must never merge silently with a handled one",
		Run: rulePSwitchDefault})
	register(&Rule{ID: "P-CHAIN-ELSE", Props: []string{"C04", "C12"}, Floor: 0,
		Doc: "every if/else-if chain (>= 2 arms) that dispatches on a token type in the parser ends in an else, or every arm leaves the chain",
		Run: rulePChainElse})
	register(&Rule{ID: "P-ERRFLOW", Props: []string{"C04", "C08", "C16", "C03", "C15"}, Floor: 113,
		Doc: "in every API-reachable function that returns an error, the block of each `if err != nil` ends by returning a non-nil error (or panicking) and contains no success return",
		Run: rulePErrFlow})
	register(&Rule{ID: "P-CHARCLASS", Props: []string{"C04", "C16", "C19", "C08"}, Floor: 4,
		Doc: "every predicate over a rune/byte built from >= 2 comparisons with constants (lexer, parser) accepts exactly one of the grammar's character classes (digit, letter/underscore, letter/digit/underscore, hex a-f, hex A-F, whitespace or its complement), and each scanner uses only the classes the grammar gives it",
		Run: rulePCharClass})
	// P-REJECT-CONJ (retired): its one instance, the test for a second \\u after a surrogate, is a shape of P-DECODE
	_ = rulePRejectConj
	register(&Rule{ID: "P-RUNEERROR", Props: []string{"C04", "C16", "C11"}, Floor: 1,
		Doc: "every comparison with utf8.RuneError is conjoined with a test of the decoded size (a well-formed U+FFFD decodes to the same rune with size 3)",
		Run: rulePRuneError})
}

// ---------------------------------------------------------------- P-SWITCH-DEFAULT

func rulePSwitchDefault(p *Program, r *Reporter) {
	pk := p.Parser
	p.inspectFuncs(pk, func(fd *ast.FuncDecl) {
		n := 0
		ast.Inspect(fd.Body, func(nd ast.Node) bool {
			sw, ok := nd.(*ast.SwitchStmt)
			if !ok || sw.Tag == nil {
				return true
			}
			if !isTokenType(pk.TypesInfo.TypeOf(sw.Tag)) {
				return true
			}
			n++
			key := fmt.Sprintf("%s switch(%s)#%d", DeclName(fd), exprStr(sw.Tag), n)
			hasDefault := false
			allLeave := true
			var toks []string
			for _, c := range sw.Body.List {
				cc := c.(*ast.CaseClause)
				if cc.List == nil {
					hasDefault = true
				}
				for _, e := range cc.List {
					toks = append(toks, tokenConstName(pk, e))
				}
				if !terminates(cc.Body) {
					allLeave = false
				}
			}
			switch {
			case hasDefault:
				r.OK(sw.Pos(), key, fmt.Sprintf("default clause present (%d token cases)", len(toks)))
			case allLeave:
				r.OK(sw.Pos(), key, "no default, but no case falls out of the switch: the statements after it see only unmatched tokens")
			default:
				r.Bad(sw.Pos(), key, "no default clause and a case body falls out of the switch: a token outside {"+strings.Join(toks, ",")+"} continues as if it had been handled")
			}
			return true
		})
	})
}

// ---------------------------------------------------------------- P-CHAIN-ELSE

// tokenTest reports whether cond is (or contains at top level) a ==/!= test of a token type.
func tokenTest(pk *packages.Package, cond ast.Expr) bool {
	found := false
	ast.Inspect(cond, func(n ast.Node) bool {
		be, ok := n.(*ast.BinaryExpr)
		if !ok {
			return true
		}
		if be.Op == token.EQL || be.Op == token.NEQ {
			if isTokenType(pk.TypesInfo.TypeOf(be.X)) || isTokenType(pk.TypesInfo.TypeOf(be.Y)) {
				found = true
			}
		}
		return true
	})
	return found
}

func rulePChainElse(p *Program, r *Reporter) {
	pk := p.Parser
	p.inspectFuncs(pk, func(fd *ast.FuncDecl) {
		inner := map[*ast.IfStmt]bool{}
		n := 0
		ast.Inspect(fd.Body, func(nd ast.Node) bool {
			ifs, ok := nd.(*ast.IfStmt)
			if !ok || inner[ifs] {
				return true
			}
			// collect the chain
			arms := 0
			allToken := true
			allLeave := true
			var last ast.Stmt
			for cur := ifs; cur != nil; {
				arms++
				if !tokenTest(pk, cur.Cond) {
					allToken = false
				}
				if !terminates(cur.Body.List) {
					allLeave = false
				}
				last = cur.Else
				if next, ok := cur.Else.(*ast.IfStmt); ok {
					inner[next] = true
					cur = next
					last = nil
					if next.Else == nil {
						arms++
						if !tokenTest(pk, next.Cond) {
							allToken = false
						}
						if !terminates(next.Body.List) {
							allLeave = false
						}
						cur = nil
					}
				} else {
					cur = nil
				}
			}
			if arms < 2 || !allToken {
				return true
			}
			n++
			key := fmt.Sprintf("%s if-chain(%s …)#%d", DeclName(fd), exprStr(ifs.Cond), n)
			switch {
			case last != nil:
				r.OK(ifs.Pos(), key, fmt.Sprintf("%d arms, final else present", arms))
			case allLeave:
				r.OK(ifs.Pos(), key, "no final else, but every arm leaves the chain")
			default:
				r.Bad(ifs.Pos(), key, fmt.Sprintf("%d token-test arms without a final else: any other token falls through as if accepted", arms))
			}
			return true
		})
	})
}

// ---------------------------------------------------------------- P-ERRFLOW

func isNilIdent(pk *packages.Package, e ast.Expr) bool {
	id, ok := ast.Unparen(e).(*ast.Ident)
	if !ok {
		return false
	}
	_, isNil := pk.TypesInfo.Uses[id].(*types.Nil)
	return isNil
}

// errNeqNil matches `x != nil` where x has type error; returns x.
func errNeqNil(pk *packages.Package, cond ast.Expr) ast.Expr {
	be, ok := ast.Unparen(cond).(*ast.BinaryExpr)
	if !ok || be.Op != token.NEQ {
		return nil
	}
	if isNilIdent(pk, be.Y) && isErrorType(pk.TypesInfo.TypeOf(be.X)) {
		return be.X
	}
	if isNilIdent(pk, be.X) && isErrorType(pk.TypesInfo.TypeOf(be.Y)) {
		return be.Y
	}
	return nil
}

func rulePErrFlow(p *Program, r *Reporter) {
	for _, pk := range p.Pkgs {
		p.inspectFuncs(pk, func(fd *ast.FuncDecl) {
			// also visit function literals: each has its own result list
			var visit func(body *ast.BlockStmt, ftype *ast.FuncType, name string)
			visit = func(body *ast.BlockStmt, ftype *ast.FuncType, name string) {
				errIdx := -1
				if ftype.Results != nil {
					i := 0
					for _, f := range ftype.Results.List {
						k := len(f.Names)
						if k == 0 {
							k = 1
						}
						if isErrorType(pk.TypesInfo.TypeOf(f.Type)) {
							errIdx = i + k - 1
						}
						i += k
					}
				}
				n := 0
				ast.Inspect(body, func(nd ast.Node) bool {
					if fl, ok := nd.(*ast.FuncLit); ok {
						visit(fl.Body, fl.Type, name+"$lit")
						return false
					}
					ifs, ok := nd.(*ast.IfStmt)
					if !ok {
						return true
					}
					ev := errNeqNil(pk, ifs.Cond)
					if ev == nil || errIdx < 0 {
						return true
					}
					n++
					key := fmt.Sprintf("%s if(%s)#%d", name, exprStr(ifs.Cond), n)
					// every return inside the block must carry a non-nil error; the block must not fall out
					bad := ""
					ast.Inspect(ifs.Body, func(m ast.Node) bool {
						switch m := m.(type) {
						case *ast.FuncLit:
							return false
						case *ast.ReturnStmt:
							if len(m.Results) == 0 {
								return true // named results: not used in this code base; treated as unknown below
							}
							if len(m.Results) <= errIdx {
								// return f() form
								return true
							}
							if isNilIdent(pk, m.Results[errIdx]) {
								bad = "returns a nil error at " + p.Pos(m.Pos())
							}
						}
						return true
					})
					if bad == "" && !terminates(ifs.Body.List) && !returnsSameError(pk, nextStmt(body, ifs), ev, errIdx) {
						bad = "the error branch falls through and evaluation continues"
					}
					if bad != "" {
						r.Bad(ifs.Pos(), key, "error "+exprStr(ev)+" is non-nil but the block "+bad)
					} else {
						r.Trivial(ifs.Pos(), key, "ends in a return of a non-nil error")
					}
					return true
				})
			}
			visit(fd.Body, fd.Type, pk.Name+"."+DeclName(fd))
		})
	}
}

// nextStmt: the statement that follows s in the statement list that contains it.
func nextStmt(body *ast.BlockStmt, s ast.Stmt) ast.Stmt {
	var next ast.Stmt
	scan := func(list []ast.Stmt) {
		for i, x := range list {
			if x == s && i+1 < len(list) {
				next = list[i+1]
			}
		}
	}
	ast.Inspect(body, func(nd ast.Node) bool {
		switch b := nd.(type) {
		case *ast.BlockStmt:
			scan(b.List)
		case *ast.CaseClause:
			scan(b.Body)
		case *ast.CommClause:
			scan(b.Body)
		}
		return next == nil
	})
	return next
}

// returnsSameError: s is a return statement whose error result is the variable ev (the branch only took note of the
// error; the statement after it hands the same error on).
func returnsSameError(pk *packages.Package, s ast.Stmt, ev ast.Expr, errIdx int) bool {
	ret, ok := s.(*ast.ReturnStmt)
	if !ok || len(ret.Results) <= errIdx {
		return false
	}
	a, ok1 := ast.Unparen(ret.Results[errIdx]).(*ast.Ident)
	b, ok2 := ast.Unparen(ev).(*ast.Ident)
	if !ok1 || !ok2 {
		return false
	}
	oa, ob := pk.TypesInfo.Uses[a], pk.TypesInfo.Uses[b]
	return oa != nil && oa == ob
}

// ---------------------------------------------------------------- P-CHARCLASS

type cmpLeaf struct {
	op  token.Token
	c   int64
	rev bool // const on the left
}

// purePred analyses e as a boolean combination of comparisons of one rune/byte operand with constants.
// It returns the operand's rendering, the constants used and an evaluator.
func purePred(pk *packages.Package, e ast.Expr) (operand string, consts []int64, eval func(int64) bool, leaves int, ok bool) {
	var build func(e ast.Expr) func(int64) bool
	build = func(e ast.Expr) func(int64) bool {
		switch x := ast.Unparen(e).(type) {
		case *ast.UnaryExpr:
			if x.Op == token.NOT {
				f := build(x.X)
				if f == nil {
					return nil
				}
				return func(v int64) bool { return !f(v) }
			}
		case *ast.BinaryExpr:
			switch x.Op {
			case token.LAND, token.LOR:
				a, b := build(x.X), build(x.Y)
				if a == nil || b == nil {
					return nil
				}
				if x.Op == token.LAND {
					return func(v int64) bool { return a(v) && b(v) }
				}
				return func(v int64) bool { return a(v) || b(v) }
			case token.EQL, token.NEQ, token.LSS, token.LEQ, token.GTR, token.GEQ:
				var opnd ast.Expr
				var c int64
				rev := false
				if cv, isc := constInt(pk, x.Y); isc && constOf(pk, x.X) == nil {
					opnd, c = x.X, cv
				} else if cv, isc := constInt(pk, x.X); isc && constOf(pk, x.Y) == nil {
					opnd, c, rev = x.Y, cv, true
				} else {
					return nil
				}
				t, isb := types.Unalias(pk.TypesInfo.TypeOf(opnd)).(*types.Basic)
				if !isb || (t.Kind() != types.Int32 && t.Kind() != types.Uint8 && t.Kind() != types.UntypedRune) {
					return nil
				}
				hasCall := false
				ast.Inspect(opnd, func(n ast.Node) bool {
					if _, ok := n.(*ast.CallExpr); ok {
						hasCall = true
					}
					return true
				})
				if hasCall {
					return nil
				}
				s := exprStr(opnd)
				if operand == "" {
					operand = s
				} else if operand != s {
					return nil
				}
				consts = append(consts, c)
				leaves++
				op := x.Op
				if rev {
					switch op {
					case token.LSS:
						op = token.GTR
					case token.LEQ:
						op = token.GEQ
					case token.GTR:
						op = token.LSS
					case token.GEQ:
						op = token.LEQ
					}
				}
				return func(v int64) bool {
					switch op {
					case token.EQL:
						return v == c
					case token.NEQ:
						return v != c
					case token.LSS:
						return v < c
					case token.LEQ:
						return v <= c
					case token.GTR:
						return v > c
					default:
						return v >= c
					}
				}
			}
		}
		return nil
	}
	f := build(e)
	if f == nil {
		return "", nil, nil, 0, false
	}
	return operand, consts, f, leaves, true
}

type charClass struct {
	name string
	in   func(int64) bool
}

func rng(lo, hi int64) func(int64) bool { return func(v int64) bool { return v >= lo && v <= hi } }

var charClasses = []charClass{
	{"DIGIT", rng('0', '9')},
	{"ALPHA_", func(v int64) bool { return rng('A', 'Z')(v) || rng('a', 'z')(v) || v == '_' }},
	{"ALNUM_", func(v int64) bool { return rng('A', 'Z')(v) || rng('a', 'z')(v) || v == '_' || rng('0', '9')(v) }},
	{"HEXLO", rng('a', 'f')},
	{"HEXUP", rng('A', 'F')},
	{"WS", func(v int64) bool { return v == '\t' || v == '\n' || v == '\r' || v == ' ' }},
	{"NOT_WS", func(v int64) bool { return !(v == '\t' || v == '\n' || v == '\r' || v == ' ') }},
	// RFC 8259 string = quotation-mark *char quotation-mark; unescaped = %x20-21 / %x23-5B / %x5D-10FFFF: the characters
	// of a JSON string that stand for themselves, and the ones that need an escape (control characters, quote, backslash)
	{"JSON_UNESCAPED", func(v int64) bool { return v >= 0x20 && v != '"' && v != '\\' }},
	{"JSON_ESCAPED", func(v int64) bool { return v < 0x20 || v == '"' || v == '\\' }},
	// raw-string = "'" *(raw-string-char / raw-string-escape) "'" with raw-string-escape = "\\" ("'" / "\\"): the two
	// characters a backslash escapes in a raw string, and everything else (before which the backslash stands for itself)
	{"RAW_ESCAPABLE", func(v int64) bool { return v == '\'' || v == '\\' }},
	{"NOT_RAW_ESCAPABLE", func(v int64) bool { return v != '\'' && v != '\\' }},
}

// classify decides which grammar class a comparison-only predicate accepts. Because the predicate
// only compares with constants, evaluating it at c-1, c, c+1 for every constant c (plus the domain
// ends) decides it on the whole domain.
func classify(consts []int64, eval func(int64) bool) string {
	pts := map[int64]bool{-1: true, 0: true, 0x10FFFF: true, 0x7f: true, 0x80: true}
	for _, c := range consts {
		pts[c-1], pts[c], pts[c+1] = true, true, true
	}
	for _, cl := range charClasses {
		// breakpoints of the class itself must be included for exactness
		for _, b := range []int64{'0', '9', 'A', 'Z', 'a', 'z', '_', 'f', 'F', '\t', '\n', '\r', ' ', 0x1f, '"', '\\', '\''} {
			pts[b-1], pts[b], pts[b+1] = true, true, true
		}
		same := true
		for v := range pts {
			if eval(v) != cl.in(v) {
				same = false
				break
			}
		}
		if same {
			return cl.name
		}
	}
	return ""
}

// classesAllowed lists, for the scanners the grammar defines, the only classes they may use: outside any loop
// (the test that admits the first character) and inside a loop (the test that continues the token).
type classRole struct{ first, rest []string }

var classesAllowed = map[string]classRole{
	"lexer.Lexer.Next":               {first: []string{"DIGIT", "ALPHA_"}, rest: []string{"NOT_WS", "WS"}},
	"lexer.Lexer.numberLiteral":      {rest: []string{"DIGIT"}},
	"lexer.Lexer.unquotedIdentifier": {rest: []string{"ALNUM_"}},
	"lexer.Lexer.variable":           {first: []string{"ALPHA_"}, rest: []string{"ALNUM_"}},
	"parser.parseQuotedIdentifier":   {first: []string{"DIGIT", "HEXLO", "HEXUP"}, rest: []string{"DIGIT", "HEXLO", "HEXUP"}},
}

// helperPredicate recognises `func f(r rune) bool { return <comparison-only predicate on r> }` and returns its class.
func helperPredicate(p *Program, pk *packages.Package, call *ast.CallExpr) (string, bool) {
	f, ok := calleeObj(pk, call).(*types.Func)
	if !ok || len(call.Args) != 1 {
		return "", false
	}
	for _, q := range p.Pkgs {
		if q.Types != f.Pkg() {
			continue
		}
		for _, fd := range p.FuncDecls(q) {
			if q.TypesInfo.Defs[fd.Name] != f || len(fd.Body.List) != 1 {
				continue
			}
			ret, ok := fd.Body.List[0].(*ast.ReturnStmt)
			if !ok || len(ret.Results) != 1 {
				return "", false
			}
			if _, consts, eval, leaves, ok := purePred(q, ret.Results[0]); ok && leaves >= 1 {
				cl := classify(consts, eval)
				if cl == "" {
					cl = "?"
				}
				return cl, true
			}
		}
	}
	return "", false
}

func rulePCharClass(p *Program, r *Reporter) {
	seenFn := map[string]bool{}
	for _, pk := range []*packages.Package{p.Lexer, p.Parser} {
		p.inspectFuncs(pk, func(fd *ast.FuncDecl) {
			fname := pk.Name + "." + DeclName(fd)
			n := 0
			report := func(pos token.Pos, what, cl string, inLoop bool, src string) {
				n++
				seenFn[fname] = true
				key := fmt.Sprintf("%s pred(%s)#%d", fname, what, n)
				if cl == "" || cl == "?" {
					r.Bad(pos, key, "predicate `"+src+"` accepts a set that is none of the grammar's character classes")
					return
				}
				if role, ok := classesAllowed[fname]; ok {
					allowed := role.first
					where := "to admit a first character"
					if inLoop {
						allowed = role.rest
						where = "to continue a token"
					}
					good := false
					for _, a := range allowed {
						if a == cl {
							good = true
						}
					}
					if !good {
						r.Bad(pos, key, "class "+cl+" is used "+where+" here; the grammar allows "+strings.Join(allowed, ",")+" in that position of this scanner")
						return
					}
				}
				r.OK(pos, key, "accepts exactly "+cl)
			}
			var visit func(e ast.Expr, inLoop bool)
			visit = func(e ast.Expr, inLoop bool) {
				switch x := ast.Unparen(e).(type) {
				case *ast.BinaryExpr:
					if x.Op == token.LAND || x.Op == token.LOR {
						if opnd, consts, eval, leaves, ok := purePred(pk, x); ok && leaves >= 2 {
							cl := classify(consts, eval)
							if cl == "" {
								var acc []string
								for v := int64(0); v < 0x80 && len(acc) < 70; v++ {
									if eval(v) {
										acc = append(acc, fmt.Sprintf("%q", rune(v)))
									}
								}
								n++
								seenFn[fname] = true
								r.Bad(x.Pos(), fmt.Sprintf("%s pred(%s)#%d", fname, opnd, n), "predicate `"+exprStr(x)+"` accepts a set that is none of the grammar's character classes; ASCII members: "+strings.Join(acc, ""))
								return
							}
							report(x.Pos(), opnd, cl, inLoop, exprStr(x))
							return
						}
						visit(x.X, inLoop)
						visit(x.Y, inLoop)
					}
				case *ast.UnaryExpr:
					visit(x.X, inLoop)
				case *ast.CallExpr:
					if cl, ok := helperPredicate(p, pk, x); ok {
						report(x.Pos(), exprStr(x.Fun)+"()", cl, inLoop, exprStr(x))
					}
				}
			}
			var walk func(n ast.Node, inLoop bool)
			walk = func(n ast.Node, inLoop bool) {
				ast.Inspect(n, func(nd ast.Node) bool {
					switch s := nd.(type) {
					case *ast.ForStmt:
						if s == n {
							return true
						}
						if s.Cond != nil {
							visit(s.Cond, true)
						}
						walk(s.Body, true)
						return false
					case *ast.RangeStmt:
						if s == n {
							return true
						}
						walk(s.Body, true)
						return false
					case *ast.IfStmt:
						visit(s.Cond, inLoop)
					case *ast.AssignStmt:
						for _, e := range s.Rhs {
							visit(e, inLoop)
						}
					case *ast.ReturnStmt:
						// the body of a helper predicate itself is classified where it is used
						if len(fd.Body.List) == 1 && fd.Body.List[0] == ast.Stmt(s) {
							return true
						}
						for _, e := range s.Results {
							visit(e, inLoop)
						}
					}
					return true
				})
			}
			walk(fd.Body, false)
		})
	}
	var missing []string
	for fn := range classesAllowed {
		if !seenFn[fn] {
			missing = append(missing, fn)
		}
	}
	sort.Strings(missing)
	// A scanner that was renamed or no longer contains a class test is not an error of the
	// repository; it is recorded so the evidence shows what the per-scanner table still covers.
	for _, fn := range missing {
		r.Trivial(token.NoPos, "scanner-table "+fn, "no character-class predicate found in this function any more; per-scanner class restriction not applied")
	}
}

// ---------------------------------------------------------------- P-REJECT-CONJ

func rulePRejectConj(p *Program, r *Reporter) {
	for _, pk := range []*packages.Package{p.Lexer, p.Parser} {
		p.inspectFuncs(pk, func(fd *ast.FuncDecl) {
			n := 0
			ast.Inspect(fd.Body, func(nd ast.Node) bool {
				ifs, ok := nd.(*ast.IfStmt)
				if !ok {
					return true
				}
				be, ok := ast.Unparen(ifs.Cond).(*ast.BinaryExpr)
				if !ok || (be.Op != token.LAND && be.Op != token.LOR) {
					return true
				}
				// flatten one operator level
				var leaves []ast.Expr
				var flat func(e ast.Expr)
				flat = func(e ast.Expr) {
					if b, ok := ast.Unparen(e).(*ast.BinaryExpr); ok && b.Op == be.Op {
						flat(b.X)
						flat(b.Y)
						return
					}
					leaves = append(leaves, ast.Unparen(e))
				}
				flat(be)
				base := ""
				idx := map[int64]bool{}
				for _, l := range leaves {
					c, ok := l.(*ast.BinaryExpr)
					if !ok || c.Op != token.NEQ {
						return true
					}
					ix, ok := ast.Unparen(c.X).(*ast.IndexExpr)
					if !ok {
						return true
					}
					if _, isc := constInt(pk, c.Y); !isc {
						return true
					}
					i, isc := constInt(pk, ix.Index)
					if !isc {
						return true
					}
					if b, ok := types.Unalias(pk.TypesInfo.TypeOf(ix.X)).Underlying().(*types.Basic); !ok || b.Info()&types.IsString == 0 {
						return true
					}
					s := exprStr(ix.X)
					if base == "" {
						base = s
					} else if base != s {
						return true
					}
					idx[i] = true
				}
				if len(leaves) < 2 || len(idx) < 2 {
					return true
				}
				n++
				key := fmt.Sprintf("%s.%s fixed-prefix guard on %s#%d", pk.Name, DeclName(fd), base, n)
				rejects := terminates(ifs.Body.List)
				if be.Op == token.LAND && rejects {
					r.Bad(ifs.Pos(), key, "`"+exprStr(be)+"` rejects only when every position mismatches; a string matching in one position is accepted")
				} else {
					r.OK(ifs.Pos(), key, "rejects when any of the fixed positions mismatches")
				}
				return true
			})
		})
	}
}

// ---------------------------------------------------------------- P-RUNEERROR

func rulePRuneError(p *Program, r *Reporter) {
	for _, pk := range p.Pkgs {
		p.inspectFuncs(pk, func(fd *ast.FuncDecl) {
			n := 0
			// find comparisons with utf8.RuneError, remembering the enclosing condition
			var inCond func(cond ast.Expr)
			inCond = func(cond ast.Expr) {
				ast.Inspect(cond, func(nd ast.Node) bool {
					be, ok := nd.(*ast.BinaryExpr)
					if !ok || (be.Op != token.EQL && be.Op != token.NEQ) {
						return true
					}
					isRE := func(e ast.Expr) bool {
						sel, ok := ast.Unparen(e).(*ast.SelectorExpr)
						if !ok {
							return false
						}
						o := pk.TypesInfo.Uses[sel.Sel]
						return o != nil && o.Pkg() != nil && o.Pkg().Path() == "unicode/utf8" && o.Name() == "RuneError"
					}
					if !isRE(be.X) && !isRE(be.Y) {
						return true
					}
					n++
					key := fmt.Sprintf("%s.%s RuneError test#%d", pk.Name, DeclName(fd), n)
					// the whole condition must also constrain an int operand against a small constant (the size)
					sizeTest := false
					ast.Inspect(cond, func(m ast.Node) bool {
						b2, ok := m.(*ast.BinaryExpr)
						if !ok || b2 == be {
							return true
						}
						switch b2.Op {
						case token.EQL, token.NEQ, token.LSS, token.LEQ, token.GTR, token.GEQ:
							for _, pair := range [][2]ast.Expr{{b2.X, b2.Y}, {b2.Y, b2.X}} {
								if c, isc := constInt(pk, pair[1]); isc && c >= 0 && c <= 4 && constOf(pk, pair[0]) == nil {
									if b, ok := types.Unalias(pk.TypesInfo.TypeOf(pair[0])).Underlying().(*types.Basic); ok && b.Kind() == types.Int {
										sizeTest = true
									}
								}
							}
						}
						return true
					})
					if sizeTest {
						r.OK(be.Pos(), key, "conjoined with a decode-size test in `"+exprStr(cond)+"`")
					} else {
						r.Bad(be.Pos(), key, "`"+exprStr(cond)+"` treats every U+FFFD as a decoding error; a literal U+FFFD (size 3) is valid input")
					}
					return true
				})
			}
			ast.Inspect(fd.Body, func(nd ast.Node) bool {
				switch s := nd.(type) {
				case *ast.IfStmt:
					inCond(s.Cond)
				case *ast.ForStmt:
					if s.Cond != nil {
						inCond(s.Cond)
					}
				case *ast.SwitchStmt:
					if s.Tag != nil {
						inCond(s.Tag)
					}
				}
				return true
			})
		})
	}
}
