package main

import (
	"bytes"
	"fmt"
	"go/ast"
	"go/constant"
	"go/printer"
	"go/token"
	"go/types"
	"sort"
	"strings"

	"golang.org/x/tools/go/ssa"
)

func init() {
	// P-JSON-LITERAL (retired): a typestate rule over the one function that holds the json.Decoder calls; it lost its
	// footing when the calls were moved into helpers. Subsumed by P-JSON-DECODE (rules_json.go), which interprets the
	// literal parser with encoding/json modelled.
	_ = rulePJSONLiteral
	// P-ESCAPE-TABLE (retired): subsumed by P-DECODE, which interprets the decoders on symbolic texts (rules_sdom.go)
	_ = rulePEscapeTable
	register(&Rule{ID: "E-CLAMP-SIBLINGS", Props: []string{"C12"}, Floor: 0,
		Doc: "the array form and the string form of the slice clamping (start/stop normalisation and element count) are the same decisions: the two sibling copies in slice and in sliceStep agree condition by condition",
		Run: ruleEClampSiblings})
}

func rulePLexStep(p *Program, r *Reporter) {
	for _, fn := range p.ReachFuncs(p.Lexer) {
		name := p.FuncName(fn)
		n := 0
		for _, b := range fn.Blocks {
			for _, in := range b.Instrs {
				bin, ok := in.(*ssa.BinOp)
				if !ok || (bin.Op != token.ADD && bin.Op != token.SUB) {
					continue
				}
				bt, ok := bin.Type().Underlying().(*types.Basic)
				if !ok || bt.Kind() != types.Int {
					continue
				}
				n++
				key := fmt.Sprintf("%s position-arithmetic#%d", name, n)
				bad := false
				for _, o := range []ssa.Value{bin.X, bin.Y} {
					if c, ok := o.(*ssa.Const); ok && c.Value != nil && constant.Sign(c.Value) != 0 {
						bad = true
					}
				}
				if bad {
					r.Bad(instrPos(bin), key, "the lexer position is moved by a constant ("+bin.String()+") instead of by the size of a decoded rune: a multi-byte character is split, or the position runs past the end of the input")
				} else {
					r.OK(bin.Pos(), key, "positions combined only with decoded sizes")
				}
			}
		}
	}
}

func rulePScan(p *Program, r *Reporter) {
	pk := p.Lexer
	next := p.FuncDecl(pk, "Lexer", "Next")
	if next == nil {
		r.Unknown(token.NoPos, "Lexer.Next", "not found")
		return
	}
	// delimiter -> scanner method
	disp := map[string]int64{}
	ast.Inspect(next.Body, func(n ast.Node) bool {
		cc, ok := n.(*ast.CaseClause)
		if !ok || len(cc.List) != 1 || len(cc.Body) != 1 {
			return true
		}
		c, isC := constInt(pk, cc.List[0])
		ret, ok := cc.Body[0].(*ast.ReturnStmt)
		if !isC || !ok || len(ret.Results) != 1 {
			return true
		}
		if call, ok := ret.Results[0].(*ast.CallExpr); ok {
			if sel, ok := call.Fun.(*ast.SelectorExpr); ok {
				disp[sel.Sel.Name] = c
			}
		}
		return true
	})
	want := map[string]int64{"quotedIdentifier": '"', "stringLiteral": '\'', "jsonLiteral": '`'}
	var names []string
	for k := range want {
		names = append(names, k)
	}
	sort.Strings(names)
	for _, sc := range names {
		key := "lexer.Lexer." + sc
		d, ok := disp[sc]
		if !ok || d != want[sc] {
			r.Bad(next.Pos(), key+" dispatch", fmt.Sprintf("Next does not dispatch %q to %s", rune(want[sc]), sc))
			continue
		}
		fd := p.FuncDecl(pk, "Lexer", sc)
		fn := p.Func(pk, "Lexer", sc)
		if fd == nil || fn == nil {
			r.Unknown(token.NoPos, key, "scanner not found")
			continue
		}
		// constants compared with == on runes
		consts := map[int64]bool{}
		ast.Inspect(fd.Body, func(n ast.Node) bool {
			be, ok := n.(*ast.BinaryExpr)
			if !ok || (be.Op != token.EQL && be.Op != token.NEQ) {
				return true
			}
			if c, isC := constInt(pk, be.Y); isC {
				if bt, ok := pk.TypesInfo.TypeOf(be.X).Underlying().(*types.Basic); ok && (bt.Kind() == types.Int32 || bt.Kind() == types.Uint8) {
					consts[c] = true
				}
			}
			return true
		})
		if len(consts) == 2 && consts[d] && consts['\\'] {
			r.OK(fd.Pos(), key+" delimiters", fmt.Sprintf("stops at %q and treats only the backslash specially", rune(d)))
		} else {
			var cs []string
			for c := range consts {
				cs = append(cs, fmt.Sprintf("%q", rune(c)))
			}
			sort.Strings(cs)
			r.Bad(fd.Pos(), key+" delimiters", fmt.Sprintf("compares runes with %s; expected exactly the delimiter %q and the backslash", strings.Join(cs, ","), rune(d)))
		}
		// backslash branch: a decodeRune call under the fact r == '\\', error propagated
		good := false
		for _, b := range fn.Blocks {
			under := false
			for _, f := range blockFacts(b) {
				op, _, y, ok := f.rel()
				if ok && op == token.EQL {
					if c, isC := y.(*ssa.Const); isC && c.Value != nil {
						if v, _ := constant.Int64Val(c.Value); v == '\\' {
							under = true
						}
					}
				}
			}
			if !under {
				continue
			}
			for _, in := range b.Instrs {
				if c, ok := in.(*ssa.Call); ok && strings.HasSuffix(calleeFullName(&c.Call), ".decodeRune") {
					if extractOf(c, 2) != nil && extractOf(c, 1) != nil {
						good = true
					}
				}
			}
		}
		if good {
			r.OK(fd.Pos(), key+" backslash", "after a backslash one more rune is decoded (bounds-checked), its size added and its error returned")
		} else {
			r.Bad(fd.Pos(), key+" backslash", "after a backslash the scanner does not decode the escaped rune with the bounds-checked decoder (size and error both used)")
		}
	}
}

func rulePJSONLiteral(p *Program, r *Reporter) {
	var fn *ssa.Function
	for _, f := range p.ReachFuncs(p.Parser) {
		for _, b := range f.Blocks {
			for _, in := range b.Instrs {
				if c, ok := in.(*ssa.Call); ok && calleeFullName(&c.Call) == "encoding/json.NewDecoder" {
					fn = f
				}
			}
		}
	}
	if fn == nil {
		r.Unknown(token.NoPos, "JSON literal decoder", "no json.NewDecoder call in the parser")
		return
	}
	name := p.FuncName(fn)
	var newDec, useNum, decode, tok, replAll []*ssa.Call
	var unmarshal []*ssa.Call
	for _, b := range fn.Blocks {
		for _, in := range b.Instrs {
			c, ok := in.(*ssa.Call)
			if !ok {
				continue
			}
			switch calleeFullName(&c.Call) {
			case "encoding/json.NewDecoder":
				newDec = append(newDec, c)
			case "(*encoding/json.Decoder).UseNumber":
				useNum = append(useNum, c)
			case "(*encoding/json.Decoder).Decode":
				decode = append(decode, c)
			case "(*encoding/json.Decoder).Token":
				tok = append(tok, c)
			case "strings.ReplaceAll":
				replAll = append(replAll, c)
			case "encoding/json.Unmarshal":
				unmarshal = append(unmarshal, c)
			}
		}
	}
	// UseNumber before Decode
	for i, d := range decode {
		key := fmt.Sprintf("%s Decode#%d", name, i+1)
		ok := false
		for _, u := range useNum {
			if u.Call.Args[0] == d.Call.Args[0] && (u.Block().Dominates(d.Block()) && (u.Block() != d.Block() || instrIndex(u) < instrIndex(d))) {
				ok = true
			}
		}
		if ok {
			r.OK(d.Pos(), key, "UseNumber is called on the decoder before Decode: numbers keep their full text")
		} else {
			r.Bad(instrPos(d), key, "Decode runs on a decoder without a dominating UseNumber call: numbers in literals are decoded as float64 and lose precision")
		}
	}
	// success returns after Decode only under errors.Is(tokenErr, io.EOF)
	n := 0
	for _, ret := range returnsOf(fn) {
		if !isNilConst(ret.Results[len(ret.Results)-1]) {
			continue
		}
		after := false
		for _, d := range decode {
			if d.Block().Dominates(ret.Block()) {
				after = true
			}
		}
		if !after {
			continue
		}
		n++
		key := fmt.Sprintf("%s decoded-success#%d", name, n)
		good := false
		for _, f := range blockFacts(ret.Block()) {
			c, t := f.Cond, f.Truth
			for {
				u, ok := c.(*ssa.UnOp)
				if !ok || u.Op != token.NOT {
					break
				}
				c, t = u.X, !t
			}
			call, ok := c.(*ssa.Call)
			if !ok || !t || calleeFullName(&call.Call) != "errors.Is" {
				continue
			}
			// first arg: error of a Token call; second: io.EOF
			ex, ok := call.Call.Args[0].(*ssa.Extract)
			if !ok {
				continue
			}
			tc, ok := ex.Tuple.(*ssa.Call)
			if !ok || calleeFullName(&tc.Call) != "(*encoding/json.Decoder).Token" {
				continue
			}
			if ld, ok := call.Call.Args[1].(*ssa.UnOp); ok {
				if g, ok := ld.X.(*ssa.Global); ok && g.Name() == "EOF" {
					good = true
				}
			}
		}
		if good {
			r.OK(ret.Pos(), key, "returned only after Decoder.Token reported io.EOF: nothing follows the JSON value")
		} else {
			r.Bad(ret.Pos(), key, "a decoded literal is accepted without establishing that Decoder.Token returns io.EOF: text after the JSON value (a stray bracket, a second value) is silently dropped")
		}
	}
	if n == 0 {
		r.Unknown(fn.Pos(), name+" decoded-success", "no success return after Decode")
	}
	// backtick unescaping
	key := name + " backtick unescape"
	goodRepl := false
	for _, c := range replAll {
		a1, ok1 := c.Call.Args[1].(*ssa.Const)
		a2, ok2 := c.Call.Args[2].(*ssa.Const)
		if ok1 && ok2 && a1.Value != nil && a2.Value != nil && constant.StringVal(a1.Value) == "\\`" && constant.StringVal(a2.Value) == "`" {
			// the decoder input must derive from it
			for _, nd := range newDec {
				if derivesFrom(nd.Call.Args[0], c, map[ssa.Value]bool{}) {
					goodRepl = true
				}
			}
		}
	}
	if goodRepl {
		r.OK(fn.Pos(), key, "the decoder reads strings.ReplaceAll(text, \"\\\\`\", \"`\"): every escaped backtick is unescaped")
	} else {
		r.Bad(fn.Pos(), key, "the JSON decoder does not read the result of strings.ReplaceAll(text, \"\\\\`\", \"`\"): literals with several escaped backticks are decoded wrongly or rejected")
	}
	decodedValueStores(p, r, fn, name, append(append([]*ssa.Call{}, decode...), unmarshal...))
	for i, u := range unmarshal {
		key := fmt.Sprintf("%s Unmarshal#%d", name, i+1)
		t := ""
		if mi, ok := u.Call.Args[1].(*ssa.MakeInterface); ok {
			t = typeShort(mi.X.Type())
		}
		if t == "*string" || t == "*json.Number" {
			r.OK(u.Pos(), key, "fast path into "+t)
		} else {
			r.Bad(instrPos(u), key, "json.Unmarshal into "+t+": numbers would be decoded as float64")
		}
		// its input must also derive from the ReplaceAll
		okIn := false
		for _, c := range replAll {
			if derivesFrom(u.Call.Args[0], c, map[ssa.Value]bool{}) {
				okIn = true
			}
		}
		if !okIn {
			r.Bad(instrPos(u), key+" input", "json.Unmarshal does not read the unescaped literal text")
		}
	}
}

// decodedValueStores: every value stored into the Value field of a node built by the JSON literal parser is the target
// of a decode (or a constant), never the literal's text.
func decodedValueStores(p *Program, r *Reporter, fn *ssa.Function, name string, decodes []*ssa.Call) {
	targets := map[*ssa.Alloc]bool{}
	for _, c := range decodes {
		a := c.Call.Args[len(c.Call.Args)-1]
		if mi, ok := a.(*ssa.MakeInterface); ok {
			a = mi.X
		}
		if al, ok := a.(*ssa.Alloc); ok {
			targets[al] = true
		}
	}
	var fromTarget func(v ssa.Value, seen map[ssa.Value]bool) bool
	fromTarget = func(v ssa.Value, seen map[ssa.Value]bool) bool {
		if seen[v] {
			return true
		}
		seen[v] = true
		switch x := v.(type) {
		case *ssa.Const:
			return true
		case *ssa.UnOp:
			if al, ok := x.X.(*ssa.Alloc); ok && x.Op == token.MUL {
				return targets[al]
			}
		case *ssa.TypeAssert:
			return fromTarget(x.X, seen)
		case *ssa.Extract:
			if ta, ok := x.Tuple.(*ssa.TypeAssert); ok {
				return fromTarget(ta.X, seen)
			}
			if c, ok := x.Tuple.(*ssa.Call); ok {
				// the result of a decoder of the repository's own (what it decodes is decided by P-DECODE)
				if cf := calleeOf(&c.Call); cf != nil && p.IsRepo(cf) {
					return true
				}
			}
		case *ssa.Call:
			if cf := calleeOf(&x.Call); cf != nil && p.IsRepo(cf) {
				return true
			}
		case *ssa.ChangeType:
			return fromTarget(x.X, seen)
		case *ssa.Phi:
			for _, e := range x.Edges {
				if !fromTarget(e, seen) {
					return false
				}
			}
			return true
		}
		return false
	}
	n := 0
	for _, b := range fn.Blocks {
		for _, in := range b.Instrs {
			st, ok := in.(*ssa.Store)
			if !ok {
				continue
			}
			fa, ok := st.Addr.(*ssa.FieldAddr)
			if !ok || fieldName(fa) != "Value" {
				continue
			}
			n++
			key := fmt.Sprintf("%s %s.Value#%d", name, typeShort(derefType(fa.X.Type())), n)
			if fromTarget(st.Val, map[ssa.Value]bool{}) {
				r.OK(st.Pos(), key, "the node carries a decoded value (the target of a decode, the result of a decoder of the repository, or a constant)")
			} else {
				r.Bad(instrPos(st), key, "the node's value is the literal's text itself, not the result of decoding it: escapes and surrounding whitespace would be kept")
			}
		}
	}
}

// derivesFrom: v is computed from src through conversions, slices, calls taking it as an argument, allocs it is stored into.
func derivesFrom(v, src ssa.Value, seen map[ssa.Value]bool) bool {
	if v == src {
		return true
	}
	if seen[v] {
		return false
	}
	seen[v] = true
	switch x := v.(type) {
	case *ssa.Convert:
		return derivesFrom(x.X, src, seen)
	case *ssa.ChangeType:
		return derivesFrom(x.X, src, seen)
	case *ssa.MakeInterface:
		return derivesFrom(x.X, src, seen)
	case *ssa.Slice:
		return derivesFrom(x.X, src, seen)
	case *ssa.Call:
		for _, a := range x.Call.Args {
			if derivesFrom(a, src, seen) {
				return true
			}
		}
	case *ssa.Phi:
		// every edge must derive from src (a path that bypasses it is the defect)
		for _, e := range x.Edges {
			if !derivesFrom(e, src, seen) {
				return false
			}
		}
		return len(x.Edges) > 0
	case *ssa.Alloc:
		for _, ref := range *x.Referrers() {
			if st, ok := ref.(*ssa.Store); ok && st.Addr == ssa.Value(x) && derivesFrom(st.Val, src, seen) {
				return true
			}
		}
	}
	return false
}

// escapeTable extracts `switch v[0] { case 'c': b.WriteByte(K) … }` tables.
type escClause struct {
	writes []string // constants written, "?" for non-constant
	errRet bool
	calls  []string
	pos    token.Pos
}

func escapeTable(p *Program, fd *ast.FuncDecl) (map[int64]*escClause, *escClause, *ast.SwitchStmt) {
	pk := p.Parser
	var sw *ast.SwitchStmt
	ast.Inspect(fd.Body, func(n ast.Node) bool {
		if s, ok := n.(*ast.SwitchStmt); ok && sw == nil && s.Tag != nil {
			if ix, ok := s.Tag.(*ast.IndexExpr); ok {
				if c, isC := constInt(pk, ix.Index); isC && c == 0 {
					sw = s
				}
			}
		}
		return true
	})
	if sw == nil {
		return nil, nil, nil
	}
	tbl := map[int64]*escClause{}
	var dflt *escClause
	for _, c := range sw.Body.List {
		cc := c.(*ast.CaseClause)
		ec := &escClause{pos: cc.Pos()}
		for _, st := range cc.Body {
			ast.Inspect(st, func(n ast.Node) bool {
				switch x := n.(type) {
				case *ast.CallExpr:
					nm := calleeName(pk, x)
					ec.calls = append(ec.calls, nm)
					if nm == "(*strings.Builder).WriteByte" || nm == "(*strings.Builder).WriteRune" {
						if v, isC := constInt(pk, x.Args[0]); isC {
							ec.writes = append(ec.writes, fmt.Sprint(v))
						} else {
							ec.writes = append(ec.writes, "?"+exprStr(x.Args[0]))
						}
					}
				case *ast.ReturnStmt:
					if len(x.Results) == 2 && !isNilIdent(pk, x.Results[1]) {
						ec.errRet = true
					}
				}
				return true
			})
		}
		if cc.List == nil {
			dflt = ec
			continue
		}
		for _, e := range cc.List {
			if v, isC := constInt(pk, e); isC {
				tbl[v] = ec
			}
		}
	}
	return tbl, dflt, sw
}

func rulePEscapeTable(p *Program, r *Reporter) {
	// raw strings
	if fd := declOf(literalHelpers(p)["string"]); fd != nil {
		tbl, dflt, sw := escapeTable(p, fd)
		if pairs, pos, ok := replacerPairs(p, literalHelpers(p)["string"]); sw == nil && ok {
			// table form: strings.NewReplacer(old, new, ...) applied to the text
			want := map[string]string{"\\\\": "\\", "\\'": "'"}
			good := len(pairs) == len(want)
			for o, n := range want {
				if pairs[o] != n {
					good = false
				}
			}
			if good {
				r.OK(pos, "raw-string escape table", "a replacer that maps exactly \\\\ to \\ and \\' to ' (left to right, replaced text is not rescanned); every other backslash is kept")
				r.OK(pos, "raw-string other escapes", "a backslash before any other character is kept together with that character")
			} else {
				r.Bad(pos, "raw-string escape table", fmt.Sprintf("the replacer maps %v; the grammar unescapes exactly \\\\ and \\'", pairs))
			}
		} else if sw == nil {
			r.Unknown(fd.Pos(), "raw-string escapes", "neither an escape switch nor a replacer table found")
		} else {
			want := map[int64]string{'\'': "39", '\\': "92"}
			for c, w := range want {
				key := fmt.Sprintf("raw-string escape \\%c", rune(c))
				ec := tbl[c]
				if ec != nil && strings.Join(ec.writes, ",") == w && !ec.errRet {
					r.OK(ec.pos, key, "decoded to the single character")
				} else {
					r.Bad(sw.Pos(), key, fmt.Sprintf("\\%c is not decoded to %c", rune(c), rune(c)))
				}
			}
			for c, ec := range tbl {
				if _, ok := want[c]; !ok {
					r.Bad(ec.pos, fmt.Sprintf("raw-string escape \\%c", rune(c)), fmt.Sprintf("raw strings give \\%c a meaning; the grammar keeps every escape other than \\' and \\\\ verbatim", rune(c)))
				}
			}
			if dflt != nil && len(dflt.writes) == 2 && dflt.writes[0] == "92" && strings.HasPrefix(dflt.writes[1], "?") && !dflt.errRet {
				r.OK(dflt.pos, "raw-string other escapes", "a backslash before any other character is kept together with that character")
			} else {
				r.Bad(sw.Pos(), "raw-string other escapes", "a backslash before another character is not preserved verbatim")
			}
		}
	} else {
		r.Unknown(token.NoPos, "raw-string escapes", "the function decoding raw string literals was not found")
	}
	// quoted identifiers
	if fd := declOf(literalHelpers(p)["quoted"]); fd != nil {
		tbl, dflt, sw := escapeTable(p, fd)
		if sw == nil {
			r.Unknown(fd.Pos(), "quoted-identifier escapes", "escape switch not found")
			return
		}
		want := map[int64]int64{'"': '"', '/': '/', '\\': '\\', 'b': '\b', 'f': '\f', 'n': '\n', 'r': '\r', 't': '\t'}
		var keys []int
		for c := range want {
			keys = append(keys, int(c))
		}
		sort.Ints(keys)
		for _, ci := range keys {
			c := int64(ci)
			key := fmt.Sprintf("quoted-identifier escape \\%c", rune(c))
			ec := tbl[c]
			if ec != nil && len(ec.writes) == 1 && ec.writes[0] == fmt.Sprint(want[c]) && !ec.errRet {
				r.OK(ec.pos, key, fmt.Sprintf("decoded to U+%04X", want[c]))
			} else {
				r.Bad(sw.Pos(), key, fmt.Sprintf("\\%c is not decoded to U+%04X as in JSON", rune(c), want[c]))
			}
		}
		if ec := tbl['u']; ec != nil {
			hasSur, hasDec := false, false
			for _, c := range ec.calls {
				if c == "unicode/utf16.IsSurrogate" {
					hasSur = true
				}
				if c == "unicode/utf16.DecodeRune" {
					hasDec = true
				}
			}
			if hasSur && hasDec && ec.errRet {
				r.OK(ec.pos, "quoted-identifier escape \\u", "four hex digits; surrogates recognised with utf16.IsSurrogate and combined with utf16.DecodeRune; malformed escapes rejected")
			} else {
				r.Bad(ec.pos, "quoted-identifier escape \\u", "the \\u escape does not recognise surrogates with utf16.IsSurrogate and combine pairs with utf16.DecodeRune (or never rejects)")
			}
		} else {
			r.Bad(sw.Pos(), "quoted-identifier escape \\u", "no \\u escape")
		}
		for c, ec := range tbl {
			if _, ok := want[c]; !ok && c != 'u' {
				r.Bad(ec.pos, fmt.Sprintf("quoted-identifier escape \\%c", rune(c)), "an escape that JSON does not define is accepted")
			}
		}
		if dflt != nil && dflt.errRet && len(dflt.writes) == 0 {
			r.OK(dflt.pos, "quoted-identifier other escapes", "every other escape is rejected")
		} else {
			r.Bad(sw.Pos(), "quoted-identifier other escapes", "an unknown escape in a quoted identifier is not rejected")
		}
	} else {
		r.Unknown(token.NoPos, "quoted-identifier escapes", "the function decoding quoted identifiers was not found")
	}
}

// ---------------------------------------------------------------- E-CLAMP-SIBLINGS

func printNode(fset *token.FileSet, n ast.Node) string {
	var buf bytes.Buffer
	printer.Fprint(&buf, fset, n)
	s := buf.String()
	s = strings.ReplaceAll(s, "return []any{}", "return EMPTY")
	s = strings.ReplaceAll(s, `return ""`, "return EMPTY")
	return s
}

func ruleEClampSiblings(p *Program, r *Reporter) {
	pk := p.Eval
	for _, fname := range []string{"slice", "sliceStep"} {
		fd := p.FuncDecl(pk, "", fname)
		if fd == nil {
			r.Trivial(token.NoPos, "evaluator."+fname, "function not present")
			continue
		}
		// the two top-level branches: if x, ok := v.(T); ok { … }
		var branches []*ast.IfStmt
		for _, st := range fd.Body.List {
			if ifs, ok := st.(*ast.IfStmt); ok && ifs.Init != nil {
				if as, ok := ifs.Init.(*ast.AssignStmt); ok && len(as.Rhs) == 1 {
					if _, ok := as.Rhs[0].(*ast.TypeAssertExpr); ok {
						branches = append(branches, ifs)
					}
				}
			}
		}
		if len(branches) != 2 {
			r.Trivial(fd.Pos(), "evaluator."+fname+" branches", fmt.Sprintf("%d sibling type-test branches found: the array and string forms are not written as two copies here, nothing to compare", len(branches)))
			continue
		}
		clamp := func(b *ast.IfStmt) []string {
			var out []string
			for _, st := range b.Body.List {
				ifs, ok := st.(*ast.IfStmt)
				if !ok {
					continue
				}
				// only ifs whose condition mentions start, stop or step
				m := false
				ast.Inspect(ifs.Cond, func(n ast.Node) bool {
					if id, ok := n.(*ast.Ident); ok && (id.Name == "start" || id.Name == "stop" || id.Name == "step") {
						m = true
					}
					return true
				})
				if m {
					out = append(out, printNode(p.Fset, ifs))
				}
			}
			return out
		}
		a, s := clamp(branches[0]), clamp(branches[1])
		n := len(a)
		if len(s) < n {
			n = len(s)
		}
		if n == 0 {
			r.Trivial(fd.Pos(), "evaluator."+fname+" clamps", "the clamping is not duplicated in the two branches (shared helper): nothing to compare")
			continue
		}
		for i := 0; i < n; i++ {
			key := fmt.Sprintf("evaluator.%s clamp#%d", fname, i+1)
			if a[i] == s[i] {
				r.OK(branches[0].Pos(), key, "array form and string form take the same decisions")
			} else {
				r.Bad(branches[1].Pos(), key, "the array form and the string form of the slice normalisation differ:\n"+firstDiff(a[i], s[i]))
			}
		}
	}
}

func firstDiff(a, b string) string {
	la, lb := strings.Split(a, "\n"), strings.Split(b, "\n")
	for i := 0; i < len(la) && i < len(lb); i++ {
		if strings.TrimSpace(la[i]) != strings.TrimSpace(lb[i]) {
			return fmt.Sprintf("array: `%s`  string: `%s`", strings.TrimSpace(la[i]), strings.TrimSpace(lb[i]))
		}
	}
	return "different length"
}

// replacerPairs: fn applies a package-level strings.Replacer; returns its (old -> new) pairs from the initialiser.
func replacerPairs(p *Program, fn *ssa.Function) (map[string]string, token.Pos, bool) {
	if fn == nil {
		return nil, token.NoPos, false
	}
	var g *ssa.Global
	for _, b := range fn.Blocks {
		for _, in := range b.Instrs {
			c, ok := in.(*ssa.Call)
			if !ok || calleeFullName(&c.Call) != "(*strings.Replacer).Replace" || len(c.Call.Args) == 0 {
				continue
			}
			if ld, ok := c.Call.Args[0].(*ssa.UnOp); ok {
				if gg, ok := ld.X.(*ssa.Global); ok {
					g = gg
				}
			}
		}
	}
	if g == nil || g.Pkg == nil {
		return nil, token.NoPos, false
	}
	init := g.Pkg.Func("init")
	if init == nil {
		return nil, token.NoPos, false
	}
	for _, b := range init.Blocks {
		for _, in := range b.Instrs {
			st, ok := in.(*ssa.Store)
			if !ok || st.Addr != ssa.Value(g) {
				continue
			}
			c, ok := st.Val.(*ssa.Call)
			if !ok || calleeFullName(&c.Call) != "strings.NewReplacer" || len(c.Call.Args) != 1 {
				return nil, token.NoPos, false
			}
			sl, ok := c.Call.Args[0].(*ssa.Slice)
			if !ok {
				return nil, token.NoPos, false
			}
			vals := map[int64]string{}
			for _, ref := range *sl.X.Referrers() {
				ia, ok := ref.(*ssa.IndexAddr)
				if !ok {
					continue
				}
				ic, ok := ia.Index.(*ssa.Const)
				if !ok {
					return nil, token.NoPos, false
				}
				idx, _ := constant.Int64Val(ic.Value)
				for _, r2 := range *ia.Referrers() {
					if s2, ok := r2.(*ssa.Store); ok {
						if sc, ok := s2.Val.(*ssa.Const); ok && sc.Value != nil && sc.Value.Kind() == constant.String {
							vals[idx] = constant.StringVal(sc.Value)
						} else {
							return nil, token.NoPos, false
						}
					}
				}
			}
			pairs := map[string]string{}
			for i := int64(0); i+1 < int64(len(vals)); i += 2 {
				pairs[vals[i]] = vals[i+1]
			}
			if len(vals)%2 != 0 {
				return nil, token.NoPos, false
			}
			return pairs, c.Pos(), true
		}
	}
	return nil, token.NoPos, false
}
