package main

import (
	"fmt"
	"go/ast"
	"go/constant"
	"go/token"
	"go/types"
	"os"
	"sort"
	"strings"

	"golang.org/x/tools/go/ssa"
)

func init() {
	register(&Rule{ID: "E-KINDS", Props: []string{"C14", "C18", "C20", "C05"}, Floor: 1,
		Doc: "every type switch of the evaluator that names at least three of the 14 supported numeric kinds names all of them (decimal128.Decimal, json.Number, float32/64, int8..int64, int, uint8..uint64, uint); where every numeric clause of a switch is a constant return, all of them return the same constants",
		Run: ruleEKinds})
	register(&Rule{ID: "E-TODECIMAL-TABLE", Props: []string{"C05", "C14", "C20", "C18"}, Floor: 4,
		Doc: "toDecimal converts each numeric kind with the value-preserving constructor of that kind and nothing else: Decimal unchanged, json.Number through decimal128.Parse of its full text, floats through FromFloat32/64, signed integers through FromInt32/64, unsigned through FromUint32/64",
		Run: ruleEToDecimalTable})
	register(&Rule{ID: "E-FLOAT-ORIGIN", Props: []string{"C05", "C14", "C02", "C13", "C20"}, Floor: 3,
		Doc: "no numeric value is routed through binary floating point or machine integers unless it arrived that way: the evaluator never calls json.Number.Float64/Int64, strconv.Parse*/Atoi, Decimal.Float*, math/big; integer-to-float conversions do not occur; float-to-int conversions occur only in toInt; decimal128.FromFloat* is applied only to float-kind type-switch bindings; Decimal.Int64 is used only by the integer-argument coercion",
		Run: ruleEFloatOrigin})
	register(&Rule{ID: "E-INFNAN", Props: []string{"C05", "C14", "C18"}, Floor: 1,
		Doc: "every result value of the evaluator that is produced by decimal Add/Sub/Mul/Quo/QuoRem/Pow or by float + - * /, math.Mod or math.Floor of such is returned only under the false edges of IsInf and IsNaN tests on that value (whose true edges return ErrInfinity / ErrNotANumber)",
		Run: ruleEInfNaN})
	register(&Rule{ID: "E-ROUNDING-AGREE", Props: []string{"C14", "C05", "C02"}, Floor: 1,
		Doc: "in every operator with a float fast path next to a decimal path, the rounding primitives of the two paths belong to the same class (math.Floor/decimal128.Floor = floor; math.Trunc/math.Mod/QuoRem/decimal128.Trunc = truncate; Ceil = ceiling)",
		Run: ruleERoundingAgree})
	register(&Rule{ID: "E-OPCHAIN", Props: []string{"C05", "C10", "C01"}, Floor: 3,
		Doc: "each arithmetic and comparison helper uses the decimal128 primitive and the float operator the specification names for it, with the operands in source order (add: Add/+; subtract: Sub/-; multiply: Mul/*; divide: Quo//; integerDivide: QuoRem quotient; modulo: QuoRem remainder/math.Mod; less..greaterOrEqual: Cmp().Less()..)",
		Run: ruleEOpChain})
	register(&Rule{ID: "E-DECIMAL-EQ", Props: []string{"C05", "C20", "C14", "C03", "C01"}, Floor: 1,
		Doc: "decimal128.Decimal values are never compared with == or != (struct equality distinguishes 1.0 from 1 and 0.30 from 0.3) nor used as map keys; equality goes through Equal/Cmp/Compare",
		Run: ruleEDecimalEq})
	register(&Rule{ID: "E-CONV-LOSSLESS", Props: []string{"C14", "C05", "C03", "C02"}, Floor: 9,
		Doc: "every integer-to-integer conversion in the evaluator and parser keeps the value: the target type contains the source type's range, or the operand is range-checked by a dominating comparison with a constant",
		Run: ruleEConvLossless})
	register(&Rule{ID: "E-TOINT-NO-RESULT", Props: []string{"C14", "C05", "C02"}, Floor: 4,
		Doc: "the machine integer produced by the integer-argument coercion (toInt) is used only as a count, width or offset: it never flows into a value the evaluator returns",
		Run: ruleEToIntNoResult})
}

var numericKinds = []string{"decimal128.Decimal", "json.Number", "float32", "float64", "int8", "int16", "int32", "int64", "int", "uint8", "uint16", "uint32", "uint64", "uint"}

func isNumericKind(s string) bool {
	for _, k := range numericKinds {
		if k == s {
			return true
		}
	}
	return false
}

func ruleEKinds(p *Program, r *Reporter) {
	pk := p.Eval
	p.inspectFuncs(pk, func(fd *ast.FuncDecl) {
		n := 0
		ast.Inspect(fd.Body, func(nd ast.Node) bool {
			ts, ok := nd.(*ast.TypeSwitchStmt)
			if !ok {
				return true
			}
			seen := map[string]bool{}
			var numClauses []*ast.CaseClause
			for _, c := range ts.Body.List {
				cc := c.(*ast.CaseClause)
				has := false
				for _, e := range cc.List {
					t := pk.TypesInfo.TypeOf(e)
					if t == nil {
						continue
					}
					s := typeShort(t)
					if isNumericKind(s) {
						seen[s] = true
						has = true
					}
				}
				if has {
					numClauses = append(numClauses, cc)
				}
			}
			if len(seen) < 3 {
				return true
			}
			n++
			key := fmt.Sprintf("evaluator.%s typeswitch#%d", DeclName(fd), n)
			var missing []string
			for _, k := range numericKinds {
				if !seen[k] {
					missing = append(missing, k)
				}
			}
			if len(missing) > 0 {
				r.Bad(ts.Pos(), key, fmt.Sprintf("names %d of the 14 numeric kinds; missing: %s — numbers carried by these Go types are treated as non-numbers here", len(seen), strings.Join(missing, ", ")))
				return true
			}
			// uniform constants
			allConst := true
			bodies := map[string]bool{}
			for _, cc := range numClauses {
				if len(cc.Body) != 1 {
					allConst = false
					break
				}
				ret, ok := cc.Body[0].(*ast.ReturnStmt)
				if !ok {
					allConst = false
					break
				}
				var parts []string
				for _, e := range ret.Results {
					if constOf(pk, e) == nil && !isNilIdent(pk, e) {
						// `return v` (the bound value) is uniform too
						if id, ok := e.(*ast.Ident); ok && ts.Assign != nil {
							if as, ok := ts.Assign.(*ast.AssignStmt); ok && exprStr(as.Lhs[0]) == id.Name {
								parts = append(parts, "<bound>")
								continue
							}
						}
						allConst = false
					}
					parts = append(parts, exprStr(e))
				}
				bodies[strings.Join(parts, ",")] = true
			}
			if allConst && len(bodies) > 1 {
				var bs []string
				for b := range bodies {
					bs = append(bs, b)
				}
				sort.Strings(bs)
				r.Bad(ts.Pos(), key, "numeric kinds are classified differently by constant results: "+strings.Join(bs, " | "))
				return true
			}
			r.OK(ts.Pos(), key, "all 14 numeric kinds named")
			return true
		})
	})
}

var toDecimalAllowed = map[string][]string{
	"decimal128.Decimal": {},
	"json.Number":        {"github.com/woodsbury/decimal128.Parse", "(encoding/json.Number).String"},
	"float32":            {"github.com/woodsbury/decimal128.FromFloat32"},
	"float64":            {"github.com/woodsbury/decimal128.FromFloat64"},
	"int8":               {"github.com/woodsbury/decimal128.FromInt32", "github.com/woodsbury/decimal128.FromInt64"},
	"int16":              {"github.com/woodsbury/decimal128.FromInt32", "github.com/woodsbury/decimal128.FromInt64"},
	"int32":              {"github.com/woodsbury/decimal128.FromInt32", "github.com/woodsbury/decimal128.FromInt64"},
	"int64":              {"github.com/woodsbury/decimal128.FromInt64"},
	"int":                {"github.com/woodsbury/decimal128.FromInt64"},
	"uint8":              {"github.com/woodsbury/decimal128.FromUint32", "github.com/woodsbury/decimal128.FromUint64", "github.com/woodsbury/decimal128.FromInt32", "github.com/woodsbury/decimal128.FromInt64"},
	"uint16":             {"github.com/woodsbury/decimal128.FromUint32", "github.com/woodsbury/decimal128.FromUint64", "github.com/woodsbury/decimal128.FromInt32", "github.com/woodsbury/decimal128.FromInt64"},
	"uint32":             {"github.com/woodsbury/decimal128.FromUint32", "github.com/woodsbury/decimal128.FromUint64", "github.com/woodsbury/decimal128.FromInt64"},
	"uint64":             {"github.com/woodsbury/decimal128.FromUint64"},
	"uint":               {"github.com/woodsbury/decimal128.FromUint64"},
}

func repoFuncByFullName(p *Program, full string) *ssa.Function {
	for _, f := range p.Funcs {
		if f.Parent() == nil && f.String() == full {
			return f
		}
	}
	return nil
}

// libraryCallsOf: the functions outside the repository that fn calls, directly or through functions of the repository.
func libraryCallsOf(p *Program, fn *ssa.Function) []string {
	seen := map[*ssa.Function]bool{}
	out := map[string]bool{}
	var walk func(f *ssa.Function)
	walk = func(f *ssa.Function) {
		if seen[f] {
			return
		}
		seen[f] = true
		for _, b := range f.Blocks {
			for _, in := range b.Instrs {
				ci, ok := in.(ssa.CallInstruction)
				if !ok || builtinName(ci.Common()) != "" {
					continue
				}
				c := calleeOf(ci.Common())
				if c != nil && p.IsRepo(c) && len(c.Blocks) > 0 {
					walk(c)
					continue
				}
				out[calleeFullName(ci.Common())] = true
			}
		}
	}
	walk(fn)
	var names []string
	for n := range out {
		names = append(names, n)
	}
	sort.Strings(names)
	return names
}

func ruleEToDecimalTable(p *Program, r *Reporter) {
	pk := p.Eval
	fd := declOf(numericRoles(p).toDecimal)
	if fd == nil {
		r.Unknown(token.NoPos, "toDecimal", "the decimal coercion func(any) (Decimal, bool) was not found: "+numericRoles(p).why)
		return
	}
	found := false
	ast.Inspect(fd.Body, func(nd ast.Node) bool {
		ts, ok := nd.(*ast.TypeSwitchStmt)
		if !ok {
			return true
		}
		found = true
		for _, c := range ts.Body.List {
			cc := c.(*ast.CaseClause)
			for _, e := range cc.List {
				kind := typeShort(pk.TypesInfo.TypeOf(e))
				allowed, isNum := toDecimalAllowed[kind]
				if !isNum {
					continue
				}
				key := "toDecimal case " + kind
				var calls []string
				bad := ""
				for _, st := range cc.Body {
					ast.Inspect(st, func(m ast.Node) bool {
						call, ok := m.(*ast.CallExpr)
						if !ok {
							return true
						}
						// conversions T(v) are checked by E-CONV-LOSSLESS
						if tv, ok := pk.TypesInfo.Types[call.Fun]; ok && tv.IsType() {
							return true
						}
						n := calleeName(pk, call)
						// a helper of the package stands for the library calls it (and what it calls in the package) makes
						names := []string{n}
						if hf := repoFuncByFullName(p, n); hf != nil {
							names = libraryCallsOf(p, hf)
						}
						for _, n := range names {
							if strings.HasPrefix(n, "errors.") || strings.HasPrefix(n, "(github.com/woodsbury/decimal128.Decimal).Is") {
								continue // inspecting an error or a decimal's class converts nothing
							}
							calls = append(calls, n)
							ok2 := false
							for _, a := range allowed {
								if a == n {
									ok2 = true
								}
							}
							if !ok2 {
								bad = n
							}
						}
						return true
					})
				}
				need := len(allowed) > 0
				has := false
				for _, cn := range calls {
					if strings.Contains(cn, "decimal128.") {
						has = true
					}
				}
				switch {
				case bad != "":
					r.Bad(cc.Pos(), key, "converts through "+bad+", which is not the value-preserving constructor for "+kind+" (allowed: "+strings.Join(allowed, ", ")+")")
				case need && !has:
					r.Bad(cc.Pos(), key, "no decimal128 constructor is applied")
				default:
					r.OK(cc.Pos(), key, "uses only "+strings.Join(calls, ", "))
				}
			}
		}
		return false
	})
	if !found {
		r.Unknown(fd.Pos(), "toDecimal", "toDecimal is not a type switch")
	}
}

func ruleEFloatOrigin(p *Program, r *Reporter) {
	forbidden := func(n string) string {
		switch {
		case n == "(encoding/json.Number).Float64", n == "(encoding/json.Number).Int64":
			return "json.Number is converted by strconv, not by decimal value"
		case strings.HasPrefix(n, "strconv.Parse"), n == "strconv.Atoi":
			return "numeric text parsed into a machine number"
		case strings.HasPrefix(n, "(github.com/woodsbury/decimal128.Decimal).Float"):
			return "decimal converted to binary floating point"
		case strings.HasPrefix(n, "math/big."), strings.HasPrefix(n, "(*math/big."):
			return "math/big detour"
		case n == "fmt.Sscan", n == "fmt.Sscanf":
			return "numeric text scanned into a machine number"
		case n == "(*github.com/woodsbury/decimal128.Decimal).UnmarshalText", n == "(*github.com/woodsbury/decimal128.Decimal).Scan", n == "github.com/woodsbury/decimal128.MustParse":
			return "a decimal is read with the general text syntax of decimal128, which also accepts NaN, Inf and sNaN spellings: a string that is not a JSON number becomes a number (one that is not even equal to itself)"
		}
		return ""
	}
	fromFloat, int64Calls := 0, 0
	nr := numericRoles(p)
	for _, fn := range p.ReachFuncs(p.Eval) {
		name := p.FuncName(fn)
		for _, b := range fn.Blocks {
			for _, in := range b.Instrs {
				switch x := in.(type) {
				case ssa.CallInstruction:
					n := calleeFullName(x.Common())
					if why := forbidden(n); why != "" {
						if (n == "strconv.Atoi" || n == "strconv.ParseInt") && nr.onlyFor(fn, nr.toInt) && integerFastPath(x) {
							r.OK(in.Pos(), fmt.Sprintf("%s calls %s", name, n), "a fast path of the integer-argument coercion: decimal text that is a plain integer in range is converted exactly, and on every other text (the error result is tested) the decimal conversion decides")
							continue
						}
						r.Bad(instrPos(in), fmt.Sprintf("%s calls %s", name, n), why)
						continue
					}
					if n == "github.com/woodsbury/decimal128.Parse" && len(x.Common().Args) == 1 {
						// the general text syntax (NaN, Inf) is safe only on text that encoding/json has validated as a number
						key := fmt.Sprintf("%s calls %s", name, n)
						if fromJSONNumber(x.Common().Args[0], 0) {
							r.OK(in.Pos(), key, "applied to the text of a json.Number")
						} else {
							r.Bad(instrPos(in), key, "decimal128.Parse is applied to text that is not the text of a json.Number: it accepts NaN and Inf spellings, which are not JSON numbers")
						}
					}
					if strings.HasPrefix(n, "github.com/woodsbury/decimal128.FromFloat") {
						fromFloat++
						key := fmt.Sprintf("%s calls %s", name, n)
						if nr.onlyFor(fn, nr.toDecimal) && (isTypeSwitchBinding(x.Common().Args[0]) || fn != nr.toDecimal) {
							r.OK(in.Pos(), key, "applied to a float-kind type-switch binding in toDecimal")
						} else {
							r.Bad(instrPos(in), key, "a float is turned into a decimal outside toDecimal's float cases")
						}
					}
					if n == "(github.com/woodsbury/decimal128.Decimal).Int64" || n == "(github.com/woodsbury/decimal128.Decimal).Int32" || n == "(github.com/woodsbury/decimal128.Decimal).Uint64" || n == "(github.com/woodsbury/decimal128.Decimal).Uint32" {
						int64Calls++
						key := fmt.Sprintf("%s calls %s", name, n)
						if nr.onlyFor(fn, nr.toInt) {
							r.OK(in.Pos(), key, "integer-argument coercion")
						} else {
							r.Bad(instrPos(in), key, "a decimal is converted to a machine integer outside the integer-argument coercion")
						}
					}
				case *ssa.Convert:
					src, okS := x.X.Type().Underlying().(*types.Basic)
					dst, okD := x.Type().Underlying().(*types.Basic)
					if !okS || !okD {
						continue
					}
					key := fmt.Sprintf("%s convert %s->%s", name, src.Name(), dst.Name())
					switch {
					case dst.Info()&types.IsFloat != 0 && src.Info()&types.IsInteger != 0:
						r.Bad(instrPos(in), key, "integer converted to binary floating point")
					case dst.Info()&types.IsInteger != 0 && src.Info()&types.IsFloat != 0:
						if nr.onlyFor(fn, nr.toInt) {
							r.OK(in.Pos(), key, "float-to-int conversion inside toInt (after the range and integrality tests)")
						} else {
							r.Bad(instrPos(in), key, "float converted to integer outside toInt")
						}
					case dst.Info()&types.IsFloat != 0 && src.Info()&types.IsFloat != 0:
						r.Trivial(in.Pos(), key, "float widening")
					}
				}
			}
		}
	}
	r.OK(token.NoPos, "scan", fmt.Sprintf("%d evaluator functions scanned: %d FromFloat* calls, %d Decimal.IntNN calls, no forbidden numeric detour", len(p.ReachFuncs(p.Eval)), fromFloat, int64Calls))
}

// integerFastPath: call parses an integer in base 10 and its error result is tested; on the failing edge the text is
// handed to decimal128.Parse (directly or through a repository helper) before anything is returned.
func integerFastPath(call ssa.CallInstruction) bool {
	c := call.Common()
	if calleeFullName(c) == "strconv.ParseInt" {
		if k, ok := c.Args[1].(*ssa.Const); !ok || k.Value == nil || k.Value.ExactString() != "10" {
			return false
		}
	}
	v, ok := call.(*ssa.Call)
	if !ok {
		return false
	}
	errv := extractOf(v, 1)
	if errv == nil {
		return false
	}
	for _, ref := range *errv.Referrers() {
		bo, ok := ref.(*ssa.BinOp)
		if !ok || !(isNilConst(bo.X) || isNilConst(bo.Y)) {
			continue
		}
		for _, r2 := range *bo.Referrers() {
			iff, ok := r2.(*ssa.If)
			if !ok {
				continue
			}
			failing := iff.Block().Succs[1] // err == nil is false
			if bo.Op == token.NEQ {
				failing = iff.Block().Succs[0]
			}
			// the failing edge leads to a decimal parse
			seen := map[*ssa.BasicBlock]bool{}
			var walk func(b *ssa.BasicBlock) bool
			walk = func(b *ssa.BasicBlock) bool {
				if seen[b] {
					return false
				}
				seen[b] = true
				for _, in := range b.Instrs {
					if ci, ok := in.(ssa.CallInstruction); ok && strings.HasSuffix(calleeFullName(ci.Common()), "decimal128.Parse") {
						return true
					}
					if _, isRet := in.(*ssa.Return); isRet {
						return false
					}
				}
				for _, s := range b.Succs {
					if walk(s) {
						return true
					}
				}
				return false
			}
			if walk(failing) {
				return true
			}
		}
	}
	return false
}

// isTypeSwitchBinding: v is the result of a comma-ok type assertion extract (a type-switch binding).
func isTypeSwitchBinding(v ssa.Value) bool {
	switch x := v.(type) {
	case *ssa.Extract:
		_, ok := x.Tuple.(*ssa.TypeAssert)
		return ok
	case *ssa.TypeAssert:
		return true
	}
	return false
}

var decArith = map[string]bool{"Add": true, "Sub": true, "Mul": true, "Quo": true, "QuoRem": true, "Pow": true,
	"AddWithMode": true, "SubWithMode": true, "MulWithMode": true, "QuoWithMode": true, "QuoRemWithMode": true, "PowWithMode": true}

// arithProducer reports whether v is (or merges) the result of an overflow-capable arithmetic operation.
func arithProducer(v ssa.Value, seen map[ssa.Value]bool) bool {
	if seen[v] {
		return false
	}
	seen[v] = true
	switch x := v.(type) {
	case *ssa.Call:
		n := calleeFullName(&x.Call)
		if strings.HasPrefix(n, "(github.com/woodsbury/decimal128.Decimal).") && decArith[strings.TrimPrefix(n, "(github.com/woodsbury/decimal128.Decimal).")] {
			return true
		}
		if n == "math.Mod" || n == "math.Pow" {
			return true
		}
		if n == "math.Floor" || n == "math.Ceil" || n == "math.Trunc" || n == "math.Round" {
			return arithProducer(x.Call.Args[0], seen)
		}
		if callee := calleeOf(&x.Call); callee != nil && len(callee.Blocks) > 0 && x.Type() != nil {
			if _, isTuple := x.Type().(*types.Tuple); !isTuple {
				return unguardedArithResult(callee, 0, seen)
			}
		}
	case *ssa.Extract:
		if c, ok := x.Tuple.(*ssa.Call); ok {
			if callee := calleeOf(&c.Call); callee != nil && len(callee.Blocks) > 0 {
				return unguardedArithResult(callee, x.Index, seen)
			}
		}
		return arithProducer(x.Tuple, seen)
	case *ssa.BinOp:
		if b, ok := x.Type().Underlying().(*types.Basic); ok && b.Info()&types.IsFloat != 0 {
			switch x.Op {
			case token.ADD, token.SUB, token.MUL, token.QUO:
				return true
			}
		}
	case *ssa.Phi:
		for _, e := range x.Edges {
			if arithProducer(e, seen) {
				return true
			}
		}
	case *ssa.Parameter:
		if pp := programOf(x.Parent().Prog); pp != nil {
			return pp.memoArithParams[x]
		}
		return false
	}
	return false
}

// unguardedArithResult: some return of the repository function hands out, as result k, an arithmetic result that is not
// dominated there by the IsInf and IsNaN tests on that value (so the caller still has to test it).
func unguardedArithResult(callee *ssa.Function, k int, seen map[ssa.Value]bool) bool {
	if callee.Pkg == nil || !strings.HasPrefix(callee.Pkg.Pkg.Path(), modPath) {
		return false
	}
	for _, ret := range returnsOf(callee) {
		if k >= len(ret.Results) {
			continue
		}
		if last := ret.Results[len(ret.Results)-1]; isErrorType(last.Type()) && !isNilConst(last) {
			continue // an error return: the values beside it are not results
		}
		v := ret.Results[k]
		if mi, ok := v.(*ssa.MakeInterface); ok {
			v = mi.X
		}
		if !isDecimal(v.Type()) {
			if b, ok := v.Type().Underlying().(*types.Basic); !ok || b.Info()&types.IsFloat == 0 {
				continue
			}
		}
		if !arithProducer(v, seen) {
			continue
		}
		if !(guardedBy(ret.Block(), v, "IsInf") && guardedBy(ret.Block(), v, "IsNaN")) {
			return true
		}
	}
	return false
}

// arithParams: parameters of repository functions that receive an arithmetic result at some call site (the guard may live
// in a shared helper; the helper's return is then the obligation).

func ruleEInfNaN(p *Program, r *Reporter) {
	p.memoArithParams = map[*ssa.Parameter]bool{}
	for round := 0; round < 3; round++ {
		for _, fn := range p.ReachFuncs(p.Eval) {
			for _, b := range fn.Blocks {
				for _, in := range b.Instrs {
					c, ok := in.(*ssa.Call)
					if !ok {
						continue
					}
					callee := calleeOf(&c.Call)
					if callee == nil || !p.IsRepo(callee) || len(callee.Params) != len(c.Call.Args) {
						continue
					}
					for i, a := range c.Call.Args {
						if arithProducer(a, map[ssa.Value]bool{}) {
							p.memoArithParams[callee.Params[i]] = true
						}
					}
				}
			}
		}
	}
	for _, fn := range p.ReachFuncs(p.Eval) {
		name := p.FuncName(fn)
		n := 0
		for _, ret := range returnsOf(fn) {
			for _, res := range ret.Results {
				mi, ok := res.(*ssa.MakeInterface)
				if !ok || isErrorType(mi.Type()) {
					continue
				}
				if !arithProducer(mi.X, map[ssa.Value]bool{}) {
					continue
				}
				n++
				key := fmt.Sprintf("%s arithmetic result#%d", name, n)
				inf := guardedBy(ret.Block(), mi.X, "IsInf")
				nan := guardedBy(ret.Block(), mi.X, "IsNaN")
				if inf && nan {
					r.OK(ret.Pos(), key, "returned only under the false edges of IsInf and IsNaN on the same value")
				} else {
					miss := []string{}
					if !inf {
						miss = append(miss, "IsInf")
					}
					if !nan {
						miss = append(miss, "IsNaN")
					}
					r.Bad(ret.Pos(), key, "an arithmetic result is returned without a dominating "+strings.Join(miss, "/")+" test: overflow or division by zero would escape as an infinity/NaN value instead of a not-a-number error")
				}
			}
		}
	}
}

// guardedBy: block b is dominated by the false edge of a call <v>.IsInf/IsNaN or math.IsInf/IsNaN(v).
func guardedBy(b *ssa.BasicBlock, v ssa.Value, pred string) bool {
	for _, f := range blockFacts(b) {
		c, t := f.Cond, f.Truth
		for {
			u, ok := c.(*ssa.UnOp)
			if !ok || u.Op != token.NOT {
				break
			}
			c, t = u.X, !t
		}
		call, ok := c.(*ssa.Call)
		if !ok || t {
			continue
		}
		cf := calleeOf(&call.Call)
		if cf == nil || cf.Name() != pred || len(call.Call.Args) == 0 {
			continue
		}
		if call.Call.Args[0] == v {
			// IsInf takes a sign: only 0 tests both infinities
			if pred == "IsInf" {
				sign := call.Call.Args[len(call.Call.Args)-1]
				if c, ok := sign.(*ssa.Const); !ok || c.Value == nil || constant.Sign(c.Value) != 0 {
					continue
				}
			}
			return true
		}
	}
	return false
}

func roundingClass(n string) string {
	switch n {
	case "math.Floor", "github.com/woodsbury/decimal128.Floor", "(github.com/woodsbury/decimal128.Decimal).Floor":
		return "floor"
	case "math.Trunc", "math.Mod", "github.com/woodsbury/decimal128.Trunc", "(github.com/woodsbury/decimal128.Decimal).QuoRem":
		return "truncate"
	case "math.Ceil", "github.com/woodsbury/decimal128.Ceil", "(github.com/woodsbury/decimal128.Decimal).Ceil":
		return "ceiling"
	case "math.Round", "github.com/woodsbury/decimal128.Round", "(github.com/woodsbury/decimal128.Decimal).Round", "math.RoundToEven":
		return "round"
	}
	return ""
}

func ruleERoundingAgree(p *Program, r *Reporter) {
	for _, fn := range p.ReachFuncs(p.Eval) {
		fl, dc := map[string]bool{}, map[string]bool{}
		var pos token.Pos
		for _, b := range fn.Blocks {
			for _, in := range b.Instrs {
				ci, ok := in.(ssa.CallInstruction)
				if !ok {
					continue
				}
				n := calleeFullName(ci.Common())
				cl := roundingClass(n)
				if cl == "" {
					continue
				}
				if strings.HasPrefix(n, "math.") {
					fl[cl] = true
				} else {
					dc[cl] = true
				}
				if !pos.IsValid() {
					pos = in.Pos()
				}
			}
		}
		if len(fl) == 0 || len(dc) == 0 {
			continue
		}
		key := p.FuncName(fn) + " rounding"
		fs, ds := keysOf(fl), keysOf(dc)
		if strings.Join(fs, ",") == strings.Join(ds, ",") {
			r.OK(pos, key, "float path and decimal path both "+strings.Join(fs, ","))
		} else {
			r.Bad(pos, key, "float path rounds by "+strings.Join(fs, ",")+" but the decimal path by "+strings.Join(ds, ",")+": the result depends on which Go type carries the operands when they have different signs")
		}
	}
}

func keysOf(m map[string]bool) []string {
	var out []string
	for k := range m {
		out = append(out, k)
	}
	sort.Strings(out)
	return out
}

type opSpec struct {
	dec      string // decimal method
	decIdx   int    // which result of the method (-1 single)
	floatOp  token.Token
	floatFn  string
	cmpMeth  string
	hasFloat bool
}

var opSpecs = map[string]opSpec{
	"add":            {dec: "Add", decIdx: -1, floatOp: token.ADD, hasFloat: true},
	"subtract":       {dec: "Sub", decIdx: -1, floatOp: token.SUB, hasFloat: true},
	"multiply":       {dec: "Mul", decIdx: -1, floatOp: token.MUL, hasFloat: true},
	"divide":         {dec: "Quo", decIdx: -1, floatOp: token.QUO, hasFloat: true},
	"integerDivide":  {dec: "QuoRem", decIdx: 0, floatOp: token.QUO, floatFn: "math.Floor", hasFloat: true},
	"modulo":         {dec: "QuoRem", decIdx: 1, floatFn: "math.Mod", hasFloat: true},
	"less":           {dec: "Cmp", cmpMeth: "Less"},
	"lessOrEqual":    {dec: "Cmp", cmpMeth: "LessOrEqual"},
	"greater":        {dec: "Cmp", cmpMeth: "Greater"},
	"greaterOrEqual": {dec: "Cmp", cmpMeth: "GreaterOrEqual"},
}

// opResults: node type -> the expressions its helper may return on numeric operands (decimal path, float fast path).
var opResults = map[string][]string{
	"AddNode":            {"Add(dec(x),dec(y))", "(fp0(x,y) + fp1(x,y))"},
	"SubtractNode":       {"Sub(dec(x),dec(y))", "(fp0(x,y) - fp1(x,y))"},
	"MultiplyNode":       {"Mul(dec(x),dec(y))", "(fp0(x,y) * fp1(x,y))"},
	"DivideNode":         {"Quo(dec(x),dec(y))", "(fp0(x,y) / fp1(x,y))"},
	"IntegerDivideNode":  {"QuoRem.0(dec(x),dec(y))", "math.Floor((fp0(x,y) / fp1(x,y)))"},
	"ModuloNode":         {"QuoRem.1(dec(x),dec(y))", "math.Mod(fp0(x,y),fp1(x,y))"},
	"LessNode":           {"Less(Cmp(dec(x),dec(y)))"},
	"LessOrEqualNode":    {"LessOrEqual(Cmp(dec(x),dec(y)))"},
	"GreaterNode":        {"Greater(Cmp(dec(x),dec(y)))"},
	"GreaterOrEqualNode": {"GreaterOrEqual(Cmp(dec(x),dec(y)))"},
}

func ruleEOpChain(p *Program, r *Reporter) {
	ed := newEvalDom(p)
	if ed.why != "" {
		r.Unknown(token.NoPos, "evaluator model", ed.why)
		return
	}
	_, forms := sortedForms(p)
	var nodes []string
	for n := range opResults {
		nodes = append(nodes, n)
	}
	sort.Strings(nodes)
	for _, n := range nodes {
		key := "operator " + strings.TrimSuffix(n, "Node")
		form, ok := forms[n]
		if !ok {
			r.Unknown(token.NoPos, key, "the parser does not build "+n)
			continue
		}
		// the helper the dispatcher hands this node to
		var fn *ssa.Function
		outs, e := ed.run(form)
		if e.Aborted == "" {
			for _, o := range outs {
				if o.Panic || o.Cut {
					continue
				}
				if pf := ed.facts(o); (pf.Err == "" || strings.HasPrefix(pf.Err, "h")) && len(pf.Calls) == 1 {
					fn = pf.Calls[0].Fn
				}
			}
		}
		if fn == nil {
			r.Unknown(token.NoPos, key, "the dispatcher does not hand "+n+" to one helper")
			continue
		}
		nd := &numDom{p: p}
		got, why := nd.runBinary(fn)
		if why != "" {
			r.Unknown(fn.Pos(), key, why)
			continue
		}
		want := map[string]bool{}
		for _, w := range opResults[n] {
			want[w] = true
		}
		bad := false
		for _, g := range sortedKeysPos(got) {
			if os.Getenv("JMESCHECK_DEBUG_OPCHAIN") != "" {
				fmt.Fprintf(os.Stderr, "opchain %s: %q\n", n, g)
			}
			numeric := strings.HasPrefix(g, "numeric: ") || strings.Contains(g, "dec(") || strings.Contains(g, "fp0(") || strings.Contains(g, "fp1(") || strings.Contains(g, "flt(")
			g0 := g
			g = strings.TrimPrefix(g, "numeric: ")
			// an operand asserted to be a decimal is its decimal value
			g = strings.ReplaceAll(g, "asserted:decimal128.Decimal(", "dec(")
			numeric = numeric || strings.Contains(g, "dec(")
			got[g] = got[g0]
			if numeric && !want[g] {
				r.Bad(got[g], key+" :: "+g, fn.Name()+" returns this on numeric operands; the operator is specified as "+strings.Join(opResults[n], " or "))
				bad = true
			}
		}
		for _, w := range opResults[n] {
			if _, ok := got[w]; !ok {
				r.Bad(fn.Pos(), key+" :: "+w, "no path of "+fn.Name()+" returns this")
				bad = true
			}
		}
		if !bad {
			r.OK(fn.Pos(), key, fn.Name()+": "+strings.Join(opResults[n], " ; "))
		}
	}
}

// derivesFromParam: v is the decimal obtained from parameter prm (toDecimal(prm) extract #0).
func derivesFromParam(v ssa.Value, prm *ssa.Parameter) bool {
	ex, ok := v.(*ssa.Extract)
	if !ok {
		return false
	}
	c, ok := ex.Tuple.(*ssa.Call)
	if !ok {
		return false
	}
	cf := calleeOf(&c.Call)
	return cf != nil && isRole(cf, "toDecimal") && c.Call.Args[0] == ssa.Value(prm)
}

// floatOperand: v is result #idx of toFloatPair.
func floatOperand(v ssa.Value, idx int) bool {
	ex, ok := v.(*ssa.Extract)
	if !ok || ex.Index != idx {
		return false
	}
	c, ok := ex.Tuple.(*ssa.Call)
	if !ok {
		return false
	}
	cf := calleeOf(&c.Call)
	return cf != nil && isRole(cf, "toFloatPair")
}

// isRole: fn has the signature of the named numeric coercion helper (see roles_num.go).
func isRole(fn *ssa.Function, role string) bool {
	if fn == nil || fn.Signature.Recv() != nil {
		return false
	}
	sig := fn.Signature
	np, nres := sig.Params().Len(), sig.Results().Len()
	for i := 0; i < np; i++ {
		if !isAnyType(sig.Params().At(i).Type()) {
			return false
		}
	}
	f64 := func(t types.Type) bool {
		b, ok := t.Underlying().(*types.Basic)
		return ok && b.Kind() == types.Float64
	}
	switch role {
	case "toDecimal":
		return np == 1 && nres == 2 && isDecimal(sig.Results().At(0).Type()) && isBoolType(sig.Results().At(1).Type())
	case "toFloat":
		return np == 1 && nres == 2 && f64(sig.Results().At(0).Type()) && isBoolType(sig.Results().At(1).Type())
	case "toFloatPair":
		return np == 2 && nres == 3 && f64(sig.Results().At(0).Type()) && f64(sig.Results().At(1).Type()) && isBoolType(sig.Results().At(2).Type())
	case "toInt":
		return np == 1 && nres >= 2 && isIntType(sig.Results().At(0).Type()) && isBoolType(sig.Results().At(1).Type())
	}
	return false
}

func isDecimal(t types.Type) bool {
	return namedIs(t, "github.com/woodsbury/decimal128", "Decimal")
}

func ruleEDecimalEq(p *Program, r *Reporter) {
	n := 0
	for _, fn := range p.ReachFuncs(p.Eval, p.Root, p.Parser) {
		for _, b := range fn.Blocks {
			for _, in := range b.Instrs {
				switch x := in.(type) {
				case *ssa.BinOp:
					if (x.Op == token.EQL || x.Op == token.NEQ) && (typeShort(x.X.Type()) == "json.Number" || typeShort(x.Y.Type()) == "json.Number") {
						if _, cx := x.X.(*ssa.Const); !cx {
							if _, cy := x.Y.(*ssa.Const); !cy {
								n++
								r.Bad(instrPos(x), fmt.Sprintf("%s json.Number %s", p.FuncName(fn), x.Op), "two json.Number values compared with "+x.Op.String()+": that compares their spelling, so 1.0 and 1 (or 1e2 and 100) are different numbers")
							}
						}
					}
					if (x.Op == token.EQL || x.Op == token.NEQ) && (isDecimal(x.X.Type()) || isDecimal(x.Y.Type())) {
						n++
						r.Bad(instrPos(x), fmt.Sprintf("%s decimal %s", p.FuncName(fn), x.Op), "decimal128.Decimal compared with "+x.Op.String()+": struct equality is representation equality, 1.0 and 1 differ")
					}
				case *ssa.MakeMap:
					if m, ok := x.Type().Underlying().(*types.Map); ok && isDecimal(m.Key()) {
						n++
						r.Bad(instrPos(x), fmt.Sprintf("%s map keyed by decimal", p.FuncName(fn)), "a map keyed by decimal128.Decimal distinguishes equal numbers by representation")
					}
				}
			}
		}
	}
	// interface comparisons of values that may hold decimals: `x == y` on `any` operands in the evaluator
	for _, fn := range p.ReachFuncs(p.Eval) {
		for _, b := range fn.Blocks {
			for _, in := range b.Instrs {
				x, ok := in.(*ssa.BinOp)
				if !ok || (x.Op != token.EQL && x.Op != token.NEQ) {
					continue
				}
				_, xi := x.X.Type().Underlying().(*types.Interface)
				_, yi := x.Y.Type().Underlying().(*types.Interface)
				if !xi || !yi {
					continue
				}
				if isNilConst(x.X) || isNilConst(x.Y) {
					continue
				}
				if isErrorType(x.X.Type()) || isErrorType(x.Y.Type()) {
					continue
				}
				// one operand is known, on every way into this block, to be null, a boolean or a string (the cases of a type
				// switch that lists only those): interface equality is then equality of JSON values
				if scalarOnly(b, x.X, 0) || scalarOnly(b, x.Y, 0) {
					continue
				}
				n++
				r.Bad(instrPos(x), fmt.Sprintf("%s interface %s", p.FuncName(fn), x.Op), "two JSON values compared with "+x.Op.String()+" on interfaces: numbers are compared by representation and uncomparable dynamic types (slices, maps) panic")
			}
		}
	}
	r.OK(token.NoPos, "scan", fmt.Sprintf("no ==/!= on decimal128.Decimal or on two non-nil interface values (%d found)", n))
}

func intRange(b *types.Basic, sizes types.Sizes) (bits int, signed bool, ok bool) {
	if b.Info()&types.IsInteger == 0 {
		return 0, false, false
	}
	sz := sizes.Sizeof(b)
	return int(sz * 8), b.Info()&types.IsUnsigned == 0, true
}

// fitsIn: [lo, hi] lies within the range of an integer type of the given width and signedness.
func fitsIn(lo, hi int64, bits int, signed bool) bool {
	if signed {
		if bits >= 64 {
			return true
		}
		return lo >= -(int64(1)<<(bits-1)) && hi <= (int64(1)<<(bits-1))-1
	}
	if lo < 0 {
		return false
	}
	if bits >= 63 {
		return true
	}
	return hi <= (int64(1)<<bits)-1
}

func ruleEConvLossless(p *Program, r *Reporter) {
	sizes := p.Eval.TypesSizes
	for _, fn := range p.ReachFuncs(p.Eval, p.Parser) {
		name := p.FuncName(fn)
		n := 0
		for _, b := range fn.Blocks {
			for _, in := range b.Instrs {
				cv, ok := in.(*ssa.Convert)
				if !ok {
					continue
				}
				src, okS := cv.X.Type().Underlying().(*types.Basic)
				dst, okD := cv.Type().Underlying().(*types.Basic)
				if !okS || !okD {
					continue
				}
				sb, ss, ok1 := intRange(src, sizes)
				db, ds, ok2 := intRange(dst, sizes)
				if !ok1 || !ok2 {
					continue
				}
				if _, isConst := cv.X.(*ssa.Const); isConst {
					continue
				}
				n++
				key := fmt.Sprintf("%s %s(%s)#%d", name, dst.Name(), src.Name(), n)
				lossless := false
				switch {
				case ss == ds && db >= sb:
					lossless = true
				case !ss && ds && db > sb: // unsigned -> wider signed
					lossless = true
				}
				// rune arithmetic on characters (hex digit decoding) and utf8 sizes are value-preserving by construction
				if lossless {
					r.Trivial(cv.Pos(), key, "target range contains source range")
					continue
				}
				if up, lo := boundsChecked(b, cv.X); up && (lo || !ss) {
					r.OK(cv.Pos(), key, "operand range-checked by dominating comparisons with constants (upper bound, and lower bound for a signed source)")
					continue
				} else if up || lo {
					side := "lower"
					if !up {
						side = "upper"
					}
					r.Bad(instrPos(cv), key, fmt.Sprintf("conversion %s -> %s is range-checked on one side only: no dominating %s-bound test, so values beyond it wrap around", src.Name(), dst.Name(), side))
					continue
				}
				if isCharArith(cv.X) {
					r.OK(cv.Pos(), key, "character arithmetic on a value already tested to lie in a digit/letter range")
					continue
				}
				// the result of strconv.ParseUint / ParseInt with a constant bit size lies in the range of that size
				if ex, ok := cv.X.(*ssa.Extract); ok && ex.Index == 0 {
					if c, ok := ex.Tuple.(*ssa.Call); ok && len(c.Call.Args) == 3 {
						if bc, isC := c.Call.Args[2].(*ssa.Const); isC && bc.Value != nil {
							bits := int(bc.Int64())
							switch calleeFullName(&c.Call) {
							case "strconv.ParseUint":
								if bits > 0 && bits < 63 && fitsIn(0, (int64(1)<<bits)-1, db, ds) {
									r.OK(cv.Pos(), key, fmt.Sprintf("the operand is the result of strconv.ParseUint with bit size %d", bits))
									continue
								}
							case "strconv.ParseInt":
								if bits > 0 && bits < 64 && fitsIn(-(int64(1)<<(bits-1)), (int64(1)<<(bits-1))-1, db, ds) {
									r.OK(cv.Pos(), key, fmt.Sprintf("the operand is the result of strconv.ParseInt with bit size %d", bits))
									continue
								}
							}
						}
					}
				}
				if f := p.indexParserFacts(); f.why == "" && onlyCalledWithin(fn, f.entered) {
					if cf := f.conv[cv.Pos()]; cf != nil && cf.seen > 0 && fitsIn(cf.lo, cf.hi, db, ds) {
						r.OK(cv.Pos(), key, fmt.Sprintf("the range check is not in this function; by interpretation of the bracket-specifier parser (which this function is part of) the operand lies in [%d, %d] on each of the %d accepting paths that convert it", cf.lo, cf.hi, cf.seen))
						continue
					}
				}
				r.Bad(instrPos(cv), key, fmt.Sprintf("conversion %s -> %s can change the value (sign or width) and no dominating range check on the operand exists", src.Name(), dst.Name()))
			}
		}
	}
}

// boundsChecked: dominating facts bound v (or a widening conversion of v) above / below by constants.
func boundsChecked(b *ssa.BasicBlock, v ssa.Value) (upper, lower bool) {
	same := func(x ssa.Value) bool {
		if x == v {
			return true
		}
		if cv, ok := x.(*ssa.Convert); ok && cv.X == v {
			return true
		}
		return false
	}
	for _, f := range blockFacts(b) {
		op, x, y, ok := f.rel()
		if !ok {
			continue
		}
		if _, isC := x.(*ssa.Const); isC && same(y) {
			x, y = y, x
			op = flipOp(op)
		}
		if _, isC := y.(*ssa.Const); !isC || !same(x) {
			continue
		}
		switch op {
		case token.LSS, token.LEQ:
			upper = true
		case token.GTR, token.GEQ:
			lower = true
		case token.EQL:
			upper, lower = true, true
		}
	}
	return
}

func rangeChecked(b *ssa.BasicBlock, v ssa.Value) bool {
	for _, f := range blockFacts(b) {
		_, x, y, ok := f.rel()
		if !ok {
			continue
		}
		if _, isC := y.(*ssa.Const); isC && x == v {
			return true
		}
		if _, isC := x.(*ssa.Const); isC && y == v {
			return true
		}
	}
	return false
}

func isCharArith(v ssa.Value) bool {
	bin, ok := v.(*ssa.BinOp)
	if !ok {
		return false
	}
	// c - '0', c - 'a' + 10
	for _, o := range []ssa.Value{bin.X, bin.Y} {
		if b2, ok := o.(*ssa.BinOp); ok && isCharArith(b2) {
			return true
		}
	}
	if bin.Op == token.SUB || bin.Op == token.ADD {
		if _, ok := bin.Y.(*ssa.Const); ok {
			if rangeCheckedAnywhere(bin.X) {
				return true
			}
		}
	}
	return false
}

func rangeCheckedAnywhere(v ssa.Value) bool {
	rs := v.Referrers()
	if rs == nil {
		return false
	}
	for _, ref := range *rs {
		if b, ok := ref.(*ssa.BinOp); ok {
			switch b.Op {
			case token.GEQ, token.LEQ, token.LSS, token.GTR:
				return true
			}
		}
	}
	return false
}

func ruleEToIntNoResult(p *Program, r *Reporter) {
	toInt := numericRoles(p).toInt
	if toInt == nil {
		r.Unknown(token.NoPos, "toInt", "integer coercion helper func(any) (int, bool, ...) not found: "+numericRoles(p).why)
		return
	}
	for _, fn := range p.ReachFuncs(p.Eval) {
		name := p.FuncName(fn)
		n := 0
		for _, b := range fn.Blocks {
			for _, in := range b.Instrs {
				c, ok := in.(*ssa.Call)
				if !ok || calleeOf(&c.Call) != toInt {
					continue
				}
				n++
				key := fmt.Sprintf("%s toInt#%d", name, n)
				iv := extractOf(c, 0)
				if iv == nil {
					r.Trivial(c.Pos(), key, "integer result unused (type probe)")
					continue
				}
				if path := flowsToResult(iv, map[ssa.Value]bool{}); path != "" {
					r.Bad(instrPos(c), key, "the coerced machine integer flows into a returned value ("+path+"): arithmetic on it wraps and truncates unlike decimal arithmetic")
				} else {
					r.OK(c.Pos(), key, "coerced integer used only as a count/offset")
				}
			}
		}
	}
}

// flowsToResult follows integer dataflow (arithmetic, conversions, phis) to a MakeInterface that is not an error.
func flowsToResult(v ssa.Value, seen map[ssa.Value]bool) string {
	if seen[v] {
		return ""
	}
	seen[v] = true
	rs := v.Referrers()
	if rs == nil {
		return ""
	}
	for _, ref := range *rs {
		switch x := ref.(type) {
		case *ssa.MakeInterface:
			if !isErrorType(x.Type()) {
				return "converted to any at " + x.String()
			}
		case *ssa.BinOp:
			switch x.Op {
			case token.ADD, token.SUB, token.MUL, token.QUO, token.REM:
				if w := flowsToResult(x, seen); w != "" {
					return w
				}
			}
		case *ssa.UnOp:
			if x.Op == token.SUB {
				if w := flowsToResult(x, seen); w != "" {
					return w
				}
			}
		case *ssa.Convert:
			if w := flowsToResult(x, seen); w != "" {
				return w
			}
		case *ssa.Phi:
			if w := flowsToResult(x, seen); w != "" {
				return w
			}
		}
	}
	return ""
}

// ---------------------------------------------------------------- E-FLOATPAIR

func init() {
	register(&Rule{ID: "E-FLOATPAIR", Props: []string{"C14", "C05", "C01"}, Floor: 1,
		Doc: "the pair coercion that selects the binary floating-point fast path of the arithmetic operators, by interpretation on two symbolic operands: it reports success only on paths on which BOTH operands passed a float type test, and the two floats it returns are those operands in order (an operand that is not a float must send the operator down the exact decimal path; a success that looks at one operand only computes with a zero in place of the other)",
		Run: ruleEFloatPair})
}

func ruleEFloatPair(p *Program, r *Reporter) {
	nr := numericRoles(p)
	fn := nr.toFloatPair
	if fn == nil {
		r.OK(token.NoPos, "pair coercion", "the operators have no float pair coercion (each operand is coerced on its own; E-OPCHAIN decides the fast path)")
		return
	}
	key := p.FuncName(fn) + " success"
	e := newEngine(p, plainDom{})
	e.MaxVisits = 2
	x := avSym{id: e.fresh(), tag: "x"}
	y := avSym{id: e.fresh(), tag: "y"}
	outs := e.Run(fn, []AV{x, y}, e.WithInit(fn.Pkg, newState()))
	if e.Aborted != "" {
		r.Unknown(fn.Pos(), key, "path enumeration aborted: "+e.Aborted)
		return
	}
	isFloat := func(ts []string) bool {
		for _, t := range ts {
			if t == "float64" || t == "float32" {
				return true
			}
		}
		return false
	}
	succ, total := 0, 0
	for _, o := range outs {
		if o.Cut || o.Panic || len(o.Res) != 3 {
			continue
		}
		total++
		okv, isConst := o.Res[2].(avConst)
		if isConst && !constant.BoolVal(okv.v) {
			continue
		}
		px, _ := o.St.subjectTests(x)
		py, _ := o.St.subjectTests(y)
		if !isConst {
			r.Bad(o.Ret.Pos(), key, "a path returns a success flag that is not decided by the type tests of the operands: "+avKey(o.Res[2]))
			return
		}
		if !isFloat(px) || !isFloat(py) {
			which := "left"
			if isFloat(px) {
				which = "right"
			}
			r.Bad(o.Ret.Pos(), key, "a path reports success although the "+which+" operand has not passed a float type test: the fast path then computes with a zero in its place")
			return
		}
		// the floats returned are the operands, in order
		for i, want := range []avSym{x, y} {
			sy, ok := o.Res[i].(avSym)
			base := AV(nil)
			if ok {
				base = sy.payload
			}
			if !ok || !strings.HasPrefix(sy.tag, "asserted:float") || avKey(base) != avKey(want) {
				if cv, isC := o.Res[i].(avSym); !isC || !strings.Contains(avKey(cv), avKey(want)) {
					r.Bad(o.Ret.Pos(), key, fmt.Sprintf("result %d of a successful path is %s, not the float value of operand %d", i, renderVal(o.Res[i]), i+1))
					return
				}
			}
		}
		succ++
	}
	if succ == 0 {
		r.Unknown(fn.Pos(), key, fmt.Sprintf("no path reports success (%d paths)", total))
		return
	}
	r.OK(fn.Pos(), key, fmt.Sprintf("%d of %d paths report success, each after float type tests of both operands, returning them in order", succ, total))
}

// ---------------------------------------------------------------- E-PARSE-STRICT

func init() {
	register(&Rule{ID: "E-PARSE-STRICT", Props: []string{"C05", "C14", "C03"}, Floor: 1,
		Doc: "the coercions of a number given as text (json.Number), by interpretation with the decimal parser as a primitive that either succeeds or fails: on every path on which decimal128.Parse reports an error (malformed text, but also a value outside the decimal range, for which it returns an infinity together with the error) the coercion reports 'not a number'; no error is forgiven, so no infinity or NaN enters the arithmetic by way of a number's spelling",
		Run: ruleEParseStrict})
}

type parseDom struct{ plainDom }

func (parseDom) Call(e *Engine, st *State, site ssa.CallInstruction, callee *ssa.Function, args []AV, depth int) ([]CallOut, bool) {
	if callee != nil && strings.HasSuffix(callee.String(), "decimal128.Parse") {
		good := avSym{id: e.fresh(), tag: "parsed", nonNil: true}
		bad := st.clone()
		bad.event(Event{Kind: "parse-failed", Pos: site.Pos()})
		errv := avSym{id: e.fresh(), tag: "parse-err", nonNil: true}
		return []CallOut{{St: st, Res: []AV{good, avNil{}}}, {St: bad, Res: []AV{avSym{id: e.fresh(), tag: "inf-or-zero"}, errv}}}, true
	}
	if callee != nil && callee.String() == "errors.Is" {
		return []CallOut{{St: st, Res: []AV{avSym{id: e.fresh(), tag: "errors.Is"}}}}, true
	}
	return nil, false
}

func ruleEParseStrict(p *Program, r *Reporter) {
	nr := numericRoles(p)
	for _, job := range []struct {
		name string
		fn   *ssa.Function
		okAt int
	}{{"toDecimal", nr.toDecimal, 1}, {"toInt", nr.toInt, 1}} {
		if job.fn == nil {
			continue
		}
		key := "evaluator." + job.name + " parse failure"
		e := newEngine(p, parseDom{})
		e.MaxVisits = 2
		x := avSym{id: e.fresh(), tag: "x"}
		outs := e.Run(job.fn, []AV{x}, e.WithInit(job.fn.Pkg, newState()))
		if e.Aborted != "" {
			r.Unknown(job.fn.Pos(), key, "path enumeration aborted: "+e.Aborted)
			continue
		}
		failed, bad := 0, ""
		var badPos token.Pos
		for _, o := range outs {
			if o.Cut || o.Panic || len(o.Res) <= job.okAt {
				continue
			}
			hit := false
			for _, ev := range o.St.Trace {
				if ev.Kind == "parse-failed" {
					hit = true
				}
			}
			if !hit {
				continue
			}
			failed++
			// the "is a number" result (the first bool result) must be false
			for _, rv := range o.Res {
				if c, ok := rv.(avConst); ok && c.v.Kind() == constant.Bool {
					if constant.BoolVal(c.v) {
						bad, badPos = "a path on which the decimal parser reported an error still reports a number (an out-of-range spelling becomes an infinity)", o.Ret.Pos()
					}
					break
				} else if _, isSym := rv.(avSym); isSym && rv != nil {
					if sy := rv.(avSym); sy.tag == "errors.Is" || strings.HasPrefix(sy.tag, "cond") {
						bad, badPos = "whether a failed parse counts as a number depends on which error it was: "+avKey(rv), o.Ret.Pos()
					}
				}
			}
		}
		switch {
		case bad != "":
			r.Bad(badPos, key, bad)
		case failed == 0:
			r.Trivial(job.fn.Pos(), key, "no path calls the decimal parser")
		default:
			r.OK(job.fn.Pos(), key, fmt.Sprintf("%d paths on which decimal128.Parse fails: each reports 'not a number'", failed))
		}
	}
}

// scalarOnly: every edge into block b is the true edge of a test that v is nil, a bool or a string (directly or through
// blocks that only jump on).
func scalarOnly(b *ssa.BasicBlock, v ssa.Value, depth int) bool {
	if len(b.Preds) == 0 || depth > 4 {
		return false
	}
	for _, p := range b.Preds {
		if len(p.Instrs) == 0 {
			return false
		}
		switch last := p.Instrs[len(p.Instrs)-1].(type) {
		case *ssa.Jump:
			if !scalarOnly(p, v, depth+1) {
				return false
			}
		case *ssa.If:
			if p.Succs[0] != b || p.Succs[1] == b {
				return false
			}
			ok := false
			switch c := last.Cond.(type) {
			case *ssa.BinOp:
				ok = c.Op == token.EQL && ((c.X == v && isNilConst(c.Y)) || (c.Y == v && isNilConst(c.X)))
			case *ssa.Extract:
				if ta, isTA := c.Tuple.(*ssa.TypeAssert); isTA && c.Index == 1 && ta.CommaOk && ta.X == v {
					if bt, isBasic := ta.AssertedType.Underlying().(*types.Basic); isBasic && (bt.Kind() == types.Bool || bt.Kind() == types.String) && ta.AssertedType == types.Type(bt) {
						ok = true
					}
				}
			}
			if !ok {
				return false
			}
		default:
			return false
		}
	}
	return true
}

// fromJSONNumber: v is a json.Number converted to string (possibly through a phi of such values or a String() call).
func fromJSONNumber(v ssa.Value, depth int) bool {
	if depth > 4 {
		return false
	}
	switch x := v.(type) {
	case *ssa.Convert:
		return typeShort(x.X.Type()) == "json.Number"
	case *ssa.ChangeType:
		return typeShort(x.X.Type()) == "json.Number"
	case *ssa.Call:
		return calleeFullName(x.Common()) == "(encoding/json.Number).String"
	case *ssa.Phi:
		for _, e := range x.Edges {
			if !fromJSONNumber(e, depth+1) {
				return false
			}
		}
		return len(x.Edges) > 0
	}
	return false
}
