package main

import (
	"fmt"
	"go/constant"
	"go/token"
	"go/types"
	"strings"

	"golang.org/x/tools/go/ssa"
)

func init() {
	register(&Rule{ID: "E-ASSERT", Props: []string{"C03"}, Floor: 100,
		Doc: "every type assertion in API-reachable code is comma-ok (or part of a type switch), unless its operand is read from a map allocated in the same function all of whose stored values have the asserted static type",
		Run: ruleEAssert})
	register(&Rule{ID: "E-SLICE2", Props: []string{"C03", "C12", "C01"}, Floor: 1,
		Doc: "every slice expression x[lo:hi] of the evaluator with two non-constant bounds is dominated by a comparison that orders exactly those two values (lo <= hi)",
		Run: ruleESlice2})
	register(&Rule{ID: "E-CONSTINDEX", Props: []string{"C03"}, Floor: 8,
		Doc: "every constant index or constant lower slice bound on a slice in the evaluator is dominated by a length fact that puts it in range (len(x)==0 exit, len(x)!=2 exit, make(_, len(y)) with such a fact on y)",
		Run: ruleEConstIndex})
	register(&Rule{ID: "E-REFLECT-NIL", Props: []string{"C03"}, Floor: 1,
		Doc: "every method call on an interface-typed field inside an Error() method (reflect.Type, wrapped error) is dominated by a non-nil test of the same field, or every construction site stores a value known to be non-nil",
		Run: ruleEReflectNil})
	register(&Rule{ID: "E-DIVISOR", Props: []string{"C03", "C12", "C01"}, Floor: 2,
		Doc: "every integer division or remainder with a non-constant divisor in the evaluator has a divisor that is non-zero by a dominating sign/zero fact, or derives from the step of a slice node, whose constructions are all dominated by the step != 0 edge in the parser (P-STEP-ZERO)",
		Run: ruleEDivisor})
	register(&Rule{ID: "P-STEP-ZERO", Props: []string{"C12", "C08", "C03"}, Floor: 1,
		Doc: "every construction of a SliceStep node stores a step that is non-zero: a non-zero constant, or a parsed value on a path dominated by the false edge of `step == 0`, whose true edge returns *InvalidSliceStepError",
		Run: rulePStepZero})
	register(&Rule{ID: "E-NO-BYTE-INDEX", Props: []string{"C11"}, Floor: 1,
		Doc: "no byte indexing s[i] of a string in the evaluator: every access to string content goes through unicode/utf8 or strings",
		Run: ruleENoByteIndex})
	register(&Rule{ID: "E-NONNIL-SLICE", Props: []string{"C18", "C01", "C12"}, Floor: 17,
		Doc: "no []any or map[string]any that the evaluator converts into a result can be a nil slice/map originating in the function itself (a nil slice serialises as null instead of [])",
		Run: ruleENonNilSlice})
}

func ruleEAssert(p *Program, r *Reporter) {
	for _, fn := range p.ReachFuncs() {
		name := p.FuncName(fn)
		n := 0
		for _, b := range fn.Blocks {
			for _, in := range b.Instrs {
				ta, ok := in.(*ssa.TypeAssert)
				if !ok {
					continue
				}
				n++
				key := fmt.Sprintf("%s assert#%d .(%s)", name, n, typeShort(ta.AssertedType))
				if ta.CommaOk {
					r.Trivial(ta.Pos(), key, "comma-ok / type switch")
					continue
				}
				// interface-to-interface conversions that cannot fail are not emitted as TypeAssert
				if lk, ok := ta.X.(*ssa.Lookup); ok {
					if mm, ok := lk.X.(*ssa.MakeMap); ok {
						all := true
						cnt := 0
						for _, ref := range *mm.Referrers() {
							if mu, ok := ref.(*ssa.MapUpdate); ok {
								cnt++
								if !staticTypeIs(mu.Value, ta.AssertedType) {
									all = false
								}
							}
						}
						if all && cnt > 0 {
							r.OK(ta.Pos(), key, fmt.Sprintf("operand read from a local map whose %d stores all have static type %s", cnt, typeShort(ta.AssertedType)))
							continue
						}
					}
				}
				r.Bad(instrPos(ta), key, "unchecked type assertion on "+describeAddr(ta.X)+": panics when the value has another type")
			}
		}
	}
}

// staticTypeIs: v is an interface made from a value of type t (possibly through a phi).
func staticTypeIs(v ssa.Value, t types.Type) bool {
	switch x := v.(type) {
	case *ssa.MakeInterface:
		return types.Identical(x.X.Type(), t)
	case *ssa.Phi:
		for _, e := range x.Edges {
			if !staticTypeIs(e, t) {
				return false
			}
		}
		return true
	}
	return false
}

func ruleESlice2(p *Program, r *Reporter) {
	for _, fn := range p.ReachFuncs(p.Eval) {
		name := p.FuncName(fn)
		n := 0
		for _, b := range fn.Blocks {
			for _, in := range b.Instrs {
				sl, ok := in.(*ssa.Slice)
				if !ok || sl.Low == nil || sl.High == nil {
					continue
				}
				if _, c := sl.Low.(*ssa.Const); c {
					continue
				}
				if _, c := sl.High.(*ssa.Const); c {
					continue
				}
				n++
				key := fmt.Sprintf("%s %s[lo:hi]#%d", name, describeAddr(sl.X), n)
				if orderedLE(b, sl.Low, sl.High) {
					r.OK(sl.Pos(), key, "a dominating comparison orders the two bounds")
				} else {
					r.Bad(instrPos(sl), key, "no dominating comparison establishes lo <= hi for "+sl.Low.String()+" : "+sl.High.String()+"; reversed bounds panic")
				}
			}
		}
	}
}

// orderedLE: facts in block b imply lo <= hi.
func orderedLE(b *ssa.BasicBlock, lo, hi ssa.Value) bool {
	for _, f := range blockFacts(b) {
		op, x, y, ok := f.rel()
		if !ok {
			continue
		}
		if x == lo && y == hi && (op == token.LSS || op == token.LEQ || op == token.EQL) {
			return true
		}
		if x == hi && y == lo && (op == token.GTR || op == token.GEQ || op == token.EQL) {
			return true
		}
	}
	// hi = lo + nonneg constant / len
	if bin, ok := hi.(*ssa.BinOp); ok && bin.Op == token.ADD {
		if bin.X == lo && nonNegative(bin.Y) || bin.Y == lo && nonNegative(bin.X) {
			return true
		}
		sa := &signAn{busy: map[ssa.Value]bool{}}
		if bin.X == lo && sa.sign(bin.Y, b, nil, 0).nonNeg || bin.Y == lo && sa.sign(bin.X, b, nil, 0).nonNeg {
			return true
		}
	}
	return false
}

// signAn: a small sign analysis (is an integer known to be >= 0, <= 0) over dominating facts, arithmetic, merges and
// the results of the repository's helpers.
type signAn struct {
	busy map[ssa.Value]bool
}

type sgn struct{ nonNeg, nonPos bool }

func (a *signAn) sign(v ssa.Value, b *ssa.BasicBlock, extra []condFact, depth int) sgn {
	out := sgn{}
	if depth > 8 || a.busy[v] {
		return sgn{true, true} // optimistic on cycles (a counter that only grows from a non-negative start)
	}
	a.busy[v] = true
	defer delete(a.busy, v)
	facts := append(blockFacts(b), extra...)
	for _, f := range facts {
		op, x, y, ok := f.rel()
		if !ok {
			continue
		}
		if y == v {
			x, y = y, x
			op = flipOp(op)
		}
		if x != v {
			continue
		}
		c, ok := y.(*ssa.Const)
		if !ok || c.Value == nil || c.Value.Kind() != constant.Int {
			continue
		}
		k := constant.Sign(c.Value)
		switch op {
		case token.GTR:
			if k >= 0 {
				out.nonNeg = true
			}
		case token.GEQ:
			if k >= 0 {
				out.nonNeg = true
			}
		case token.LSS:
			if k <= 0 {
				out.nonPos = true
			}
		case token.LEQ:
			if k <= 0 {
				out.nonPos = true
			}
		case token.EQL:
			out.nonNeg = out.nonNeg || k >= 0
			out.nonPos = out.nonPos || k <= 0
		}
	}
	join := func(s sgn) { out.nonNeg, out.nonPos = out.nonNeg || s.nonNeg, out.nonPos || s.nonPos }
	switch x := v.(type) {
	case *ssa.Const:
		if x.Value != nil && x.Value.Kind() == constant.Int {
			join(sgn{constant.Sign(x.Value) >= 0, constant.Sign(x.Value) <= 0})
		}
	case *ssa.Call:
		if n := builtinName(&x.Call); n == "len" || n == "cap" {
			join(sgn{true, false})
		} else if strings.HasPrefix(calleeFullName(&x.Call), "unicode/utf8.RuneCount") {
			join(sgn{true, false})
		} else if _, isTuple := x.Type().(*types.Tuple); !isTuple {
			join(a.calleeSign(x, 0, depth))
		}
	case *ssa.Extract:
		if c, ok := x.Tuple.(*ssa.Call); ok {
			join(a.calleeSign(c, x.Index, depth))
		}
	case *ssa.Convert:
		join(a.sign(x.X, b, nil, depth+1))
	case *ssa.UnOp:
		if x.Op == token.SUB {
			s := a.sign(x.X, b, nil, depth+1)
			join(sgn{s.nonPos, s.nonNeg})
		}
	case *ssa.BinOp:
		l, r := a.sign(x.X, b, nil, depth+1), a.sign(x.Y, b, nil, depth+1)
		switch x.Op {
		case token.ADD:
			join(sgn{l.nonNeg && r.nonNeg, l.nonPos && r.nonPos})
		case token.SUB:
			join(sgn{l.nonNeg && r.nonPos, l.nonPos && r.nonNeg})
		case token.MUL, token.QUO:
			join(sgn{l.nonNeg && r.nonNeg || l.nonPos && r.nonPos, l.nonNeg && r.nonPos || l.nonPos && r.nonNeg})
		case token.REM:
			join(sgn{l.nonNeg, l.nonPos}) // the sign of the dividend
		}
	case *ssa.Phi:
		all := sgn{true, true}
		for i, e := range x.Edges {
			p := x.Block().Preds[i]
			var ex []condFact
			for si, sc := range p.Succs {
				if sc == x.Block() {
					if c, t, ok := edgeCond(p, si); ok {
						ex = append(ex, condFact{c, t})
					}
				}
			}
			s := a.sign(e, p, ex, depth+1)
			all.nonNeg, all.nonPos = all.nonNeg && s.nonNeg, all.nonPos && s.nonPos
		}
		if len(x.Edges) > 0 {
			join(all)
		}
	}
	return out
}

// calleeSign: the sign of result k of a helper of the repository, on all of its returns.
func (a *signAn) calleeSign(c *ssa.Call, k int, depth int) sgn {
	callee := calleeOf(&c.Call)
	if callee == nil || len(callee.Blocks) == 0 || callee.Pkg == nil || !strings.HasPrefix(callee.Pkg.Pkg.Path(), modPath) || depth > 4 {
		return sgn{}
	}
	all := sgn{true, true}
	rets := returnsOf(callee)
	for _, ret := range rets {
		if k >= len(ret.Results) {
			return sgn{}
		}
		s := a.sign(ret.Results[k], ret.Block(), nil, depth+2)
		all.nonNeg, all.nonPos = all.nonNeg && s.nonNeg, all.nonPos && s.nonPos
	}
	if len(rets) == 0 {
		return sgn{}
	}
	return all
}

func nonNegative(v ssa.Value) bool {
	switch x := v.(type) {
	case *ssa.Const:
		if x.Value != nil && x.Value.Kind() == constant.Int {
			return constant.Sign(x.Value) >= 0
		}
	case *ssa.Call:
		n := builtinName(&x.Call)
		return n == "len" || n == "cap"
	}
	return false
}

// minLen derives a lower bound for len(x) in block b from dominating facts.
func minLen(b *ssa.BasicBlock, x ssa.Value, depth int) int64 {
	best := int64(0)
	if depth > 4 {
		return 0
	}
	for _, f := range blockFacts(b) {
		op, l, rr, ok := f.rel()
		if !ok {
			continue
		}
		lenOf := func(v ssa.Value) bool {
			c, ok := v.(*ssa.Call)
			return ok && builtinName(&c.Call) == "len" && len(c.Call.Args) == 1 && sameValue(c.Call.Args[0], x)
		}
		cst := func(v ssa.Value) (int64, bool) {
			c, ok := v.(*ssa.Const)
			if !ok || c.Value == nil || c.Value.Kind() != constant.Int {
				return 0, false
			}
			return constant.Int64Val(c.Value)
		}
		// x != "" (or "" != x): at least one byte; x == "const": exactly that many
		strConst := func(v ssa.Value) (string, bool) {
			c, ok := v.(*ssa.Const)
			if !ok || c.Value == nil || c.Value.Kind() != constant.String {
				return "", false
			}
			return constant.StringVal(c.Value), true
		}
		for _, pr := range [][2]ssa.Value{{l, rr}, {rr, l}} {
			if sameValue(pr[0], x) {
				if sc, ok := strConst(pr[1]); ok {
					if op == token.NEQ && sc == "" && best < 1 {
						best = 1
					}
					if op == token.EQL && int64(len(sc)) > best {
						best = int64(len(sc))
					}
				}
			}
		}
		if lenOf(rr) {
			l, rr = rr, l
			op = flipOp(op)
		}
		if !lenOf(l) {
			continue
		}
		c, ok := cst(rr)
		if !ok {
			continue
		}
		var m int64
		switch op {
		case token.NEQ:
			if c == 0 {
				m = 1
			}
		case token.EQL:
			m = c
		case token.GTR:
			m = c + 1
		case token.GEQ:
			m = c
		}
		if m > best {
			best = m
		}
	}
	switch v := x.(type) {
	case *ssa.MakeSlice:
		if c, ok := v.Len.(*ssa.Call); ok && builtinName(&c.Call) == "len" {
			if m := minLen(b, c.Call.Args[0], depth+1); m > best {
				best = m
			}
		}
		if c, ok := v.Len.(*ssa.Const); ok && c.Value != nil {
			if k, ok := constant.Int64Val(c.Value); ok && k > best {
				best = k
			}
		}
	case *ssa.Slice:
		// x = y[k:] has len(y)-k elements
		if v.High == nil {
			k := int64(0)
			if c, ok := v.Low.(*ssa.Const); ok && c.Value != nil {
				k, _ = constant.Int64Val(c.Value)
			} else if v.Low != nil {
				return best
			}
			if m := minLen(b, v.X, depth+1) - k; m > best {
				best = m
			}
		}
	case *ssa.Parameter:
		// what every call site guarantees about the argument (helpers extracted from a function keep its facts)
		m := int64(1 << 40)
		sites := callSitesOf(v.Parent())
		if len(sites) == 0 {
			break
		}
		idx := -1
		for i, prm := range v.Parent().Params {
			if prm == v {
				idx = i
			}
		}
		for _, site := range sites {
			args := site.Common().Args
			if idx < 0 || idx >= len(args) {
				m = 0
				break
			}
			if k := minLen(site.Block(), args[idx], depth+1); k < m {
				m = k
			}
		}
		if m != 1<<40 && m > best {
			best = m
		}
	}
	return best
}

// callSitesOf lists the static call sites of fn in the analysed program (for a generic function: of all its instantiations
// when fn is the generic, of this instantiation otherwise).
func callSitesOf(fn *ssa.Function) []ssa.CallInstruction {
	pp := programOf(fn.Prog)
	if pp == nil || pp.CG == nil {
		return nil
	}
	var out []ssa.CallInstruction
	for f, node := range pp.CG.Nodes {
		if f != fn && !(f != nil && f.Origin() == fn) {
			continue
		}
		for _, e := range node.In {
			if e.Site == nil {
				return nil // called in a way that has no site (reflection, library callback): no facts
			}
			out = append(out, e.Site)
		}
	}
	return out
}

func ruleEConstIndex(p *Program, r *Reporter) {
	for _, fn := range p.ReachFuncs(p.Eval) {
		name := p.FuncName(fn)
		n := 0
		for _, b := range fn.Blocks {
			for _, in := range b.Instrs {
				var base, idx ssa.Value
				what := ""
				switch x := in.(type) {
				case *ssa.IndexAddr:
					base, idx, what = x.X, x.Index, "index"
				case *ssa.Slice:
					if x.Low == nil {
						continue
					}
					base, idx, what = x.X, x.Low, "slice-low"
				default:
					continue
				}
				c, ok := idx.(*ssa.Const)
				if !ok || c.Value == nil {
					continue
				}
				k, _ := constant.Int64Val(c.Value)
				t := base.Type().Underlying()
				if pt, ok := t.(*types.Pointer); ok {
					if _, isArr := pt.Elem().Underlying().(*types.Array); isArr {
						continue // fixed-size array: checked by the compiler
					}
				}
				if _, isSlice := t.(*types.Slice); !isSlice {
					if bt, ok := t.(*types.Basic); !ok || bt.Info()&types.IsString == 0 {
						continue
					}
				}
				// a slice literal []T{a,b} lowers to an array alloc sliced; skip stores into fresh array literals
				if sl, ok := base.(*ssa.Slice); ok {
					if _, isAlloc := sl.X.(*ssa.Alloc); isAlloc {
						continue
					}
				}
				n++
				need := k + 1
				if what == "slice-low" {
					need = k
				}
				key := fmt.Sprintf("%s %s %s[%d]#%d", name, what, describeAddr(base), k, n)
				if need <= 0 {
					r.Trivial(in.Pos(), key, "bound 0 is always in range")
					continue
				}
				if m := minLen(b, base, 0); m >= need {
					r.OK(in.Pos(), key, fmt.Sprintf("dominating facts give len >= %d", m))
				} else if m := minLenAtCallers(p, fn, base); m >= need {
					r.OK(in.Pos(), key, fmt.Sprintf("every caller hands over a slice of at least %d element(s) (one per argument of a variadic function node, which the parser never builds without arguments, or a length the caller has tested)", m))
				} else {
					r.Bad(instrPos(in), key, fmt.Sprintf("no dominating length fact guarantees len(%s) >= %d", describeAddr(base), need))
				}
			}
		}
	}
}

// minLenAtCallers: base is a slice parameter of fn; the least length every call site of fn guarantees for it: a slice
// made with one element per argument of a variadic function node (never empty: the parser's variadic helpers reject an
// empty argument list), or a length fact that dominates the call.
func minLenAtCallers(p *Program, fn *ssa.Function, base ssa.Value) int64 {
	prm, ok := base.(*ssa.Parameter)
	if !ok {
		return 0
	}
	pi := -1
	for i, q := range fn.Params {
		if q == prm {
			pi = i
		}
	}
	if pi < 0 {
		return 0
	}
	best, sites := int64(1<<40), 0
	for _, g := range p.ReachFuncs(p.Eval) {
		for _, gb := range g.Blocks {
			for _, gin := range gb.Instrs {
				gc, ok := gin.(ssa.CallInstruction)
				if !ok || gc.Common().StaticCallee() != fn || pi >= len(gc.Common().Args) {
					continue
				}
				sites++
				arg := gc.Common().Args[pi]
				m := minLen(gb, arg, 0)
				if mk, ok := arg.(*ssa.MakeSlice); ok && m < 1 {
					if c, ok := mk.Len.(*ssa.Call); ok && builtinName(&c.Call) == "len" && isFieldLoad(c.Call.Args[0], "Arguments") && variadicHelpersRejectEmpty(p) {
						m = 1
					}
				}
				if m < best {
					best = m
				}
			}
		}
	}
	if sites == 0 {
		return 0
	}
	return best
}

// nonNilFact: some dominating fact says v (by access path) is not nil.
func nonNilFact(b *ssa.BasicBlock, v ssa.Value) bool {
	for _, f := range blockFacts(b) {
		op, x, y, ok := f.rel()
		if !ok {
			continue
		}
		if op == token.NEQ && (sameValue(x, v) && isNilConst(y) || sameValue(y, v) && isNilConst(x)) {
			return true
		}
	}
	return false
}

// nonNilAtCallers: v is a parameter of an unexported function, and at every static call site of that function the
// argument is under a non-nil fact (a constructor called only on the `err != nil` branch).
func nonNilAtCallers(v ssa.Value) bool {
	prm, ok := v.(*ssa.Parameter)
	if !ok {
		return false
	}
	fn := prm.Parent()
	if obj := fn.Object(); obj == nil || obj.Exported() {
		return false
	}
	idx := -1
	for i, q := range fn.Params {
		if q == prm {
			idx = i
		}
	}
	sites := callSitesOf(fn)
	if idx < 0 || len(sites) == 0 {
		return false
	}
	for _, s := range sites {
		args := s.Common().Args
		if s.Common().IsInvoke() || idx >= len(args) || !nonNilFact(s.Block(), args[idx]) {
			return false
		}
	}
	return true
}

func ruleEReflectNil(p *Program, r *Reporter) {
	for _, fn := range p.ReachFuncs() {
		if fn.Name() != "Error" || fn.Signature.Recv() == nil {
			continue
		}
		name := p.FuncName(fn)
		n := 0
		for _, b := range fn.Blocks {
			for _, in := range b.Instrs {
				ci, ok := in.(ssa.CallInstruction)
				if !ok || !ci.Common().IsInvoke() {
					continue
				}
				recv := ci.Common().Value
				ld, ok := recv.(*ssa.UnOp)
				if !ok {
					continue
				}
				fa, ok := ld.X.(*ssa.FieldAddr)
				if !ok {
					continue
				}
				n++
				key := fmt.Sprintf("%s invokes %s.%s()#%d", name, fieldName(fa), ci.Common().Method.Name(), n)
				if nonNilFact(b, recv) {
					r.OK(in.Pos(), key, "dominated by a non-nil test of the same field")
					continue
				}
				// construction sites: every store into this field must be of a value under a non-nil fact
				st := derefType(fa.X.Type())
				sites, good := 0, 0
				for _, g := range p.ReachFuncs() {
					for _, gb := range g.Blocks {
						for _, gin := range gb.Instrs {
							s, ok := gin.(*ssa.Store)
							if !ok {
								continue
							}
							gfa, ok := s.Addr.(*ssa.FieldAddr)
							if !ok || gfa.Field != fa.Field || !types.Identical(derefType(gfa.X.Type()), st) {
								continue
							}
							sites++
							if nonNilFact(gb, s.Val) || nonNilAtCallers(s.Val) {
								good++
							}
						}
					}
				}
				if sites > 0 && sites == good {
					r.OK(in.Pos(), key, fmt.Sprintf("all %d construction sites store a value under a non-nil fact", sites))
				} else {
					r.Bad(instrPos(in), key, fmt.Sprintf("method call on field %s without a nil test; %d of %d construction sites guarantee a non-nil value (reflect.TypeOf(nil) is nil)", fieldName(fa), good, sites))
				}
			}
		}
	}
}

// nonZero: v is known to be non-zero in block b.
func nonZero(b *ssa.BasicBlock, v ssa.Value, facts []condFact, depth int) bool {
	if depth > 6 {
		return false
	}
	if c, ok := v.(*ssa.Const); ok {
		return c.Value != nil && c.Value.Kind() == constant.Int && constant.Sign(c.Value) != 0
	}
	all := append(blockFacts(b), facts...)
	for _, f := range all {
		op, x, y, ok := f.rel()
		if !ok {
			continue
		}
		if y == v {
			x, y = y, x
			op = flipOp(op)
		}
		if x != v {
			continue
		}
		c, ok := y.(*ssa.Const)
		if !ok || c.Value == nil || c.Value.Kind() != constant.Int {
			continue
		}
		k, _ := constant.Int64Val(c.Value)
		switch op {
		case token.NEQ:
			if k == 0 {
				return true
			}
		case token.GTR:
			if k >= 0 {
				return true
			}
		case token.GEQ:
			if k >= 1 {
				return true
			}
		case token.LSS:
			if k <= 0 {
				return true
			}
		case token.LEQ:
			if k <= -1 {
				return true
			}
		case token.EQL:
			if k != 0 {
				return true
			}
		}
	}
	switch x := v.(type) {
	case *ssa.Phi:
		for i, e := range x.Edges {
			pred := x.Block().Preds[i]
			var ef []condFact
			for si, s := range pred.Succs {
				if s == x.Block() {
					if c, t, ok := edgeCond(pred, si); ok {
						ef = append(ef, condFact{c, t})
					}
				}
			}
			if !nonZero(pred, e, ef, depth+1) {
				return false
			}
		}
		return true
	case *ssa.BinOp:
		if x.Op == token.MUL {
			return nonZero(b, x.X, nil, depth+1) && nonZero(b, x.Y, nil, depth+1)
		}
	case *ssa.UnOp:
		if x.Op == token.SUB {
			return nonZero(b, x.X, nil, depth+1)
		}
	}
	return false
}

// fromStepParam: v derives from a parameter that every caller fills with the Step field of a slice node.
func fromStepParam(p *Program, fn *ssa.Function, v ssa.Value, depth int) (bool, string) {
	if depth > 6 {
		return false, ""
	}
	switch x := v.(type) {
	case *ssa.Parameter:
		idx := -1
		for i, prm := range fn.Params {
			if prm == x {
				idx = i
			}
		}
		if idx < 0 {
			return false, ""
		}
		node := p.CG.Nodes[fn]
		if node == nil || len(node.In) == 0 {
			return false, ""
		}
		for _, e := range node.In {
			if e.Site == nil {
				return false, ""
			}
			arg := e.Site.Common().Args[idx]
			if c, ok := arg.(*ssa.Const); ok && c.Value != nil && c.Value.Kind() == constant.Int && constant.Sign(c.Value) != 0 {
				continue // the unit step of a slice written without one
			}
			if ld, ok := arg.(*ssa.UnOp); ok {
				if fa, ok := ld.X.(*ssa.FieldAddr); ok && fieldName(fa) == "Step" {
					continue
				}
			}
			// handed on by a caller whose own parameter is the step
			if e.Caller != nil && e.Caller.Func != nil && e.Caller.Func != fn {
				if ok, _ := fromStepParam(p, e.Caller.Func, arg, depth+1); ok {
					continue
				}
			}
			return false, ""
		}
		return true, fmt.Sprintf("parameter %s receives the Step field of a slice node at all %d call sites", x.Name(), len(node.In))
	case *ssa.BinOp:
		if x.Op == token.MUL {
			if c, ok := x.Y.(*ssa.Const); ok && c.Value != nil && constant.Sign(c.Value) != 0 {
				return fromStepParam(p, fn, x.X, depth+1)
			}
			if c, ok := x.X.(*ssa.Const); ok && c.Value != nil && constant.Sign(c.Value) != 0 {
				return fromStepParam(p, fn, x.Y, depth+1)
			}
		}
	case *ssa.UnOp:
		if x.Op == token.SUB {
			return fromStepParam(p, fn, x.X, depth+1)
		}
	case *ssa.Phi:
		// the step or its negation, whichever branch was taken
		why := ""
		for _, e := range x.Edges {
			ok, w := fromStepParam(p, fn, e, depth+1)
			if !ok {
				return false, ""
			}
			why = w
		}
		return len(x.Edges) > 0, why
	}
	return false, ""
}

func ruleEDivisor(p *Program, r *Reporter) {
	for _, fn := range p.ReachFuncs(p.Eval) {
		name := p.FuncName(fn)
		n := 0
		for _, b := range fn.Blocks {
			for _, in := range b.Instrs {
				bin, ok := in.(*ssa.BinOp)
				if !ok || (bin.Op != token.QUO && bin.Op != token.REM) {
					continue
				}
				bt, ok := bin.Type().Underlying().(*types.Basic)
				if !ok || bt.Info()&types.IsInteger == 0 {
					continue
				}
				if c, ok := bin.Y.(*ssa.Const); ok {
					if c.Value != nil && constant.Sign(c.Value) != 0 {
						continue
					}
				}
				n++
				key := fmt.Sprintf("%s %s by %s#%d", name, bin.Op, describeAddr(bin.Y), n)
				if nonZero(b, bin.Y, nil, 0) {
					r.OK(bin.Pos(), key, "divisor non-zero by a dominating sign/zero fact")
					continue
				}
				if ok, why := fromStepParam(p, fn, bin.Y, 0); ok {
					r.OK(bin.Pos(), key, "divisor is the slice step: "+why+"; non-zero by P-STEP-ZERO")
					continue
				}
				r.Bad(instrPos(bin), key, "integer "+bin.Op.String()+" by "+bin.Y.String()+" which is not known to be non-zero")
			}
		}
	}
}

func rulePStepZero(p *Program, r *Reporter) {
	for _, fn := range p.ReachFuncs(p.Parser) {
		name := p.FuncName(fn)
		for _, b := range fn.Blocks {
			for _, in := range b.Instrs {
				st, ok := in.(*ssa.Store)
				if !ok {
					continue
				}
				fa, ok := st.Addr.(*ssa.FieldAddr)
				if !ok || fieldName(fa) != "Step" {
					continue
				}
				tn := typeShort(derefType(fa.X.Type()))
				key := fmt.Sprintf("%s constructs %s.Step", name, tn)
				if !nonZero(b, st.Val, nil, 0) {
					if f := p.indexParserFacts(); f.why == "" && f.stepOK && f.paths > 0 && onlyCalledWithin(fn, f.entered) {
						r.OK(st.Pos(), key, fmt.Sprintf("the zero test is not in this function; by interpretation of the bracket-specifier parser (which this function is part of) every one of its %d accepting paths builds its node with a step known to be non-zero", f.paths))
						continue
					}
					r.Bad(instrPos(st), key, "a slice node can be built with step "+st.Val.String()+" that is not known to be non-zero (evaluation divides by it)")
					continue
				}
				r.OK(st.Pos(), key, "step is a non-zero constant or dominated by the step != 0 edge")
			}
		}
		// the zero test must return *InvalidSliceStepError
		for _, b := range fn.Blocks {
			if len(b.Instrs) == 0 {
				continue
			}
			iff, ok := b.Instrs[len(b.Instrs)-1].(*ssa.If)
			if !ok {
				continue
			}
			bin, ok := iff.Cond.(*ssa.BinOp)
			if !ok || bin.Op != token.EQL {
				continue
			}
			c, ok := bin.Y.(*ssa.Const)
			if !ok || c.Value == nil || c.Value.Kind() != constant.Int || constant.Sign(c.Value) != 0 {
				continue
			}
			// is X later stored to a Step field?
			if !flowsToStep(bin.X) {
				continue
			}
			key := fmt.Sprintf("%s step==0 edge", name)
			tb := b.Succs[0]
			good := false
			if len(tb.Instrs) > 0 {
				if ret, ok := tb.Instrs[len(tb.Instrs)-1].(*ssa.Return); ok {
					last := ret.Results[len(ret.Results)-1]
					if mi, ok := last.(*ssa.MakeInterface); ok && typeShort(mi.X.Type()) == "*parser.InvalidSliceStepError" {
						good = true
					}
				}
			}
			if good {
				r.OK(iff.Pos(), key, "step == 0 returns *InvalidSliceStepError")
			} else {
				r.Bad(blockPos(tb), key, "the step == 0 edge does not return *InvalidSliceStepError")
			}
		}
	}
}

func flowsToStep(v ssa.Value) bool {
	seen := map[ssa.Value]bool{}
	var walk func(v ssa.Value) bool
	walk = func(v ssa.Value) bool {
		if seen[v] {
			return false
		}
		seen[v] = true
		rs := v.Referrers()
		if rs == nil {
			return false
		}
		for _, ref := range *rs {
			switch x := ref.(type) {
			case *ssa.Store:
				if fa, ok := x.Addr.(*ssa.FieldAddr); ok && fieldName(fa) == "Step" && x.Val == v {
					return true
				}
			case *ssa.Phi:
				if walk(x) {
					return true
				}
			}
		}
		return false
	}
	return walk(v)
}

func ruleENoByteIndex(p *Program, r *Reporter) {
	n := 0
	for _, fn := range p.ReachFuncs(p.Eval) {
		for _, b := range fn.Blocks {
			for _, in := range b.Instrs {
				var sx ssa.Value
				switch x := in.(type) {
				case *ssa.Lookup:
					sx = x.X
				case *ssa.Index:
					sx = x.X
				default:
					continue
				}
				if bt, ok := sx.Type().Underlying().(*types.Basic); ok && bt.Info()&types.IsString != 0 {
					n++
					if v, isVal := in.(ssa.Value); isVal && asciiGatedIndex(v) {
						r.OK(in.Pos(), fmt.Sprintf("%s %s[i]", p.FuncName(fn), describeAddr(sx)), "a single byte read that is used only after it has been tested to be ASCII (below utf8.RuneSelf): an ASCII byte is a whole code point wherever it stands")
						continue
					}
					r.Bad(instrPos(in), fmt.Sprintf("%s %s[i]", p.FuncName(fn), describeAddr(sx)), "byte indexing of a string: positions in the language are code points")
				}
			}
		}
	}
	r.OK(token.NoPos, "scan", fmt.Sprintf("%d evaluator functions scanned: %d byte-index operations on strings", len(p.ReachFuncs(p.Eval)), n))
}

func ruleENonNilSlice(p *Program, r *Reporter) {
	for _, fn := range p.ReachFuncs(p.Eval) {
		name := p.FuncName(fn)
		n := 0
		for _, b := range fn.Blocks {
			for _, in := range b.Instrs {
				mi, ok := in.(*ssa.MakeInterface)
				if !ok {
					continue
				}
				switch mi.X.Type().Underlying().(type) {
				case *types.Slice, *types.Map:
				default:
					continue
				}
				if isErrorType(mi.Type()) {
					continue
				}
				n++
				key := fmt.Sprintf("%s result %s#%d", name, typeShort(mi.X.Type()), n)
				if why := mayBeLocalNil(mi.X, map[ssa.Value]bool{}); why != "" {
					r.Bad(instrPos(mi), key, "value can be a nil "+typeShort(mi.X.Type())+" ("+why+"): it serialises as null and is not the empty container")
				} else {
					r.OK(mi.Pos(), key, "allocated, or taken from the input unchanged")
				}
			}
		}
	}
}

func mayBeLocalNil(v ssa.Value, seen map[ssa.Value]bool) string {
	if seen[v] {
		return ""
	}
	seen[v] = true
	switch x := v.(type) {
	case *ssa.Const:
		if x.IsNil() {
			return "nil constant"
		}
	case *ssa.Phi:
		for _, e := range x.Edges {
			if w := mayBeLocalNil(e, seen); w != "" {
				return w
			}
		}
	case *ssa.Call:
		// a repository helper returning the container: nil when one of its returns hands out a possibly nil value
		if callee := calleeOf(&x.Call); callee != nil && len(callee.Blocks) > 0 && callee.Pkg != nil && strings.HasPrefix(callee.Pkg.Pkg.Path(), modPath) {
			if _, isTuple := x.Type().(*types.Tuple); !isTuple {
				for _, ret := range returnsOf(callee) {
					if len(ret.Results) == 1 {
						if w := mayBeLocalNil(ret.Results[0], seen); w != "" {
							return w + " returned by " + callee.Name()
						}
					}
				}
			}
		}
		// generic collectors of the standard library hand back a nil slice when there was nothing to collect
		if callee := calleeOf(&x.Call); callee != nil && originPkgPath(callee) == "slices" {
			switch nm := strings.SplitN(callee.Name(), "[", 2)[0]; nm {
			case "Collect", "Sorted", "SortedFunc", "SortedStableFunc", "Concat":
				return "slices." + nm + " returns nil when it collects no element"
			case "AppendSeq", "Insert":
				if len(x.Call.Args) > 0 {
					if w := mayBeLocalNil(x.Call.Args[0], seen); w != "" {
						return "slices." + nm + " onto a possibly nil slice of possibly zero elements"
					}
				}
			}
		}
		if builtinName(&x.Call) == "append" {
			// append(nil, zero elements...) is nil
			if w := mayBeLocalNil(x.Call.Args[0], seen); w != "" {
				if len(x.Call.Args) == 2 {
					if sl, ok := x.Call.Args[1].(*ssa.Slice); ok {
						if _, isAlloc := sl.X.(*ssa.Alloc); isAlloc {
							return "" // append(r, v): at least one element
						}
					}
				}
				return "append to a possibly nil slice of possibly zero elements"
			}
		}
	case *ssa.UnOp:
		if x.Op == token.MUL {
			if al, ok := x.X.(*ssa.Alloc); ok {
				any := false
				for _, ref := range *al.Referrers() {
					if st, ok := ref.(*ssa.Store); ok && st.Addr == al {
						any = true
						if w := mayBeLocalNil(st.Val, seen); w != "" {
							return w
						}
					}
				}
				if !any {
					return "zero-valued local"
				}
			}
		}
	}
	return ""
}

// ---------------------------------------------------------------- E-NILMAP-WRITE

func init() {
	register(&Rule{ID: "E-NILMAP-WRITE", Props: []string{"C03", "C18"}, Floor: 3,
		Doc: "every map that evaluation writes to (an element assignment, the destination of maps.Copy / maps.Insert) is one the evaluator made itself (make, a composite literal, or a value derived from those); a map taken from the caller's data, or a clone of one (maps.Clone of a nil map is nil), may be a nil map, and writing to a nil map panics",
		Run: ruleENilMapWrite})
}

// madeMap: v is a map this code allocated (never nil).
func madeMap(v ssa.Value, b *ssa.BasicBlock, seen map[ssa.Value]bool) bool {
	if seen[v] {
		return true
	}
	seen[v] = true
	if nonNilFact(b, v) {
		return true
	}
	switch x := v.(type) {
	case *ssa.MakeMap:
		return true
	case *ssa.Phi:
		for i, e := range x.Edges {
			p := x.Block().Preds[i]
			if edgeSaysNonNil(p, x.Block(), e) {
				continue
			}
			if !madeMap(e, p, seen) {
				return false
			}
		}
		return true
	case *ssa.ChangeType:
		return madeMap(x.X, b, seen)
	case *ssa.UnOp:
		if x.Op == token.MUL {
			if al, ok := x.X.(*ssa.Alloc); ok {
				n := 0
				for _, ref := range *al.Referrers() {
					if st, ok := ref.(*ssa.Store); ok && st.Addr == ssa.Value(al) {
						n++
						if !madeMap(st.Val, st.Block(), seen) {
							return false
						}
					}
				}
				return n > 0
			}
			if fa, ok := x.X.(*ssa.FieldAddr); ok {
				// a field of a local object: every store to that field of that object
				if al, ok := fa.X.(*ssa.Alloc); ok {
					n := 0
					for _, ref := range *al.Referrers() {
						if fa2, ok := ref.(*ssa.FieldAddr); ok && fa2.Field == fa.Field {
							for _, r2 := range *fa2.Referrers() {
								if st, ok := r2.(*ssa.Store); ok && st.Addr == ssa.Value(fa2) {
									n++
									if !madeMap(st.Val, st.Block(), seen) {
										return false
									}
								}
							}
						}
					}
					return n > 0
				}
			}
		}
	case *ssa.Call:
		if callee := calleeOf(&x.Call); callee != nil && len(callee.Blocks) > 0 && callee.Pkg != nil && strings.HasPrefix(callee.Pkg.Pkg.Path(), modPath) {
			if _, isTuple := x.Type().(*types.Tuple); !isTuple {
				rets := returnsOf(callee)
				for _, ret := range rets {
					if len(ret.Results) != 1 || !madeMap(ret.Results[0], ret.Block(), seen) {
						return false
					}
				}
				return len(rets) > 0
			}
		}
	case *ssa.Parameter:
		fn := x.Parent()
		if obj := fn.Object(); obj == nil || obj.Exported() {
			return false
		}
		idx := -1
		for i, q := range fn.Params {
			if q == x {
				idx = i
			}
		}
		sites := callSitesOf(fn)
		if idx < 0 || len(sites) == 0 {
			return false
		}
		for _, s := range sites {
			args := s.Common().Args
			if s.Common().IsInvoke() || idx >= len(args) || !madeMap(args[idx], s.Block(), seen) {
				return false
			}
		}
		return true
	}
	return false
}

// edgeSaysNonNil: the branch from block p to block to is taken only when v is not nil.
func edgeSaysNonNil(p, to *ssa.BasicBlock, v ssa.Value) bool {
	for si, sc := range p.Succs {
		if sc != to {
			continue
		}
		c, truth, ok := edgeCond(p, si)
		if !ok {
			continue
		}
		bo, ok := c.(*ssa.BinOp)
		if !ok {
			continue
		}
		var other ssa.Value
		switch {
		case sameValue(bo.X, v):
			other = bo.Y
		case sameValue(bo.Y, v):
			other = bo.X
		default:
			continue
		}
		if !isNilConst(other) {
			continue
		}
		if (bo.Op == token.NEQ && truth) || (bo.Op == token.EQL && !truth) {
			return true
		}
	}
	return false
}

// mapWritesByInterpretation: the function (a helper of the evaluator with a subject parameter) is interpreted on a
// symbolic subject with loops unrolled a few rounds; every map it writes to, directly or inside maps.Copy, is an object
// it allocated (the value of a nil variable assigned in the first round of a loop and written in the later ones).
func mapWritesByInterpretation(p *Program, fn *ssa.Function) (int, bool) {
	for fn.Parent() != nil {
		fn = fn.Parent()
	}
	d := newValDom(p)
	if d.why != "" {
		return 0, false
	}
	var subjIdx = -1
	for i, prm := range fn.Params {
		if isAnyType(prm.Type()) && !isNodeType(prm.Type()) {
			subjIdx = i
		}
	}
	if subjIdx < 0 {
		return 0, false
	}
	traced := false
	vr, why := d.runWith(fn, 3, nil, func(e *Engine) { e.TraceMapWrites = true; traced = true })
	if why != "" || !traced {
		return 0, false
	}
	n := 0
	for _, o := range vr.outs {
		for _, ev := range o.St.Trace {
			if ev.Kind != "mapwrite" {
				continue
			}
			if _, made := ev.Args[0].(avPtr); !made && !o.St.knownNonNil(ev.Args[0]) {
				return 0, false
			}
			n++
		}
	}
	return n, n > 0
}

func ruleENilMapWrite(p *Program, r *Reporter) {
	for _, fn := range p.ReachFuncs(p.Eval, p.Root) {
		name := p.FuncName(fn)
		n := 0
		for _, b := range fn.Blocks {
			for _, in := range b.Instrs {
				var m ssa.Value
				what := ""
				switch x := in.(type) {
				case *ssa.MapUpdate:
					m, what = x.Map, "element assignment"
				case ssa.CallInstruction:
					switch calleeFullName(x.Common()) {
					case "maps.Copy", "maps.Insert":
						if len(x.Common().Args) > 0 {
							m, what = x.Common().Args[0], calleeFullName(x.Common())
						}
					}
				}
				if m == nil {
					continue
				}
				if _, isMap := m.Type().Underlying().(*types.Map); !isMap {
					continue
				}
				n++
				key := fmt.Sprintf("%s map write#%d (%s)", name, n, what)
				if madeMap(m, b, map[ssa.Value]bool{}) {
					r.OK(in.Pos(), key, "the map written to was made by the evaluator (or is tested not to be nil)")
				} else if n, ok := mapWritesByInterpretation(p, fn); ok {
					r.OK(in.Pos(), key, fmt.Sprintf("by interpretation of %s: on each of its paths every map written to (%d writes) is one the function made before", name, n))
				} else {
					r.Bad(instrPos(in), key, "the map written to ("+describeAddr(m)+") may be a nil map (taken from the data, or a clone of such a map): writing to a nil map panics")
				}
			}
		}
	}
}
