package main

import (
	"fmt"
	"go/ast"
	"go/constant"
	"go/token"
	"go/types"
	"sort"
	"strings"

	"golang.org/x/tools/go/packages"
)

func init() {
	register(&Rule{ID: "P-DEAD-TOKEN-TEST", Props: []string{"C02", "C08", "C04", "C01"}, Floor: 20,
		Doc: "no token test is unreachable: in a run of consecutive if statements on the same token field, a test that follows `if tok != X { return }` must be about X; inside `case X:` of a switch on a token field, a test of the same field against another token before any advance is dead (it was meant for the look-ahead token)",
		Run: rulePDeadTokenTest})
}

// ---------------------------------------------------------------- table extraction helpers

type precTable struct {
	fd    *ast.FuncDecl
	power map[string]int64
	dflt  int64
	why   string
}

func findPrecedence(p *Program) *precTable {
	pk := p.Parser
	var cands []*ast.FuncDecl
	for _, fd := range p.FuncDecls(pk) {
		if fd.Recv != nil {
			continue
		}
		sig, ok := pk.TypesInfo.Defs[fd.Name].Type().(*types.Signature)
		if !ok || sig.Params().Len() != 1 || sig.Results().Len() != 1 {
			continue
		}
		if isTokenType(sig.Params().At(0).Type()) {
			if b, ok := sig.Results().At(0).Type().Underlying().(*types.Basic); ok && b.Kind() == types.Int {
				cands = append(cands, fd)
			}
		}
	}
	if len(cands) != 1 {
		return &precTable{why: fmt.Sprintf("%d functions of signature func(lexer.TokenType) int in the parser (expected the binding-power table)", len(cands))}
	}
	fd := cands[0]
	t := &precTable{fd: fd, power: map[string]int64{}}
	if len(fd.Body.List) == 0 {
		t.why = "empty body"
		return t
	}
	sw, ok := fd.Body.List[0].(*ast.SwitchStmt)
	if !ok || sw.Tag == nil {
		t.why = "body is not a switch on the token"
		return t
	}
	retConst := func(stmts []ast.Stmt) (int64, bool) {
		if len(stmts) != 1 {
			return 0, false
		}
		ret, ok := stmts[0].(*ast.ReturnStmt)
		if !ok || len(ret.Results) != 1 {
			return 0, false
		}
		return constInt(pk, ret.Results[0])
	}
	hasDefault := false
	for _, c := range sw.Body.List {
		cc := c.(*ast.CaseClause)
		v, ok := retConst(cc.Body)
		if !ok {
			t.why = "a clause is not `return <constant>` at " + p.Pos(cc.Pos())
			return t
		}
		if cc.List == nil {
			t.dflt, hasDefault = v, true
			continue
		}
		for _, e := range cc.List {
			n := tokenConstName(pk, e)
			if n == "" {
				t.why = "case expression is not a token constant"
				return t
			}
			t.power[n] = v
		}
	}
	if !hasDefault {
		// a trailing `return k` after the switch
		if len(fd.Body.List) == 2 {
			if v, ok := retConst(fd.Body.List[1:]); ok {
				t.dflt, hasDefault = v, true
			}
		}
	}
	if !hasDefault {
		t.why = "no default power"
	}
	return t
}

func (t *precTable) of(tok string) int64 {
	if v, ok := t.power[tok]; ok {
		return v
	}
	return t.dflt
}

var binaryGroups = [][]string{
	{"PipeToken"},
	{"OrToken"},
	{"AndToken"},
	{"EqualToken", "NotEqualToken", "LessToken", "LessOrEqualToken", "GreaterToken", "GreaterOrEqualToken"},
	{"AddToken", "SubtractToken"},
	{"AsteriskToken", "MultiplyToken", "DivideToken", "IntegerDivideToken", "ModuloToken"},
}
var selectorGroups = [][]string{
	{"FlattenToken"},
	{"ObjectWildcardToken"},
	{"FilterToken"},
	{"DotToken"},
	{"NotToken"},
	{"ArrayWildcardToken", "OpenSqBraceToken"},
}

func (t *precTable) maxBinary() int64 {
	m := int64(0)
	for _, g := range binaryGroups {
		for _, tok := range g {
			if v := t.of(tok); v > m {
				m = v
			}
		}
	}
	return m
}

func rulePPrecTable(p *Program, r *Reporter) {
	t := findPrecedence(p)
	if t.why != "" {
		pos := token.NoPos
		if t.fd != nil {
			pos = t.fd.Pos()
		}
		r.Unknown(pos, "binding-power table", t.why)
		return
	}
	pos := t.fd.Pos()
	groups := append(append([][]string{}, binaryGroups...), selectorGroups...)
	listed := map[string]bool{}
	prev := t.dflt
	prevName := "default"
	for _, g := range groups {
		v0 := t.of(g[0])
		for _, tok := range g {
			listed[tok] = true
			key := "power " + tok
			v := t.of(tok)
			switch {
			case v != v0:
				r.Bad(pos, key, fmt.Sprintf("%s has power %d but %s of the same precedence level has %d", tok, v, g[0], v0))
			case v <= prev:
				r.Bad(pos, key, fmt.Sprintf("%s has power %d which is not above the next looser level (%s = %d)", tok, v, prevName, prev))
			default:
				r.OK(pos, key, fmt.Sprintf("power %d, above %s (%d)", v, prevName, prev))
			}
		}
		prev, prevName = v0, g[0]
	}
	var extra []string
	for tok := range t.power {
		if !listed[tok] {
			extra = append(extra, tok)
		}
	}
	sort.Strings(extra)
	for _, tok := range extra {
		if t.power[tok] != t.dflt {
			r.Bad(pos, "power "+tok, fmt.Sprintf("%s is not an infix operator or selector but has binding power %d: the Pratt loops would try to continue an expression with it", tok, t.power[tok]))
		}
	}
	if t.dflt != 0 {
		r.Bad(pos, "power default", fmt.Sprintf("tokens that end an expression have power %d, expected 0", t.dflt))
	} else {
		r.OK(pos, "power default", "every other token has power 0")
	}
}

// evalPower evaluates a power argument: integer constant or precedence(lexer.X).
func evalPower(pk *packages.Package, t *precTable, e ast.Expr) (int64, string, bool) {
	if v, ok := constInt(pk, e); ok {
		return v, "const", true
	}
	if call, ok := ast.Unparen(e).(*ast.CallExpr); ok && len(call.Args) == 1 {
		if id, ok := call.Fun.(*ast.Ident); ok && t.fd != nil && pk.TypesInfo.Uses[id] == pk.TypesInfo.Defs[t.fd.Name] {
			if tok := tokenConstName(pk, call.Args[0]); tok != "" {
				return t.of(tok), "table:" + tok, true
			}
		}
	}
	return 0, "", false
}

type prattLoop struct {
	fd      *ast.FuncDecl
	loop    *ast.ForStmt
	loopVar types.Object
	param   types.Object
	nodeVar types.Object
}

// isPrecCallOnCurr: e is precedence(<recv>.curr.Type)
func isPrecCallOnCurr(pk *packages.Package, t *precTable, e ast.Expr) bool {
	call, ok := ast.Unparen(e).(*ast.CallExpr)
	if !ok || len(call.Args) != 1 {
		return false
	}
	id, ok := call.Fun.(*ast.Ident)
	if !ok || t.fd == nil || pk.TypesInfo.Uses[id] != pk.TypesInfo.Defs[t.fd.Name] {
		return false
	}
	return strings.HasSuffix(selPath(call.Args[0]), ".curr.Type")
}

func findPrattLoops(p *Program, t *precTable) []*prattLoop {
	pk := p.Parser
	var out []*prattLoop
	p.inspectFuncs(pk, func(fd *ast.FuncDecl) {
		// int parameter
		var param types.Object
		if fd.Type.Params != nil {
			for _, f := range fd.Type.Params.List {
				for _, n := range f.Names {
					if b, ok := pk.TypesInfo.Defs[n].Type().Underlying().(*types.Basic); ok && b.Kind() == types.Int {
						param = pk.TypesInfo.Defs[n]
					}
				}
			}
		}
		if param == nil {
			return
		}
		ast.Inspect(fd.Body, func(n ast.Node) bool {
			fs, ok := n.(*ast.ForStmt)
			if !ok || fs.Cond == nil {
				return true
			}
			be := prattCompare(fs.Cond)
			if be == nil {
				return true
			}
			xi, xok := ast.Unparen(be.X).(*ast.Ident)
			yi, yok := ast.Unparen(be.Y).(*ast.Ident)
			if !xok || !yok {
				return true
			}
			xo, yo := pk.TypesInfo.Uses[xi], pk.TypesInfo.Uses[yi]
			var lv types.Object
			if yo == param {
				lv = xo
			} else if xo == param {
				lv = yo
			} else {
				return true
			}
			if lv == nil || lv == param {
				return true
			}
			pl := &prattLoop{fd: fd, loop: fs, loopVar: lv, param: param}
			// node variable: the first result-typed local of interface type Node assigned in the loop
			ast.Inspect(fs.Body, func(m ast.Node) bool {
				as, ok := m.(*ast.AssignStmt)
				if !ok || pl.nodeVar != nil {
					return true
				}
				if id, ok := as.Lhs[0].(*ast.Ident); ok {
					if o := pk.TypesInfo.Uses[id]; o != nil && namedIs(o.Type(), pk.PkgPath, "Node") {
						pl.nodeVar = o
					}
				}
				return true
			})
			out = append(out, pl)
			return true
		})
	})
	return out
}

// prattCompare extracts the power comparison of a Pratt loop condition: `a > b`, or `flag || a > b`
// (a boolean flag may force the first iteration).
func prattCompare(cond ast.Expr) *ast.BinaryExpr {
	be, ok := ast.Unparen(cond).(*ast.BinaryExpr)
	if !ok {
		return nil
	}
	if be.Op == token.LOR {
		if _, isIdent := ast.Unparen(be.X).(*ast.Ident); isIdent {
			return prattCompare(be.Y)
		}
		return nil
	}
	switch be.Op {
	case token.GTR, token.GEQ, token.LSS, token.LEQ:
		return be
	}
	return nil
}

// powerArg returns the power argument of a call to one of the parser's precedence-driven methods.
func powerArg(pk *packages.Package, call *ast.CallExpr) (string, ast.Expr) {
	m := methodCallName(pk, call)
	switch {
	case (m == "expression" || m == "projection") && len(call.Args) == 1:
		return m, call.Args[0]
	case m == "infix" && len(call.Args) >= 2:
		return m, call.Args[1]
	}
	return "", nil
}

func methodCallName(pk *packages.Package, call *ast.CallExpr) string {
	sel, ok := call.Fun.(*ast.SelectorExpr)
	if !ok {
		return ""
	}
	if f, ok := pk.TypesInfo.Uses[sel.Sel].(*types.Func); ok && f.Pkg() == pk.Types {
		if sig := f.Type().(*types.Signature); sig.Recv() != nil {
			return f.Name()
		}
	}
	return ""
}

func rulePPratt(p *Program, r *Reporter) {
	pk := p.Parser
	t := findPrecedence(p)
	if t.why != "" {
		r.Unknown(token.NoPos, "pratt loops", "binding-power table not understood: "+t.why)
		return
	}
	loops := findPrattLoops(p, t)
	if len(loops) < 1 {
		r.Unknown(token.NoPos, "pratt loops", "no Pratt loop found (a for loop comparing a token power with the function's power parameter)")
	}
	maxBin := t.maxBinary()
	for _, pl := range loops {
		name := DeclName(pl.fd)
		be := prattCompare(pl.loop.Cond)
		// (a) strictness
		lhsIsVar := false
		if id, ok := ast.Unparen(be.X).(*ast.Ident); ok && pk.TypesInfo.Uses[id] == pl.loopVar {
			lhsIsVar = true
		}
		strict := lhsIsVar && be.Op == token.GTR || !lhsIsVar && be.Op == token.LSS
		if strict {
			r.OK(pl.loop.Pos(), name+" loop condition", "continues only while the operator binds strictly tighter: `"+exprStr(be)+"`")
		} else {
			r.Bad(pl.loop.Pos(), name+" loop condition", "`"+exprStr(be)+"` is not the strict test newPower > callerPower: operators of equal precedence would associate to the right")
		}
		// (c) refresh: last statement of the body (or the post statement) re-reads the power; no continue skips it
		refresh := func(s ast.Stmt) bool {
			as, ok := s.(*ast.AssignStmt)
			if !ok || len(as.Lhs) != 1 || len(as.Rhs) != 1 {
				return false
			}
			id, ok := as.Lhs[0].(*ast.Ident)
			if !ok || pk.TypesInfo.Uses[id] != pl.loopVar {
				return false
			}
			return isPrecCallOnCurr(pk, t, as.Rhs[0])
		}
		body := pl.loop.Body.List
		switch {
		case pl.loop.Post != nil && refresh(pl.loop.Post):
			r.OK(pl.loop.Pos(), name+" power refresh", "post statement re-reads the power of the current token")
		case len(body) > 0 && refresh(body[len(body)-1]):
			cont := token.NoPos
			ast.Inspect(pl.loop.Body, func(n ast.Node) bool {
				switch x := n.(type) {
				case *ast.ForStmt, *ast.RangeStmt, *ast.FuncLit:
					return false
				case *ast.BranchStmt:
					if x.Tok == token.CONTINUE {
						cont = x.Pos()
					}
				}
				return true
			})
			if cont.IsValid() {
				r.Bad(cont, name+" power refresh", "a continue statement skips the re-reading of the current token's power: the next iteration dispatches with a stale power and mis-groups the following operators")
			} else {
				r.OK(pl.loop.Pos(), name+" power refresh", "last statement of the loop re-reads the power of the current token; no continue skips it")
			}
		default:
			r.Bad(pl.loop.Pos(), name+" power refresh", "the loop does not end by re-reading the binding power of the current token")
		}
		// (b) recursion power and projection arguments
		n := 0
		ast.Inspect(pl.loop.Body, func(nd ast.Node) bool {
			call, ok := nd.(*ast.CallExpr)
			if !ok {
				return true
			}
			m, arg := powerArg(pk, call)
			if m == "" {
				return true
			}
			n++
			key := fmt.Sprintf("%s loop call#%d %s(%s)", name, n, m, exprStr(arg))
			if id, ok := ast.Unparen(arg).(*ast.Ident); ok && pk.TypesInfo.Uses[id] == pl.loopVar {
				r.OK(call.Pos(), key, "recurses with exactly the operator's own power (left associative)")
				return true
			}
			if m == "projection" {
				if v, how, ok := evalPower(pk, t, arg); ok && strings.HasPrefix(how, "table:") && v > maxBin {
					r.OK(call.Pos(), key, fmt.Sprintf("projection right-hand side parsed at table power %d (> every binary operator, %d)", v, maxBin))
					return true
				}
			}
			r.Bad(call.Pos(), key, "inside the Pratt loop the recursion must use the loop's own power variable (or, for projection(), a table power above every binary operator); `"+exprStr(arg)+"` changes how following operators group")
			return true
		})
	}
}

func rulePEntryPower(p *Program, r *Reporter) {
	pk := p.Parser
	t := findPrecedence(p)
	if t.why != "" {
		r.Unknown(token.NoPos, "entry powers", "binding-power table not understood: "+t.why)
		return
	}
	loops := findPrattLoops(p, t)
	inLoop := func(pos token.Pos) bool {
		for _, pl := range loops {
			if pos >= pl.loop.Body.Pos() && pos <= pl.loop.Body.End() {
				return true
			}
		}
		return false
	}
	pipe := t.of("PipeToken")
	maxBin := t.maxBinary()
	p.inspectFuncs(pk, func(fd *ast.FuncDecl) {
		name := DeclName(fd)
		var ownParam types.Object
		if fd.Type.Params != nil {
			for _, f := range fd.Type.Params.List {
				for _, nm := range f.Names {
					if b, ok := pk.TypesInfo.Defs[nm].Type().Underlying().(*types.Basic); ok && b.Kind() == types.Int {
						ownParam = pk.TypesInfo.Defs[nm]
					}
				}
			}
		}
		n := 0
		ast.Inspect(fd.Body, func(nd ast.Node) bool {
			call, ok := nd.(*ast.CallExpr)
			if !ok {
				return true
			}
			m, arg := powerArg(pk, call)
			if m == "" || inLoop(call.Pos()) {
				return true
			}
			n++
			key := fmt.Sprintf("%s call#%d %s(%s)", name, n, m, exprStr(arg))
			if id, ok := ast.Unparen(arg).(*ast.Ident); ok && ownParam != nil && pk.TypesInfo.Uses[id] == ownParam {
				r.OK(call.Pos(), key, "continues at the caller's own power")
				return true
			}
			v, how, ok := evalPower(pk, t, arg)
			if !ok {
				r.Bad(call.Pos(), key, "power argument is neither a constant nor a table lookup (power arithmetic changes grouping)")
				return true
			}
			switch {
			case m == "projection":
				if strings.HasPrefix(how, "table:") && v > maxBin {
					r.OK(call.Pos(), key, fmt.Sprintf("projection right-hand side at table power %d (> %d)", v, maxBin))
				} else {
					r.Bad(call.Pos(), key, fmt.Sprintf("projection right-hand side parsed at power %d which does not stop at binary operators (max %d)", v, maxBin))
				}
			case how == "const":
				if v >= 0 && v < pipe {
					r.OK(call.Pos(), key, fmt.Sprintf("entry power %d below the pipe (%d): the sub-expression extends over every operator", v, pipe))
				} else {
					r.Bad(call.Pos(), key, fmt.Sprintf("sub-expression parsed at power %d which is not below the pipe (%d): operators looser than that end it early", v, pipe))
				}
			default:
				if v >= maxBin {
					r.OK(call.Pos(), key, fmt.Sprintf("prefix-operator operand at table power %d (>= every binary operator, %d)", v, maxBin))
				} else {
					r.Bad(call.Pos(), key, fmt.Sprintf("operand/sub-expression parsed at table power %d: it is neither an entry power (< %d) nor at or above every binary operator (%d), so some binary operators are absorbed and others are not", v, pipe, maxBin))
				}
			}
			return true
		})
	})
}

// ---------------------------------------------------------------- P-FUNC-TABLE

type funcSpec struct {
	min, max int // max -1 = unbounded
	expref   int // 0 none
	nodes    []string
}

var builtinSpecs = map[string]funcSpec{
	"abs": {1, 1, 0, []string{"AbsNode"}}, "avg": {1, 1, 0, []string{"AvgNode"}}, "ceil": {1, 1, 0, []string{"CeilNode"}},
	"contains": {2, 2, 0, []string{"ContainsNode"}}, "ends_with": {2, 2, 0, []string{"EndsWithNode"}},
	"find_first": {2, 4, 0, []string{"FindFirstNode", "FindFirstFromNode", "FindFirstBetweenNode"}},
	"find_last":  {2, 4, 0, []string{"FindLastNode", "FindLastFromNode", "FindLastBetweenNode"}},
	"floor":      {1, 1, 0, []string{"FloorNode"}}, "from_items": {1, 1, 0, []string{"FromItemsNode"}},
	"group_by": {2, 2, 2, []string{"GroupByNode"}}, "items": {1, 1, 0, []string{"ItemsNode"}}, "join": {2, 2, 0, []string{"JoinNode"}},
	"keys": {1, 1, 0, []string{"KeysNode"}}, "length": {1, 1, 0, []string{"LengthNode"}}, "lower": {1, 1, 0, []string{"LowerNode"}},
	"map": {2, 2, 1, []string{"MapNode"}}, "max": {1, 1, 0, []string{"MaxNode"}}, "max_by": {2, 2, 2, []string{"MaxByNode"}},
	"merge": {1, -1, 0, []string{"MergeNode"}}, "min": {1, 1, 0, []string{"MinNode"}}, "min_by": {2, 2, 2, []string{"MinByNode"}},
	"not_null": {1, -1, 0, []string{"NotNullNode"}},
	"pad_left": {2, 3, 0, []string{"PadSpaceLeftNode", "PadLeftNode"}}, "pad_right": {2, 3, 0, []string{"PadSpaceRightNode", "PadRightNode"}},
	"replace": {3, 4, 0, []string{"ReplaceNode", "ReplaceCountNode"}}, "reverse": {1, 1, 0, []string{"ReverseNode"}},
	"sort": {1, 1, 0, []string{"SortNode"}}, "sort_by": {2, 2, 2, []string{"SortByNode"}},
	"split": {2, 3, 0, []string{"SplitNode", "SplitCountNode"}}, "starts_with": {2, 2, 0, []string{"StartsWithNode"}},
	"sum": {1, 1, 0, []string{"SumNode"}}, "to_array": {1, 1, 0, []string{"ToArrayNode"}}, "to_number": {1, 1, 0, []string{"ToNumberNode"}},
	"to_string": {1, 1, 0, []string{"ToStringNode"}},
	"trim":      {1, 2, 0, []string{"TrimSpaceNode", "TrimNode"}}, "trim_left": {1, 2, 0, []string{"TrimSpaceLeftNode", "TrimLeftNode"}},
	"trim_right": {1, 2, 0, []string{"TrimSpaceRightNode", "TrimRightNode"}},
	"type":       {1, 1, 0, []string{"TypeNode"}}, "upper": {1, 1, 0, []string{"UpperNode"}}, "values": {1, 1, 0, []string{"ValuesNode"}},
	"zip": {1, -1, 0, []string{"ZipNode"}},
}

type helperSig struct {
	min, max int
	expref   int
	why      string
}

// helperSignature derives (min, max, expref position) of an arity helper from its syntax.
func helperSignature(p *Program, fd *ast.FuncDecl) helperSig {
	pk := p.Parser
	sig := helperSig{}
	// expression calls in source order; is any inside a for loop?
	type callAt struct {
		pos    token.Pos
		inLoop bool
	}
	var calls []callAt
	var walk func(n ast.Node, inLoop bool)
	walk = func(n ast.Node, inLoop bool) {
		ast.Inspect(n, func(m ast.Node) bool {
			switch x := m.(type) {
			case *ast.ForStmt:
				if x != n {
					walk(x.Body, true)
					return false
				}
			case *ast.CallExpr:
				if methodCallName(pk, x) == "expression" {
					calls = append(calls, callAt{x.Pos(), inLoop})
				}
			}
			return true
		})
	}
	walk(fd.Body, false)
	vararg := false
	for _, c := range calls {
		if c.inLoop {
			vararg = true
		}
	}
	nres := fd.Type.Results.NumFields() - 1
	if vararg {
		sig.min, sig.max = 0, -1
		// at least one argument: the helper starts by rejecting an immediate `)` with an arity error
		if len(fd.Body.List) > 0 {
			if ifs, ok := fd.Body.List[0].(*ast.IfStmt); ok && terminates(ifs.Body.List) {
				if be, ok := ast.Unparen(ifs.Cond).(*ast.BinaryExpr); ok && be.Op == token.EQL && tokenConstName(pk, be.Y) == "CloseParenToken" {
					ast.Inspect(ifs.Body, func(m ast.Node) bool {
						if ret, ok := m.(*ast.ReturnStmt); ok && len(ret.Results) > 0 && strings.Contains(exprStr(ret.Results[len(ret.Results)-1]), "InvalidFunctionCallError") {
							sig.min = 1
						}
						return true
					})
				}
			}
		}
		// the success return must be preceded by an append in the loop (at least one argument)
		hasAppend := false
		ast.Inspect(fd.Body, func(m ast.Node) bool {
			if c, ok := m.(*ast.CallExpr); ok {
				if id, ok := c.Fun.(*ast.Ident); ok && id.Name == "append" {
					hasAppend = true
				}
			}
			return true
		})
		if !hasAppend {
			sig.why = "variadic helper never appends an argument"
		}
		// an immediate `)` must be rejected
	} else {
		sig.max = len(calls)
		sig.min = 1 << 30
		ast.Inspect(fd.Body, func(m ast.Node) bool {
			if _, ok := m.(*ast.FuncLit); ok {
				return false
			}
			ret, ok := m.(*ast.ReturnStmt)
			if !ok || len(ret.Results) != nres+1 || !isNilIdent(pk, ret.Results[nres]) {
				return true
			}
			k := 0
			for _, e := range ret.Results[:nres] {
				if !isNilIdent(pk, e) {
					k++
				}
			}
			if k < sig.min {
				sig.min = k
			}
			if k > sig.max {
				sig.why = "a success return carries more arguments than were parsed"
			}
			return true
		})
		if sig.min == 1<<30 {
			sig.why = "no success return found"
		}
	}
	// expression-reference test
	ast.Inspect(fd.Body, func(m ast.Node) bool {
		ifs, ok := m.(*ast.IfStmt)
		if !ok {
			return true
		}
		be, ok := ast.Unparen(ifs.Cond).(*ast.BinaryExpr)
		if !ok || be.Op != token.NEQ {
			return true
		}
		if tokenConstName(pk, be.Y) != "ExpressionToken" {
			return true
		}
		// must reject
		if !terminates(ifs.Body.List) {
			return true
		}
		before := 0
		for _, c := range calls {
			if c.pos < ifs.Pos() {
				before++
			}
		}
		sig.expref = before + 1
		return true
	})
	return sig
}

func rulePFuncTable(p *Program, r *Reporter) {
	pk := p.Parser
	fd := p.FuncDecl(pk, "parser", "function")
	if fd == nil {
		r.Unknown(token.NoPos, "function table", "parser.function not found")
		return
	}
	var sw *ast.SwitchStmt
	for _, st := range fd.Body.List {
		if s, ok := st.(*ast.SwitchStmt); ok && s.Tag != nil {
			if b, ok := pk.TypesInfo.TypeOf(s.Tag).Underlying().(*types.Basic); ok && b.Info()&types.IsString != 0 {
				sw = s
			}
		}
	}
	if sw == nil {
		r.Unknown(fd.Pos(), "function table", "no switch on the function name")
		return
	}
	sigCache := map[string]helperSig{}
	seen := map[string]bool{}
	for _, c := range sw.Body.List {
		cc := c.(*ast.CaseClause)
		if cc.List == nil {
			continue
		}
		for _, e := range cc.List {
			cv := constOf(pk, e)
			if cv == nil || cv.Kind() != constant.String {
				r.Unknown(e.Pos(), "function case", "case is not a string constant")
				continue
			}
			name := constant.StringVal(cv)
			seen[name] = true
			key := "builtin " + name
			spec, known := builtinSpecs[name]
			if !known {
				r.Bad(cc.Pos(), key, "function "+name+" is not a built-in of the specification")
				continue
			}
			// helper called and nodes built
			helper := ""
			var nodes []string
			for _, st := range cc.Body {
				ast.Inspect(st, func(m ast.Node) bool {
					switch x := m.(type) {
					case *ast.CallExpr:
						if mn := methodCallName(pk, x); strings.HasPrefix(mn, "function") {
							helper = mn
						}
					case *ast.CompositeLit:
						if t := pk.TypesInfo.TypeOf(x); t != nil {
							if nt, ok := types.Unalias(t).(*types.Named); ok && strings.HasSuffix(nt.Obj().Name(), "Node") {
								nodes = append(nodes, nt.Obj().Name())
							}
						}
					}
					return true
				})
			}
			if helper == "" {
				r.Unknown(cc.Pos(), key, "no arity helper called")
				continue
			}
			hs, ok := sigCache[helper]
			if !ok {
				hfd := p.FuncDecl(pk, "parser", helper)
				if hfd == nil {
					r.Unknown(cc.Pos(), key, "helper "+helper+" not found")
					continue
				}
				hs = helperSignature(p, hfd)
				sigCache[helper] = hs
			}
			if hs.why != "" {
				r.Unknown(cc.Pos(), key, "helper "+helper+": "+hs.why)
				continue
			}
			if hs.min != spec.min || hs.max != spec.max || hs.expref != spec.expref {
				r.Bad(cc.Pos(), key, fmt.Sprintf("parsed by %s which accepts %s arguments%s; the specification gives %s%s", helper, arityStr(hs.min, hs.max), exprefStr(hs.expref), arityStr(spec.min, spec.max), exprefStr(spec.expref)))
				continue
			}
			if strings.Join(nodes, ",") != strings.Join(spec.nodes, ",") {
				r.Bad(cc.Pos(), key, "builds "+strings.Join(nodes, ",")+" but the nodes of "+name+" are "+strings.Join(spec.nodes, ","))
				continue
			}
			r.OK(cc.Pos(), key, fmt.Sprintf("%s: %s arguments%s → %s", helper, arityStr(hs.min, hs.max), exprefStr(hs.expref), strings.Join(nodes, ",")))
		}
	}
	var missing []string
	for n := range builtinSpecs {
		if !seen[n] {
			missing = append(missing, n)
		}
	}
	sort.Strings(missing)
	for _, n := range missing {
		r.Bad(sw.Pos(), "builtin "+n, "built-in function "+n+" of the specification is not recognised by the parser")
	}
	// fall-through: UnknownFunctionError
	last := fd.Body.List[len(fd.Body.List)-1]
	okUnknown := false
	if ret, ok := last.(*ast.ReturnStmt); ok && len(ret.Results) == 2 {
		if strings.Contains(exprStr(ret.Results[1]), "UnknownFunctionError") {
			okUnknown = true
		}
	}
	for _, c := range sw.Body.List {
		if cc := c.(*ast.CaseClause); cc.List == nil {
			for _, st := range cc.Body {
				if ret, ok := st.(*ast.ReturnStmt); ok && len(ret.Results) == 2 && strings.Contains(exprStr(ret.Results[1]), "UnknownFunctionError") {
					okUnknown = true
				}
			}
		}
	}
	if okUnknown {
		r.OK(last.Pos(), "unknown function", "any other name returns UnknownFunctionError")
	} else {
		r.Bad(last.Pos(), "unknown function", "an unknown function name does not return UnknownFunctionError")
	}
	// every helper rejects an immediate `)` and a surplus `,` with InvalidFunctionCallError
	var hnames []string
	for h := range sigCache {
		hnames = append(hnames, h)
	}
	sort.Strings(hnames)
	for _, h := range hnames {
		hfd := p.FuncDecl(pk, "parser", h)
		arityErrs := 0
		ast.Inspect(hfd.Body, func(m ast.Node) bool {
			if ret, ok := m.(*ast.ReturnStmt); ok && len(ret.Results) > 0 && strings.Contains(exprStr(ret.Results[len(ret.Results)-1]), "InvalidFunctionCallError") {
				arityErrs++
			}
			return true
		})
		hs := sigCache[h]
		want := hs.min // too few: one error per missing position up to min
		if hs.max >= 0 {
			want++ // too many
		}
		key := "helper " + h + " arity errors"
		if arityErrs >= want {
			r.OK(hfd.Pos(), key, fmt.Sprintf("%d InvalidFunctionCallError returns cover too few (%d positions) and too many arguments", arityErrs, hs.min))
		} else {
			r.Bad(hfd.Pos(), key, fmt.Sprintf("only %d InvalidFunctionCallError returns for a helper that must reject %d too-short forms%s", arityErrs, hs.min, map[bool]string{true: " and a surplus argument", false: ""}[hs.max >= 0]))
		}
	}
}

func arityStr(min, max int) string {
	switch {
	case max < 0:
		return fmt.Sprintf("%d or more", min)
	case min == max:
		return fmt.Sprint(min)
	}
	return fmt.Sprintf("%d to %d", min, max)
}

func exprefStr(pos int) string {
	if pos == 0 {
		return ""
	}
	return fmt.Sprintf(" with an expression reference at position %d", pos)
}
