package main

import (
	"fmt"
	"go/ast"
	"go/constant"
	"go/token"
	"go/types"
	"sort"
	"strings"

	"golang.org/x/tools/go/ssa"
)

// tokenNames maps the integer value of lexer token constants to their names.
func tokenNames(p *Program) map[int64]string {
	out := map[int64]string{}
	sc := p.Lexer.Types.Scope()
	for _, n := range sc.Names() {
		if c, ok := sc.Lookup(n).(*types.Const); ok && isTokenType(c.Type()) {
			if v, ok := constant.Int64Val(c.Val()); ok {
				out[v] = n
			}
		}
	}
	return out
}

// tokenEqFacts lists the token constants that the facts dominating b establish as equal to a loaded token type field.
func tokenEqFacts(b *ssa.BasicBlock, names map[int64]string) map[string]bool {
	out := map[string]bool{}
	for _, f := range blockFacts(b) {
		op, x, y, ok := f.rel()
		if !ok || op != token.EQL {
			continue
		}
		for _, pair := range [][2]ssa.Value{{x, y}, {y, x}} {
			c, ok := pair[1].(*ssa.Const)
			if !ok || c.Value == nil || !isTokenType(c.Type()) {
				continue
			}
			if !strings.HasSuffix(accessPath(pair[0]), ".Type") {
				continue
			}
			if v, ok := constant.Int64Val(c.Value); ok {
				out[names[v]] = true
			}
		}
	}
	return out
}

func rulePCloser(p *Program, r *Reporter) {
	names := tokenNames(p)
	type spec struct {
		closers []string
	}
	check := func(fn *ssa.Function, closers []string) {
		name := p.FuncName(fn)
		n := 0
		for _, ret := range returnsOf(fn) {
			last := ret.Results[len(ret.Results)-1]
			if !isNilConst(last) {
				continue
			}
			// a success return: first result must be non-nil to count (functions that return (nil, nil) for "nothing here" are not acceptances)
			if isNilConst(ret.Results[0]) {
				continue
			}
			n++
			key := fmt.Sprintf("%s success-return#%d", name, n)
			facts := tokenEqFacts(ret.Block(), names)
			found := ""
			for _, c := range closers {
				if facts[c] {
					found = c
				}
			}
			if found == "" && !reachableWithoutTokenEdge(fn, ret.Block(), names, closers) {
				found = strings.Join(closers, "/") + " on every path"
			}
			if found != "" {
				r.OK(ret.Pos(), key, "every path to it passes a test that the token is "+found)
			} else {
				r.Bad(ret.Pos(), key, "a success return is reachable without a dominating test for "+strings.Join(closers, "/")+": the construct is accepted without its closing token")
			}
		}
		if n == 0 {
			r.Unknown(fn.Pos(), name+" success returns", "no success return found")
		}
	}
	tbl := map[string][]string{
		"parse":        {"EndToken"},
		"filter":       {"CloseSqBraceToken"},
		"selectArray":  {"CloseSqBraceToken"},
		"index":        {"CloseSqBraceToken"},
		"selectObject": {"CloseBraceToken"},
	}
	var keys []string
	for k := range tbl {
		keys = append(keys, k)
	}
	sort.Strings(keys)
	for _, k := range keys {
		fn := p.Func(p.Parser, "parser", k)
		if fn == nil {
			r.Unknown(token.NoPos, "parser."+k, "function not found")
			continue
		}
		check(fn, tbl[k])
	}
	// arity helpers: every method of parser named function<Something>Arg
	callFn := p.RoleFunc("parser", "parser", "function")
	isArityHelper := func(fn *ssa.Function) bool {
		if fn.Signature.Recv() == nil || fn == callFn {
			return false
		}
		if strings.HasPrefix(fn.Name(), "function") {
			return true
		}
		if callFn != nil {
			for _, c := range staticCallees(callFn) {
				if c == fn && c.Signature.Recv() != nil && c.Signature.Results().Len() >= 2 {
					return true
				}
			}
		}
		return false
	}
	for _, fn := range p.ReachFuncs(p.Parser) {
		if isArityHelper(fn) {
			check(fn, []string{"CloseParenToken"})
		}
	}
	// calls of expression() that must follow a separator: selectObject fields after ':', let bindings after '=', let body after 'in'
	exprFn := p.Func(p.Parser, "parser", "expression")
	after := map[string][]string{"selectObject": {"ColonToken"}, "let": {"AssignToken", "InToken"}}
	for _, fname := range []string{"let", "selectObject"} {
		fn := p.Func(p.Parser, "parser", fname)
		if fn == nil || exprFn == nil {
			r.Unknown(token.NoPos, "parser."+fname, "function not found")
			continue
		}
		n := 0
		for _, b := range fn.Blocks {
			for _, in := range b.Instrs {
				c, ok := in.(*ssa.Call)
				if !ok || calleeOf(&c.Call) != exprFn {
					continue
				}
				n++
				key := fmt.Sprintf("parser.parser.%s expression-call#%d", fname, n)
				facts := tokenEqFacts(b, names)
				found := ""
				for _, t := range after[fname] {
					if facts[t] {
						found = t
					}
				}
				if found != "" {
					r.OK(c.Pos(), key, "parsed only after a test for "+found)
				} else {
					r.Bad(instrPos(c), key, "a sub-expression is parsed without a dominating test for "+strings.Join(after[fname], "/"))
				}
			}
		}
	}
	// parenthesised expression: the OpenParenToken case of the prefix switch tests for CloseParenToken
	pe := p.FuncDecl(p.Parser, "parser", "primaryExpression")
	if pe == nil {
		r.Unknown(token.NoPos, "parser.primaryExpression", "function not found")
		return
	}
	found := false
	ast.Inspect(pe.Body, func(n ast.Node) bool {
		cc, ok := n.(*ast.CaseClause)
		if !ok {
			return true
		}
		isParen := false
		for _, e := range cc.List {
			if tokenConstName(p.Parser, e) == "OpenParenToken" {
				isParen = true
			}
		}
		if !isParen {
			return true
		}
		found = true
		good := false
		for _, st := range cc.Body {
			if ifs, ok := st.(*ast.IfStmt); ok {
				if be, ok := ast.Unparen(ifs.Cond).(*ast.BinaryExpr); ok && be.Op == token.NEQ && tokenConstName(p.Parser, be.Y) == "CloseParenToken" && terminates(ifs.Body.List) {
					good = true
				}
			}
		}
		if good {
			r.OK(cc.Pos(), "parser.primaryExpression parenthesis", "`(` expression must be followed by `)`")
		} else {
			r.Bad(cc.Pos(), "parser.primaryExpression parenthesis", "a parenthesised expression is accepted without testing for the closing parenthesis")
		}
		return false
	})
	if !found {
		r.Unknown(pe.Pos(), "parser.primaryExpression parenthesis", "OpenParenToken case not found")
	}
}

// ---------------------------------------------------------------- P-DEAD-TOKEN-TEST

// tokenCmp decomposes `path ==/!= lexer.X`.
func tokenCmp(p *Program, cond ast.Expr) (path string, op token.Token, tok string, ok bool) {
	be, isb := ast.Unparen(cond).(*ast.BinaryExpr)
	if !isb || (be.Op != token.EQL && be.Op != token.NEQ) {
		return "", 0, "", false
	}
	if t := tokenConstName(p.Parser, be.Y); t != "" {
		if sp := selPath(be.X); sp != "" {
			return sp, be.Op, t, true
		}
	}
	if t := tokenConstName(p.Parser, be.X); t != "" {
		if sp := selPath(be.Y); sp != "" {
			return sp, be.Op, t, true
		}
	}
	return "", 0, "", false
}

func rulePDeadTokenTest(p *Program, r *Reporter) {
	pk := p.Parser
	p.inspectFuncs(pk, func(fd *ast.FuncDecl) {
		name := DeclName(fd)
		n := 0
		var doList func(list []ast.Stmt)
		doList = func(list []ast.Stmt) {
			known := map[string]string{} // path -> token it is known to equal
			for _, st := range list {
				ifs, ok := st.(*ast.IfStmt)
				if !ok || ifs.Init != nil {
					known = map[string]string{}
					continue
				}
				path, op, tok, ok := tokenCmp(p, ifs.Cond)
				if !ok {
					// an if on something else: its body may advance; forget
					known = map[string]string{}
					continue
				}
				n++
				key := fmt.Sprintf("%s test#%d %s %s %s", name, n, path, op, tok)
				if eq, have := known[path]; have {
					switch {
					case op == token.EQL && eq != tok:
						r.Bad(ifs.Pos(), key, fmt.Sprintf("unreachable: the preceding test already returned unless %s is %s, so this test for %s never holds (a guard was placed before the case it was meant to pre-empt)", path, eq, tok))
					case op == token.NEQ && eq != tok:
						r.Bad(ifs.Pos(), key, fmt.Sprintf("always true here: %s is known to be %s", path, eq))
					default:
						r.OK(ifs.Pos(), key, "consistent with the preceding guard")
					}
				} else {
					r.Trivial(ifs.Pos(), key, "reachable")
				}
				if op == token.NEQ && terminates(ifs.Body.List) && ifs.Else == nil {
					known[path] = tok
				} else if !(op == token.EQL && terminates(ifs.Body.List) && ifs.Else == nil) {
					known = map[string]string{}
				}
			}
		}
		ast.Inspect(fd.Body, func(nd ast.Node) bool {
			switch x := nd.(type) {
			case *ast.BlockStmt:
				doList(x.List)
			case *ast.CaseClause:
				doList(x.Body)
			case *ast.SwitchStmt:
				if x.Tag == nil || !isTokenType(pk.TypesInfo.TypeOf(x.Tag)) {
					return true
				}
				tagPath := selPath(x.Tag)
				if tagPath == "" {
					return true
				}
				for _, c := range x.Body.List {
					cc := c.(*ast.CaseClause)
					if cc.List == nil || len(cc.Body) == 0 {
						continue
					}
					in := map[string]bool{}
					for _, e := range cc.List {
						in[tokenConstName(pk, e)] = true
					}
					// first statement of the clause
					if ifs, ok := cc.Body[0].(*ast.IfStmt); ok && ifs.Init == nil {
						if path, op, tok, ok := tokenCmp(p, ifs.Cond); ok && path == tagPath {
							n++
							key := fmt.Sprintf("%s case-test#%d %s %s %s", name, n, path, op, tok)
							if op == token.EQL && !in[tok] {
								var cs []string
								for k := range in {
									cs = append(cs, k)
								}
								sort.Strings(cs)
								r.Bad(ifs.Pos(), key, fmt.Sprintf("inside `case %s` the switched field %s cannot be %s: the test is dead (the look-ahead token was probably meant)", strings.Join(cs, ","), path, tok))
							} else {
								r.OK(ifs.Pos(), key, "consistent with the case")
							}
						}
					}
				}
			}
			return true
		})
	})
}

// ---------------------------------------------------------------- P-LOOP-THREAD

func rulePLoopThread(p *Program, r *Reporter) {
	pk := p.Parser
	t := findPrecedence(p)
	if t.why != "" {
		r.Unknown(token.NoPos, "pratt loops", t.why)
		return
	}
	for _, pl := range findPrattLoops(p, t) {
		name := DeclName(pl.fd)
		if pl.nodeVar == nil {
			r.Unknown(pl.loop.Pos(), name+" node variable", "accumulated node variable not found")
			continue
		}
		n := 0
		ast.Inspect(pl.loop.Body, func(nd ast.Node) bool {
			as, ok := nd.(*ast.AssignStmt)
			if !ok {
				return true
			}
			id, ok := as.Lhs[0].(*ast.Ident)
			if !ok {
				return true
			}
			o := pk.TypesInfo.Uses[id]
			if o == nil {
				o = pk.TypesInfo.Defs[id]
			}
			if o != pl.nodeVar {
				return true
			}
			n++
			key := fmt.Sprintf("%s loop node-assignment#%d", name, n)
			uses := false
			for _, rhs := range as.Rhs {
				ast.Inspect(rhs, func(m ast.Node) bool {
					if i2, ok := m.(*ast.Ident); ok && pk.TypesInfo.Uses[i2] == pl.nodeVar {
						uses = true
					}
					return true
				})
			}
			if uses {
				r.OK(as.Pos(), key, "the new node is built on the previous one")
			} else {
				r.Bad(as.Pos(), key, "`"+exprStr(as.Lhs[0])+" = "+exprStr(as.Rhs[0])+"` replaces the node parsed so far instead of extending it: the left-hand part of the selector chain is silently dropped")
			}
			return true
		})
	}
}

// ---------------------------------------------------------------- P-PROJ-SIBLINGS

func caseTokens(p *Program, sw *ast.SwitchStmt) map[string]bool {
	out := map[string]bool{}
	for _, c := range sw.Body.List {
		for _, e := range c.(*ast.CaseClause).List {
			if n := tokenConstName(p.Parser, e); n != "" {
				out[n] = true
			}
		}
	}
	return out
}

func firstTokenSwitch(p *Program, n ast.Node) *ast.SwitchStmt {
	var out *ast.SwitchStmt
	ast.Inspect(n, func(m ast.Node) bool {
		if out != nil {
			return false
		}
		if sw, ok := m.(*ast.SwitchStmt); ok && sw.Tag != nil && isTokenType(p.Parser.TypesInfo.TypeOf(sw.Tag)) && strings.HasSuffix(selPath(sw.Tag), ".curr.Type") {
			out = sw
			return false
		}
		return true
	})
	return out
}

func rulePProjSiblings(p *Program, r *Reporter) {
	t := findPrecedence(p)
	if t.why != "" {
		r.Unknown(token.NoPos, "projection siblings", t.why)
		return
	}
	loops := findPrattLoops(p, t)
	if len(loops) == 0 {
		r.Unknown(token.NoPos, "projection siblings", "no Pratt loop found")
		return
	}
	minSel := t.of("ObjectWildcardToken")
	// selectors continued by the Pratt loop(s)
	want := map[string]bool{}
	for _, pl := range loops {
		if sw := firstTokenSwitch(p, pl.loop.Body); sw != nil {
			for tok := range caseTokens(p, sw) {
				if t.of(tok) >= minSel {
					want[tok] = true
				}
			}
		}
	}
	var wl []string
	for k := range want {
		wl = append(wl, k)
	}
	sort.Strings(wl)
	if len(wl) < 4 {
		r.Unknown(loops[0].loop.Pos(), "expression selectors", "fewer than 4 selector cases found in the Pratt loop")
		return
	}
	// every other token switch in the projection parser (its start, and a loop of its own if it has one) must name the same selectors
	pfd := p.FuncDecl(p.Parser, "parser", "projection")
	if pfd == nil {
		r.Unknown(token.NoPos, "projection", "parser.projection not found")
		return
	}
	nsw := 0
	ast.Inspect(pfd.Body, func(n ast.Node) bool {
		sw, ok := n.(*ast.SwitchStmt)
		if !ok || sw.Tag == nil || !isTokenType(p.Parser.TypesInfo.TypeOf(sw.Tag)) || !strings.HasSuffix(selPath(sw.Tag), ".curr.Type") {
			return true
		}
		shared := false
		for _, pl := range loops {
			if pl.fd == pfd && sw.Pos() >= pl.loop.Pos() && sw.End() <= pl.loop.End() && firstTokenSwitch(p, pl.loop.Body) == sw {
				shared = true
			}
		}
		nsw++
		site := fmt.Sprintf("projection switch#%d", nsw)
		have := caseTokens(p, sw)
		for _, tok := range wl {
			key := site + " handles " + tok
			if have[tok] {
				r.OK(sw.Pos(), key, "selector accepted in the right-hand side of a projection as in the main loop")
			} else {
				r.Bad(sw.Pos(), key, "the main Pratt loop continues an expression with "+tok+" but the right-hand side of a projection does not: the same selector chain parses differently after a projection")
			}
		}
		_ = shared
		return true
	})
	if nsw == 0 {
		r.Unknown(pfd.Pos(), "projection start", "no token switch found in parser.projection")
	}
	// every call of index() uses its is-a-projection result
	idx := p.Func(p.Parser, "parser", "index")
	if idx == nil {
		r.Unknown(token.NoPos, "index calls", "parser.index not found")
		return
	}
	for _, fn := range p.ReachFuncs(p.Parser) {
		n := 0
		for _, b := range fn.Blocks {
			for _, in := range b.Instrs {
				c, ok := in.(*ssa.Call)
				if !ok || calleeOf(&c.Call) != idx {
					continue
				}
				n++
				key := fmt.Sprintf("%s index-call#%d", p.FuncName(fn), n)
				if extractOf(c, 1) != nil {
					r.OK(c.Pos(), key, "the is-a-projection result of the slice parser is used")
				} else {
					r.Bad(instrPos(c), key, "the is-a-projection result of the slice parser is discarded: a slice in this position does not start a projection and following selectors apply to the sliced array as a whole")
				}
			}
		}
	}
}

// ---------------------------------------------------------------- P-SLICE-DEFAULTS

func rulePSliceDefaults(p *Program, r *Reporter) {
	pk := p.Parser
	fd := p.FuncDecl(pk, "parser", "index")
	if fd == nil {
		r.Unknown(token.NoPos, "parser.index", "function not found")
		return
	}
	isMath := func(e ast.Expr, name string) bool {
		sel, ok := ast.Unparen(e).(*ast.SelectorExpr)
		if !ok {
			return false
		}
		o := pk.TypesInfo.Uses[sel.Sel]
		return o != nil && o.Pkg() != nil && o.Pkg().Path() == "math" && o.Name() == name
	}
	// initial values
	inits := map[string]ast.Expr{}
	for _, st := range fd.Body.List {
		if as, ok := st.(*ast.AssignStmt); ok && as.Tok == token.DEFINE && len(as.Lhs) == 1 {
			if id, ok := as.Lhs[0].(*ast.Ident); ok {
				inits[id.Name] = as.Rhs[0]
			}
		}
	}
	chk := func(v string, ok bool, good, bad string) {
		if ok {
			r.OK(fd.Pos(), "parser.index default "+v, good)
		} else {
			r.Bad(fd.Pos(), "parser.index default "+v, bad)
		}
	}
	if e, ok := inits["start"]; ok {
		c, isC := constInt(pk, e)
		chk("start", isC && c == 0, "absent start defaults to 0", "absent start does not default to 0")
	} else {
		r.Unknown(fd.Pos(), "parser.index default start", "initialisation of start not found")
	}
	if e, ok := inits["stop"]; ok {
		chk("stop", isMath(e, "MaxInt"), "absent stop defaults to MaxInt", "absent stop does not default to math.MaxInt")
	} else {
		r.Unknown(fd.Pos(), "parser.index default stop", "initialisation of stop not found")
	}
	if e, ok := inits["step"]; ok {
		c, isC := constInt(pk, e)
		chk("step", isC && c == 1, "absent step defaults to 1", "absent step does not default to 1")
	} else {
		r.Unknown(fd.Pos(), "parser.index default step", "initialisation of step not found")
	}
	// negative-step defaults: assignments of MaxInt/MinInt to start/stop guarded by !flag under step < 0
	type negAssign struct {
		v    string
		rhs  ast.Expr
		cond ast.Expr
		pos  token.Pos
		neg  bool
	}
	var negs []negAssign
	var walk func(n ast.Node, underNeg bool, guard ast.Expr)
	walk = func(n ast.Node, underNeg bool, guard ast.Expr) {
		ast.Inspect(n, func(m ast.Node) bool {
			switch x := m.(type) {
			case *ast.IfStmt:
				if x == n {
					return true
				}
				neg := underNeg
				if be, ok := ast.Unparen(x.Cond).(*ast.BinaryExpr); ok && be.Op == token.LSS && exprStr(be.X) == "step" {
					if c, isC := constInt(pk, be.Y); isC && c == 0 {
						neg = true
					}
				}
				walk(x.Body, neg, x.Cond)
				if x.Else != nil {
					walk(x.Else, underNeg, nil)
				}
				return false
			case *ast.AssignStmt:
				if x.Tok == token.ASSIGN && len(x.Lhs) == 1 {
					if id, ok := x.Lhs[0].(*ast.Ident); ok && (id.Name == "start" || id.Name == "stop") {
						if isMath(x.Rhs[0], "MaxInt") || isMath(x.Rhs[0], "MinInt") {
							negs = append(negs, negAssign{id.Name, x.Rhs[0], guard, x.Pos(), underNeg})
						}
					}
				}
			}
			return true
		})
	}
	walk(fd.Body, false, nil)
	seenNeg := map[string]bool{}
	for _, na := range negs {
		key := "parser.index negative-step default " + na.v
		seenNeg[na.v] = true
		want := "MaxInt"
		if na.v == "stop" {
			want = "MinInt"
		}
		flagGuard := false
		if u, ok := ast.Unparen(na.cond).(*ast.UnaryExpr); ok && u.Op == token.NOT {
			if id, ok := ast.Unparen(u.X).(*ast.Ident); ok {
				if b, ok := pk.TypesInfo.TypeOf(id).Underlying().(*types.Basic); ok && b.Kind() == types.Bool {
					flagGuard = flagSetAfterParse(pk, fd, id.Name, na.v)
				}
			}
		}
		switch {
		case !na.neg:
			r.Bad(na.pos, key, "the negative-step default is applied outside a `step < 0` branch")
		case !isMath(na.rhs, want):
			r.Bad(na.pos, key, "absent "+na.v+" with a negative step must default to math."+want)
		case !flagGuard:
			r.Bad(na.pos, key, "whether "+na.v+" was written is decided by `"+exprStr(na.cond)+"`, not by a flag set where the number was parsed: an explicit bound equal to the sentinel value is treated as absent")
		default:
			r.OK(na.pos, key, "math."+want+" when the flag says "+na.v+" was not written")
		}
	}
	for _, v := range []string{"start", "stop"} {
		if !seenNeg[v] {
			r.Bad(fd.Pos(), "parser.index negative-step default "+v, "no negative-step default for an absent "+v)
		}
	}
	// project flag of returns
	n := 0
	ast.Inspect(fd.Body, func(m ast.Node) bool {
		ret, ok := m.(*ast.ReturnStmt)
		if !ok || len(ret.Results) != 3 || !isNilIdent(pk, ret.Results[2]) {
			return true
		}
		t := pk.TypesInfo.TypeOf(ret.Results[0])
		tn := strings.TrimPrefix(typeShort(t), "*")
		tn = strings.TrimPrefix(tn, "parser.")
		cv := constOf(pk, ret.Results[1])
		if cv == nil {
			return true
		}
		n++
		key := fmt.Sprintf("parser.index return#%d %s", n, tn)
		proj := constant.BoolVal(cv)
		isSlice := strings.HasPrefix(tn, "Slice")
		if isSlice == proj {
			r.OK(ret.Pos(), key, fmt.Sprintf("is-a-projection = %v", proj))
		} else {
			r.Bad(ret.Pos(), key, fmt.Sprintf("%s returned with is-a-projection = %v", tn, proj))
		}
		return true
	})
}

// flagSetAfterParse: the bool flag is assigned true exactly in a branch that also assigns v from strconv.Atoi, and nowhere else.
func flagSetAfterParse(pk interface{ String() string }, fd *ast.FuncDecl, flag, v string) bool {
	sets := 0
	good := 0
	var walk func(list []ast.Stmt)
	walk = func(list []ast.Stmt) {
		parsed := false
		for _, st := range list {
			switch x := st.(type) {
			case *ast.AssignStmt:
				if len(x.Lhs) >= 1 {
					if id, ok := x.Lhs[0].(*ast.Ident); ok {
						if id.Name == v && len(x.Rhs) == 1 {
							if c, ok := x.Rhs[0].(*ast.CallExpr); ok && strings.HasSuffix(exprStr(c.Fun), "Atoi") {
								parsed = true
							}
						}
						if id.Name == flag && x.Tok == token.ASSIGN {
							sets++
							if parsed && exprStr(x.Rhs[0]) == "true" {
								good++
							}
						}
					}
				}
			case *ast.IfStmt:
				walk(x.Body.List)
				for e := x.Else; e != nil; {
					switch y := e.(type) {
					case *ast.BlockStmt:
						walk(y.List)
						e = nil
					case *ast.IfStmt:
						walk(y.Body.List)
						e = y.Else
					default:
						e = nil
					}
				}
			case *ast.BlockStmt:
				walk(x.List)
			}
		}
	}
	walk(fd.Body.List)
	return sets == 1 && good == 1
}

// reachableWithoutTokenEdge: can target be reached from the entry block using no CFG edge on which a loaded
// token-type field is known to equal one of the closers?
func reachableWithoutTokenEdge(fn *ssa.Function, target *ssa.BasicBlock, names map[int64]string, closers []string) bool {
	isCloserEdge := func(b *ssa.BasicBlock, i int) bool {
		cond, truth, ok := edgeCond(b, i)
		if !ok {
			return false
		}
		op, x, y, ok := condFact{cond, truth}.rel()
		if !ok || op != token.EQL {
			return false
		}
		for _, pair := range [][2]ssa.Value{{x, y}, {y, x}} {
			c, ok := pair[1].(*ssa.Const)
			if !ok || c.Value == nil || !isTokenType(c.Type()) || !strings.HasSuffix(accessPath(pair[0]), ".Type") {
				continue
			}
			if v, ok := constant.Int64Val(c.Value); ok {
				for _, cl := range closers {
					if names[v] == cl {
						return true
					}
				}
			}
		}
		return false
	}
	seen := map[*ssa.BasicBlock]bool{}
	var walk func(b *ssa.BasicBlock) bool
	walk = func(b *ssa.BasicBlock) bool {
		if b == target {
			return true
		}
		if seen[b] {
			return false
		}
		seen[b] = true
		for i, s := range b.Succs {
			if isCloserEdge(b, i) {
				continue
			}
			if walk(s) {
				return true
			}
		}
		return false
	}
	return walk(fn.Blocks[0])
}

func init() {
}

func rulePProjStop(p *Program, r *Reporter) {
	pk := p.Parser
	t := findPrecedence(p)
	if t.why != "" {
		r.Unknown(token.NoPos, "projection stop levels", t.why)
		return
	}
	loops := findPrattLoops(p, t)
	want := func(tok string) (string, bool) {
		switch tok {
		case "ArrayWildcardToken", "AsteriskToken", "ObjectWildcardToken", "OpenSqBraceToken":
			return "ObjectWildcardToken", true
		case "FlattenToken":
			return "FlattenToken", true
		case "FilterToken":
			return "FilterToken", true
		}
		return "", false
	}
	p.inspectFuncs(pk, func(fd *ast.FuncDecl) {
		n := 0
		ast.Inspect(fd.Body, func(nd ast.Node) bool {
			cc, ok := nd.(*ast.CaseClause)
			if !ok || cc.List == nil {
				return true
			}
			var toks []string
			for _, e := range cc.List {
				if tn := tokenConstName(pk, e); tn != "" {
					toks = append(toks, tn)
				}
			}
			if len(toks) == 0 {
				return true
			}
			for _, st := range cc.Body {
				ast.Inspect(st, func(m ast.Node) bool {
					if _, isCase := m.(*ast.CaseClause); isCase {
						return false
					}
					call, ok := m.(*ast.CallExpr)
					if !ok {
						return true
					}
					mn, arg := powerArg(pk, call)
					if mn != "projection" {
						return true
					}
					n++
					key := fmt.Sprintf("%s case %s projection(%s)#%d", DeclName(fd), strings.Join(toks, ","), exprStr(arg), n)
					for _, tok := range toks {
						wtok, ok := want(tok)
						if !ok {
							r.Bad(call.Pos(), key, "a projection is started under a token that the specification does not make a projection: "+tok)
							return true
						}
						var got int64
						gotOK := false
						if v, _, ok := evalPower(pk, t, arg); ok {
							got, gotOK = v, true
						} else if id, ok := ast.Unparen(arg).(*ast.Ident); ok {
							for _, pl := range loops {
								if pk.TypesInfo.Uses[id] == pl.loopVar {
									got, gotOK = t.of(tok), true
								}
							}
						}
						if !gotOK {
							r.Bad(call.Pos(), key, "the right-hand side level `"+exprStr(arg)+"` is neither a table power nor the power of the token being handled")
							return true
						}
						if got != t.of(wtok) {
							r.Bad(call.Pos(), key, fmt.Sprintf("the right-hand side of the projection started by %s is parsed at power %d; this construct projects at the level of %s (%d), so following selectors are attached to the wrong operand", tok, got, wtok, t.of(wtok)))
							return true
						}
					}
					r.OK(call.Pos(), key, "right-hand side parsed at the construct's projection level")
					return true
				})
			}
			return true
		})
	})
}
