package main

import (
	"fmt"
	"go/token"
	"go/types"
	"sort"
	"strings"

	"golang.org/x/tools/go/ssa"
)

func init() {
	register(&Rule{ID: "E-RECURSION-DEPTH", Props: []string{"C03", "C09"}, Floor: 1,
		Doc: "every recursive cycle of API-reachable repository functions either carries a depth guard (a counter compared with a limit whose failing edge returns an error) or is recorded as a finding: Go cannot recover from stack exhaustion, so unbounded recursion on attacker-sized nesting is a fatal crash",
		Run: ruleERecursionDepth})
	register(&Rule{ID: "E-STRUCT-RECURSION", Props: []string{"C09"}, Floor: 54,
		Doc: "every recursive call of the evaluator descends: evaluate is called with a child of the node being evaluated (a field, an element of its argument list or of its binding map) or with the node parameter a helper received from such a call; equal recurses on members of its operands; the scope lookup recurses on the parent scope",
		Run: ruleEStructRecursion})
	register(&Rule{ID: "P-RECURSE-CONSUME", Props: []string{"C09"}, Floor: 5,
		Doc: "in the parser's recursive cycle the calls that are not preceded (dominated) by the consumption of a token form no cycle: every round trip through the recursive descent consumes at least one token",
		Run: rulePRecurseConsume})
	register(&Rule{ID: "P-LEX-PROGRESS", Props: []string{"C09", "C04"}, Floor: 2,
		Doc: "every loop of the lexer makes progress on every iteration: each back edge carries a position (or remaining-text) variable changed since the loop header",
		Run: rulePLexProgress})
	register(&Rule{ID: "P-ERRCHECK", Props: []string{"C04", "C08", "C03", "C16"}, Floor: 100,
		Doc: "no error returned by a call in API-reachable code is dropped: the error result is tested, returned or passed on (the always-nil errors of strings.Builder writes are the only exemption)",
		Run: rulePErrCheck})
}

// sccs of the static call graph restricted to reachable repository functions.
func repoSCCs(p *Program) [][]*ssa.Function {
	fns := p.ReachFuncs()
	idx := map[*ssa.Function]int{}
	low := map[*ssa.Function]int{}
	on := map[*ssa.Function]bool{}
	var stack []*ssa.Function
	var out [][]*ssa.Function
	n := 0
	callees := func(f *ssa.Function) []*ssa.Function {
		var cs []*ssa.Function
		seen := map[*ssa.Function]bool{}
		for _, b := range f.Blocks {
			for _, in := range b.Instrs {
				if ci, ok := in.(ssa.CallInstruction); ok {
					if c := calleeOf(ci.Common()); c != nil && p.IsRepo(c) && p.Reach[c] && !seen[c] {
						seen[c] = true
						cs = append(cs, c)
					}
				}
			}
		}
		return cs
	}
	var strong func(v *ssa.Function)
	strong = func(v *ssa.Function) {
		idx[v], low[v] = n, n
		n++
		stack = append(stack, v)
		on[v] = true
		for _, w := range callees(v) {
			if _, seen := idx[w]; !seen {
				strong(w)
				if low[w] < low[v] {
					low[v] = low[w]
				}
			} else if on[w] && idx[w] < low[v] {
				low[v] = idx[w]
			}
		}
		if low[v] == idx[v] {
			var comp []*ssa.Function
			for {
				w := stack[len(stack)-1]
				stack = stack[:len(stack)-1]
				on[w] = false
				comp = append(comp, w)
				if w == v {
					break
				}
			}
			self := false
			if len(comp) == 1 {
				for _, w := range callees(v) {
					if w == v {
						self = true
					}
				}
			}
			if len(comp) > 1 || self {
				out = append(out, comp)
			}
		}
	}
	for _, f := range fns {
		if _, seen := idx[f]; !seen {
			strong(f)
		}
	}
	return out
}

func ruleERecursionDepth(p *Program, r *Reporter) {
	anchors := []struct{ fn, key string }{
		{"parser.parser.expression", "parser recursive descent"},
		{"evaluator.evaluator.evaluate", "evaluator tree walk"},
		{"evaluator.equal", "deep equality"},
		{"evaluator.variableScope.get", "scope-chain lookup"},
	}
	for _, comp := range repoSCCs(p) {
		var names []string
		for _, f := range comp {
			names = append(names, p.FuncName(f))
		}
		sort.Strings(names)
		key := "recursion: " + names[0]
		for _, a := range anchors {
			for _, n := range names {
				if n == a.fn {
					key = "recursion: " + a.key
				}
			}
		}
		// depth guard: some function of the cycle compares an integer parameter/field with a constant and returns an error on the failing edge
		guarded := false
		for _, f := range comp {
			for _, b := range f.Blocks {
				if len(b.Instrs) == 0 {
					continue
				}
				iff, ok := b.Instrs[len(b.Instrs)-1].(*ssa.If)
				if !ok {
					continue
				}
				bin, ok := iff.Cond.(*ssa.BinOp)
				if !ok || (bin.Op != token.GTR && bin.Op != token.GEQ && bin.Op != token.LSS && bin.Op != token.LEQ) {
					continue
				}
				_, cy := bin.Y.(*ssa.Const)
				_, cx := bin.X.(*ssa.Const)
				if !cx && !cy {
					continue
				}
				other := bin.X
				if cx {
					other = bin.Y
				}
				if !depthLike(other) {
					continue
				}
				for _, s := range b.Succs {
					if len(s.Instrs) > 0 {
						if ret, ok := s.Instrs[len(s.Instrs)-1].(*ssa.Return); ok && len(ret.Results) > 0 && isErrorType(ret.Results[len(ret.Results)-1].Type()) && !isNilConst(ret.Results[len(ret.Results)-1]) {
							guarded = true
						}
					}
				}
			}
		}
		pos := comp[0].Pos()
		if guarded {
			r.OK(pos, key, fmt.Sprintf("cycle of %d functions with a depth guard", len(comp)))
		} else {
			show := names
			if len(show) > 6 {
				show = append(show[:6:6], "…")
			}
			r.Bad(pos, key, fmt.Sprintf("recursive cycle of %d functions (%s) without a depth limit: nesting depth proportional to the input size exhausts the stack, which is a fatal, unrecoverable runtime error", len(comp), strings.Join(show, ", ")))
		}
	}
}

// depthLike: an integer that is a parameter, a field of the receiver, or one of those plus a constant.
func depthLike(v ssa.Value) bool {
	switch x := v.(type) {
	case *ssa.Parameter:
		b, ok := x.Type().Underlying().(*types.Basic)
		return ok && b.Info()&types.IsInteger != 0 && (strings.Contains(strings.ToLower(x.Name()), "depth") || strings.Contains(strings.ToLower(x.Name()), "level"))
	case *ssa.UnOp:
		if fa, ok := x.X.(*ssa.FieldAddr); ok {
			n := strings.ToLower(fieldName(fa))
			return strings.Contains(n, "depth") || strings.Contains(n, "level")
		}
	case *ssa.BinOp:
		return depthLike(x.X) || depthLike(x.Y)
	}
	return false
}

func ruleEStructRecursion(p *Program, r *Reporter) {
	ev := p.Func(p.Eval, "evaluator", "evaluate")
	if ev == nil {
		r.Unknown(token.NoPos, "evaluate", "evaluator.evaluate not found")
		return
	}
	isNode := func(t types.Type) bool { return namedIs(t, p.Parser.PkgPath, "Node") }
	// child of the dispatcher's node: field load, element of a field (array/slice/map range)
	var childOfNode func(v ssa.Value, depth int) bool
	childOfNode = func(v ssa.Value, depth int) bool {
		if depth > 6 {
			return false
		}
		switch x := v.(type) {
		case *ssa.UnOp:
			if x.Op != token.MUL {
				return false
			}
			switch a := x.X.(type) {
			case *ssa.FieldAddr:
				return true
			case *ssa.IndexAddr:
				_ = a
				return true
			}
		case *ssa.Extract:
			if nx, ok := x.Tuple.(*ssa.Next); ok {
				if rg, ok := nx.Iter.(*ssa.Range); ok {
					return childOfNode(rg.X, depth+1) || isFieldLoad(rg.X, "Variables") || isFieldLoad(rg.X, "Fields")
				}
			}
		case *ssa.Field:
			return true
		}
		return false
	}
	for _, fn := range p.ReachFuncs(p.Eval) {
		name := p.FuncName(fn)
		n := 0
		for _, b := range fn.Blocks {
			for _, in := range b.Instrs {
				c, ok := in.(*ssa.Call)
				if !ok {
					continue
				}
				callee := calleeOf(&c.Call)
				if callee == nil || !p.IsRepo(callee) {
					continue
				}
				// node-typed arguments
				for ai, arg := range c.Call.Args {
					if !isNode(arg.Type()) {
						continue
					}
					n++
					key := fmt.Sprintf("%s node-arg#%d to %s", name, n, callee.Name())
					switch {
					case fn == ev && childOfNode(arg, 0):
						r.Trivial(c.Pos(), key, "a child of the node being evaluated")
					case fn != ev:
						if prm, ok := arg.(*ssa.Parameter); ok && isNode(prm.Type()) {
							r.Trivial(c.Pos(), key, "the node the helper received from the dispatcher (a child of the dispatcher's node)")
						} else if partOfParam(arg, 0) {
							r.Trivial(c.Pos(), key, "a part (field, element, member) of something the helper received: still descending")
						} else if prm, _ := capturedParam(fn, arg); prm != nil && isNode(prm.Type()) {
							r.Trivial(c.Pos(), key, "the node the enclosing helper received, captured by a closure and never reassigned")
						} else if fn.Name() == "Evaluate" {
							r.Trivial(c.Pos(), key, "entry point")
						} else {
							r.Bad(instrPos(c), key, fmt.Sprintf("argument %d is not the helper's own node parameter: the recursion is not structural", ai))
						}
					default:
						r.Bad(instrPos(c), key, "the dispatcher passes on a node that is not a child of the node being evaluated ("+arg.String()+"): evaluation can recurse without descending")
					}
				}
			}
		}
	}
	// equal: recursive calls take members of the operands
	if eq := p.Func(p.Eval, "", "equal"); eq != nil {
		n := 0
		for _, b := range eq.Blocks {
			for _, in := range b.Instrs {
				c, ok := in.(*ssa.Call)
				if !ok || calleeOf(&c.Call) != eq {
					continue
				}
				n++
				key := fmt.Sprintf("evaluator.equal recursive-call#%d", n)
				good := true
				for _, arg := range c.Call.Args {
					switch x := arg.(type) {
					case *ssa.Extract, *ssa.Lookup:
					case *ssa.UnOp:
						if _, ok := x.X.(*ssa.IndexAddr); !ok {
							good = false
						}
					default:
						good = false
					}
				}
				if good {
					r.OK(c.Pos(), key, "recurses on members of both operands")
				} else {
					r.Bad(instrPos(c), key, "recursive comparison is not on members of the operands")
				}
			}
		}
	}
}

func rulePRecurseConsume(p *Program, r *Reporter) {
	// token consumers: the parser's loop-free methods that call into the lexer (advance, advance2 whatever they are called)
	consumers := map[string]bool{"advance": true, "advance2": true}
	consumerFn := map[*ssa.Function]bool{}
	for _, f := range p.Funcs {
		if f.Pkg == nil || f.Pkg.Pkg != p.Parser.Types || f.Parent() != nil || len(loopsOf(f)) > 0 {
			continue
		}
		for _, c := range staticCallees(f) {
			if c.Pkg != nil && strings.HasSuffix(c.Pkg.Pkg.Path(), "/lexer") {
				consumerFn[f] = true
			}
		}
	}
	var comp []*ssa.Function
	for _, c := range repoSCCs(p) {
		for _, f := range c {
			if p.FuncName(f) == "parser.parser.expression" {
				comp = c
			}
		}
	}
	if comp == nil {
		r.Unknown(token.NoPos, "parser recursion", "the recursive cycle containing parser.expression was not found")
		return
	}
	in := map[*ssa.Function]bool{}
	for _, f := range comp {
		in[f] = true
	}
	// non-consuming edges
	edges := map[*ssa.Function][]*ssa.Function{}
	nEdges := 0
	for _, f := range comp {
		// blocks reachable from entry without passing a consuming call
		consumesIn := func(b *ssa.BasicBlock, upto int) bool {
			for i, ins := range b.Instrs {
				if upto >= 0 && i >= upto {
					break
				}
				if c, ok := ins.(*ssa.Call); ok {
					if cf := calleeOf(&c.Call); cf != nil && (consumers[cf.Name()] || consumerFn[cf]) {
						return true
					}
				}
			}
			return false
		}
		reach := map[*ssa.BasicBlock]bool{}
		var walk func(b *ssa.BasicBlock)
		walk = func(b *ssa.BasicBlock) {
			if reach[b] {
				return
			}
			reach[b] = true
			if consumesIn(b, -1) {
				return
			}
			for _, s := range b.Succs {
				walk(s)
			}
		}
		walk(f.Blocks[0])
		for b := range reach {
			for i, ins := range b.Instrs {
				c, ok := ins.(*ssa.Call)
				if !ok {
					continue
				}
				cf := calleeOf(&c.Call)
				if cf == nil || !in[cf] {
					continue
				}
				if consumesIn(b, i) {
					continue
				}
				edges[f] = append(edges[f], cf)
				nEdges++
			}
		}
	}
	// cycle detection
	color := map[*ssa.Function]int{}
	var cyc []string
	var dfs func(f *ssa.Function, path []string) bool
	dfs = func(f *ssa.Function, path []string) bool {
		color[f] = 1
		path = append(path, p.FuncName(f))
		for _, g := range edges[f] {
			if color[g] == 1 {
				cyc = append(path, p.FuncName(g))
				return true
			}
			if color[g] == 0 && dfs(g, path) {
				return true
			}
		}
		color[f] = 2
		return false
	}
	found := false
	for _, f := range comp {
		if color[f] == 0 && dfs(f, nil) {
			found = true
			break
		}
	}
	for _, f := range comp {
		var ts []string
		for _, g := range edges[f] {
			ts = append(ts, g.Name())
		}
		sort.Strings(ts)
		r.Trivial(f.Pos(), "non-consuming calls of "+p.FuncName(f), strings.Join(ts, ","))
	}
	if found {
		r.Bad(comp[0].Pos(), "parser recursion consumes input", "the parser can recurse without consuming a token: "+strings.Join(cyc, " → "))
	} else {
		r.OK(comp[0].Pos(), "parser recursion consumes input", fmt.Sprintf("%d functions in the cycle; the %d calls made before any token is consumed form no cycle", len(comp), nEdges))
	}
}

func rulePLexProgress(p *Program, r *Reporter) {
	// the scanners of the lexer; the literal decoders of the parser are covered by P-DECODE (every shape of text is
	// decoded to the end within the bound)
	fns := p.ReachFuncs(p.Lexer)
	for _, fn := range fns {
		name := p.FuncName(fn)
		loops := loopsOf(fn)
		var hs []*ssa.BasicBlock
		for h := range loops {
			hs = append(hs, h)
		}
		sortBlocks(hs)
		for i, h := range hs {
			body := loops[h]
			key := fmt.Sprintf("%s loop#%d", name, i+1)
			// range loops are bounded by construction
			isRange := false
			for _, in := range h.Instrs {
				if _, ok := in.(*ssa.Next); ok {
					isRange = true
				}
			}
			if isRange {
				r.Trivial(blockPos(h), key, "range loop")
				continue
			}
			// progress variables: header phis of int/string type; each back edge must carry a changed value for at least one of them,
			// or the loop stores to a position field on every path around
			bad := ""
			for pi, pred := range h.Preds {
				if !body[pred] {
					continue
				}
				progressed := false
				for _, in := range h.Instrs {
					phi, ok := in.(*ssa.Phi)
					if !ok {
						continue
					}
					bt, ok := phi.Type().Underlying().(*types.Basic)
					if !ok || bt.Info()&(types.IsInteger|types.IsString) == 0 {
						continue
					}
					if changedSince(phi.Edges[pi], phi, map[ssa.Value]bool{}) {
						progressed = true
					}
				}
				if !progressed {
					// a store to a field (l.position) in a block dominating the back edge source
					for blk := range body {
						if !blk.Dominates(pred) {
							continue
						}
						for _, in := range blk.Instrs {
							if st, ok := in.(*ssa.Store); ok {
								if _, ok := st.Addr.(*ssa.FieldAddr); ok {
									progressed = true
								}
							}
							// a call that advances a cursor it is given by address (c.read()): the callee stores to a field
							// through that pointer
							if c, ok := in.(*ssa.Call); ok {
								if cf := calleeOf(&c.Call); cf != nil && p.IsRepo(cf) && storesThroughParam(cf) {
									progressed = true
								}
							}
						}
					}
				}
				if !progressed {
					bad = "a back edge (from block " + fmt.Sprint(pred.Index) + ") reaches the loop header with every position variable unchanged"
				}
			}
			if bad != "" {
				r.Bad(blockPos(h), key, bad+": the scanner can loop forever on some input")
			} else {
				r.OK(blockPos(h), key, "every back edge carries an advanced position / shortened remaining text")
			}
		}
	}
}

// storesThroughParam: the function stores to a field reached through one of its pointer parameters (its receiver).
func storesThroughParam(fn *ssa.Function) bool {
	for _, b := range fn.Blocks {
		for _, in := range b.Instrs {
			st, ok := in.(*ssa.Store)
			if !ok {
				continue
			}
			if fa, ok := st.Addr.(*ssa.FieldAddr); ok {
				base := fa.X
				for {
					if f2, ok := base.(*ssa.FieldAddr); ok {
						base = f2.X
						continue
					}
					break
				}
				if _, isParam := base.(*ssa.Parameter); isParam {
					return true
				}
			}
		}
	}
	return false
}

// changedSince: v differs from phi on every path (it is phi plus something, or a reslice of it).
func changedSince(v ssa.Value, phi *ssa.Phi, seen map[ssa.Value]bool) bool {
	if v == ssa.Value(phi) {
		return false
	}
	if seen[v] {
		return true
	}
	seen[v] = true
	switch x := v.(type) {
	case *ssa.BinOp:
		return x.Op == token.ADD || x.Op == token.SUB
	case *ssa.Slice:
		return true
	case *ssa.Phi:
		for _, e := range x.Edges {
			if !changedSince(e, phi, seen) {
				return false
			}
		}
		return true
	case *ssa.Extract:
		// next, err = l.skip(next): the position a helper of the package hands back after having been given it; every
		// return of the helper that carries no error returns its parameter plus something
		if c, ok := x.Tuple.(*ssa.Call); ok {
			return advancedByHelper(c, x.Index)
		}
	case *ssa.Call:
		return advancedByHelper(x, 0)
	}
	return false
}

// advancedByHelper: the call hands a position to a function of the same package whose result #idx, on every return
// without an error, is that parameter plus something.
func advancedByHelper(c *ssa.Call, idx int) bool {
	cf := calleeOf(&c.Call)
	if cf == nil || len(cf.Blocks) == 0 || cf.Pkg != c.Parent().Pkg {
		return false
	}
	nres := cf.Signature.Results().Len()
	okRets := 0
	for _, ret := range returnsOf(cf) {
		if idx >= len(ret.Results) {
			return false
		}
		if nres > 1 && isErrorType(cf.Signature.Results().At(nres-1).Type()) && !isNilConst(ret.Results[nres-1]) {
			continue // an error return: the caller leaves the loop (P-ERRFLOW)
		}
		bo, ok := ret.Results[idx].(*ssa.BinOp)
		if !ok || bo.Op != token.ADD {
			return false
		}
		_, px := bo.X.(*ssa.Parameter)
		_, py := bo.Y.(*ssa.Parameter)
		if !px && !py {
			return false
		}
		okRets++
	}
	return okRets > 0
}

func rulePErrCheck(p *Program, r *Reporter) {
	exempt := map[string]bool{
		"(*strings.Builder).WriteString": true, "(*strings.Builder).WriteByte": true, "(*strings.Builder).WriteRune": true, "(*strings.Builder).Write": true,
	}
	for _, fn := range p.ReachFuncs() {
		name := p.FuncName(fn)
		n := 0
		for _, b := range fn.Blocks {
			for _, in := range b.Instrs {
				c, ok := in.(*ssa.Call)
				if !ok {
					continue
				}
				sig := c.Call.Signature()
				res := sig.Results()
				if res.Len() == 0 || !isErrorType(res.At(res.Len()-1).Type()) {
					continue
				}
				full := calleeFullName(&c.Call)
				if exempt[full] {
					continue
				}
				n++
				key := fmt.Sprintf("%s error of %s#%d", name, calleeFullNameShort(&c.Call), n)
				var errv ssa.Value
				if res.Len() == 1 {
					if rs := c.Referrers(); rs != nil && len(*rs) > 0 {
						errv = c
					}
				} else {
					errv = extractOf(c, res.Len()-1)
				}
				if errv == nil {
					if n, ok := neverFailsHere(p, c); ok {
						r.OK(c.Pos(), key, fmt.Sprintf("the error result is dropped, and by interpretation of %s with the arguments of this call it is nil on each of its %d paths", full, n))
						continue
					}
					r.Bad(instrPos(c), key, "the error returned by "+full+" is discarded")
				} else {
					r.Trivial(c.Pos(), key, "error result is used")
				}
			}
		}
	}
}

// plainDom: no domain knowledge: repository functions are interpreted, everything else is opaque.
type plainDom struct{}

func (plainDom) Call(e *Engine, st *State, site ssa.CallInstruction, callee *ssa.Function, args []AV, depth int) ([]CallOut, bool) {
	return nil, false
}
func (plainDom) Load(e *Engine, st *State, p avPtr, t types.Type) AV {
	v := avSym{id: e.fresh(), tag: "mem"}
	st.store(p, v)
	return v
}

// neverFailsHere: the callee of c is a function of the repository whose error result is nil on every path when it is
// given the arguments of this call (function literals as they are written, everything else unknown).
func neverFailsHere(p *Program, c *ssa.Call) (int, bool) {
	callee := c.Call.StaticCallee()
	if callee == nil || !p.IsRepo(callee) || len(callee.Blocks) == 0 || c.Call.IsInvoke() {
		return 0, false
	}
	e := newEngine(p, plainDom{})
	e.MaxVisits = 2
	e.SymSlices = true
	st := newState()
	var args []AV
	for _, a := range c.Call.Args {
		switch x := a.(type) {
		case *ssa.MakeClosure:
			fv := avFunc{fn: x.Fn.(*ssa.Function)}
			for range x.Bindings {
				fv.free = append(fv.free, avPtr{e.NewObj("captured", nil), ""})
			}
			args = append(args, fv)
		case *ssa.Function:
			args = append(args, avFunc{fn: x})
		default:
			args = append(args, avSym{id: e.fresh(), tag: "arg"})
		}
	}
	outs := e.Run(callee, args, st)
	if e.Aborted != "" {
		return 0, false
	}
	n := 0
	for _, o := range outs {
		if o.Cut || o.Panic {
			continue
		}
		if len(o.Res) == 0 || !isDefNil(o.Res[len(o.Res)-1]) {
			return 0, false
		}
		n++
	}
	return n, n > 0
}

// partOfParam: v is obtained from a parameter or captured variable of the function only by taking fields, elements,
// map members, range values or type assertions (a part of the structure the function was given).
func partOfParam(v ssa.Value, depth int) bool {
	if depth > 8 {
		return false
	}
	switch x := v.(type) {
	case *ssa.Parameter, *ssa.FreeVar:
		return true
	case *ssa.UnOp:
		if x.Op != token.MUL {
			return false
		}
		switch a := x.X.(type) {
		case *ssa.FieldAddr:
			return partOfParam(a.X, depth+1)
		case *ssa.IndexAddr:
			return partOfParam(a.X, depth+1)
		case *ssa.FreeVar:
			return true
		}
		return false
	case *ssa.Field:
		return partOfParam(x.X, depth+1)
	case *ssa.Index:
		return partOfParam(x.X, depth+1)
	case *ssa.Lookup:
		return partOfParam(x.X, depth+1)
	case *ssa.TypeAssert:
		return partOfParam(x.X, depth+1)
	case *ssa.Extract:
		switch t := x.Tuple.(type) {
		case *ssa.Next:
			if rg, ok := t.Iter.(*ssa.Range); ok {
				return partOfParam(rg.X, depth+1)
			}
		case *ssa.TypeAssert:
			return partOfParam(t.X, depth+1)
		case *ssa.Lookup:
			return partOfParam(t.X, depth+1)
		}
		return false
	case *ssa.Slice:
		return partOfParam(x.X, depth+1)
	case *ssa.Phi:
		for _, e := range x.Edges {
			if e != v && !partOfParam(e, depth+1) {
				return false
			}
		}
		return true
	}
	return false
}
