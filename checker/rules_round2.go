package main

import (
	"fmt"
	"go/ast"
	"go/constant"
	"go/token"
	"go/types"
	"strings"

	"golang.org/x/tools/go/ssa"
)

// Rules added after the second round of independently seeded changes.

func init() {
	register(&Rule{ID: "E-NULL-IS-A-VALUE", Props: []string{"C02", "C08"}, Floor: 1,
		Doc: "no value built-in (a helper with an error result) compares one of its JSON-value parameters with nil: null is an ordinary argument value that must go through the same type tests as every other value, never a marker for 'argument absent'",
		Run: ruleENullIsAValue})
	register(&Rule{ID: "E-VARARGS-ALL", Props: []string{"C02", "C08"}, Floor: 1,
		Doc: "the variadic cases of the dispatcher (merge, zip) evaluate and type-check every argument before producing a result: inside the loop over the argument list only error returns occur (not_null, which the specification defines as short-circuiting, is the listed exception)",
		Run: ruleEVarargsAll})
	register(&Rule{ID: "P-CONSTINDEX", Props: []string{"C03", "C04", "C16", "C11"}, Floor: 1,
		Doc: "in the JSON literal decoder of the parser (the other two literal decoders are covered by P-DECODE) every constant index and constant slice bound on the text being decoded is in range by a dominating length fact (len(v) < k exit, len(v) == 0 exit), by the scanning idiom (the text after a backslash found by IndexByte that is not the last byte), or by slicing off a known-length prefix",
		Run: rulePConstIndex})
	register(&Rule{ID: "E-JSONNUMBER-CAST", Props: []string{"C05", "C18", "C02", "C14", "C16", "C08"}, Floor: 1,
		Doc: "no string is re-typed as json.Number inside the evaluator: json.Number values are trusted to hold number text (validated by encoding/json), so casting arbitrary text lets NaN, Infinity or digit separators pass for numbers",
		Run: ruleEJSONNumberCast})
}

// ---------------------------------------------------------------- P-PAREN-CLOSES

func projNodeNames(p *Program) map[string]bool {
	out := map[string]bool{}
	if fd := p.FuncDecl(p.Parser, "", "isProjectNode"); fd != nil {
		for _, n := range typeSwitchTypes(p, fd) {
			out[n] = true
		}
	}
	return out
}

// buildsClosedNode: e constructs a new node of a non-projecting type (possibly through a repository helper all of whose
// returns do).
func buildsClosedNode(p *Program, e ast.Expr, proj map[string]bool, depth int) (bool, string) {
	pk := p.Parser
	switch x := ast.Unparen(e).(type) {
	case *ast.UnaryExpr:
		if x.Op == token.AND {
			return buildsClosedNode(p, x.X, proj, depth)
		}
	case *ast.CompositeLit:
		t := strings.TrimPrefix(typeShort(pk.TypesInfo.TypeOf(x)), "parser.")
		if proj[t] {
			return false, "builds " + t + ", which is itself an open projection"
		}
		return true, "builds " + t
	case *ast.CallExpr:
		if depth > 1 {
			return false, "helper nesting too deep"
		}
		f, ok := calleeObj(pk, x).(*types.Func)
		if !ok || f.Pkg() != pk.Types {
			return false, "calls " + exprStr(x.Fun)
		}
		for _, fd := range p.FuncDecls(pk) {
			if pk.TypesInfo.Defs[fd.Name] != f {
				continue
			}
			why := ""
			okAll := true
			n := 0
			ast.Inspect(fd.Body, func(m ast.Node) bool {
				if _, isLit := m.(*ast.FuncLit); isLit {
					return false
				}
				ret, ok := m.(*ast.ReturnStmt)
				if !ok || len(ret.Results) == 0 {
					return true
				}
				n++
				if ok2, w := buildsClosedNode(p, ret.Results[0], proj, depth+1); !ok2 {
					okAll = false
					why = "helper " + f.Name() + " can return `" + exprStr(ret.Results[0]) + "` (" + w + ")"
				}
				return true
			})
			if n == 0 {
				return false, "helper has no return"
			}
			if okAll {
				return true, "helper " + f.Name() + " always builds a closed node"
			}
			return false, why
		}
		return false, "helper not found"
	case *ast.Ident:
		return false, "passes on the existing node " + x.Name
	}
	return false, "`" + exprStr(e) + "` is not a node construction"
}

func rulePParenCloses(p *Program, r *Reporter) {
	pk := p.Parser
	fd := p.FuncDecl(pk, "parser", "primaryExpression")
	if fd == nil {
		r.Unknown(token.NoPos, "parenthesis case", "parser.primaryExpression not found")
		return
	}
	proj := projNodeNames(p)
	if len(proj) == 0 {
		r.Unknown(fd.Pos(), "parenthesis case", "isProjectNode not understood")
		return
	}
	found := false
	ast.Inspect(fd.Body, func(n ast.Node) bool {
		cc, ok := n.(*ast.CaseClause)
		if !ok {
			return true
		}
		isParen := false
		for _, e := range cc.List {
			if tokenConstName(pk, e) == "OpenParenToken" {
				isParen = true
			}
		}
		if !isParen {
			return true
		}
		found = true
		key := "parser.primaryExpression parenthesis closes projections"
		var guard *ast.IfStmt
		for _, st := range cc.Body {
			if ifs, ok := st.(*ast.IfStmt); ok {
				if call, ok := ast.Unparen(ifs.Cond).(*ast.CallExpr); ok {
					if id, ok := call.Fun.(*ast.Ident); ok && id.Name == "isProjectNode" {
						guard = ifs
					}
				}
			}
		}
		if guard == nil {
			r.Bad(cc.Pos(), key, "the parenthesis case hands the inner node on without testing isProjectNode: `(a[*].b).c` keeps projecting c over the elements although the parentheses ended the projection")
			return false
		}
		good, why := false, "no assignment to the node in the guarded block"
		for _, st := range guard.Body.List {
			as, ok := st.(*ast.AssignStmt)
			if !ok || len(as.Rhs) != 1 {
				continue
			}
			good, why = buildsClosedNode(p, as.Rhs[0], proj, 0)
			// the new node must contain the old one
			uses := false
			ast.Inspect(as.Rhs[0], func(m ast.Node) bool {
				if id, ok := m.(*ast.Ident); ok && id.Name == exprStr(as.Lhs[0]) {
					uses = true
				}
				return true
			})
			if good && !uses {
				good, why = false, "the replacement does not wrap the parenthesised node"
			}
		}
		if good {
			r.OK(guard.Pos(), key, "an inner projection is wrapped: "+why)
		} else {
			r.Bad(guard.Pos(), key, "an inner projection can leave the parentheses still open ("+why+"): a following selector is projected over the elements instead of applied to the array")
		}
		return false
	})
	if !found {
		r.Unknown(fd.Pos(), "parenthesis case", "OpenParenToken case not found")
	}
}

// ---------------------------------------------------------------- E-NULL-IS-A-VALUE

func ruleENullIsAValue(p *Program, r *Reporter) {
	n := 0
	for _, fn := range p.ReachFuncs(p.Eval) {
		if fn.Parent() != nil || fn.Signature.Recv() != nil {
			continue
		}
		res := fn.Signature.Results()
		if res.Len() == 0 || !isErrorType(res.At(res.Len()-1).Type()) {
			continue
		}
		name := p.FuncName(fn)
		n++
		if why, ok := anyTypedBuiltins[name]; ok {
			r.Trivial(fn.Pos(), name+" treats null as a value", "exempt: "+why)
			continue
		}
		bad := ""
		for _, b := range fn.Blocks {
			for _, in := range b.Instrs {
				bin, ok := in.(*ssa.BinOp)
				if !ok || (bin.Op != token.EQL && bin.Op != token.NEQ) {
					continue
				}
				for _, pair := range [][2]ssa.Value{{bin.X, bin.Y}, {bin.Y, bin.X}} {
					prm, ok := pair[0].(*ssa.Parameter)
					if !ok || !isNilConst(pair[1]) {
						continue
					}
					if it, ok := prm.Type().Underlying().(*types.Interface); ok && it.NumMethods() == 0 && !typeSwitched(prm) {
						bad = fmt.Sprintf("parameter %s is compared with nil at %s", prm.Name(), p.Pos(instrPos(bin)))
					}
				}
			}
		}
		key := name + " treats null as a value"
		if bad != "" {
			r.Bad(fn.Pos(), key, bad+": a null argument is then handled as if the argument were absent instead of being reported as an invalid type")
		} else {
			r.OK(fn.Pos(), key, "no JSON-value parameter is compared with nil")
		}
	}
	if n == 0 {
		r.Unknown(token.NoPos, "value built-ins", "no value built-in found")
	}
}

// ---------------------------------------------------------------- E-VARARGS-ALL

func ruleEVarargsAll(p *Program, r *Reporter) {
	ev := p.Func(p.Eval, "evaluator", "evaluate")
	if ev == nil {
		r.Unknown(token.NoPos, "evaluate", "evaluator.evaluate not found")
		return
	}
	loops := loopsOf(ev)
	for h, body := range loops {
		// which node's Arguments are ranged?
		nodeType := ""
		for _, in := range h.Instrs {
			bin, ok := in.(*ssa.BinOp)
			if !ok || bin.Op != token.LSS {
				continue
			}
			if c, ok := bin.Y.(*ssa.Call); ok && builtinName(&c.Call) == "len" {
				if ld, ok := c.Call.Args[0].(*ssa.UnOp); ok {
					if fa, ok := ld.X.(*ssa.FieldAddr); ok && fieldName(fa) == "Arguments" {
						nodeType = typeShort(derefType(fa.X.Type()))
					}
				}
			}
		}
		if nodeType == "" {
			continue
		}
		key := "argument loop of " + nodeType
		if nodeType == "parser.NotNullNode" {
			r.Trivial(blockPos(h), key, "not_null returns its first non-null argument by definition")
			continue
		}
		bad := ""
		for blk := range body {
			if len(blk.Instrs) == 0 {
				continue
			}
			// successors outside the loop reached from a non-header block with a success return
			for _, s := range blk.Succs {
				if body[s] {
					continue
				}
				if blk == h {
					continue // normal loop exit
				}
				if len(s.Instrs) > 0 {
					if ret, ok := s.Instrs[len(s.Instrs)-1].(*ssa.Return); ok && len(ret.Results) == 2 && isNilConst(ret.Results[1]) {
						bad = "a result is returned at " + p.Pos(ret.Pos()) + " from inside the loop"
					}
				}
			}
			if ret, ok := blk.Instrs[len(blk.Instrs)-1].(*ssa.Return); ok && len(ret.Results) == 2 && isNilConst(ret.Results[1]) {
				bad = "a result is returned at " + p.Pos(ret.Pos()) + " from inside the loop"
			}
		}
		if bad != "" {
			r.Bad(blockPos(h), key, bad+": later arguments are never evaluated or type-checked, so a wrongly typed argument goes unreported depending on the values before it")
		} else {
			r.OK(blockPos(h), key, "only error returns inside the loop: every argument is evaluated and type-checked")
		}
	}
}

// ---------------------------------------------------------------- P-CONSTINDEX

// strMinLen: a lower bound of len(x) for a string value in block b.
func strMinLen(b *ssa.BasicBlock, x ssa.Value, depth int) int64 {
	if depth > 6 {
		return 0
	}
	best := minLen(b, x, 0)
	switch v := x.(type) {
	case *ssa.Slice:
		if v.High == nil && v.Low != nil {
			if c, ok := v.Low.(*ssa.Const); ok && c.Value != nil {
				k, _ := constant.Int64Val(c.Value)
				if m := strMinLen(b, v.X, depth+1) - k; m > best {
					best = m
				}
			} else if bin, ok := v.Low.(*ssa.BinOp); ok && bin.Op == token.ADD {
				// x = y[i+1:] under the fact i+1 != len(y) with i an index into y: at least one byte remains
				for _, f := range blockFacts(b) {
					op, l, rr, ok := f.rel()
					if !ok || op != token.NEQ {
						continue
					}
					isLen := func(q ssa.Value) bool {
						c, ok := q.(*ssa.Call)
						return ok && builtinName(&c.Call) == "len" && sameValue(c.Call.Args[0], v.X)
					}
					same := func(q ssa.Value) bool {
						if q == ssa.Value(bin) {
							return true
						}
						b2, ok := q.(*ssa.BinOp)
						return ok && b2.Op == token.ADD && b2.X == bin.X && sameValue(b2.Y, bin.Y)
					}
					if same(l) && isLen(rr) || same(rr) && isLen(l) {
						if best < 1 {
							best = 1
						}
					}
				}
			}
		}
	case *ssa.Phi:
		m := int64(1 << 40)
		for i, e := range v.Edges {
			pred := v.Block().Preds[i]
			if k := strMinLenEdge(pred, v.Block(), e, depth+1); k < m {
				m = k
			}
		}
		if m != 1<<40 && m > best {
			best = m
		}
	case *ssa.Parameter:
		// a helper's parameter: what every call site guarantees about the argument
		fn := v.Parent()
		pp := programOf(fn.Prog)
		if pp == nil || pp.CG == nil {
			break
		}
		node := pp.CG.Nodes[fn]
		idx := -1
		for i, prm := range fn.Params {
			if prm == v {
				idx = i
			}
		}
		if node == nil || idx < 0 || len(node.In) == 0 {
			break
		}
		m := int64(1 << 40)
		for _, e := range node.In {
			if e.Site == nil || idx >= len(e.Site.Common().Args) {
				m = 0
				break
			}
			if k := strMinLen(e.Site.Block(), e.Site.Common().Args[idx], depth+1); k < m {
				m = k
			}
		}
		if m != 1<<40 && m > best {
			best = m
		}
	}
	return best
}

func strMinLenEdge(pred, blk *ssa.BasicBlock, e ssa.Value, depth int) int64 {
	// evaluate in the predecessor; facts of the edge are covered by the predecessor's dominators in this code base
	return strMinLen(pred, e, depth)
}

func rulePConstIndex(p *Program, r *Reporter) {
	lh := literalHelpers(p)
	var fns []*ssa.Function
	seenFn := map[*ssa.Function]bool{}
	var addClosure func(fn *ssa.Function)
	addClosure = func(fn *ssa.Function) {
		if fn == nil || seenFn[fn] || fn.Pkg == nil || fn.Pkg.Pkg != p.Parser.Types {
			return
		}
		seenFn[fn] = true
		fns = append(fns, fn)
		for _, c := range staticCallees(fn) {
			if c.Signature.Recv() == nil {
				addClosure(c)
			}
		}
	}
	// the JSON literal decoder; the decoders of quoted identifiers and raw strings are interpreted on texts of every
	// shape by P-DECODE, which reports every read or cut beyond the text
	for _, kind := range []string{"json"} {
		if lh[kind] == nil {
			r.Unknown(token.NoPos, "parser "+kind+" literal decoder", "literal decoder not found")
			continue
		}
		addClosure(lh[kind])
	}
	for _, kind := range []string{"quoted", "string"} {
		delete(seenFn, lh[kind]) // a decoder shared with the JSON one would still be scanned
	}
	for _, fn := range fns {
		fname := fn.Name()
		if c, ok := p.roles().canon[fn]; ok {
			fname = c[strings.LastIndex(c, ".")+1:]
		}
		n := 0
		for _, b := range fn.Blocks {
			for _, in := range b.Instrs {
				var base ssa.Value
				need := int64(-1)
				what := ""
				switch x := in.(type) {
				case *ssa.Index:
					if !isStringType(x.X.Type()) {
						continue
					}
					c, ok := x.Index.(*ssa.Const)
					if !ok || c.Value == nil {
						continue
					}
					k, _ := constant.Int64Val(c.Value)
					base, need, what = x.X, k+1, fmt.Sprintf("[%d]", k)
				case *ssa.Slice:
					if !isStringType(x.X.Type()) {
						continue
					}
					hi := int64(-1)
					if x.High != nil {
						c, ok := x.High.(*ssa.Const)
						if !ok || c.Value == nil {
							continue // non-constant high bound: not in scope
						}
						hi, _ = constant.Int64Val(c.Value)
					}
					lo := int64(0)
					if x.Low != nil {
						c, ok := x.Low.(*ssa.Const)
						if !ok || c.Value == nil {
							continue
						}
						lo, _ = constant.Int64Val(c.Value)
					}
					if hi < 0 && lo == 0 {
						continue
					}
					need = lo
					if hi > need {
						need = hi
					}
					base, what = x.X, fmt.Sprintf("[%d:%s]", lo, map[bool]string{true: fmt.Sprint(hi), false: ""}[hi >= 0])
				default:
					continue
				}
				n++
				key := fmt.Sprintf("parser.%s %s%s#%d", fname, describeAddr(base), what, n)
				if m := strMinLen(b, base, 0); m >= need {
					r.OK(in.Pos(), key, fmt.Sprintf("length facts give len >= %d", m))
				} else {
					r.Bad(instrPos(in), key, fmt.Sprintf("no dominating fact guarantees len >= %d (established: %d): a truncated escape sequence indexes past the end of the text and panics", need, m))
				}
			}
		}
		if n == 0 {
			r.Trivial(fn.Pos(), "parser."+fname+" indices", "no constant index into the text in this decoder")
		}
	}
}

// ---------------------------------------------------------------- E-JSONNUMBER-CAST

func ruleEJSONNumberCast(p *Program, r *Reporter) {
	n := 0
	for _, fn := range p.ReachFuncs(p.Eval, p.Parser) {
		for _, b := range fn.Blocks {
			for _, in := range b.Instrs {
				var x ssa.Value
				var t types.Type
				switch c := in.(type) {
				case *ssa.ChangeType:
					x, t = c.X, c.Type()
				case *ssa.Convert:
					x, t = c.X, c.Type()
				default:
					continue
				}
				if typeShort(t) != "json.Number" {
					continue
				}
				if _, isConst := x.(*ssa.Const); isConst {
					continue
				}
				n++
				r.Bad(instrPos(in), fmt.Sprintf("%s json.Number(%s)", p.FuncName(fn), describeAddr(x)), "text that was never validated as a JSON number is re-typed as json.Number and then trusted as a number (decimal128.Parse accepts NaN, Inf and digit separators)")
			}
		}
	}
	r.OK(token.NoPos, "scan", fmt.Sprintf("%d conversions of non-constant strings to json.Number in the evaluator", n))
}

// typeSwitched: the parameter is the subject of comma-ok type assertions (a type switch whose `case nil` is lowered
// to a comparison with nil).
func typeSwitched(prm *ssa.Parameter) bool {
	n := 0
	for _, ref := range *prm.Referrers() {
		if ta, ok := ref.(*ssa.TypeAssert); ok && ta.CommaOk {
			n++
		}
	}
	return n >= 2
}

// ---------------------------------------------------------------- P-NO-LIBPARSE

func init() {
	register(&Rule{ID: "P-NO-LIBPARSE", Props: []string{"C04", "C16", "C11", "C08"}, Floor: 1,
		Doc: "Who-may-call: the decoders of quoted identifiers, raw strings and JSON literals (and their helpers; a JSON literal is decoded by encoding/json alone) never hand a piece of the literal to a general-purpose library parser (strconv.ParseInt/ParseFloat/Atoi/Unquote*, ParseUint with base 0, fmt.Sscan*): those accept spellings the grammar does not (a sign, an underscore, a base prefix, surrounding space); strconv.ParseUint with a constant base accepts digits only and is interpreted by P-DECODE, so an escape such as \\u+041 would be decoded instead of rejected. Hex digits are decoded by comparing characters (P-CHARCLASS).",
		Run: rulePNoLibParse})
}

func rulePNoLibParse(p *Program, r *Reporter) {
	lh := literalHelpers(p)
	seen := map[*ssa.Function]bool{}
	var fns []*ssa.Function
	var add func(fn *ssa.Function)
	add = func(fn *ssa.Function) {
		if fn == nil || seen[fn] || fn.Pkg == nil || fn.Pkg.Pkg != p.Parser.Types {
			return
		}
		seen[fn] = true
		fns = append(fns, fn)
		for _, c := range staticCallees(fn) {
			if c.Signature.Recv() == nil {
				add(c)
			}
		}
	}
	add(lh["quoted"])
	add(lh["string"])
	add(lh["json"]) // a backtick literal is JSON: only encoding/json decides what it means
	if len(fns) == 0 {
		r.Unknown(token.NoPos, "literal decoders", "the decoders of quoted identifiers and raw strings were not found")
		return
	}
	for _, fn := range fns {
		name := p.FuncName(fn)
		bad := false
		for _, b := range fn.Blocks {
			for _, in := range b.Instrs {
				c, ok := in.(ssa.CallInstruction)
				if !ok {
					continue
				}
				n := calleeFullName(c.Common())
				if n == "strconv.ParseUint" && len(c.Common().Args) == 3 {
					// with a constant base other than 0 ParseUint accepts the digits of that base and nothing else (no
					// sign, no prefix, no underscore): what it decodes is decided by P-DECODE like a hand-written loop
					if bc, ok := c.Common().Args[1].(*ssa.Const); ok && bc.Value != nil && bc.Int64() != 0 {
						continue
					}
				}
				if strings.HasPrefix(n, "strconv.Parse") || n == "strconv.Atoi" || strings.HasPrefix(n, "strconv.Unquote") || strings.HasPrefix(n, "fmt.Sscan") || strings.HasPrefix(n, "fmt.Fscan") {
					r.Bad(instrPos(in), name+" calls "+n, "a general-purpose parser decides what the literal means: it accepts signs, underscores, prefixes or spaces that the grammar's escape syntax does not")
					bad = true
				}
			}
		}
		if !bad {
			r.OK(fn.Pos(), name+" decodes by itself", "no library number/quote parser is applied to the literal's text")
		}
	}
}

// anyTypedBuiltins: helpers (by canonical name) of the built-ins whose argument may be any JSON value, null included.
var anyTypedBuiltins = map[string]string{
	"evaluator.typeName": "type(null) is \"null\"",
	"evaluator.toString": "to_string(null) is \"null\"",
	"evaluator.toArray":  "to_array(null) is [null]",
	"evaluator.toNumber": "to_number(null) is null",
}
