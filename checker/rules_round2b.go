package main

import (
	"fmt"
	"go/ast"
	"go/constant"
	"go/token"
	"go/types"
	"sort"
	"strings"

	"golang.org/x/tools/go/ssa"
)

func init() {
	register(&Rule{ID: "E-FILTER-GUARDS-RHS", Props: []string{"C17", "C01"}, Floor: 1,
		Doc: "in the fused filter projection the right-hand side is evaluated only for elements the predicate accepted: the evaluation of the projected node is dominated by the true edge of isTrue(predicate result), as in the unfused composition filter | projection",
		Run: ruleEFilterGuardsRHS})
	register(&Rule{ID: "E-FLOAT-ARITH-SITES", Props: []string{"C14", "C15", "C05"}, Floor: 1,
		Doc: "binary floating-point arithmetic occurs only in the six arithmetic operator helpers (on the operands their toFloatPair fast path returned) and in unary minus; aggregates (sum, avg) and every other helper compute on decimal128 values, so the result of an aggregate does not depend on the Go type of individual elements or on the order in which floats are added",
		Run: ruleEFloatArithSites})
	register(&Rule{ID: "E-BYTE-TO-STRING", Props: []string{"C11", "C16"}, Floor: 1,
		Doc: "no single byte of text is converted to a string (string(b) of a byte widens a UTF-8 code unit to the code point of the same number): text is copied as substrings or written as bytes/runes",
		Run: ruleEByteToString})
	register(&Rule{ID: "P-LET-SHAPE", Props: []string{"C19", "C15"}, Floor: 1,
		Doc: "the let parser keeps every binding it parsed: each `$name = expr` is stored in the binding map under its name unconditionally, nothing is removed from that map, and the only success return builds the DefineVariables node from that map and the body",
		Run: rulePLetShape})
}

var binaryTokenNode = map[string]string{
	"AddToken": "AddNode", "AndToken": "AndNode", "AsteriskToken": "MultiplyNode", "MultiplyToken": "MultiplyNode",
	"DivideToken": "DivideNode", "EqualToken": "EqualNode", "GreaterToken": "GreaterNode", "GreaterOrEqualToken": "GreaterOrEqualNode",
	"IntegerDivideToken": "IntegerDivideNode", "LessToken": "LessNode", "LessOrEqualToken": "LessOrEqualNode", "ModuloToken": "ModuloNode",
	"NotEqualToken": "NotEqualNode", "OrToken": "OrNode", "PipeToken": "PipeNode", "SubtractToken": "SubtractNode",
}
var prefixTokenNode = map[string]string{"NotToken": "NotNode", "AddToken": "AssertNumberNode", "SubtractToken": "NegateNode"}

// litOf returns the composite literal of `&T{…}` and T's name.
func litOf(pk *ast.Package, e ast.Expr) (*ast.CompositeLit, bool) {
	u, ok := ast.Unparen(e).(*ast.UnaryExpr)
	if !ok || u.Op != token.AND {
		return nil, false
	}
	cl, ok := u.X.(*ast.CompositeLit)
	return cl, ok
}

func rulePNodeAsIs(p *Program, r *Reporter) {
	pk := p.Parser
	t := findPrecedence(p)
	if t.why != "" {
		r.Unknown(token.NoPos, "operator cases", t.why)
		return
	}
	field := func(cl *ast.CompositeLit, name string) ast.Expr {
		for _, el := range cl.Elts {
			if kv, ok := el.(*ast.KeyValueExpr); ok && exprStr(kv.Key) == name {
				return kv.Value
			}
		}
		return nil
	}
	for _, pl := range findPrattLoops(p, t) {
		sw := firstTokenSwitch(p, pl.loop.Body)
		if sw == nil || pl.nodeVar == nil {
			continue
		}
		for _, c := range sw.Body.List {
			cc := c.(*ast.CaseClause)
			for _, e := range cc.List {
				tok := tokenConstName(pk, e)
				want, isBin := binaryTokenNode[tok]
				if !isBin {
					continue
				}
				key := "infix case " + tok
				// the recursion result
				rightVar := ""
				var assign *ast.AssignStmt
				for _, st := range cc.Body {
					as, ok := st.(*ast.AssignStmt)
					if !ok {
						continue
					}
					if len(as.Rhs) == 1 {
						if call, ok := as.Rhs[0].(*ast.CallExpr); ok && methodCallName(pk, call) == "expression" {
							rightVar = exprStr(as.Lhs[0])
						}
					}
					if id, ok := as.Lhs[0].(*ast.Ident); ok && pk.TypesInfo.Uses[id] == pl.nodeVar {
						assign = as
					}
				}
				if assign == nil || rightVar == "" {
					r.Bad(cc.Pos(), key, "the case does not assign the operator's node built from the node so far and the recursion's result")
					continue
				}
				cl, ok := litOf(nil, assign.Rhs[0])
				if !ok {
					r.Bad(assign.Pos(), key, "the node of the operator is not stored as built: `"+exprStr(assign.Rhs[0])+"` passes it through a function that can rewrite the tree (re-association, folding), so parentheses or the written operator no longer decide the result")
					continue
				}
				tn := strings.TrimPrefix(typeShort(pk.TypesInfo.TypeOf(cl)), "parser.")
				l, rr := field(cl, "Left"), field(cl, "Right")
				switch {
				case tn != want:
					r.Bad(assign.Pos(), key, "builds "+tn+" but the token denotes "+want)
				case l == nil || rr == nil || exprStr(l) != pl.nodeVar.Name() || exprStr(rr) != rightVar:
					r.Bad(assign.Pos(), key, "operands are not (node so far, result of the recursion) in that order")
				default:
					r.OK(assign.Pos(), key, "&"+tn+"{Left: node so far, Right: recursion result}")
				}
			}
		}
	}
	// prefix operators
	fd := p.FuncDecl(pk, "parser", "primaryExpression")
	if fd == nil {
		r.Unknown(token.NoPos, "prefix cases", "parser.primaryExpression not found")
		return
	}
	ast.Inspect(fd.Body, func(n ast.Node) bool {
		cc, ok := n.(*ast.CaseClause)
		if !ok {
			return true
		}
		for _, e := range cc.List {
			tok := tokenConstName(pk, e)
			want, isPre := prefixTokenNode[tok]
			if !isPre {
				continue
			}
			key := "prefix case " + tok
			operand := ""
			var built ast.Expr
			var where token.Pos
			for _, st := range cc.Body {
				switch s := st.(type) {
				case *ast.AssignStmt:
					if len(s.Rhs) == 1 {
						if call, ok := s.Rhs[0].(*ast.CallExpr); ok && methodCallName(pk, call) == "expression" {
							operand = exprStr(s.Lhs[0])
							continue
						}
						if namedIs(pk.TypesInfo.TypeOf(s.Lhs[0]), pk.PkgPath, "Node") {
							built, where = s.Rhs[0], s.Pos()
						}
					}
				case *ast.ReturnStmt:
					if len(s.Results) == 2 && isNilIdent(pk, s.Results[1]) {
						built, where = s.Results[0], s.Pos()
					}
				}
			}
			if built == nil || operand == "" {
				r.Bad(cc.Pos(), key, "the case does not build the operator's node around the parsed operand")
				continue
			}
			cl, ok := litOf(nil, built)
			if !ok {
				r.Bad(where, key, "the node of the prefix operator is not stored as built: `"+exprStr(built)+"` can rewrite the tree (e.g. folding a negated comparison into the opposite comparison, which differs on null operands)")
				continue
			}
			tn := strings.TrimPrefix(typeShort(pk.TypesInfo.TypeOf(cl)), "parser.")
			ch := field(cl, "Child")
			if tn != want || ch == nil || exprStr(ch) != operand {
				r.Bad(where, key, "builds "+tn+" (expected "+want+" around the operand)")
			} else {
				r.OK(where, key, "&"+tn+"{Child: operand}")
			}
		}
		return true
	})
}

func ruleELiteralCases(p *Program, r *Reporter) {
	cases, _, why := evaluatorCases(p)
	if why != "" {
		r.Unknown(token.NoPos, "dispatcher", why)
		return
	}
	want := map[string]string{
		"ArrayNode": "node.Value, nil", "BoolNode": "node.Value, nil", "NumberNode": "node.Value, nil", "ObjectNode": "node.Value, nil",
		"StringNode": "node.Value, nil", "NullNode": "nil, nil", "CurrentNode": "current, nil", "RootNode": "e.root, nil",
	}
	seen := map[string]bool{}
	for _, ci := range cases {
		w, ok := want[ci.name]
		if !ok {
			continue
		}
		seen[ci.name] = true
		key := "case " + ci.name
		got := ""
		if len(ci.clause.Body) == 1 {
			if ret, ok := ci.clause.Body[0].(*ast.ReturnStmt); ok {
				var parts []string
				for _, e := range ret.Results {
					parts = append(parts, exprStr(e))
				}
				got = strings.Join(parts, ", ")
			}
		}
		if got == w {
			r.OK(ci.clause.Pos(), key, "return "+w)
		} else {
			r.Bad(ci.clause.Pos(), key, "the case is not the single statement `return "+w+"`: a literal must evaluate to exactly the value decoded at parse time (a cached or converted representation loses text and precision)")
		}
	}
	var miss []string
	for k := range want {
		if !seen[k] {
			miss = append(miss, k)
		}
	}
	sort.Strings(miss)
	for _, k := range miss {
		r.Unknown(token.NoPos, "case "+k, "no dispatcher case for "+k)
	}
}

func ruleEFilterGuardsRHS(p *Program, r *Reporter) {
	fn := p.Func(p.Eval, "evaluator", "filterAndProjectArray")
	vd := newValDom(p)
	if fn == nil || vd.why != "" {
		r.Unknown(token.NoPos, "filterAndProjectArray", "helper not found")
		return
	}
	ff := filterFactsOf(p, vd, fn)
	if ff.why != "" {
		r.Unknown(fn.Pos(), "filterAndProjectArray right-hand side", ff.why)
		return
	}
	var sites []token.Pos
	for pos := range ff.rhsSites {
		sites = append(sites, pos)
	}
	sort.Slice(sites, func(i, j int) bool { return sites[i] < sites[j] })
	for n, pos := range sites {
		key := fmt.Sprintf("filterAndProjectArray right-hand side evaluation#%d", n+1)
		if why := ff.rhsSites[pos]; why == "" {
			r.OK(pos, key, "by interpretation: on every path the projected node is evaluated only against an element for which isTrue(predicate result) holds")
		} else {
			r.Bad(pos, key, "the right-hand side is evaluated for elements the predicate has not accepted: x[?p].e fails (or costs) on elements that x[?p] | [*].e never looks at ("+why+")")
		}
	}
	if len(sites) == 0 {
		if len(ff.keptUntested) > 0 {
			r.Bad(fn.Pos(), "filterAndProjectArray predicate", ff.keptUntested[0])
		} else {
			r.Unknown(fn.Pos(), "filterAndProjectArray right-hand side", "no evaluation of the projected node found")
		}
	}
}

func ruleEFloatArithSites(p *Program, r *Reporter) {
	for _, fn := range p.ReachFuncs(p.Eval) {
		name := p.FuncName(fn)
		n := 0
		for _, b := range fn.Blocks {
			for _, in := range b.Instrs {
				var isArith bool
				var operands []ssa.Value
				switch x := in.(type) {
				case *ssa.BinOp:
					if bt, ok := x.Type().Underlying().(*types.Basic); ok && bt.Info()&types.IsFloat != 0 {
						switch x.Op {
						case token.ADD, token.SUB, token.MUL, token.QUO:
							isArith, operands = true, []ssa.Value{x.X, x.Y}
						}
					}
				case *ssa.UnOp:
					if bt, ok := x.Type().Underlying().(*types.Basic); ok && bt.Info()&types.IsFloat != 0 && x.Op == token.SUB {
						isArith, operands = true, []ssa.Value{x.X}
					}
				}
				if !isArith {
					continue
				}
				n++
				key := fmt.Sprintf("%s float-arith#%d", name, n)
				pair, single := true, true
				for _, o := range operands {
					if !floatOperand(o, 0) && !floatOperand(o, 1) {
						pair = false
					}
					if !coercedFloat(o) {
						single = false
					}
				}
				if !pair || !single {
					// the operands may travel from the coercion to the arithmetic through a struct built for the purpose
					// or as a value of a float type declared for the purpose
					all := true
					for _, o := range operands {
						if !coercedFloatValue(p, o, map[ssa.Value]bool{}, 0) {
							all = false
						}
					}
					if all {
						pair, single = true, true
					}
				}
				_, unary := in.(*ssa.UnOp)
				// an entry of an operator table: an anonymous function of the package initialiser whose float parameters are
				// the operands; what is passed to it is decided by E-OPCHAIN, which interprets the call through the table
				tableEntry := fn.Parent() != nil && fn.Parent().Name() == "init"
				if tableEntry {
					for _, o := range operands {
						if _, isParam := o.(*ssa.Parameter); !isParam {
							tableEntry = false
						}
					}
				}
				switch {
				case tableEntry:
					r.OK(in.Pos(), key, "entry of an operator table applied to its own parameters (the operands it receives are decided by E-OPCHAIN)")
				case pair && !unary:
					r.OK(in.Pos(), key, "operator fast path on the pair returned by the float pair coercion")
				case unary && single:
					r.OK(in.Pos(), key, "unary minus on the operand returned by the float coercion")
				default:
					r.Bad(instrPos(in), key, "binary floating-point arithmetic on something other than the operands the float coercion returned: aggregates and other helpers must compute on decimals (float accumulation is order dependent and drops or rounds values of other kinds)")
				}
			}
		}
	}
}

// coercedFloatValue: v is a result of one of the float coercions (toFloat, toFloatPair), possibly carried by
//   - a field of a struct type of the package every store to which, anywhere, is such a value (or zero),
//   - a value of a named float type of the package every conversion to which, anywhere, is from such a value,
//   - conversions between float types and merges of such values.
func coercedFloatValue(p *Program, v ssa.Value, seen map[ssa.Value]bool, depth int) bool {
	if depth > 6 {
		return false
	}
	if seen[v] {
		return true
	}
	seen[v] = true
	if floatOperand(v, 0) || floatOperand(v, 1) || coercedFloat(v) {
		return true
	}
	if nt, ok := types.Unalias(v.Type()).(*types.Named); ok && nt.Obj().Pkg() == p.Eval.Types {
		if bt, ok := nt.Underlying().(*types.Basic); ok && bt.Info()&types.IsFloat != 0 {
			return namedFloatOnlyFromCoercion(p, nt, depth)
		}
	}
	switch x := v.(type) {
	case *ssa.Const:
		return x.Value != nil && constant.Sign(constant.ToFloat(x.Value)) == 0
	case *ssa.Convert:
		return coercedFloatValue(p, x.X, seen, depth+1)
	case *ssa.ChangeType:
		return coercedFloatValue(p, x.X, seen, depth+1)
	case *ssa.Phi:
		for _, e := range x.Edges {
			if !coercedFloatValue(p, e, seen, depth+1) {
				return false
			}
		}
		return true
	case *ssa.Field:
		return fieldOnlyFromCoercion(p, x.X.Type(), x.Field, depth)
	case *ssa.UnOp:
		if x.Op == token.MUL {
			if fa, ok := x.X.(*ssa.FieldAddr); ok {
				return fieldOnlyFromCoercion(p, derefType(fa.X.Type()), fa.Field, depth)
			}
			if al, ok := x.X.(*ssa.Alloc); ok {
				// a spilled local: every store to it
				n := 0
				for _, ref := range *al.Referrers() {
					if st, ok := ref.(*ssa.Store); ok && st.Addr == ssa.Value(al) {
						n++
						if !coercedFloatValue(p, st.Val, seen, depth+1) {
							return false
						}
					}
				}
				return n > 0
			}
		}
	}
	return false
}

func fieldOnlyFromCoercion(p *Program, t types.Type, field int, depth int) bool {
	nt, ok := types.Unalias(t).(*types.Named)
	if !ok || nt.Obj().Pkg() != p.Eval.Types {
		return false
	}
	if _, ok := nt.Underlying().(*types.Struct); !ok {
		return false
	}
	n := 0
	for _, fn := range p.Funcs {
		for _, b := range fn.Blocks {
			for _, in := range b.Instrs {
				st, ok := in.(*ssa.Store)
				if !ok {
					continue
				}
				if fa, ok := st.Addr.(*ssa.FieldAddr); ok && fa.Field == field && types.Identical(derefType(fa.X.Type()), nt) {
					n++
					if !coercedFloatValue(p, st.Val, map[ssa.Value]bool{}, depth+1) {
						return false
					}
				}
			}
		}
	}
	return n > 0
}

func namedFloatOnlyFromCoercion(p *Program, nt *types.Named, depth int) bool {
	n := 0
	for _, fn := range p.Funcs {
		for _, b := range fn.Blocks {
			for _, in := range b.Instrs {
				var src ssa.Value
				switch x := in.(type) {
				case *ssa.Convert:
					if types.Identical(x.Type(), nt) {
						src = x.X
					}
				case *ssa.ChangeType:
					if types.Identical(x.Type(), nt) {
						src = x.X
					}
				}
				if src == nil {
					continue
				}
				if types.Identical(src.Type(), nt) {
					continue
				}
				n++
				if !coercedFloatValue(p, src, map[ssa.Value]bool{}, depth+1) {
					return false
				}
			}
		}
	}
	return n > 0
}

// coercedFloat: v is result #0 of the float coercion func(any) (float64, bool).
func coercedFloat(v ssa.Value) bool {
	ex, ok := v.(*ssa.Extract)
	if !ok || ex.Index != 0 {
		return false
	}
	c, ok := ex.Tuple.(*ssa.Call)
	if !ok {
		return false
	}
	return isRole(calleeOf(&c.Call), "toFloat")
}

func ruleEByteToString(p *Program, r *Reporter) {
	n := 0
	for _, fn := range p.ReachFuncs(p.Eval, p.Parser, p.Lexer) {
		for _, b := range fn.Blocks {
			for _, in := range b.Instrs {
				cv, ok := in.(*ssa.Convert)
				if !ok || !isStringType(cv.Type()) {
					continue
				}
				bt, ok := cv.X.Type().Underlying().(*types.Basic)
				if !ok || bt.Info()&types.IsInteger == 0 {
					continue
				}
				if bt.Kind() == types.Int32 {
					continue // string(rune) is exact
				}
				n++
				r.Bad(instrPos(cv), fmt.Sprintf("%s string(%s)", p.FuncName(fn), bt.Name()), "an integer of type "+bt.Name()+" (a byte of text) is converted to a string: bytes >= 0x80 become two-byte characters and the rest of the original character is left dangling")
			}
		}
	}
	r.OK(token.NoPos, "scan", fmt.Sprintf("%d byte-to-string conversions in lexer, parser and evaluator", n))
}

func rulePLetShape(p *Program, r *Reporter) {
	fn := p.Func(p.Parser, "parser", "let")
	if fn == nil {
		r.Unknown(token.NoPos, "parser.let", "not found")
		return
	}
	var maps []*ssa.MakeMap
	for _, b := range fn.Blocks {
		for _, in := range b.Instrs {
			if mm, ok := in.(*ssa.MakeMap); ok {
				maps = append(maps, mm)
			}
		}
	}
	// success returns build DefineVariables from one of those maps
	n := 0
	var used *ssa.MakeMap
	for _, ret := range returnsOf(fn) {
		if !isNilConst(ret.Results[1]) {
			continue
		}
		n++
		key := fmt.Sprintf("parser.let success-return#%d", n)
		mi, ok := ret.Results[0].(*ssa.MakeInterface)
		good := false
		if ok && (typeShort(mi.X.Type()) == "*parser.DefineVariables" || typeShort(mi.X.Type()) == "*parser.DefineVariablesNode") {
			if al, ok := mi.X.(*ssa.Alloc); ok {
				for _, ref := range *al.Referrers() {
					if fa, ok := ref.(*ssa.FieldAddr); ok && fieldName(fa) == "Variables" {
						for _, r2 := range *fa.Referrers() {
							if st, ok := r2.(*ssa.Store); ok {
								if mm, ok := st.Val.(*ssa.MakeMap); ok {
									used, good = mm, true
								}
							}
						}
					}
				}
			}
		}
		if good {
			r.OK(ret.Pos(), key, "returns a DefineVariables node holding the binding map")
		} else {
			r.Bad(ret.Pos(), key, "a let expression is accepted without building the DefineVariables node from the binding map (bindings are dropped or the let is elided)")
		}
	}
	if used == nil {
		return
	}
	// every update of the map is unconditional w.r.t. the binding (only error exits in between) and nothing is deleted
	for _, ref := range *used.Referrers() {
		switch x := ref.(type) {
		case *ssa.MapUpdate:
			r.OK(x.Pos(), "parser.let binding stored", "binding stored in the map under its name")
		case ssa.CallInstruction:
			if builtinName(x.Common()) == "delete" {
				r.Bad(instrPos(x), "parser.let binding removed", "a parsed binding is removed from the let again: whether a variable is bound then depends on an analysis of the body, not on the text of the let")
			}
		case *ssa.Range:
			r.Bad(instrPos(x), "parser.let binding map ranged", "the binding map is iterated at parse time (filtering or reordering bindings)")
		}
	}
}
