package main

import (
	"fmt"
	"go/token"
	"go/types"
	"regexp"
	"sort"
	"strings"

	"golang.org/x/tools/go/ssa"
)

func init() {
	register(&Rule{ID: "E-SCOPE-THREAD", Props: []string{"C19", "C02", "C01", "C18", "C17", "C13"}, Floor: 54,
		Doc: "every argument of type *variableScope in the evaluator is the enclosing function's own scope parameter, except the single child scope created by the let case, which is passed only to the evaluation of the let body; bindings are evaluated with the outer scope and the current node; Evaluate starts with the nil scope; and the current-node argument of the let evaluations is the enclosing current node",
		Run: ruleEScopeThread})
	register(&Rule{ID: "E-SCOPE-CHAIN", Props: []string{"C19", "C01", "C08", "C18", "C03", "C09"}, Floor: 1,
		Doc: "variableScope.get decides presence with a comma-ok lookup in its own map before consulting the parent, and only on the not-found edge; variableScope.new links parent to the receiver and stores the given map",
		Run: ruleEScopeChain})
}

func isScopePtr(t types.Type) bool {
	pt, ok := t.Underlying().(*types.Pointer)
	if !ok {
		return false
	}
	nt, ok := types.Unalias(pt.Elem()).(*types.Named)
	return ok && nt.Obj().Name() == "variableScope"
}

func ruleEScopeThread(p *Program, r *Reporter) {
	d := newEvalDom(p)
	if d.why != "" {
		r.Unknown(token.NoPos, "evaluator model", d.why)
		return
	}
	isScope := func(t types.Type) bool { return types.Identical(t, d.scopeT) }
	entryNil := 0
	partOfDispatcher := d.partOfDispatcherFn()
	// byInterpretation: a recursive evaluation whose scope the local data flow cannot trace (it travels in a field of a
	// collector object, through a constructor) is decided by interpretation of the code it belongs to
	byInterpretation := func(fn *ssa.Function, in ssa.Instruction, callee *ssa.Function, key string) bool {
		if callee != d.evalFn {
			return false
		}
		if fn != d.evalFn && partOfDispatcher(fn) {
			r.OK(in.Pos(), key, "in a function D-DISPATCH interprets as part of the dispatcher: scope and current value of this evaluation are decided there, path by path")
			return true
		}
		hf := p.helperEvalFacts()
		if hf.why == "" && hf.covered(in.Pos(), fn) && hf.scopeOK[in.Pos()] {
			var roots []string
			for root := range hf.seenBy[in.Pos()] {
				roots = append(roots, root.Name())
			}
			sort.Strings(roots)
			r.OK(in.Pos(), key, "by interpretation of every helper that reaches this evaluation ("+strings.Join(roots, ", ")+"): on each of their paths the scope handed on here is the helper's own scope parameter")
			return true
		}
		return false
	}
	entryFns := map[*ssa.Function]bool{}
	for _, fn := range p.ReachFuncs(p.Eval) {
		name := p.FuncName(fn)
		var scopeParam *ssa.Parameter
		recvIsScope := fn.Signature.Recv() != nil && isScope(fn.Signature.Recv().Type())
		for i, prm := range fn.Params {
			if isScope(prm.Type()) && !(recvIsScope && i == 0) {
				scopeParam = prm
			}
		}
		n := 0
		for _, b := range fn.Blocks {
			for _, in := range b.Instrs {
				ci, ok := in.(ssa.CallInstruction)
				if !ok {
					continue
				}
				c := ci.Common()
				callee := calleeOf(c)
				for ai, arg := range c.Args {
					if !isScope(arg.Type()) {
						continue
					}
					n++
					key := fmt.Sprintf("%s scope-arg#%d to %s", name, n, calleeFullNameShort(c))
					switch a := arg.(type) {
					case *ssa.Parameter:
						if a == scopeParam || (recvIsScope && a == fn.Params[0]) {
							r.Trivial(in.Pos(), key, "the function's own scope parameter")
						} else {
							if !byInterpretation(fn, in, callee, key) {
								r.Bad(instrPos(in), key, "passes a scope that is not the function's own scope parameter")
							}
						}
					case *ssa.FreeVar:
						r.Trivial(in.Pos(), key, "captured scope of the enclosing function")
					case *ssa.Const:
						if fn.Parent() == nil && fn.Signature.Recv() == nil && scopeParam == nil && callee == d.evalFn {
							entryNil++
							entryFns[fn] = true
							r.OK(in.Pos(), key, "top-level evaluation starts with the empty (nil) scope")
						} else {
							if !byInterpretation(fn, in, callee, key) {
								r.Bad(instrPos(in), key, "passes a nil scope: variables bound by enclosing let expressions become undefined here")
							}
						}
					case *ssa.Call:
						cf := calleeOf(&a.Call)
						if cf != nil && cf.Signature.Recv() != nil && isScope(cf.Signature.Recv().Type()) && isScope(a.Type()) && fn == d.evalFn {
							// the child scope of the let case: its use is decided by D-DISPATCH (only the body of the let is evaluated in it)
							r.Trivial(in.Pos(), key, "child scope created by the dispatcher (context decided by D-DISPATCH)")
							if ai < len(c.Args) && callee != d.evalFn {
								r.Bad(instrPos(in), key+" use", "the child scope is handed to something other than the recursive evaluation")
							}
						} else {
							if !byInterpretation(fn, in, callee, key) {
								r.Bad(instrPos(in), key, "scope argument computed by "+a.String()+": scopes are created only by the dispatcher's let case")
							}
						}
					case *ssa.UnOp:
						// walking the chain inside a scope method: a field of the receiver that is itself a scope
						if fa, ok := a.X.(*ssa.FieldAddr); ok && a.Op == token.MUL && recvIsScope && isScope(fa.X.Type()) {
							r.Trivial(in.Pos(), key, "scope chain walk inside a scope method")
						} else if prm, owner := capturedParam(fn, a); prm != nil && isScope(prm.Type()) && owner != nil && !(owner.Signature.Recv() != nil && isScope(owner.Signature.Recv().Type()) && prm == owner.Params[0]) {
							// a closure (a callback handed to a higher-order helper, the body of a range-over-func loop) passing on
							// the scope parameter of the function it is written in; the variable is never assigned anything else
							r.Trivial(in.Pos(), key, "the enclosing function's own scope parameter, captured and never reassigned")
						} else {
							if !byInterpretation(fn, in, callee, key) {
								r.Bad(instrPos(in), key, "scope argument loaded from "+a.X.String())
							}
						}
					case *ssa.Phi:
						if recvIsScope {
							r.Trivial(in.Pos(), key, "scope chain walk inside a scope method")
						} else if fn == d.evalFn && loopScopeVar(a, scopeParam, isScope) {
							// the dispatcher goes round a loop instead of calling itself: its scope variable is the parameter or
							// the child scope a round created
							r.Trivial(in.Pos(), key, "the scope variable of the dispatcher's own loop (the parameter, or the child scope created by a round); which scope each evaluation sees on each path is decided by D-DISPATCH")
						} else {
							if !byInterpretation(fn, in, callee, key) {
								r.Bad(instrPos(in), key, "scope argument merged from several values: "+arg.String())
							}
						}
					default:
						if !byInterpretation(fn, in, callee, key) {
							r.Bad(instrPos(in), key, "scope argument is neither the function's parameter nor the let body's child scope: "+arg.String())
						}
					}
				}
			}
		}
	}
	if entryNil == 0 {
		r.Bad(token.NoPos, "entry scope", "no top-level call of the dispatcher with the nil scope found")
	}
	// who may call the entry point: an evaluation in progress never restarts from the package entry (that would replace the
	// document root by the current value and drop every binding of the enclosing let expressions)
	for _, fn := range p.ReachFuncs(p.Eval) {
		if entryFns[fn] {
			continue
		}
		for _, b := range fn.Blocks {
			for _, in := range b.Instrs {
				ci, ok := in.(ssa.CallInstruction)
				if !ok {
					continue
				}
				if callee := calleeOf(ci.Common()); callee != nil && entryFns[callee] {
					r.Bad(instrPos(in), fmt.Sprintf("%s restarts evaluation", p.FuncName(fn)), "an evaluation in progress calls the package entry point "+callee.Name()+": the sub-expression is evaluated with its operand as the document root and with no variable bound, so $ and let-variables inside it mean something else (or nothing)")
				}
			}
		}
	}
	// the current value of a recursive evaluation is never the document root (only `$` yields the root, by returning it)
	for _, fn := range p.ReachFuncs(p.Eval) {
		if fn.Signature.Recv() == nil {
			continue
		}
		for _, b := range fn.Blocks {
			for _, in := range b.Instrs {
				c, ok := in.(*ssa.Call)
				if !ok || calleeOf(&c.Call) != d.evalFn || d.curIdx >= len(c.Call.Args) {
					continue
				}
				if ld, ok := c.Call.Args[d.curIdx].(*ssa.UnOp); ok && ld.Op == token.MUL {
					if fa, ok := ld.X.(*ssa.FieldAddr); ok && fa.X == ssa.Value(fn.Params[0]) {
						if tn, _ := derefType(fn.Params[0].Type()).(*types.Named); tn == nil || d.evalFn.Signature.Recv() == nil || !types.Identical(derefType(d.evalFn.Signature.Recv().Type()), tn) {
							continue // a field of some other object (a collector holding the current value), not of the evaluator
						}
						r.Bad(instrPos(c), p.FuncName(fn)+" evaluates against the root", "a child is evaluated with a field of the evaluator (the document root) as its current value: the result no longer depends on where the expression stands")
					}
				}
			}
		}
	}
}

// loopScopeVar: phi merges only the function's scope parameter, results of scope methods applied to the phi itself, and
// the phi.
func loopScopeVar(phi *ssa.Phi, scopeParam *ssa.Parameter, isScope func(types.Type) bool) bool {
	seen := map[*ssa.Phi]bool{}
	var ok func(v ssa.Value) bool
	ok = func(v ssa.Value) bool {
		switch x := v.(type) {
		case *ssa.Parameter:
			return x == scopeParam
		case *ssa.Phi:
			if seen[x] {
				return true
			}
			seen[x] = true
			for _, e := range x.Edges {
				if !ok(e) {
					return false
				}
			}
			return true
		case *ssa.Call:
			cf := calleeOf(&x.Call)
			return cf != nil && cf.Signature.Recv() != nil && isScope(cf.Signature.Recv().Type()) && isScope(x.Type()) && len(x.Call.Args) > 0 && ok(x.Call.Args[0])
		}
		return false
	}
	return ok(phi)
}

func isScopeMethodRecv(fn *ssa.Function, prm *ssa.Parameter) bool {
	return fn.Signature.Recv() != nil && len(fn.Params) > 0 && fn.Params[0] == prm && isScopePtr(prm.Type())
}

func calleeFullNameShort(c *ssa.CallCommon) string {
	if f := calleeOf(c); f != nil {
		return f.Name()
	}
	if c.IsInvoke() {
		return c.Method.Name()
	}
	return "?"
}

func isFieldLoad(v ssa.Value, field string) bool {
	ld, ok := v.(*ssa.UnOp)
	if !ok || ld.Op != token.MUL {
		return false
	}
	fa, ok := ld.X.(*ssa.FieldAddr)
	return ok && fieldName(fa) == field
}

func ruleEScopeChain(p *Program, r *Reporter) {
	d := newEvalDom(p)
	if d.why != "" {
		r.Unknown(token.NoPos, "evaluator model", d.why)
		return
	}
	var lookup, push *ssa.Function
	ms := p.SSA.MethodSets.MethodSet(d.scopeT)
	for i := 0; i < ms.Len(); i++ {
		fn := p.SSA.MethodValue(ms.At(i))
		if fn == nil || len(fn.Blocks) == 0 {
			continue
		}
		sig := fn.Signature
		switch {
		case sig.Results().Len() == 1 && types.Identical(sig.Results().At(0).Type(), d.scopeT):
			push = fn
		case sig.Params().Len() == 1 && sig.Results().Len() == 2 && (isBoolType(sig.Results().At(1).Type()) || isErrorType(sig.Results().At(1).Type()) && !isErrorType(sig.Results().At(0).Type())):
			lookup = fn
		}
	}
	if lookup == nil || push == nil {
		r.Unknown(token.NoPos, "scope methods", "the scope type has no (name) (value, bool) or (name) (value, error) lookup method, or no method returning a new scope")
		return
	}
	// lookup over a chain of two scopes, then over the nil scope
	run := func(chain int) (map[string]bool, string) {
		e := newEngine(p, scopeDom{})
		e.MaxVisits = 4
		st := newState()
		var recv AV = avNil{}
		var objs []*avObj
		for i := 0; i < chain; i++ {
			objs = append(objs, e.NewObj(fmt.Sprintf("scope%d", i+1), derefType(d.scopeT)))
		}
		stt, _ := derefType(d.scopeT).Underlying().(*types.Struct)
		for i, o := range objs {
			for f := 0; stt != nil && f < stt.NumFields(); f++ {
				fld := stt.Field(f)
				switch {
				case types.Identical(fld.Type(), d.scopeT):
					if i+1 < len(objs) {
						st.store(avPtr{o, "." + fld.Name()}, avPtr{objs[i+1], ""})
					} else {
						st.store(avPtr{o, "." + fld.Name()}, avNil{})
					}
				default:
					if _, isMap := fld.Type().Underlying().(*types.Map); isMap {
						st.store(avPtr{o, "." + fld.Name()}, avPtr{e.NewObj(fmt.Sprintf("vars%d", i+1), fld.Type()), ""})
					}
				}
			}
		}
		if chain > 0 {
			recv = avPtr{objs[0], ""}
		}
		name := avSym{id: e.fresh(), tag: "name"}
		outs := e.Run(lookup, []AV{recv, name}, st)
		if e.Aborted != "" {
			return nil, e.Aborted
		}
		lines := map[string]bool{}
		for _, o := range outs {
			if o.Panic {
				lines["PANIC"] = true
				continue
			}
			if o.Cut {
				lines["CUT"] = true
				continue
			}
			var cs []string
			for _, c := range o.St.Conds {
				k := avKey(c.V)
				if !c.Truth {
					k = "!" + k
				}
				cs = append(cs, k)
			}
			second := avKey(o.Res[1])
			if isErrorType(lookup.Signature.Results().At(1).Type()) {
				// absence reported by an error: nil is "present", the undefined-variable error "absent"
				switch {
				case isDefNil(o.Res[1]):
					second = "true"
				case dynName(o.Res[1]) == "UndefinedVariableError":
					second = "false"
				default:
					second = "error " + dynName(o.Res[1])
				}
			}
			lines[strings.Join(cs, ",")+" => "+avKey(o.Res[0])+","+second] = true
		}
		return lines, ""
	}
	want := map[int]map[string]bool{
		0: {" => nil,false": true},
		1: {"ok:vars1[name]#0 => val:vars1[name]#0,true": true, "!ok:vars1[name]#0 => nil,false": true},
		2: {"ok:vars1[name]#0 => val:vars1[name]#0,true": true, "!ok:vars1[name]#0,ok:vars2[name]#0 => val:vars2[name]#0,true": true, "!ok:vars1[name]#0,!ok:vars2[name]#0 => nil,false": true},
	}
	for chain := 0; chain <= 2; chain++ {
		key := fmt.Sprintf("scope lookup over a chain of %d", chain)
		got, why := run(chain)
		if why != "" {
			r.Unknown(lookup.Pos(), key, why)
			continue
		}
		for k := range got {
			delete(got, k)
			got[symID.ReplaceAllString(k, "name")] = true
		}
		norm := func(m map[string]bool) []string {
			var out []string
			for k := range m {
				out = append(out, k)
			}
			sort.Strings(out)
			return out
		}
		g, w := strings.Join(norm(got), " ; "), strings.Join(norm(want[chain]), " ; ")
		if g == w {
			r.OK(lookup.Pos(), key, "presence decided by the comma-ok result of the innermost map first, the next scope only after a miss, absent only after the last: "+g)
		} else {
			r.Bad(lookup.Pos(), key, "the lookup behaves as: "+g+" ; specified: "+w+" (a binding is present exactly when its own map has the key, whatever its value; inner scopes shadow outer ones)")
		}
	}
	// push: the new scope links to the receiver and holds the given map
	{
		e := newEngine(p, scopeDom{})
		st := newState()
		recv := avSym{id: e.fresh(), tag: "recv", nonNil: true}
		vars := avSym{id: e.fresh(), tag: "vars"}
		args := []AV{recv}
		for i := 0; i < push.Signature.Params().Len(); i++ {
			args = append(args, vars)
		}
		outs := e.Run(push, args, st)
		ok := len(outs) == 1 && !outs[0].Panic && !outs[0].Cut && len(outs[0].Res) == 1
		detail := ""
		if ok {
			f := outs[0].St.fieldsOf(outs[0].Res[0])
			nLink, nVars := 0, 0
			for _, v := range f {
				switch avKey(v) {
				case avKey(recv):
					nLink++
				case avKey(vars):
					nVars++
				}
			}
			ok = nLink == 1 && nVars == 1
			detail = fmt.Sprintf("%d fields link to the receiver, %d hold the given bindings", nLink, nVars)
		}
		if ok {
			r.OK(push.Pos(), "scope creation", "the child scope links to the receiver and holds the given bindings")
		} else {
			r.Bad(push.Pos(), "scope creation", "the child scope does not link to the receiver and hold the given bindings on its single path ("+detail+"): outer bindings are lost or replaced")
		}
	}
}

var symID = regexp.MustCompile(`name#\d+`)

// scopeDom: nothing is modelled; map lookups on labelled maps are memoised symbols (see Engine.eval Lookup).
type scopeDom struct{}

func (scopeDom) Call(e *Engine, st *State, site ssa.CallInstruction, callee *ssa.Function, args []AV, depth int) ([]CallOut, bool) {
	return nil, false
}
func (scopeDom) Load(e *Engine, st *State, p avPtr, t types.Type) AV { return zeroAV(t) }

// boolFact: block b is dominated by the edge on which boolean v has the given truth.
func boolFact(b *ssa.BasicBlock, v ssa.Value, truth bool) bool {
	for _, f := range blockFacts(b) {
		c, t := f.Cond, f.Truth
		for {
			u, ok := c.(*ssa.UnOp)
			if !ok || u.Op != token.NOT {
				break
			}
			c, t = u.X, !t
		}
		if c == v && t == truth {
			return true
		}
	}
	return false
}

// rangeValueOfField: v is the value (or key) produced by ranging over a map/slice loaded from the named field.
func rangeValueOfField(v ssa.Value, field string) bool {
	ex, ok := v.(*ssa.Extract)
	if !ok {
		return false
	}
	nx, ok := ex.Tuple.(*ssa.Next)
	if !ok {
		return false
	}
	rg, ok := nx.Iter.(*ssa.Range)
	if !ok {
		return false
	}
	return isFieldLoad(rg.X, field)
}
