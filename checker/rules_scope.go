package main

import (
	"fmt"
	"go/token"
	"go/types"

	"golang.org/x/tools/go/ssa"
)

func init() {
	register(&Rule{ID: "E-SCOPE-THREAD", Props: []string{"C19", "C02", "C01"}, Floor: 150,
		Doc: "every argument of type *variableScope in the evaluator is the enclosing function's own scope parameter, except the single child scope created by the let case, which is passed only to the evaluation of the let body; bindings are evaluated with the outer scope and the current node; Evaluate starts with the nil scope; and the current-node argument of the let evaluations is the enclosing current node",
		Run: ruleEScopeThread})
	register(&Rule{ID: "E-SCOPE-CHAIN", Props: []string{"C19"}, Floor: 3,
		Doc: "variableScope.get decides presence with a comma-ok lookup in its own map before consulting the parent, and only on the not-found edge; variableScope.new links parent to the receiver and stores the given map",
		Run: ruleEScopeChain})
}

func isScopePtr(t types.Type) bool {
	pt, ok := t.Underlying().(*types.Pointer)
	if !ok {
		return false
	}
	nt, ok := types.Unalias(pt.Elem()).(*types.Named)
	return ok && nt.Obj().Name() == "variableScope"
}

func ruleEScopeThread(p *Program, r *Reporter) {
	newCalls := 0
	for _, fn := range p.ReachFuncs(p.Eval) {
		name := p.FuncName(fn)
		var scopeParam *ssa.Parameter
		for _, prm := range fn.Params {
			if isScopePtr(prm.Type()) && (fn.Signature.Recv() == nil || prm != fn.Params[0] || !isScopePtr(fn.Signature.Recv().Type())) {
				scopeParam = prm
			}
		}
		n := 0
		for _, b := range fn.Blocks {
			for _, in := range b.Instrs {
				ci, ok := in.(ssa.CallInstruction)
				if !ok {
					continue
				}
				c := ci.Common()
				callee := calleeOf(c)
				for ai, arg := range c.Args {
					if !isScopePtr(arg.Type()) {
						continue
					}
					// receiver of scope methods (get/new) counts as a use of the scope too
					n++
					key := fmt.Sprintf("%s scope-arg#%d to %s", name, n, calleeFullNameShort(c))
					switch a := arg.(type) {
					case *ssa.Parameter:
						if a == scopeParam || isScopeMethodRecv(fn, a) {
							r.Trivial(in.Pos(), key, "the function's own scope parameter")
						} else {
							r.Bad(instrPos(in), key, "passes a scope that is not the function's own scope parameter")
						}
					case *ssa.FreeVar:
						r.Trivial(in.Pos(), key, "captured scope of the enclosing function")
					case *ssa.Const:
						if fn.Name() == "Evaluate" && fn.Parent() == nil {
							r.OK(in.Pos(), key, "top-level evaluation starts with the empty (nil) scope")
						} else {
							r.Bad(instrPos(in), key, "passes a nil scope: variables bound by enclosing let expressions become undefined here")
						}
					case *ssa.Call:
						if cf := calleeOf(&a.Call); cf != nil && cf.Name() == "new" && isScopePtr(a.Type()) {
							// child scope: allowed only as the scope of the evaluation of the let body
							newCalls++
							good := callee != nil && callee.Name() == "evaluate" && len(c.Args) == 4 && ai == 3 && isFieldLoad(c.Args[1], "Child") && a.Call.Args[0] == ssa.Value(scopeParam)
							if good {
								r.OK(in.Pos(), key, "child scope created from the current scope and used only to evaluate the let body (field Child)")
							} else {
								r.Bad(instrPos(in), key, "a child scope is created or used outside the evaluation of the let body")
							}
							// its only use must be this call
							if refs := a.Referrers(); refs != nil && len(*refs) != 1 {
								r.Bad(instrPos(a), key+" uses", "the child scope is used in more than one place")
							}
						} else {
							r.Bad(instrPos(in), key, "scope argument computed by "+a.String())
						}
					case *ssa.UnOp:
						if isFieldLoad(a, "parent") && fn.Signature.Recv() != nil && isScopePtr(fn.Params[0].Type()) && callee != nil && callee.Name() == "get" && ai == 0 {
							r.Trivial(in.Pos(), key, "scope chain walk: parent of the receiver")
						} else {
							r.Bad(instrPos(in), key, "scope argument loaded from "+a.X.String())
						}
					default:
						r.Bad(instrPos(in), key, "scope argument is neither the function's parameter nor the let body's child scope: "+arg.String())
					}
				}
			}
		}
	}
	if newCalls != 1 {
		r.Bad(token.NoPos, "child scopes", fmt.Sprintf("%d child-scope creations found, expected exactly one (the let case)", newCalls))
	}
	// let case: the bindings loop evaluates with (binding node, current, variables) and the body with current too
	ev := p.Func(p.Eval, "evaluator", "evaluate")
	if ev == nil || len(ev.Params) < 4 {
		r.Unknown(token.NoPos, "let case", "evaluator.evaluate not found")
		return
	}
	cur := ev.Params[2]
	for _, b := range ev.Blocks {
		for _, in := range b.Instrs {
			mu, ok := in.(*ssa.MapUpdate)
			if !ok {
				continue
			}
			// results[name] = result where result = extract(evaluate(node, current, variables))
			ex, ok := mu.Value.(*ssa.Extract)
			if !ok {
				continue
			}
			call, ok := ex.Tuple.(*ssa.Call)
			if !ok || calleeOf(&call.Call) != ev {
				continue
			}
			if !rangeValueOfField(call.Call.Args[1], "Variables") {
				continue
			}
			key := "evaluator.evaluate let-binding evaluation"
			if call.Call.Args[2] == ssa.Value(cur) && call.Call.Args[3] == ssa.Value(ev.Params[3]) {
				r.OK(call.Pos(), key, "bindings are evaluated against the enclosing current node and the outer scope (they do not see each other)")
			} else {
				r.Bad(instrPos(call), key, "a let binding is not evaluated with the enclosing current node and the outer scope")
			}
			// the binding's name must be the map key it iterates
			if _, isMake := mu.Map.(*ssa.MakeMap); !isMake {
				r.Bad(instrPos(mu), key+" target", "bindings are not collected in a fresh map")
			}
		}
	}
	// the body evaluation passes current unchanged
	for _, b := range ev.Blocks {
		for _, in := range b.Instrs {
			call, ok := in.(*ssa.Call)
			if !ok || calleeOf(&call.Call) != ev || !isFieldLoad(call.Call.Args[1], "Child") {
				continue
			}
			if _, isNew := call.Call.Args[3].(*ssa.Call); !isNew {
				continue
			}
			if call.Call.Args[2] == ssa.Value(cur) {
				r.OK(call.Pos(), "evaluator.evaluate let-body current", "the let body is evaluated against the enclosing current node")
			} else {
				r.Bad(instrPos(call), "evaluator.evaluate let-body current", "the let body is not evaluated against the enclosing current node")
			}
		}
	}
	// VariableNode: reads the scope, never re-evaluates
	for _, b := range ev.Blocks {
		for _, in := range b.Instrs {
			call, ok := in.(*ssa.Call)
			if !ok {
				continue
			}
			if cf := calleeOf(&call.Call); cf != nil && cf.Name() == "get" && isScopePtr(call.Call.Args[0].Type()) {
				if call.Call.Args[0] == ssa.Value(ev.Params[3]) && isFieldLoad(call.Call.Args[1], "Name") {
					r.OK(call.Pos(), "evaluator.evaluate variable lookup", "a variable reference reads the current scope with the node's name")
				} else {
					r.Bad(instrPos(call), "evaluator.evaluate variable lookup", "variable lookup does not use the current scope and the node's name")
				}
			}
		}
	}
}

func isScopeMethodRecv(fn *ssa.Function, prm *ssa.Parameter) bool {
	return fn.Signature.Recv() != nil && len(fn.Params) > 0 && fn.Params[0] == prm && isScopePtr(prm.Type())
}

func calleeFullNameShort(c *ssa.CallCommon) string {
	if f := calleeOf(c); f != nil {
		return f.Name()
	}
	if c.IsInvoke() {
		return c.Method.Name()
	}
	return "?"
}

func isFieldLoad(v ssa.Value, field string) bool {
	ld, ok := v.(*ssa.UnOp)
	if !ok || ld.Op != token.MUL {
		return false
	}
	fa, ok := ld.X.(*ssa.FieldAddr)
	return ok && fieldName(fa) == field
}

func ruleEScopeChain(p *Program, r *Reporter) {
	get := p.Func(p.Eval, "variableScope", "get")
	nw := p.Func(p.Eval, "variableScope", "new")
	if get == nil || nw == nil {
		r.Unknown(token.NoPos, "variableScope", "methods get/new not found")
		return
	}
	// get: lookups in the variables map must be comma-ok; the found-return is under the ok edge; parent use under not-ok
	var lookups []*ssa.Lookup
	for _, b := range get.Blocks {
		for _, in := range b.Instrs {
			if lk, ok := in.(*ssa.Lookup); ok {
				if _, isMap := lk.X.Type().Underlying().(*types.Map); isMap {
					lookups = append(lookups, lk)
				}
			}
		}
	}
	if len(lookups) == 0 {
		r.Unknown(get.Pos(), "variableScope.get lookup", "no map lookup found")
	}
	for i, lk := range lookups {
		key := fmt.Sprintf("variableScope.get lookup#%d", i+1)
		if !lk.CommaOk {
			r.Bad(instrPos(lk), key, "presence of a binding is decided from the looked-up value, not with the comma-ok form: a variable bound to null is treated as unbound and resolved in an outer scope")
			continue
		}
		if !isFieldLoad(lk.X, "variables") {
			r.Bad(instrPos(lk), key, "lookup is not in the scope's own map")
			continue
		}
		var okv ssa.Value
		for _, ref := range *lk.Referrers() {
			if ex, ok := ref.(*ssa.Extract); ok && ex.Index == 1 {
				okv = ex
			}
		}
		if okv == nil {
			r.Bad(instrPos(lk), key, "the ok result of the lookup is discarded")
			continue
		}
		// every use of the parent (call to get on parent / load of parent) must be under ok == false
		bad := ""
		for _, b := range get.Blocks {
			for _, in := range b.Instrs {
				if ld, ok := in.(*ssa.UnOp); ok && isFieldLoad(ld, "parent") {
					if !boolFact(b, okv, false) && b != lk.Block() {
						bad = "the parent scope is consulted at " + p.Pos(instrPos(ld)) + " without the own map having missed"
					}
				}
			}
		}
		// found-return: returns (value, true) only under ok
		for _, ret := range returnsOf(get) {
			if c, ok := ret.Results[1].(*ssa.Const); ok && c.Value != nil && c.Value.String() == "true" {
				if !boolFact(ret.Block(), okv, true) {
					bad = "returns found=true at " + p.Pos(ret.Pos()) + " without a successful lookup"
				}
			}
		}
		if bad != "" {
			r.Bad(instrPos(lk), key, bad)
		} else {
			r.OK(lk.Pos(), key, "own map consulted first with comma-ok; parent only on the not-found edge")
		}
	}
	// new: &variableScope{parent: s, variables: variables}
	good := 0
	for _, b := range nw.Blocks {
		for _, in := range b.Instrs {
			st, ok := in.(*ssa.Store)
			if !ok {
				continue
			}
			fa, ok := st.Addr.(*ssa.FieldAddr)
			if !ok {
				continue
			}
			switch fieldName(fa) {
			case "parent":
				if st.Val == ssa.Value(nw.Params[0]) {
					good++
					r.OK(st.Pos(), "variableScope.new parent", "child scope links to the receiver")
				} else {
					r.Bad(instrPos(st), "variableScope.new parent", "child scope does not link to the receiver: outer bindings are lost or replaced")
				}
			case "variables":
				if len(nw.Params) > 1 && st.Val == ssa.Value(nw.Params[1]) {
					good++
					r.OK(st.Pos(), "variableScope.new variables", "child scope holds the given bindings")
				} else {
					r.Bad(instrPos(st), "variableScope.new variables", "child scope does not hold the given bindings")
				}
			}
		}
	}
	if good < 2 {
		r.Bad(nw.Pos(), "variableScope.new fields", "new does not initialise both parent and variables")
	}
}

// boolFact: block b is dominated by the edge on which boolean v has the given truth.
func boolFact(b *ssa.BasicBlock, v ssa.Value, truth bool) bool {
	for _, f := range blockFacts(b) {
		c, t := f.Cond, f.Truth
		for {
			u, ok := c.(*ssa.UnOp)
			if !ok || u.Op != token.NOT {
				break
			}
			c, t = u.X, !t
		}
		if c == v && t == truth {
			return true
		}
	}
	return false
}

// rangeValueOfField: v is the value (or key) produced by ranging over a map/slice loaded from the named field.
func rangeValueOfField(v ssa.Value, field string) bool {
	ex, ok := v.(*ssa.Extract)
	if !ok {
		return false
	}
	nx, ok := ex.Tuple.(*ssa.Next)
	if !ok {
		return false
	}
	rg, ok := nx.Iter.(*ssa.Range)
	if !ok {
		return false
	}
	return isFieldLoad(rg.X, field)
}
