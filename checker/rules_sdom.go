package main

// rules_sdom.go: P-DECODE. The decoders of quoted identifiers and raw strings, interpreted on symbolic texts (sdom.go)
// of every shape the specification distinguishes, write exactly what the specified escape table says.

import (
	"fmt"
	"go/constant"
	"go/token"
	"os"
	"sort"
	"strings"

	"golang.org/x/tools/go/ssa"
)

func init() {
	register(&Rule{ID: "P-DECODE", Props: []string{"C16", "C04", "C11", "C03", "C09"}, Floor: 40,
		Doc: "The decoders of quoted identifiers and of raw strings, by interpretation on symbolic texts: for every shape of body the specification distinguishes (stretches without a backslash of any length and content, each escape alone and followed by every other, \\u with each digit in each of the three digit classes, surrogate pairs, a lone final backslash, and for each of these the malformed variants), every path of the decoder that completes returns exactly the pieces of the input and the characters the specified escape table gives (raw strings: \\' and \\\\ unescaped, every other backslash kept; quoted identifiers: \\\" \\/ \\\\ \\b \\f \\n \\r \\t and \\uXXXX with surrogate pairs), rejects exactly the bodies the table has no meaning for, reads no byte beyond the text and none that is not the start of a character it has located. Any source form: switch, table, replacer, cursor object, merged decoders.",
		Run: rulePDecode})
}

var asciiBytes = func() string {
	b := make([]byte, 128)
	for i := range b {
		b[i] = byte(i)
	}
	return string(b)
}()

type cellSpec struct {
	kind string // "G" stretch without backslash, "B" known byte, "R" byte in a range, "X" byte excluding a set, "W" character outside ASCII
	b    byte
	lo   byte
	hi   byte
	excl string
}

type shape struct {
	name  string
	cells []cellSpec
}

func gapSpec() cellSpec        { return cellSpec{kind: "G", excl: "\\"} }
func byteSpec(b byte) cellSpec { return cellSpec{kind: "B", b: b} }

var hexClasses = []struct {
	name   string
	lo, hi byte
	k      int64 // value = byte - k
}{{"0-9", '0', '9', '0'}, {"a-f", 'a', 'f', 'a' - 10}, {"A-F", 'A', 'F', 'A' - 10}}

var quotedEscapes = map[byte]byte{'"': '"', '/': '/', '\\': '\\', 'b': '\b', 'f': '\f', 'n': '\n', 'r': '\r', 't': '\t'}
var rawEscapes = map[byte]byte{'\'': '\'', '\\': '\\'}

func escapeShapes(kind string) []shape {
	var out []shape
	G := gapSpec()
	bs := byteSpec('\\')
	add := func(name string, cells ...cellSpec) { out = append(out, shape{name, cells}) }
	add("no backslash", G)
	add("lone final backslash", G, bs)
	tbl := quotedEscapes
	if kind == "string" {
		tbl = rawEscapes
	}
	var keys []int
	for k := range tbl {
		keys = append(keys, int(k))
	}
	sort.Ints(keys)
	for _, k := range keys {
		add(fmt.Sprintf("\\%c", k), G, bs, byteSpec(byte(k)), G)
		add(fmt.Sprintf("\\%c at the end", k), G, bs, byteSpec(byte(k)))
	}
	for _, k1 := range keys {
		for _, k2 := range keys {
			add(fmt.Sprintf("\\%c then \\%c", k1, k2), G, bs, byteSpec(byte(k1)), G, bs, byteSpec(byte(k2)), G)
		}
	}
	// a backslash before any other character
	valid := ""
	for _, k := range keys {
		valid += string(rune(k))
	}
	if kind == "quoted" {
		valid += "u"
	}
	add("\\ before another ASCII character", G, bs, cellSpec{kind: "X", excl: valid, hi: 0x7f}, G)
	add("\\ before another ASCII character, then \\\\", G, bs, cellSpec{kind: "X", excl: valid, hi: 0x7f}, G, bs, byteSpec('\\'), G)
	add("\\ before a character outside ASCII", G, bs, cellSpec{kind: "W"}, G)
	if kind == "string" {
		add("\\u is nothing special", G, bs, byteSpec('u'), G)
		return out
	}
	u := byteSpec('u')
	hex := func(c int) cellSpec { return cellSpec{kind: "R", lo: hexClasses[c].lo, hi: hexClasses[c].hi} }
	// each digit position in each class
	for pos := 0; pos < 4; pos++ {
		for c := range hexClasses {
			cells := []cellSpec{G, bs, u}
			for i := 0; i < 4; i++ {
				if i == pos {
					cells = append(cells, hex(c))
				} else {
					cells = append(cells, hex((c+1+i)%3))
				}
			}
			add(fmt.Sprintf("\\u digit %d in %s", pos+1, hexClasses[c].name), append(cells, G)...)
		}
	}
	add("\\u at the end", G, bs, u, hex(0), hex(1), hex(2), hex(0))
	add("\\u then \\n", G, bs, u, hex(0), hex(0), hex(1), hex(2), G, bs, byteSpec('n'), G)
	add("\\n then \\u", G, bs, byteSpec('n'), G, bs, u, hex(2), hex(1), hex(0), hex(0), G)
	for k := 0; k < 4; k++ {
		cells := []cellSpec{G, bs, u}
		for i := 0; i < k; i++ {
			cells = append(cells, hex(i%3))
		}
		add(fmt.Sprintf("\\u cut short after %d digits", k), cells...)
	}
	for pos := 0; pos < 4; pos++ {
		cells := []cellSpec{G, bs, u}
		for i := 0; i < 4; i++ {
			if i == pos {
				cells = append(cells, cellSpec{kind: "X", excl: "0123456789abcdefABCDEF", hi: 0x7f})
			} else {
				cells = append(cells, hex(i%3))
			}
		}
		add(fmt.Sprintf("\\u with digit %d not hexadecimal", pos+1), append(cells, G)...)
	}
	add("\\u with a digit outside ASCII", G, bs, u, hex(0), cellSpec{kind: "W"}, hex(1), hex(2), G)
	// pairs
	add("\\u \\u (a surrogate pair, or two characters)", G, bs, u, hex(1), hex(0), hex(2), hex(0), bs, u, hex(2), hex(1), hex(0), hex(0), G)
	add("\\u \\u \\u \\u (two surrogate pairs in a row, or a pair between two characters, or four characters)", G, bs, u, hex(1), hex(0), hex(2), hex(0), bs, u, hex(2), hex(1), hex(0), hex(0), bs, u, hex(0), hex(2), hex(1), hex(0), bs, u, hex(1), hex(1), hex(2), hex(0), G)
	add("\\u \\u at the end", G, bs, u, hex(1), hex(0), hex(2), hex(0), bs, u, hex(2), hex(1), hex(0), hex(0))
	add("\\u then \\ and not u", G, bs, u, hex(1), hex(0), hex(2), hex(0), bs, cellSpec{kind: "X", excl: "u", hi: 0x7f}, hex(2), hex(1), hex(0), hex(0), G)
	add("\\u then a character that is not \\", G, bs, u, hex(1), hex(0), hex(2), hex(0), cellSpec{kind: "X", excl: "\\", hi: 0x7f}, u, hex(2), hex(1), hex(0), hex(0), G)
	add("\\u \\u with the second cut short", G, bs, u, hex(1), hex(0), hex(2), hex(0), bs, u, hex(2), hex(1))
	add("\\u \\u with a bad digit in the second", G, bs, u, hex(1), hex(0), hex(2), hex(0), bs, u, hex(2), cellSpec{kind: "X", excl: "0123456789abcdefABCDEF", hi: 0x7f}, hex(0), hex(0), G)
	return out
}

// seed builds the text <delim> cells <delim>.
func (d *strDom) seed(e *Engine, st *State, delim byte, sh shape) {
	cs := []scell{{val: avConst{constant.MakeInt64(int64(delim))}, size: lfConst(1), name: "open"}}
	for i, sp := range sh.cells {
		name := fmt.Sprintf("c%d", i+1)
		switch sp.kind {
		case "G":
			g := avSym{id: e.fresh(), tag: "len:" + name}
			d.syms[avKey(g)] = g
			st.assumeInt(g.id, token.GEQ, 0)
			st.assumeInt(g.id, token.LEQ, 1<<30)
			cs = append(cs, scell{gap: true, size: linForm{map[string]int64{avKey(g): 1}, 0, true}, excl: sp.excl + string(rune(delim)), name: name})
		case "B":
			cs = append(cs, scell{val: avConst{constant.MakeInt64(int64(sp.b))}, size: lfConst(1), name: name})
		case "R", "X":
			v := avSym{id: e.fresh(), tag: "chr:" + name}
			d.syms[avKey(v)] = v
			lo, hi := int64(sp.lo), int64(sp.hi)
			if sp.kind == "X" && hi == 0 {
				hi = 255
			}
			st.assumeInt(v.id, token.GEQ, lo)
			st.assumeInt(v.id, token.LEQ, hi)
			for _, x := range []byte(sp.excl) {
				st.assumeInt(v.id, token.NEQ, int64(x))
			}
			cs = append(cs, scell{val: v, size: lfConst(1), excl: sp.excl, name: name})
		case "W":
			// a character outside ASCII: its first byte and a stretch of one to three continuation bytes
			v := avSym{id: e.fresh(), tag: "lead:" + name}
			sz := avSym{id: e.fresh(), tag: "more:" + name}
			d.syms[avKey(v)], d.syms[avKey(sz)] = v, sz
			st.assumeInt(v.id, token.GEQ, 0xC2)
			st.assumeInt(v.id, token.LEQ, 0xF4)
			st.assumeInt(sz.id, token.GEQ, 1)
			st.assumeInt(sz.id, token.LEQ, 3)
			cs = append(cs, scell{val: v, size: lfConst(1), name: name, isByte: true})
			cs = append(cs, scell{gap: true, cont: true, size: linForm{map[string]int64{avKey(sz): 1}, 0, true}, excl: asciiBytes, name: name + "+"})
		}
	}
	cs = append(cs, scell{val: avConst{constant.MakeInt64(int64(delim))}, size: lfConst(1), name: "close"})
	d.setCells(st, cs)
}

// ---------------------------------------------------------------- reference

type tunit struct {
	kind string // "const", "cell", "gap", "rune", "decode", "unknown"
	a, b string
}

func (u tunit) String() string {
	switch u.kind {
	case "const":
		return fmt.Sprintf("%q", u.a)
	case "cell":
		return "char@" + u.a
	case "gap":
		return "text[" + u.a + ":" + u.b + "]"
	case "rune":
		return "rune(" + u.a + ")"
	case "decode":
		return "surrogates(" + u.a + "," + u.b + ")"
	}
	return "?" + u.a
}

// units expands items over the final cells: adjacent constants are joined.
func (d *strDom) units(st *State, items []sitem) ([]tunit, string) {
	var out []tunit
	push := func(u tunit) {
		if u.kind == "const" && len(out) > 0 && out[len(out)-1].kind == "const" {
			out[len(out)-1].a += u.a
			return
		}
		if u.kind == "const" && u.a == "" {
			return
		}
		out = append(out, u)
	}
	cs := d.cells(st)
	b := d.boundaries(st)
	for _, it := range items {
		switch it.kind {
		case "const":
			push(tunit{kind: "const", a: it.s})
		case "range":
			j0, j1 := d.at(st, it.lo), d.at(st, it.hi)
			if j0 < 0 || j1 < 0 || j1 < j0 {
				// at() returns the last boundary with an offset; an empty range may resolve backwards
				if lfEq(it.lo, it.hi) {
					continue
				}
				return nil, "a piece of the input is taken from " + lfKey(it.lo) + " to " + lfKey(it.hi) + ", which are not both starts of characters"
			}
			// start at the first boundary with the offset of lo (include empty stretches harmlessly)
			for j := j0; j < j1; j++ {
				c := cs[j]
				sz := d.sizeOf(st, c)
				if len(sz.syms) == 0 && sz.c == 0 {
					continue
				}
				if c.gap {
					push(tunit{kind: "gap", a: lfKey(b[j]), b: lfKey(b[j+1])})
				} else if k, ok := st.KnownInt(c.val); ok && !c.wide {
					push(tunit{kind: "const", a: string(rune(k))})
				} else {
					push(tunit{kind: "cell", a: lfKey(b[j])})
				}
			}
		case "rune":
			push(tunit{kind: "rune", a: lfKey(d.lin(st, it.v))})
		case "decode":
			push(tunit{kind: "decode", a: lfKey(d.lin(st, it.v)), b: lfKey(d.lin(st, it.w))})
		default:
			push(tunit{kind: "unknown", a: avKey(it.v)})
		}
	}
	return out, ""
}

// classOf: the hexadecimal class the path confines the byte v to.
func classOf(st *State, v AV) (int64, bool) {
	if k, ok := st.KnownInt(v); ok {
		for _, c := range hexClasses {
			if k >= int64(c.lo) && k <= int64(c.hi) {
				return c.k, true
			}
		}
		return 0, false
	}
	lo, hi, _ := st.intRange(v)
	for _, c := range hexClasses {
		if lo >= int64(c.lo) && hi <= int64(c.hi) {
			return c.k, true
		}
	}
	return 0, false
}

// canBe: the path leaves open that v is one of the bytes in set.
func canBe(st *State, c scell, set string) bool {
	if c.wide {
		return false
	}
	if k, ok := st.KnownInt(c.val); ok {
		return k >= 0 && k < 256 && strings.ContainsRune(set, rune(k))
	}
	lo, hi, _ := st.intRange(c.val)
	ex := st.Excluded(c.val)
	for _, x := range []byte(set) {
		if int64(x) >= lo && int64(x) <= hi && !ex[int64(x)] && !strings.ContainsRune(c.excl, rune(x)) {
			return true
		}
	}
	return false
}

// reference: what the specification makes of the body (the cells between the delimiters) on this path. err != "" means
// the body is not a legal literal; amb != "" means the path has not established enough about the text to decide.
func (d *strDom) reference(st *State, kind string) (items []sitem, err, amb string) {
	cs := d.cells(st)
	b := d.boundaries(st)
	tbl := quotedEscapes
	if kind == "string" {
		tbl = rawEscapes
	}
	keys := ""
	for k := range tbl {
		keys += string(rune(k))
	}
	n := len(cs) - 1 // the closing delimiter
	hex4 := func(j int) (linForm, string, string) {
		r := lfConst(0)
		for i := 0; i < 4; i++ {
			if j+i >= n {
				return r, "\\u is followed by fewer than four characters", ""
			}
			c := cs[j+i]
			if c.gap {
				return r, "", "a digit of \\u lies in a stretch of text the path has not examined"
			}
			k, ok := classOf(st, c.val)
			if !ok || c.wide {
				if c.wide || !canBe(st, c, "0123456789abcdefABCDEF") {
					return r, "a digit of \\u is not hexadecimal", ""
				}
				return r, "", "the path does not confine a digit of \\u to one class"
			}
			r = lfAdd(lfScale(r, 16), lfAdd(d.lin(st, c.val), lfConst(k), -1), 1)
		}
		return r, "", ""
	}
	for j := 1; j < n; j++ {
		c := cs[j]
		if sz := d.sizeOf(st, c); len(sz.syms) == 0 && sz.c == 0 {
			continue
		}
		if c.gap {
			if !strings.Contains(c.excl, "\\") {
				return nil, "", "a stretch of text may contain a backslash"
			}
			items = append(items, sitem{kind: "range", lo: b[j], hi: b[j+1]})
			continue
		}
		if k, ok := st.KnownInt(c.val); !ok || k != '\\' || c.wide {
			if canBe(st, c, "\\") {
				return nil, "", "a character is passed over without being compared with the backslash"
			}
			items = append(items, sitem{kind: "range", lo: b[j], hi: b[j+1]})
			continue
		}
		// a backslash
		if j+1 >= n {
			items = append(items, sitem{kind: "range", lo: b[j], hi: b[j+1]}) // the last character: kept
			continue
		}
		nx := cs[j+1]
		if nx.gap {
			return nil, "", "the character after a backslash lies in a stretch of text the path has not examined"
		}
		if k, ok := st.KnownInt(nx.val); ok && !nx.wide {
			if m, isEsc := tbl[byte(k)]; isEsc && k < 256 {
				items = append(items, sitem{kind: "const", s: string(rune(m))})
				j++
				continue
			}
			if k == 'u' && kind == "quoted" {
				r, e1, a1 := hex4(j + 2)
				if e1 != "" || a1 != "" {
					return nil, e1, a1
				}
				sur, tested := st.memo[avKey(avSym{tag: "utf16.IsSurrogate", payload: nil})]
				_ = sur
				_ = tested
				isSur, known := d.surrogateTruth(st, r)
				if !known {
					return nil, "", "the path does not test whether \\u" + " names a surrogate"
				}
				if !isSur {
					items = append(items, sitem{kind: "rune", v: d.lfAV(r)})
					j += 5
					continue
				}
				// a low surrogate must follow as another \\u escape
				k1 := j + 6
				if k1 <= n {
					// fewer than six bytes left, by a length test the path has made: no room for another escape
					if d.pathSays(st, lfAdd(lfAdd(b[n], b[k1], -1), lfConst(6), -1)) {
						return nil, "a surrogate is not followed by another \\u escape", ""
					}
				}
				// stretches without a backslash between here and the next character: if one of them is certainly not
				// empty, or all may be empty but what comes after is not a backslash either, no escape follows
				for k1 < n && cs[k1].gap {
					sz := d.sizeOf(st, cs[k1])
					mn, mx, ok := d.bounds(st, sz)
					if !ok || !strings.Contains(cs[k1].excl, "\\") {
						return nil, "", "what follows a surrogate lies in a stretch of text the path has not examined"
					}
					if mn >= 1 {
						return nil, "a surrogate is not followed by another \\u escape", ""
					}
					if mx > 0 {
						// possibly empty: the verdict must not depend on it
						nk := k1 + 1
						if nk >= n || cs[nk].gap || !canBe(st, cs[nk], "\\") {
							return nil, "a surrogate is not followed by another \\u escape", ""
						}
						return nil, "", "the path does not decide whether the stretch after a surrogate is empty"
					}
					k1++
				}
				if k1 >= n || k1+1 >= n {
					return nil, "a surrogate is not followed by another \\u escape", ""
				}
				c1, c2 := cs[k1], cs[k1+1]
				if !canBe(st, c1, "\\") {
					return nil, "a surrogate is not followed by another \\u escape", ""
				}
				if c2.gap {
					return nil, "", "what follows a surrogate lies in a stretch of text the path has not examined"
				}
				v1, ok1 := st.KnownInt(c1.val)
				v2, ok2 := st.KnownInt(c2.val)
				if (ok1 && v1 != '\\') || (!ok1 && !canBe(st, c1, "\\")) || (ok2 && v2 != 'u') || (!ok2 && !canBe(st, c2, "u")) {
					return nil, "a surrogate is not followed by another \\u escape", ""
				}
				if !ok1 || !ok2 {
					return nil, "", "the path does not decide whether a surrogate is followed by \\u"
				}
				r2, e2, a2 := hex4(k1 + 2)
				if e2 != "" || a2 != "" {
					return nil, e2, a2
				}
				items = append(items, sitem{kind: "decode", v: d.lfAV(r), w: d.lfAV(r2)})
				j = k1 + 5
				continue
			}
		}
		// some other character after the backslash
		valid := keys
		if kind == "quoted" {
			valid += "u"
		}
		if canBe(st, nx, valid) {
			return nil, "", "the path does not decide which escape follows a backslash"
		}
		if kind == "quoted" {
			return nil, "a backslash is followed by a character that starts no escape", ""
		}
		items = append(items, sitem{kind: "range", lo: b[j], hi: b[j+2]}) // raw strings keep both
		j++
	}
	return items, "", ""
}

// pathSays: the path has established form < 0 by a comparison of two lengths or positions.
func (d *strDom) pathSays(st *State, form linForm) bool {
	if lo, hi, ok := d.bounds(st, form); ok && hi < 0 {
		_ = lo
		return true
	}
	for _, c := range st.Conds {
		cmp, ok := c.V.(avCmp)
		if !ok {
			continue
		}
		a, b := d.lin(st, cmp.x), d.lin(st, cmp.y)
		if !a.ok || !b.ok {
			continue
		}
		df := lfAdd(a, b, -1) // x - y
		op := cmp.op
		if !c.Truth {
			op = negateOp(op)
		}
		switch op {
		case token.LSS: // x - y < 0
			if lfEq(df, form) {
				return true
			}
		case token.LEQ: // x - y <= 0  <=>  x - y - 1 < 0
			if lfEq(lfAdd(df, lfConst(1), -1), form) {
				return true
			}
		case token.GTR: // y - x < 0
			if lfEq(lfScale(df, -1), form) {
				return true
			}
		case token.GEQ:
			if lfEq(lfAdd(lfScale(df, -1), lfConst(1), -1), form) {
				return true
			}
		}
	}
	return false
}

// surrogateTruth: what the path has found out about utf16.IsSurrogate of the code tunit r.
func (d *strDom) surrogateTruth(st *State, r linForm) (bool, bool) {
	for _, c := range st.Conds {
		sy, ok := c.V.(avSym)
		if !ok || sy.tag != "utf16.IsSurrogate" || sy.payload == nil {
			continue
		}
		if lfEq(d.lin(st, sy.payload), r) {
			return c.Truth, true
		}
	}
	// a comparison of the code tunit with the surrogate range decides as well
	lo, hi, ok := d.bounds(st, r)
	if ok && (hi < 0xD800 || lo > 0xDFFF) {
		return false, true
	}
	if ok && lo >= 0xD800 && hi <= 0xDFFF {
		return true, true
	}
	return false, false
}

// ---------------------------------------------------------------- the rule

func rulePDecode(p *Program, r *Reporter) {
	lh := literalHelpers(p)
	for _, job := range []struct {
		kind  string
		delim byte
		what  string
	}{{"quoted", '"', "quoted identifier"}, {"string", '\'', "raw string"}} {
		fn := lh[job.kind]
		if fn == nil {
			r.Unknown(token.NoPos, job.what+" decoder", "the function the primary-expression parser hands this token's text to was not found")
			continue
		}
		for _, sh := range escapeShapes(job.kind) {
			key := job.what + ": " + sh.name
			if f := os.Getenv("JMESCHECK_SHAPE"); f != "" && !strings.Contains(key, f) {
				continue
			}
			if os.Getenv("JMESCHECK_DEBUG_SHAPES") != "" {
				fmt.Fprintf(os.Stderr, "shape %s\n", key)
			}
			d := &strDom{p: p, syms: map[string]avSym{}}
			e := newEngine(p, d)
			d.e = e
			e.MaxVisits = 12
			e.MaxDepth = 8
			e.ForkTables = true
			d.obj = e.NewObj("text", nil)
			d.root = avSym{id: e.fresh(), tag: "text"}
			st := e.WithInit(fn.Pkg, newState())
			d.seed(e, st, job.delim, sh)
			args := make([]AV, len(fn.Params))
			for i, prm := range fn.Params {
				if isStringType(prm.Type()) {
					args[i] = d.root
				} else {
					args[i] = avSym{id: e.fresh(), tag: "arg:" + prm.Name()}
				}
			}
			var fatal []string
			e.Stop = func(st *State) bool {
				for _, ev := range st.Trace {
					switch ev.Kind {
					case "oob", "misaligned", "unsupported":
						if len(fatal) < 4 {
							fatal = append(fatal, ev.Note+" ("+p.Pos(ev.Pos)+")")
						}
						return true
					}
				}
				return false
			}
			outs := e.Run(fn, args, st)
			if e.Aborted != "" {
				r.Unknown(fn.Pos(), key, "path enumeration aborted: "+e.Aborted)
				continue
			}
			done, cut := 0, 0
			bad := append([]string(nil), fatal...)
			badPos := fn.Pos()
			var detail string
			for _, o := range outs {
				if o.Cut {
					cut++
					continue
				}
				pos := fn.Pos()
				if o.Ret != nil {
					pos = o.Ret.Pos()
				}
				fail := func(msg string) {
					if os.Getenv("JMESCHECK_DEBUG_SHAPES") != "" {
						fmt.Fprintf(os.Stderr, "FAIL %s: %s\n  cells:", key, msg)
						for _, c := range d.cells(o.St) {
							if c.gap {
								fmt.Fprintf(os.Stderr, " G(%s)", lfKey(d.sizeOf(o.St, c)))
							} else {
								fmt.Fprintf(os.Stderr, " %s", runeClass(o.St, avSymOr(c.val)))
							}
						}
						fmt.Fprintf(os.Stderr, "\n  conds:")
						for _, c := range o.St.Conds {
							fmt.Fprintf(os.Stderr, " %s=%v", avKey(c.V), c.Truth)
						}
						fmt.Fprintf(os.Stderr, "\n")
					}
					bad = append(bad, msg)
					if len(bad) == 1 {
						badPos = pos
					}
				}
				if o.Panic {
					fail("a path panics")
					continue
				}
				done++
				evBad := false
				for _, ev := range o.St.Trace {
					switch ev.Kind {
					case "oob", "misaligned", "unsupported":
						fail(ev.Note)
						evBad = true
					}
				}
				if evBad {
					continue
				}
				want, wantErr, amb := d.reference(o.St, job.kind)
				isErr := len(o.Res) > 0 && !isDefNil(o.Res[len(o.Res)-1])
				switch {
				case amb != "" && !isErr:
					fail("a path accepts the text although " + amb)
				case amb != "":
					// a rejection before the text was examined far enough to know it is malformed
					fail("a path rejects the text although " + amb)
				case wantErr != "" && !isErr:
					fail("accepted although " + wantErr)
				case wantErr == "" && isErr:
					fail("a legal literal is rejected (the specification gives " + d.render(o.St, want) + ")")
				case wantErr != "":
					detail = "rejected: " + wantErr
				default:
					got := d.resultItems(o.St, o.Res[0])
					gu, why1 := d.units(o.St, got)
					wu, why2 := d.units(o.St, want)
					if why1 != "" || why2 != "" {
						fail(why1 + why2)
						break
					}
					gs, ws := fmt.Sprint(gu), fmt.Sprint(wu)
					if gs != ws {
						fail("decodes to " + gs + ", the specification gives " + ws)
					} else {
						detail = "= " + ws
					}
				}
			}
			switch {
			case len(bad) > 0:
				r.Bad(badPos, key, bad[0]+fmt.Sprintf(" (%d of %d paths)", len(bad), done))
			case done == 0:
				r.Bad(fn.Pos(), key, fmt.Sprintf("no path of the decoder completes on a text of this shape (%d paths end in a loop that does not finish within the bound)", cut))
			default:
				r.OK(fn.Pos(), key, fmt.Sprintf("%d paths %s", done, detail))
			}
		}
	}
}

func (d *strDom) render(st *State, items []sitem) string {
	u, why := d.units(st, items)
	if why != "" {
		return "?"
	}
	return fmt.Sprint(u)
}

var _ = ssa.Value(nil)

func avSymOr(v AV) avSym {
	if sy, ok := v.(avSym); ok {
		return sy
	}
	if c, ok := v.(avConst); ok {
		return avSym{tag: c.v.ExactString(), payload: v}
	}
	return avSym{}
}
