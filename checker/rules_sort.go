package main

import (
	"fmt"
	"go/ast"
	"go/token"
	"go/types"
	"sort"
	"strings"

	"golang.org/x/tools/go/ssa"
)

func init() {
	register(&Rule{ID: "E-STABLE-SORT", Props: []string{"C13", "C02", "C14"}, Floor: 1,
		Doc: "the helpers the SortByNode case of evaluate dispatches to (transitively, within the repository) call a stable sort (sort.Stable, sort.SliceStable, slices.SortStableFunc) and no unstable one",
		Run: ruleEStableSort})
	register(&Rule{ID: "E-LESS-STRICT", Props: []string{"C13"}, Floor: 0,
		Doc: "every Less method of a repository type compares strictly (< or >, never <= or >=): a non-strict Less breaks stability and the sort contract",
		Run: ruleELessStrict})
	register(&Rule{ID: "E-SWAP-COMPLETE", Props: []string{"C13"}, Floor: 0,
		Doc: "every Swap method exchanges elements i and j of every slice field of its receiver (items and keys must move together)",
		Run: ruleESwapComplete})
	register(&Rule{ID: "E-CMP-PURE", Props: []string{"C13", "C03"}, Floor: 1,
		Doc: "closures passed as comparators to sort functions store to no captured variable: validation by side effect of the comparator misses elements the sort never compares",
		Run: ruleECmpPure})
}

var stableSorts = map[string]bool{"sort.Stable": true, "sort.SliceStable": true, "slices.SortStableFunc": true}
var unstableSorts = map[string]bool{"sort.Sort": true, "sort.Slice": true, "slices.SortFunc": true, "slices.Sort": true, "sort.Strings": true, "sort.Ints": true, "sort.Float64s": true}

// dispatchTargets returns the repository functions called in the case clause of evaluate's type switch for node type name.
func dispatchTargets(p *Program, nodeType string) ([]*types.Func, token.Pos) {
	fd := p.FuncDecl(p.Eval, "evaluator", "evaluate")
	if fd == nil {
		return nil, token.NoPos
	}
	var out []*types.Func
	var pos token.Pos
	ast.Inspect(fd.Body, func(n ast.Node) bool {
		ts, ok := n.(*ast.TypeSwitchStmt)
		if !ok {
			return true
		}
		for _, c := range ts.Body.List {
			cc := c.(*ast.CaseClause)
			match := false
			for _, e := range cc.List {
				if strings.TrimPrefix(typeShort(p.Eval.TypesInfo.TypeOf(e)), "*") == "parser."+nodeType {
					match = true
				}
			}
			if !match {
				continue
			}
			pos = cc.Pos()
			for _, st := range cc.Body {
				ast.Inspect(st, func(m ast.Node) bool {
					call, ok := m.(*ast.CallExpr)
					if !ok {
						return true
					}
					if f, ok := calleeObj(p.Eval, call).(*types.Func); ok && f.Pkg() == p.Eval.Types && f.Name() != "evaluate" {
						out = append(out, f)
					}
					return true
				})
			}
		}
		return false
	})
	return out, pos
}

// repoClosure computes the repository functions statically reachable from roots (excluding the dispatcher).
func repoClosure(p *Program, roots []*ssa.Function) []*ssa.Function {
	seen := map[*ssa.Function]bool{}
	var out []*ssa.Function
	var walk func(f *ssa.Function)
	walk = func(f *ssa.Function) {
		if f == nil || seen[f] || !p.IsRepo(f) || f.Name() == "evaluate" || f == p.RoleFunc("evaluator", "evaluator", "evaluate") {
			return
		}
		seen[f] = true
		out = append(out, f)
		for _, an := range f.AnonFuncs {
			walk(an)
		}
		for _, b := range f.Blocks {
			for _, in := range b.Instrs {
				if ci, ok := in.(ssa.CallInstruction); ok {
					walk(calleeOf(ci.Common()))
				}
			}
		}
	}
	for _, r := range roots {
		walk(r)
	}
	return out
}

func ruleEStableSort(p *Program, r *Reporter) {
	targets, pos := dispatchTargets(p, "SortByNode")
	if len(targets) == 0 {
		r.Unknown(pos, "SortByNode dispatch", "the SortByNode case of evaluate (or its helper) was not found")
		return
	}
	var roots []*ssa.Function
	for _, t := range targets {
		roots = append(roots, p.SSA.FuncValue(t))
	}
	fns := repoClosure(p, roots)
	stable, unstable := 0, 0
	// an unstable sort is acceptable when its comparator is a total order that falls back on the original position:
	// decided by interpreting the sort_by helper and, at each call of the sort, its comparator on the first two
	// elements with equal keys (vdom.probeComparator)
	probes := map[token.Pos][]string{}
	probed := false
	probe := func() {
		if probed {
			return
		}
		probed = true
		d := newValDom(p)
		if d.why != "" {
			return
		}
		d.toDecimal = numericRoles(p).toDecimal
		d.sortProbe, d.opaqueSort = true, true
		for _, root := range roots {
			top := root
			for top.Parent() != nil {
				top = top.Parent()
			}
			vr, why := d.run(top, 3, nil)
			if why != "" {
				continue
			}
			for _, o := range vr.outs {
				for _, ev := range o.St.Trace {
					if ev.Kind == "sort-probe" {
						probes[ev.Pos] = append(probes[ev.Pos], ev.Note)
					}
				}
			}
		}
	}
	for _, fn := range fns {
		for _, b := range fn.Blocks {
			for _, in := range b.Instrs {
				ci, ok := in.(ssa.CallInstruction)
				if !ok {
					continue
				}
				n := calleeFullName(ci.Common())
				switch {
				case stableSorts[n]:
					stable++
					r.OK(in.Pos(), fmt.Sprintf("%s calls %s", p.FuncName(fn), n), "stable sort")
				case unstableSorts[n]:
					unstable++
					probe()
					okN, badNote := 0, ""
					for _, note := range probes[in.Pos()] {
						if strings.HasPrefix(note, "ok:") {
							okN++
						} else if badNote == "" {
							badNote = note
						}
					}
					if okN > 0 && badNote == "" {
						r.OK(in.Pos(), fmt.Sprintf("%s calls %s", p.FuncName(fn), n), fmt.Sprintf("an unstable sort whose comparator never reports a tie: on each of the %d interpreted paths over two elements with equal keys it orders the earlier element first", okN))
						continue
					}
					msg := "sort_by reaches an unstable sort: elements with equal keys can be reordered once the array exceeds the insertion-sort threshold (12)"
					if badNote != "" {
						msg += " (comparator interpreted on two elements: " + badNote + ")"
					}
					r.Bad(instrPos(in), fmt.Sprintf("%s calls %s", p.FuncName(fn), n), msg)
				}
			}
		}
	}
	if stable == 0 && unstable == 0 {
		r.Unknown(pos, "SortByNode sort call", "no sort call found under the SortByNode case")
	}
}

func ruleELessStrict(p *Program, r *Reporter) {
	found := 0
	defer func() {
		// a code base that sorts without sort.Interface has no Less method: E-STABLE-SORT decides its comparators
		r.Trivial(token.NoPos, "scan", fmt.Sprintf("%d reachable Less methods", found))
	}()
	for _, fd := range p.FuncDecls(p.Eval) {
		if fd.Name.Name != "Less" || fd.Recv == nil || !p.ReachDecl(fd) {
			continue
		}
		found++
		key := "evaluator." + DeclName(fd)
		if len(fd.Body.List) != 1 {
			r.Unknown(fd.Pos(), key, "Less is not a single return statement")
			continue
		}
		ret, ok := fd.Body.List[0].(*ast.ReturnStmt)
		if !ok || len(ret.Results) != 1 {
			r.Unknown(fd.Pos(), key, "Less is not a single return statement")
			continue
		}
		switch e := ast.Unparen(ret.Results[0]).(type) {
		case *ast.BinaryExpr:
			switch e.Op {
			case token.LSS, token.GTR:
				r.OK(fd.Pos(), key, "strict comparison `"+exprStr(e)+"`")
			case token.LEQ, token.GEQ:
				r.Bad(e.Pos(), key, "non-strict comparison `"+exprStr(e)+"`: equal keys report Less in both directions, which breaks stability")
			default:
				r.Unknown(e.Pos(), key, "unrecognised comparison `"+exprStr(e)+"`")
			}
		case *ast.CallExpr:
			n := calleeName(p.Eval, e)
			if strings.HasSuffix(n, ".Less") {
				r.OK(fd.Pos(), key, "delegates to "+n)
			} else if strings.HasSuffix(n, ".LessOrEqual") || strings.HasSuffix(n, ".GreaterOrEqual") {
				r.Bad(e.Pos(), key, "non-strict comparison via "+n)
			} else {
				r.Unknown(e.Pos(), key, "unrecognised comparison `"+exprStr(e)+"`")
			}
		default:
			r.Unknown(fd.Pos(), key, "unrecognised Less body")
		}
	}
}

func ruleESwapComplete(p *Program, r *Reporter) {
	found := 0
	defer func() {
		r.Trivial(token.NoPos, "scan", fmt.Sprintf("%d reachable Swap methods", found))
	}()
	for _, fd := range p.FuncDecls(p.Eval) {
		if fd.Name.Name != "Swap" || fd.Recv == nil || !p.ReachDecl(fd) {
			continue
		}
		found++
		recvField := fd.Recv.List[0]
		rt := p.Eval.TypesInfo.TypeOf(recvField.Type)
		st, ok := derefType(rt).Underlying().(*types.Struct)
		if !ok || len(recvField.Names) == 0 {
			continue
		}
		recvName := recvField.Names[0].Name
		// which fields are swapped: assignments `r.f[a], r.f[b] = r.f[b], r.f[a]`
		swapped := map[string]bool{}
		ast.Inspect(fd.Body, func(n ast.Node) bool {
			as, ok := n.(*ast.AssignStmt)
			if !ok || len(as.Lhs) != 2 || len(as.Rhs) != 2 {
				return true
			}
			f := func(e ast.Expr) (string, string) {
				ix, ok := e.(*ast.IndexExpr)
				if !ok {
					return "", ""
				}
				sel, ok := ix.X.(*ast.SelectorExpr)
				if !ok {
					return "", ""
				}
				if id, ok := sel.X.(*ast.Ident); !ok || id.Name != recvName {
					return "", ""
				}
				return sel.Sel.Name, exprStr(ix.Index)
			}
			f0, i0 := f(as.Lhs[0])
			f1, i1 := f(as.Lhs[1])
			g0, j0 := f(as.Rhs[0])
			g1, j1 := f(as.Rhs[1])
			if f0 != "" && f0 == f1 && f0 == g0 && f0 == g1 && i0 != i1 && i0 == j1 && i1 == j0 {
				swapped[f0] = true
			}
			return true
		})
		var names []string
		for i := 0; i < st.NumFields(); i++ {
			if _, isSlice := st.Field(i).Type().Underlying().(*types.Slice); isSlice {
				names = append(names, st.Field(i).Name())
			}
		}
		sort.Strings(names)
		for _, f := range names {
			key := "evaluator." + DeclName(fd) + " field " + f
			if swapped[f] {
				r.OK(fd.Pos(), key, "elements i and j exchanged")
			} else {
				r.Bad(fd.Pos(), key, "slice field "+f+" of the receiver is not exchanged by Swap: items and their keys go out of step")
			}
		}
	}
}

func ruleECmpPure(p *Program, r *Reporter) {
	sortWithFunc := map[string]int{"slices.SortFunc": 1, "slices.SortStableFunc": 1, "sort.Slice": 1, "sort.SliceStable": 1, "slices.BinarySearchFunc": 2, "slices.MaxFunc": 1, "slices.MinFunc": 1}
	n := 0
	for _, fn := range p.ReachFuncs(p.Eval) {
		for _, b := range fn.Blocks {
			for _, in := range b.Instrs {
				ci, ok := in.(ssa.CallInstruction)
				if !ok {
					continue
				}
				full := calleeFullName(ci.Common())
				idx, ok := sortWithFunc[full]
				if !ok || idx >= len(ci.Common().Args) {
					continue
				}
				n++
				key := fmt.Sprintf("%s comparator of %s#%d", p.FuncName(fn), full, n)
				var cl *ssa.Function
				switch a := ci.Common().Args[idx].(type) {
				case *ssa.MakeClosure:
					cl = a.Fn.(*ssa.Function)
				case *ssa.Function:
					cl = a
				}
				var cls []*ssa.Function
				if cl != nil {
					cls = []*ssa.Function{cl}
				} else if prm, isParam := ci.Common().Args[idx].(*ssa.Parameter); isParam {
					// the comparator is handed down by the callers of this helper: every one of them must pass a function
					resolved := true
					pi := -1
					for i, q := range fn.Params {
						if q == prm {
							pi = i
						}
					}
					callers := 0
					for _, g := range p.ReachFuncs(p.Eval) {
						for _, gb := range g.Blocks {
							for _, gin := range gb.Instrs {
								gc, ok := gin.(ssa.CallInstruction)
								if !ok || gc.Common().StaticCallee() != fn || pi < 0 || pi >= len(gc.Common().Args) {
									continue
								}
								callers++
								switch a := gc.Common().Args[pi].(type) {
								case *ssa.MakeClosure:
									cls = append(cls, a.Fn.(*ssa.Function))
								case *ssa.Function:
									cls = append(cls, a)
								default:
									resolved = false
								}
							}
						}
					}
					if !resolved || callers == 0 {
						cls = nil
					}
				}
				if len(cls) == 0 {
					r.Unknown(instrPos(in), key, "comparator is not a function literal")
					continue
				}
				bad := ""
				for _, cl := range cls {
					for _, cb := range cl.Blocks {
						for _, cin := range cb.Instrs {
							if st, ok := cin.(*ssa.Store); ok {
								if _, isFree := st.Addr.(*ssa.FreeVar); isFree {
									bad = "stores to captured variable " + st.Addr.Name() + " at " + p.Pos(instrPos(st))
								}
							}
							if mu, ok := cin.(*ssa.MapUpdate); ok {
								bad = "updates a map at " + p.Pos(instrPos(mu))
							}
						}
					}
				}
				if bad != "" {
					r.Bad(instrPos(in), key, "comparator "+bad+": results that depend on which pairs the sort happens to compare")
				} else {
					r.OK(in.Pos(), key, "comparator writes nothing outside its own frame")
				}
			}
		}
	}
	if n == 0 {
		r.Trivial(token.NoPos, "scan", "no comparator closures in the evaluator")
	}
}
