package main

// rules_tlex.go: the lexical grammar, decided by path enumeration of the lexer's Next over symbolic runes (ldom.go).

import (
	"fmt"
	"go/constant"
	"go/token"
	"go/types"
	"sort"
	"strings"

	"golang.org/x/tools/go/ssa"
)

func init() {
	register(&Rule{ID: "T-LEX", Props: []string{"C04", "C16", "C03", "C11", "C09", "C10", "C19", "C18", "C08"}, Floor: 14,
		Doc: "The lexical grammar, by path enumeration of the lexer's Next over a stream of symbolic runes (sub-scanners and helpers inlined, any source form): every token is produced for exactly its spelling (one-, two- and three-rune operators with their longest-match lookahead, numbers with optional minus, identifiers and the keywords in/let, $ and variables, and the three delimited literals whose body is any rune but the delimiter and the backslash, or a backslash followed by any rune); the token's text is exactly the runes consumed and the position moves to just after them; only white space is skipped before a token; every position is the start position plus the sizes of the runes before it (a constant step only over a rune the path has pinned to ASCII); every other rune is rejected.",
		Run: ruleTLex})
}

func (d *lexDom) nextFn() *ssa.Function {
	ms := d.p.SSA.MethodSets.MethodSet(types.NewPointer(d.lexerT))
	for i := 0; i < ms.Len(); i++ {
		fn := d.p.SSA.MethodValue(ms.At(i))
		if fn == nil || len(fn.Blocks) == 0 || !fn.Object().Exported() {
			continue
		}
		sig := fn.Signature
		if sig.Params().Len() == 1 && sig.Results().Len() == 1 && isErrorType(sig.Results().At(0).Type()) {
			if pt, ok := sig.Params().At(0).Type().(*types.Pointer); ok && isLexerToken(pt.Elem()) {
				return fn
			}
		}
	}
	return nil
}

func ruleTLexDump(p *Program, r *Reporter) {
	d := newLexDom(p)
	if d.why != "" {
		r.Unknown(token.NoPos, "lexer model", d.why)
		return
	}
	fn := d.nextFn()
	if fn == nil {
		r.Unknown(token.NoPos, "lexer model", "no exported (*Token) error method")
		return
	}
	e, st := d.start()
	outs := e.Run(fn, []AV{avPtr{d.lobj, ""}, avPtr{d.tobj, ""}}, st)
	if e.Aborted != "" {
		r.Unknown(fn.Pos(), "lexer", e.Aborted)
		return
	}
	lines := map[string]int{}
	for _, o := range outs {
		s := ""
		switch {
		case o.Panic:
			s = "PANIC"
		case o.Cut:
			s = "CUT in " + o.CutBlock.Parent().Name()
		default:
			lp := d.describe(o, 0)
			s = lp.Line
			if len(lp.Missteps) > 0 {
				s += " MISSTEP " + strings.Join(lp.Missteps, "|")
			}
		}
		lines[s]++
	}
	var ks []string
	for k := range lines {
		ks = append(ks, k)
	}
	sort.Strings(ks)
	for _, k := range ks {
		r.Trivial(fn.Pos(), k, "")
	}
}

var lexSpec = []string{
	"'%' => Modulo", "'(' => OpenParen", "')' => CloseParen", "'*' => Asterisk", "'+' => Add", "',' => Comma", "':' => Colon", "'@' => Current",
	"']' => CloseSqBrace", "'{' => OpenBrace", "'}' => CloseBrace", "'×' => Multiply", "'÷' => Divide", "'−' => Subtract", "'-' => Subtract",
	"'&' '&' => And", "'&' => Expression", "'.' '*' => ObjectWildcard", "'.' => Dot", "'/' '/' => IntegerDivide", "'/' => Divide",
	"'<' '=' => LessOrEqual", "'<' => Less", "'=' '=' => Equal", "'=' => Assign", "'>' '=' => GreaterOrEqual", "'>' => Greater",
	"'[' '*' ']' => ArrayWildcard", "'[' '?' => Filter", "'[' ']' => Flatten", "'[' => OpenSqBrace", "'|' '|' => Or", "'|' => Pipe",
	"'!' '=' => NotEqual", "'!' => Not", "'$' => Root", "=> End",
	"NUMBER => IntegerLiteral", "'-' NUMBER => IntegerLiteral",
	"IDENT => UnquotedIdentifier", "IDENT => In {text=\"in\"}", "IDENT => Let {text=\"let\"}", "'$' IDENT => Variable",
	"'\"' BODY '\"' => QuotedIdentifier", "'\\'' BODY '\\'' => StringLiteral", "'`' BODY '`' => JSONLiteral",
}

// canonLex canonicalises the consumed-rune part of a line: digit runs, identifiers and delimited bodies.
func canonLex(consumed []string) (string, string) {
	isL := func(c string) bool { return c == "['A'-'Z']" || c == "['a'-'z']" || c == "'_'" }
	isD := func(c string) bool { return c == "['0'-'9']" }
	var out []string
	i := 0
	for i < len(consumed) {
		c := consumed[i]
		switch {
		case isD(c) && (i == 0 || consumed[i-1] == "'-'") && len(out) == i:
			for i < len(consumed) && isD(consumed[i]) {
				i++
			}
			out = append(out, "NUMBER")
			continue
		case isL(c) && (i == 0 || (i == 1 && consumed[0] == "'$'")):
			i++
			for i < len(consumed) && (isL(consumed[i]) || isD(consumed[i])) {
				i++
			}
			out = append(out, "IDENT")
			continue
		case i == 0 && (c == "'\"'" || c == "'\\''" || c == "'`'") && len(consumed) >= 2 && consumed[len(consumed)-1] == c:
			// body: ordinary runes (anything but the delimiter and the backslash) or backslash + any rune
			delim := c
			ord1 := "^" + delim + "'\\\\'"
			ord2 := "^'\\\\'" + delim
			j := 1
			for j < len(consumed)-1 {
				switch {
				case consumed[j] == ord1 || consumed[j] == ord2:
					j++
				case consumed[j] == "'\\\\'" && j+1 < len(consumed)-1 && consumed[j+1] == "ANY":
					j += 2
				default:
					return "", "inside " + delim + " the rune class " + consumed[j] + " is neither `any rune but the delimiter and the backslash` nor a backslash followed by any rune"
				}
			}
			return delim + " BODY " + delim, ""
		}
		out = append(out, c)
		i++
	}
	return strings.Join(out, " "), ""
}

func ruleTLex(p *Program, r *Reporter) {
	d := newLexDom(p)
	if d.why != "" {
		r.Unknown(token.NoPos, "lexer model", d.why)
		return
	}
	fn := d.nextFn()
	if fn == nil {
		r.Unknown(token.NoPos, "lexer model", "no exported (*Token) error method of the lexer")
		return
	}
	e, st := d.start()
	outs := e.Run(fn, []AV{avPtr{d.lobj, ""}, avPtr{d.tobj, ""}}, st)
	if e.Aborted != "" {
		r.Unknown(fn.Pos(), "lexer", "path enumeration aborted: "+e.Aborted)
		return
	}
	got := map[string]token.Pos{}
	reported := map[string]bool{}
	wsSeen := map[int]bool{}
	for _, o := range outs {
		if o.Panic {
			if !reported["panic"] {
				r.Bad(fn.Pos(), "lexer panic", "a path of the lexer panics")
				reported["panic"] = true
			}
			continue
		}
		if o.Cut {
			// a path still scanning when the loop bound was reached: it must not have seen the decoder fail (at the end of
			// the text the decoder consumes nothing, and a scanner that goes on never advances again)
			for _, ev := range o.St.Trace {
				if ev.Kind == "decode-err" && o.CutBlock != nil {
					k := "decode error ignored in " + o.CutBlock.Parent().Name()
					if !reported[k] {
						reported[k] = true
						r.Bad(ev.Pos, k, "a path goes on scanning after the rune decoder reported an error (end of the text or an invalid sequence): the decoder consumed nothing, so the scanner does not advance any more")
					}
				}
			}
			continue
		}
		for _, ev := range o.St.Trace {
			if ev.Kind == "runtime-panic" && !reported["rp:"+ev.Note] {
				reported["rp:"+ev.Note] = true
				r.Bad(ev.Pos, "lexer panic :: "+ev.Note, "a path of the lexer reaches an operation that panics")
			}
		}
		lp := d.describe(o, 0)
		for _, m := range lp.Missteps {
			if !reported[m] {
				r.Bad(lp.Pos, "position arithmetic :: "+m, "a position is not the start position plus the sizes of the runes before it: a multi-byte rune is split, or the position runs past the end of the input")
				reported[m] = true
			}
		}
		if lp.Err != "" {
			// apart from decoding failures (end of input, invalid UTF-8) the only lexical error is an unexpected first rune
			// (a path that has bounded the length of the text from above has found its end)
			_, nhi, _ := o.St.intRange(d.ncells)
			if endKnown := nhi < 1<<30; lp.Err != "decode-err" && !lastDecodeFailed(o.St) && !endKnown {
				examined := d.nRunes(o.St)
				ws := 0
				for i := 1; i <= examined; i++ {
					rr, _ := d.rune(o.St, i)
					if c, ok := o.St.KnownInt(rr); ok && (c == ' ' || c == '\t' || c == '\n' || c == '\r') && i == ws+1 {
						ws++
					}
				}
				if examined-ws != 1 {
					k := "rejects :: " + lp.Line
					if !reported[k] {
						r.Bad(lp.Pos, k, "a rune after the first one of a token is rejected with "+lp.Err+": inside a token (in particular inside a delimited literal) every rune is either consumed or ends the token")
						reported[k] = true
					}
				}
			}
			continue
		}
		// the lexer's other fields (state the constructor initialises) are what the enumeration assumed them to be at
		// entry; a token that is not the end token must leave them so, or the next call starts from a state not covered
		if lp.Token != "End" {
			for path, init := range d.stateInit {
				if v, ok := o.St.load(avPtr{d.lobj, path}); ok && avKey(v) != avKey(init) {
					k := "lexer state " + path + " after " + lp.Token
					if !reported[k] {
						reported[k] = true
						r.Bad(lp.Pos, k, "the field is "+avKey(v)+" after the token is produced and "+avKey(init)+" after construction: the paths enumerated from the constructed state say nothing about the next call")
					}
				}
			}
		}
		wsSeen[lp.WS] = true
		var notes []string
		for _, n := range lp.Note {
			if strings.HasPrefix(n, "text=") {
				notes = append(notes, n)
				continue
			}
			if !reported[n] {
				r.Bad(lp.Pos, "token text :: "+lp.Token+" :: "+n, "the token's text and the new position must be exactly the runes consumed")
				reported[n] = true
			}
		}
		cons, why := canonLex(lp.Consumed)
		if why != "" {
			if !reported[why] {
				r.Bad(lp.Pos, "literal body :: "+lp.Token+" :: "+why, "a delimited literal must accept exactly: any rune but its delimiter and the backslash, or a backslash followed by any rune")
				reported[why] = true
			}
			continue
		}
		line := strings.TrimSpace(cons + " => " + lp.Token)
		if len(notes) > 0 {
			line += " {" + strings.Join(notes, "; ") + "}"
		}
		got[line] = lp.Pos
	}
	want := map[string]bool{}
	for _, l := range lexSpec {
		want[l] = true
	}
	for _, g := range sortedKeysPos(got) {
		if want[g] {
			r.OK(got[g], "token :: "+g, "as specified")
		} else {
			r.Bad(got[g], "token :: "+g, "the lexer produces this token for this spelling, which is not in the lexical grammar")
		}
	}
	for _, w := range lexSpec {
		if _, ok := got[w]; !ok {
			r.Bad(fn.Pos(), "token :: "+w, "no path of the lexer produces this token of the lexical grammar")
		}
	}
	// the constructor hands the text to the lexer unchanged and starts at its first byte
	for _, cf := range p.Funcs {
		if cf.Pkg == nil || cf.Pkg.Pkg != p.Lexer.Types || cf.Parent() != nil || cf.Signature.Recv() != nil || cf.Signature.Params().Len() != 1 || cf.Signature.Results().Len() != 1 {
			continue
		}
		rt := cf.Signature.Results().At(0).Type()
		if pt, ok := rt.(*types.Pointer); ok {
			rt = pt.Elem()
		}
		if nt, ok := rt.(*types.Named); !ok || nt != d.lexerT {
			continue
		}
		ce := newEngine(p, scopeDom{})
		text := avSym{id: ce.fresh(), tag: "text"}
		couts := ce.Run(cf, []AV{text}, newState())
		key := "constructor lexer." + cf.Name()
		if len(couts) != 1 || couts[0].Panic || couts[0].Cut || len(couts[0].Res) != 1 {
			r.Bad(cf.Pos(), key, fmt.Sprintf("%d paths; expected one that stores the text", len(couts)))
			continue
		}
		fields := couts[0].St.fieldsOf(couts[0].Res[0])
		if sv, ok := couts[0].Res[0].(avStruct); ok {
			fields = sv.f
		}
		// nested struct values (an embedded cursor) count with their leaf fields
		flat := map[string]AV{}
		var flatten func(prefix string, m map[string]AV, depth int)
		flatten = func(prefix string, m map[string]AV, depth int) {
			for k, v := range m {
				if sv, ok := v.(avStruct); ok && depth < 4 {
					flatten(prefix+k+".", sv.f, depth+1)
					continue
				}
				flat[prefix+k] = v
			}
		}
		flatten("", fields, 0)
		fields = flat
		nText, bad := 0, ""
		for fname, fv := range fields {
			if avKey(fv) == avKey(text) {
				nText++
				continue
			}
			if c, ok := fv.(avConst); ok && (c.v.ExactString() == "0" || c.v.ExactString() == `""`) {
				continue
			}
			bad = "field " + fname + " is initialised to " + avKey(fv)
		}
		switch {
		case nText != 1:
			r.Bad(cf.Pos(), key, "the lexer does not start with exactly the text it was given (a trimmed, converted or copied text changes which strings compile)")
		case bad != "":
			r.Bad(cf.Pos(), key, bad+": the lexer must start at the first byte of the text")
		default:
			r.OK(cf.Pos(), key, "stores the text unchanged, position 0")
		}
	}
	if wsSeen[0] && wsSeen[1] {
		r.OK(fn.Pos(), "white space", "tokens are recognised with and without preceding white space; only white space is skipped")
	} else {
		r.Bad(fn.Pos(), "white space", "no path skips white space before a token")
	}
}

// lastDecodeFailed: the last thing the rune decoder did on this path was to fail (end of the text, ill-formed sequence).
func lastDecodeFailed(st *State) bool {
	last := ""
	for _, ev := range st.Trace {
		if ev.Kind == "decode" || ev.Kind == "decode-err" {
			last = ev.Kind
		}
	}
	return last == "decode-err"
}

// ---------------------------------------------------------------- T-DECODER

func init() {
	register(&Rule{ID: "T-DECODER", Props: []string{"C04", "C11", "C16", "C18", "C03", "C08"}, Floor: 1,
		Doc: "The lexer's rune decoder — the primitive every other lexer rule takes on trust — by interpretation on the cell model with the library decoder and byte reads as primitives: it reports success only with the character that stands at the position and that character's width (a byte it only read must be pinned to ASCII and the width be 1), and fails with an error exactly on the paths on which the library decoder failed or the position is known to be the end of the text",
		Run: ruleTDecoder})
}

func ruleTDecoder(p *Program, r *Reporter) {
	d := newLexDom(p)
	if d.why != "" {
		r.Unknown(token.NoPos, "lexer model", d.why)
		return
	}
	fn := d.decodeFn
	key := "lexer." + fn.Name()
	e, st := d.start()
	outs := e.Run(fn, []AV{avPtr{d.lobj, ""}, d.base}, st)
	if e.Aborted != "" {
		r.Unknown(fn.Pos(), key, "path enumeration aborted: "+e.Aborted)
		return
	}
	okN, errN := 0, 0
	bad := ""
	var badPos token.Pos
	fail := func(pos token.Pos, msg string) {
		if bad == "" {
			bad, badPos = msg, pos
		}
	}
	for _, o := range outs {
		if o.Panic {
			fail(fn.Pos(), "a path of the decoder panics")
			continue
		}
		if o.Cut || o.Ret == nil || len(o.Res) != 3 {
			continue
		}
		for _, ev := range o.St.Trace {
			if ev.Kind == "misstep" || ev.Kind == "runtime-panic" {
				fail(ev.Pos, ev.Note)
			}
		}
		_, nhi, _ := o.St.intRange(d.ncells)
		endKnown := nhi < 1
		if !isDefNil(o.Res[2]) {
			errN++
			if !lastDecodeFailed(o.St) && !endKnown {
				fail(o.Ret.Pos(), "an error is returned on a path on which the text goes on and the character at the position is well-formed")
			}
			continue
		}
		// success
		if endKnown || lastDecodeFailed(o.St) {
			fail(o.Ret.Pos(), "success is reported on a path on which the position is the end of the text or the library decoder failed")
			continue
		}
		if d.nRunes(o.St) < 1 {
			fail(o.Ret.Pos(), "success is reported without looking at the text")
			continue
		}
		rv, sv := d.rune(o.St, 1)
		sameRune := avKey(o.Res[0]) == avKey(rv)
		if c, ok := o.Res[0].(avConst); ok {
			if k, known := o.St.KnownInt(rv); known && c.v.Kind() == constant.Int {
				if cv, exact := constant.Int64Val(c.v); exact && cv == k {
					sameRune = true
				}
			}
		}
		if !sameRune {
			fail(o.Ret.Pos(), "the rune returned ("+renderVal(o.Res[0])+") is not the character at the position")
			continue
		}
		switch d.kind(o.St, 1) {
		case "dec":
			if avKey(o.Res[1]) != avKey(sv) {
				if k1, ok1 := o.St.KnownInt(o.Res[1]); !ok1 || func() bool { k2, ok2 := o.St.KnownInt(sv); return !ok2 || k1 != k2 }() {
					fail(o.Ret.Pos(), "the width returned ("+renderVal(o.Res[1])+") is not the width of the decoded character")
					continue
				}
			}
		default:
			// only read as a byte: it stands for itself only when the path pins it to ASCII, and then it is one byte wide
			if !d.isASCII(o.St, 1) {
				lo, hi, _ := o.St.intRange(rv)
				fail(o.Ret.Pos(), fmt.Sprintf("a byte that was only read, not decoded, and that the path confines to [%d, %d] only (not to ASCII) is returned as a character: a byte of 0x80 and above is part of a longer sequence or ill-formed", lo, hi))
				continue
			}
			if k, ok := o.St.KnownInt(o.Res[1]); !ok || k != 1 {
				fail(o.Ret.Pos(), "an ASCII byte is returned with a width other than 1")
				continue
			}
		}
		okN++
	}
	switch {
	case bad != "":
		r.Bad(badPos, key, bad)
	case okN == 0 || errN == 0:
		r.Unknown(fn.Pos(), key, fmt.Sprintf("%d success and %d error paths; both are expected", okN, errN))
	default:
		r.OK(fn.Pos(), key, fmt.Sprintf("%d success paths return the character at the position with its width, %d error paths follow a failed decode or the end of the text", okN, errN))
	}
}
