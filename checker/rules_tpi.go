package main

// rules_tpi.go: parser rules decided by the token-protocol interpreter (tpi.go / absint.go).

import (
	"fmt"
	"go/constant"
	"go/token"
	"go/types"
	"math"
	"sort"
	"strings"

	"golang.org/x/tools/go/ssa"
)

func init() {
	register(&Rule{ID: "T-INDEX", Props: []string{"C12", "C04", "C01", "C08", "C02", "C10", "C13", "C16", "C17", "C18", "C19", "C20"}, Floor: 13,
		Doc: "Bracket specifiers, by path enumeration of the index/slice parser over a symbolic token stream (helpers inlined, any source form): the token sequences it accepts are exactly `n ]`, `[n] : [n] ]` and `[n] : [n] : [n] ]`; every consumed token is pinned to one type; an index node carries the integer parsed from its token (the small form only under 0..255); a slice node carries the parsed bounds or the defaults 0 / MaxInt / 1, with MaxInt / MinInt for absent bounds exactly when the parsed step is negative; a zero step is never accepted; slices, and only slices, are reported as projections.",
		Run: ruleTIndex})
}

func (d *parserDom) methodBySig(match func(sig *types.Signature) bool) []*ssa.Function {
	var out []*ssa.Function
	ms := d.p.SSA.MethodSets.MethodSet(types.NewPointer(d.ptype))
	for i := 0; i < ms.Len(); i++ {
		fn := d.p.SSA.MethodValue(ms.At(i))
		if fn != nil && len(fn.Blocks) > 0 && match(fn.Signature) {
			out = append(out, fn)
		}
	}
	sort.Slice(out, func(i, j int) bool { return out[i].Name() < out[j].Name() })
	return out
}

func isBoolType(t types.Type) bool {
	b, ok := t.Underlying().(*types.Basic)
	return ok && b.Kind() == types.Bool
}

// intRange returns the interval the path facts give an integer value.
func (s *State) intRange(v AV) (lo, hi int64, zeroExcluded bool) {
	if c, ok := s.KnownInt(v); ok {
		return c, c, c != 0
	}
	if sy, ok := v.(avSym); ok {
		if f := s.ints[s.idOf(sy)]; f != nil {
			return f.lo, f.hi, f.neq[0] || f.lo > 0 || f.hi < 0
		}
	}
	return math.MinInt64, math.MaxInt64, false
}

// indexFacts: what the interpretation of the bracket-specifier parser establishes about values that flow from its
// tests to its results through locals, struct fields or helpers: used by dataflow rules when the test and the use are
// no longer in one function.
type indexFacts struct {
	why        string
	entered    map[*ssa.Function]bool
	paths      int
	stepOK     bool
	stepDetail string
	conv       map[token.Pos]*convFact
}

type convFact struct {
	seen   int
	lo, hi int64
}

func (p *Program) indexParserFacts() *indexFacts {
	if p.memoIndexFacts != nil {
		return p.memoIndexFacts
	}
	f := &indexFacts{entered: map[*ssa.Function]bool{}, conv: map[token.Pos]*convFact{}, stepOK: true}
	p.memoIndexFacts = f
	d := newParserDom(p)
	if d.why != "" {
		f.why = d.why
		return f
	}
	fn := d.inferRoles().index
	if fn == nil {
		f.why = "no bracket-specifier parser"
		return f
	}
	for _, withChild := range []bool{false, true} {
		e, st := d.start(fn)
		e.TraceConv = true
		e.Entered = f.entered
		var child AV = avNil{}
		if withChild {
			child = avSym{id: e.fresh(), tag: "child", nonNil: true}
		}
		outs := e.Run(fn, []AV{avPtr{d.pobj, ""}, child}, st)
		if e.Aborted != "" {
			f.why = "path enumeration aborted: " + e.Aborted
			return f
		}
		for _, o := range outs {
			if o.Panic || o.Cut {
				f.why = "a path of the bracket-specifier parser ends in a panic or an unexpected loop"
				return f
			}
			if len(o.Res) < 2 || !isDefNil(o.Res[len(o.Res)-1]) {
				continue
			}
			f.paths++
			var visit func(v AV, depth int)
			visit = func(v AV, depth int) {
				if depth > 3 {
					return
				}
				for name, fv := range o.St.fieldsOf(v) {
					if name == "Step" {
						if _, _, nz := o.St.intRange(fv); !nz {
							f.stepOK = false
							f.stepDetail = fmt.Sprintf("%s: the path returning at %s builds a node whose Step (%s) is not known to be non-zero", p.FuncName(fn), p.Fset.Position(o.Ret.Pos()), avKey(fv))
						}
						continue
					}
					if dynName(fv) != "" {
						visit(fv, depth+1)
					}
				}
			}
			visit(o.Res[0], 0)
			for _, ev := range o.St.Trace {
				if ev.Kind != "conv" {
					continue
				}
				lo, hi, _ := o.St.intRange(ev.Args[0])
				cf := f.conv[ev.Pos]
				if cf == nil {
					cf = &convFact{lo: lo, hi: hi}
					f.conv[ev.Pos] = cf
				}
				cf.seen++
				cf.lo, cf.hi = min(cf.lo, lo), max(cf.hi, hi)
			}
		}
	}
	return f
}

// onlyCalledWithin: every static call site of fn lies in one of the functions of set (or fn has none and is in set).
func onlyCalledWithin(fn *ssa.Function, set map[*ssa.Function]bool) bool {
	if !set[fn] {
		return false
	}
	for _, s := range callSitesOf(fn) {
		caller := s.Parent()
		for caller != nil && caller.Parent() != nil {
			caller = caller.Parent()
		}
		if caller == nil || !set[caller] {
			return false
		}
	}
	return true
}

func ruleTIndex(p *Program, r *Reporter) {
	d := newParserDom(p)
	if d.why != "" {
		r.Unknown(token.NoPos, "parser model", d.why)
		return
	}
	// the bracket-specifier parser: (Node) (Node, bool, error), or (Node) (Node, error) when it wraps a slice in its
	// projection itself instead of telling the caller to
	rl := d.inferRoles()
	fn := rl.index
	if fn == nil {
		r.Unknown(token.NoPos, "index parser", "no parser method builds index nodes from a bracket specifier")
		return
	}
	pw, pwWhy := d.powers()
	if pwWhy != "" {
		r.Unknown(token.NoPos, "binding powers", pwWhy)
		return
	}
	selfWrapping := fn.Signature.Results().Len() == 2
	name := "parser." + fn.Name()
	type want struct{ start, stop, step bool }
	for _, withChild := range []bool{false, true} {
		cs := "no child"
		if withChild {
			cs = "child"
		}
		e, st := d.start(fn)
		var child AV = avNil{}
		if withChild {
			child = avSym{id: e.fresh(), tag: "child", nonNil: true}
		}
		outs := e.Run(fn, []AV{avPtr{d.pobj, ""}, child}, st)
		if e.Aborted != "" {
			r.Unknown(fn.Pos(), name+" "+cs, "path enumeration aborted: "+e.Aborted)
			continue
		}
		seen := map[string]bool{}
		for _, o := range outs {
			if o.Panic || o.Cut {
				r.Unknown(fn.Pos(), name+" "+cs+" incomplete path", "a path ends in a panic or an unexpected loop")
				continue
			}
			if len(o.Res) < 2 || !isDefNil(o.Res[len(o.Res)-1]) {
				continue // error path
			}
			items, _, _ := d.consumed(o.St)
			if selfWrapping {
				// normalise to the (node, is-a-projection) form: a slice comes back as ProjectArrayNode{Left: slice, Right: rhs}
				// where rhs is what the projection parser returned after the bracket, or the current node when it returned nil
				res0 := o.Res[0]
				flag := false
				if dynName(res0) == "ProjectArrayNode" {
					f := o.St.fieldsOf(res0)
					var projEv *Event
					if n := len(items); n > 0 && items[n-1].Ev != nil && rl.byFn[items[n-1].Ev.Fn] == "PROJ" {
						projEv = items[n-1].Ev
						items = items[:n-1]
					}
					okWrap := projEv != nil
					if okWrap {
						if pv, known := o.St.KnownInt(projEv.Args[1]); !known || pv != pw["ObjectWildcardToken"] {
							okWrap = false
						}
						right := f["Right"]
						if !(avKey(right) == avKey(projEv.Res[0]) || dynName(right) == "CurrentNode") {
							okWrap = false
						}
					}
					if !okWrap {
						r.Bad(o.Ret.Pos(), fmt.Sprintf("%s %s slice projection [%s", name, cs, patString(items)), "a slice is not wrapped as ProjectArrayNode{Left: slice, Right: the selectors that follow parsed at the object-wildcard power, or the current node}")
						continue
					}
					res0, flag = f["Left"], true
				}
				o.Res = []AV{res0, avConst{constant.MakeBool(flag)}, avNil{}}
			}
			pat := patString(items)
			pos := o.Ret.Pos()
			key := fmt.Sprintf("%s %s accepts [%s -> %s", name, cs, pat, dynName(o.Res[0]))
			// shape of the pattern
			var ints []int // token index of each of the (up to three) components, 0 = absent
			ok := true
			colons := 0
			cur := 0
			closed := false
			for _, it := range items {
				switch {
				case closed:
					ok = false
				case it.Ev != nil || it.Type == "":
					ok = false
				case it.Type == "IntegerLiteralToken":
					if cur != 0 {
						ok = false
					}
					cur = it.Tok
				case it.Type == "ColonToken":
					ints = append(ints, cur)
					cur = 0
					colons++
				case it.Type == "CloseSqBraceToken":
					ints = append(ints, cur)
					closed = true
				default:
					ok = false
				}
			}
			if !ok || !closed || colons > 2 || (colons == 0 && ints[0] == 0) {
				r.Bad(pos, key, "this token sequence is accepted as a bracket specifier but is not one of `n ]`, `[n] : [n] ]`, `[n] : [n] : [n] ]` (an unpinned token means any token is accepted there)")
				continue
			}
			node := dynName(o.Res[0])
			fields := o.St.fieldsOf(o.Res[0])
			flag, flagKnown := o.Res[1].(avConst)
			parsedFrom := func(v AV, tok int) bool {
				sy, ok := v.(avSym)
				return ok && sy.tag == "atoi" && tok > 0 && avKey(sy.payload) == avKey(d.tokenValueSym(o.St, tok))
			}
			if withChild {
				if c, has := fields["Child"]; !has || avKey(c) != avKey(child) {
					r.Bad(pos, key, node+" does not carry the expression the specifier is applied to as its Child")
					continue
				}
			} else if _, has := fields["Child"]; has && !strings.Contains(node, "Current") {
				r.Bad(pos, key, node+" built without a left-hand side")
				continue
			}
			if colons == 0 {
				seen["index"] = true
				v := fields["Value"]
				switch {
				case !strings.Contains(node, "Index"):
					r.Bad(pos, key, "`[n]` builds "+node+", not an index node")
				case !parsedFrom(v, ints[0]):
					r.Bad(pos, key, node+".Value is "+avKey(v)+", not the integer parsed from the token between the brackets")
				case !flagKnown || constant.BoolVal(flag.v):
					r.Bad(pos, key, "an index is reported as a projection")
				case strings.HasPrefix(node, "Small"):
					lo, hi, _ := o.St.intRange(v)
					// the range the node's Value field can hold (one unsigned byte on the pinned tree)
					flo, fhi := int64(0), int64(math.MaxUint8)
					if t := avDyn(o.Res[0]); t != nil {
						if st, ok := derefType(t).Underlying().(*types.Struct); ok {
							for i := 0; i < st.NumFields(); i++ {
								if st.Field(i).Name() != "Value" {
									continue
								}
								if b, ok := st.Field(i).Type().Underlying().(*types.Basic); ok {
									switch b.Kind() {
									case types.Int8:
										flo, fhi = math.MinInt8, math.MaxInt8
									case types.Int16:
										flo, fhi = math.MinInt16, math.MaxInt16
									case types.Uint16:
										flo, fhi = 0, math.MaxUint16
									case types.Int32:
										flo, fhi = math.MinInt32, math.MaxInt32
									}
								}
							}
						}
					}
					if lo < flo || hi > fhi {
						r.Bad(pos, key, fmt.Sprintf("the small index node, whose Value holds %d..%d, is built when the index is only known to lie in [%d, %d]", flo, fhi, lo, hi))
					} else {
						r.OK(pos, key, node+" under 0 <= n <= 255")
					}
				default:
					r.OK(pos, key, node+"{Value: parsed n}, not a projection")
				}
				continue
			}
			w := want{ints[0] != 0, ints[1] != 0, colons == 2 && ints[2] != 0}
			seen[fmt.Sprintf("%v/%d", w, colons)] = true
			if !strings.Contains(node, "Slice") {
				r.Bad(pos, key, "a slice specifier builds "+node)
				continue
			}
			if !flagKnown || !constant.BoolVal(flag.v) {
				r.Bad(pos, key, "a slice is not reported as a projection")
				continue
			}
			// step
			stepV, hasStepField := fields["Step"]
			var stepLo, stepHi int64 = 1, 1
			stepNZ := true
			if w.step {
				// the parsed step: find the atoi symbol of that token among the path's values
				var stepSym AV
				if hasStepField && parsedFrom(stepV, ints[2]) {
					stepSym = stepV
				} else {
					for _, c := range o.St.Conds {
						if cmp, ok := c.V.(avCmp); ok && parsedFrom(cmp.x, ints[2]) {
							stepSym = cmp.x
						}
					}
				}
				if stepSym == nil {
					r.Bad(pos, key, "the written step is neither stored in the node nor examined")
					continue
				}
				stepLo, stepHi, stepNZ = o.St.intRange(stepSym)
				if !stepNZ {
					r.Bad(pos, key, "a step of zero is accepted")
					continue
				}
				if !hasStepField && !(stepLo == 1 && stepHi == 1) {
					r.Bad(pos, key, fmt.Sprintf("%s has no Step although the written step is only known to lie in [%d, %d]", node, stepLo, stepHi))
					continue
				}
				if hasStepField && !parsedFrom(stepV, ints[2]) {
					if c, ok := o.St.KnownInt(stepV); !(ok && stepLo == stepHi && c == stepLo) {
						r.Bad(pos, key, node+".Step is "+avKey(stepV)+", not the parsed step")
						continue
					}
				}
			} else if hasStepField {
				if c, ok := o.St.KnownInt(stepV); !ok || c != 1 {
					r.Bad(pos, key, "an absent step does not default to 1: Step = "+avKey(stepV))
					continue
				}
			}
			neg := stepHi < 0
			pos_ := stepLo > 0
			if w.step {
				key += fmt.Sprintf(" step in [%s,%s]", boundStr(stepLo), boundStr(stepHi))
			}
			if !neg && !pos_ && (!w.start || !w.stop) {
				r.Bad(pos, key, "the defaults of absent bounds do not depend on the sign of the step (the path never decides it)")
				continue
			}
			chk := func(field string, present bool, tok int, dflt, negDflt int64) string {
				v := fields[field]
				if present {
					if !parsedFrom(v, tok) {
						return fmt.Sprintf("%s.%s is %s, not the integer parsed from its token", node, field, avKey(v))
					}
					return ""
				}
				wantV := dflt
				if neg {
					wantV = negDflt
				}
				if c, ok := o.St.KnownInt(v); !ok || c != wantV {
					return fmt.Sprintf("absent %s with a %s step defaults to %s, want %d", strings.ToLower(field), map[bool]string{true: "negative", false: "positive"}[neg], avKey(v), wantV)
				}
				return ""
			}
			maxInt, minInt := int64(math.MaxInt64), int64(math.MinInt64)
			switch p.GoArch {
			case "386", "arm", "mips", "mipsle", "wasm32":
				maxInt, minInt = math.MaxInt32, math.MinInt32
			}
			if msg := chk("Start", w.start, ints[0], 0, maxInt); msg != "" {
				r.Bad(pos, key, msg)
				continue
			}
			if msg := chk("Stop", w.stop, ints[1], maxInt, minInt); msg != "" {
				r.Bad(pos, key, msg)
				continue
			}
			sign := "positive or absent"
			if neg {
				sign = "negative"
			}
			r.OK(pos, key, fmt.Sprintf("%s with parsed bounds / defaults for a %s step; reported as a projection", node, sign))
		}
		// completeness: every specifier form has an accepting path
		if !seen["index"] {
			r.Bad(fn.Pos(), name+" "+cs+" form n]", "no path accepts a plain index")
		}
		for _, colons := range []int{1, 2} {
			for m := 0; m < 8; m++ {
				w := want{m&1 != 0, m&2 != 0, m&4 != 0}
				if colons == 1 && w.step {
					continue
				}
				if !seen[fmt.Sprintf("%v/%d", w, colons)] {
					r.Bad(fn.Pos(), fmt.Sprintf("%s %s form start=%v stop=%v step=%v colons=%d", name, cs, w.start, w.stop, w.step, colons), "no path accepts this slice form")
				}
			}
		}
	}
}

func boundStr(v int64) string {
	switch v {
	case math.MinInt64:
		return "-inf"
	case math.MaxInt64:
		return "+inf"
	}
	return fmt.Sprint(v)
}

// ---------------------------------------------------------------- T-FUNC

func init() {
	register(&Rule{ID: "T-FUNC", Props: []string{"C02", "C08", "C04", "C01", "C10", "C12", "C13", "C16", "C17", "C18", "C19", "C20"}, Floor: 12,
		Doc: "Function calls, by path enumeration of the function-call parser with the name pinned to each built-in of the specification in turn (arity helpers inlined whatever their form; only the expression entry is opaque): the accepted argument lists are exactly `arg {, arg} )` with the specified minimum and maximum count and `&` exactly at the specified position; the node built is the specified one for that count and carries the parsed arguments in order; arguments are parsed below every operator's binding power; too few or too many arguments yield InvalidFunctionCallError, a missing `&` InvalidFunctionArgumentError, an unknown name UnknownFunctionError.",
		Run: ruleTFunc})
	register(&Rule{ID: "T-FUNC-NOPANIC", Props: []string{"C03"}, Floor: 12,
		Doc: "the same path enumeration as T-FUNC, read for one thing only: no path of the function-call parser, for any built-in and any argument list, reaches a panic statement or a conversion of an argument slice to a fixed-size array that is longer than the slice",
		Run: ruleTFuncNoPanic})
}

func ruleTFuncNoPanic(p *Program, r *Reporter) {
	scratch := &Reporter{p: p, rule: r.rule}
	ruleTFunc(p, scratch)
	type verdict struct {
		pos token.Pos
		bad string
	}
	per := map[string]*verdict{}
	var order []string
	for _, ob := range scratch.obs {
		if ob.Status == Undecided && !strings.HasPrefix(ob.Key, "builtin ") {
			r.Unknown(ob.pos, ob.Key, ob.Detail)
			continue
		}
		if !strings.HasPrefix(ob.Key, "builtin ") {
			continue
		}
		name := strings.Fields(strings.TrimPrefix(ob.Key, "builtin "))[0]
		v := per[name]
		if v == nil {
			v = &verdict{pos: ob.pos}
			per[name] = v
			order = append(order, name)
		}
		if ob.Status == Violated && (strings.Contains(ob.Key, " panics") || ob.Detail == "a path panics") && v.bad == "" {
			v.bad = ob.Detail
			if ob.pos.IsValid() {
				v.pos = ob.pos
			}
		}
	}
	for _, name := range order {
		v := per[name]
		if v.bad != "" {
			r.Bad(v.pos, "builtin "+name, v.bad)
		} else {
			r.OK(v.pos, "builtin "+name, "no enumerated path of the call parser panics")
		}
	}
}

// argList returns the argument values a function node carries, in order.
func (s *State) argList(node AV) ([]AV, bool) {
	f := s.fieldsOf(node)
	if f == nil {
		return nil, false
	}
	if v, ok := f["Argument"]; ok {
		return []AV{v}, true
	}
	v, ok := f["Arguments"]
	if !ok {
		return nil, false
	}
	switch a := v.(type) {
	case avStruct:
		out := make([]AV, len(a.f))
		for i := range out {
			e, ok := a.f[fmt.Sprintf("[%d]", i)]
			if !ok {
				return nil, false
			}
			out[i] = e
		}
		return out, true
	case avSlice:
		if a.n < 0 {
			return nil, false
		}
		out := make([]AV, a.n)
		for i := range out {
			out[i], _ = s.load(avPtr{a.o, a.path + fmt.Sprintf("[%d]", i)})
		}
		return out, true
	}
	return nil, false
}

// minOperatorPower interprets the precedence function over every token constant.
func (d *parserDom) powers() (map[string]int64, string) {
	if d.precFn == nil {
		return nil, "no func(lexer.TokenType) int in package parser (the binding-power table)"
	}
	out := map[string]int64{}
	for c, n := range d.tokNames {
		e, st := d.start(d.precFn)
		outs := e.Run(d.precFn, []AV{avConst{constant.MakeInt64(c)}}, st)
		if len(outs) != 1 || len(outs[0].Res) != 1 {
			return nil, fmt.Sprintf("precedence(%s) has %d paths", n, len(outs))
		}
		v, ok := outs[0].St.KnownInt(outs[0].Res[0])
		if !ok {
			return nil, "precedence(" + n + ") is not a constant: " + avKey(outs[0].Res[0])
		}
		out[n] = v
	}
	return out, ""
}

func ruleTFunc(p *Program, r *Reporter) {
	d := newParserDom(p)
	if d.why != "" {
		r.Unknown(token.NoPos, "parser model", d.why)
		return
	}
	pw, why := d.powers()
	if why != "" {
		r.Unknown(token.NoPos, "binding powers", why)
		return
	}
	minPower := int64(math.MaxInt64)
	for _, v := range pw {
		if v > 0 && v < minPower {
			minPower = v
		}
	}
	run := func(fn *ssa.Function, name string) ([]Outcome, *Engine) {
		e, st := d.start(fn)
		d.opaqueOnly = map[*ssa.Function]bool{d.exprFn: true}
		e.MaxVisits = 5
		d.SetToken(st, 1, "UnquotedIdentifierToken", &name)
		d.SetToken(st, 2, "OpenParenToken", nil)
		return e.Run(fn, []AV{avPtr{d.pobj, ""}}, st), e
	}
	// the function-call parser: the () (Node, error) method that builds an AbsNode for `abs(` with the fewest paths
	var fn *ssa.Function
	best := 0
	for _, c := range d.methodBySig(func(sig *types.Signature) bool {
		return sig.Params().Len() == 0 && sig.Results().Len() == 2 && isNodeType(sig.Results().At(0).Type()) && isErrorType(sig.Results().At(1).Type())
	}) {
		outs, e := run(c, "abs")
		if e.Aborted != "" {
			continue
		}
		found := false
		for _, o := range outs {
			if !o.Cut && !o.Panic && len(o.Res) == 2 && dynName(o.Res[0]) == "AbsNode" {
				found = true
			}
		}
		if found && (fn == nil || len(outs) < best) {
			fn, best = c, len(outs)
		}
	}
	if fn == nil {
		r.Unknown(token.NoPos, "function-call parser", "no () (Node, error) parser method builds an AbsNode for `abs(`")
		return
	}
	names := make([]string, 0, len(builtinSpecs)+1)
	for n := range builtinSpecs {
		names = append(names, n)
	}
	sort.Strings(names)
	names = append(names, "no_such_function")
	for _, name := range names {
		spec, known := builtinSpecs[name]
		outs, e := run(fn, name)
		key := "builtin " + name
		if e.Aborted != "" {
			r.Unknown(fn.Pos(), key, "path enumeration aborted: "+e.Aborted)
			continue
		}
		seenK := map[int]bool{}
		bad := false
		fail := func(pos token.Pos, k, msg string) {
			r.Bad(pos, k, msg)
			bad = true
		}
		for _, o := range outs {
			if o.Panic {
				fail(fn.Pos(), key, "a path panics")
				continue
			}
			for _, ev := range o.St.Trace {
				if ev.Kind == "runtime-panic" {
					pos := ev.Pos
					if !pos.IsValid() && o.Ret != nil {
						pos = o.Ret.Pos()
					}
					if !pos.IsValid() {
						pos = fn.Pos()
					}
					fail(pos, key+" panics", "a path of the call parser panics: "+ev.Note)
				}
			}
			items, curr, next := d.consumed(o.St)
			if len(items) < 2 {
				if !o.Cut && len(o.Res) == 2 && isDefNil(o.Res[1]) {
					fail(o.Ret.Pos(), key, "a call is accepted without consuming the name and the opening parenthesis")
				}
				continue
			}
			args := items[2:]
			// parse the argument pattern: [&] E {, [&] E} [)]
			var exprs []*Event
			expref := map[int]bool{}
			shapeOK := true
			closed := false
			expectArg := true
			amp := false
			for _, it := range args {
				switch {
				case closed:
					shapeOK = false
				case it.Ev != nil && it.Ev.Kind == "expr":
					if !expectArg {
						shapeOK = false
					}
					exprs = append(exprs, it.Ev)
					if amp {
						expref[len(exprs)] = true
					}
					amp, expectArg = false, false
				case it.Ev != nil:
					shapeOK = false
				case it.Type == "ExpressionToken" && expectArg && !amp:
					amp = true
				case it.Type == "CommaToken" && !expectArg:
					expectArg = true
				case it.Type == "CloseParenToken" && !expectArg:
					closed = true
				default:
					shapeOK = false
				}
			}
			pat := patString(args)
			k := len(exprs)
			if o.Cut {
				// loop bound reached in a variadic helper: the prefix must still be a well-formed argument list
				if !shapeOK || closed {
					fail(fn.Pos(), key+" ("+pat+" ...", "argument list of unexpected shape on a path cut at the loop bound")
				}
				continue
			}
			if len(o.Res) != 2 {
				continue
			}
			if isDefNil(o.Res[1]) {
				// accepted
				pos := o.Ret.Pos()
				kk := fmt.Sprintf("%s (%s", key, pat)
				if !known {
					fail(pos, kk, "a call of a function that is not a built-in of the specification is accepted")
					continue
				}
				if !shapeOK || !closed {
					fail(pos, kk, "accepted argument list is not `arg {, arg} )` (an unpinned token means any token is accepted there)")
					continue
				}
				if k < spec.min || (spec.max >= 0 && k > spec.max) {
					fail(pos, kk, fmt.Sprintf("%d arguments accepted; the specification gives %s", k, arityStr(spec.min, spec.max)))
					continue
				}
				for i := 1; i <= k; i++ {
					if expref[i] != (spec.expref == i) {
						fail(pos, kk, fmt.Sprintf("argument %d: `&` %s, the specification says %s", i, map[bool]string{true: "consumed", false: "not consumed"}[expref[i]], exprefStr(spec.expref)))
					}
				}
				wantNode := spec.nodes[0]
				if spec.max >= 0 && k-spec.min < len(spec.nodes) {
					wantNode = spec.nodes[k-spec.min]
				}
				got := dynName(o.Res[0])
				if got != wantNode {
					fail(pos, kk, fmt.Sprintf("%s with %d arguments builds %s, want %s", name, k, got, wantNode))
					continue
				}
				al, ok := o.St.argList(o.Res[0])
				if !ok || len(al) != k {
					fail(pos, kk, fmt.Sprintf("%s carries %d arguments, %d were parsed", got, len(al), k))
					continue
				}
				for i, a := range al {
					if avKey(a) != avKey(exprs[i].Res[0]) {
						fail(pos, kk, fmt.Sprintf("%s argument %d is %s, not the %d. parsed argument", got, i+1, avKey(a), i+1))
					}
				}
				for i, ev := range exprs {
					pv, ok := o.St.KnownInt(ev.Args[1])
					if !ok || pv >= minPower || pv < 0 {
						fail(ev.Pos, kk, fmt.Sprintf("argument %d is parsed at binding power %s; inside the parentheses every operator (lowest power %d) must be included", i+1, avKey(ev.Args[1]), minPower))
					}
				}
				seenK[k] = true
				continue
			}
			// rejected: which error?
			et := dynName(o.Res[1])
			if et == "" {
				continue // propagated from a sub-parser or the lexer
			}
			kk := fmt.Sprintf("%s (%s | %s", key, pat, curr.String())
			pos := o.Ret.Pos()
			if !known {
				if et != "UnknownFunctionError" {
					fail(pos, key, "an unknown function name is rejected with "+et+", want UnknownFunctionError")
				} else {
					seenK[-1] = true
				}
				continue
			}
			if !shapeOK {
				continue
			}
			want := ""
			may := func(it patItem, tok string) bool {
				return it.Type == tok+"Token" || (it.Type == "" && !excludes(it, tok))
			}
			switch {
			case !expectArg && may(curr, "CloseParen") && k < spec.min,
				expectArg && len(args) == 0 && may(curr, "CloseParen"):
				// the path reports a `)` that comes too early (possibly together with other tokens): that is an arity fault
				want = "InvalidFunctionCallError"
			case !expectArg && may(curr, "Comma") && spec.max >= 0 && k == spec.max:
				want = "InvalidFunctionCallError"
			case spec.expref == k+1 && !amp && (expectArg && excludes(curr, "Expression") || !expectArg && curr.Type == "CommaToken" && excludes(next, "Expression")):
				want = "InvalidFunctionArgumentError"
			}
			if want != "" && et != want {
				fail(pos, kk, fmt.Sprintf("rejected with %s, want %s", et, want))
			} else if et == "InvalidFunctionCallError" && curr.Type == "" {
				// an arity fault is a `)` that comes too early or a `,` after the last argument; any other token there is
				// outside the grammar and is a syntax error
				fail(pos, kk, "rejected with InvalidFunctionCallError for a token that is not pinned to `)` or `,`: a token outside the grammar is reported as an arity fault")
			}
		}
		if !known {
			if !seenK[-1] && !bad {
				r.Bad(fn.Pos(), key, "no path rejects an unknown function name with UnknownFunctionError")
			} else if !bad {
				r.OK(fn.Pos(), key, "unknown names are rejected with UnknownFunctionError on every path")
			}
			continue
		}
		hi := spec.max
		if hi < 0 {
			hi = spec.min + 2
		}
		for k := spec.min; k <= hi; k++ {
			if !seenK[k] {
				fail(fn.Pos(), fmt.Sprintf("%s with %d arguments", key, k), "no path accepts this call; the specification allows "+arityStr(spec.min, spec.max))
			}
		}
		if !bad {
			r.OK(fn.Pos(), key, fmt.Sprintf("%s arguments%s -> %s, arguments in order, %d paths", arityStr(spec.min, spec.max), exprefStr(spec.expref), strings.Join(spec.nodes, ","), len(outs)))
		}
	}
}

func excludes(it patItem, tok string) bool {
	if it.Type != "" {
		return strings.TrimSuffix(it.Type, "Token") != tok
	}
	for _, e := range it.Excluded {
		if e == tok {
			return true
		}
	}
	return false
}

// variadicRejectsEmptyTPI: for every variadic built-in of the specification, no path of the function-call parser accepts
// an empty argument list (decided by path enumeration with the name pinned, as T-FUNC does).
func variadicRejectsEmptyTPI(p *Program) (bool, bool) {
	d := newParserDom(p)
	if d.why != "" {
		return false, false
	}
	rl := d.inferRoles()
	if rl.function == nil {
		return false, false
	}
	seen := false
	for name, spec := range builtinSpecs {
		if spec.max >= 0 {
			continue
		}
		seen = true
		e, st := d.start(rl.function)
		d.opaqueOnly = map[*ssa.Function]bool{d.exprFn: true}
		e.MaxVisits = 2
		nm := name
		d.SetToken(st, 1, "UnquotedIdentifierToken", &nm)
		d.SetToken(st, 2, "OpenParenToken", nil)
		outs := e.Run(rl.function, []AV{avPtr{d.pobj, ""}}, st)
		if e.Aborted != "" {
			return false, false
		}
		for _, o := range outs {
			if o.Panic || o.Cut || len(o.Res) != 2 || !isDefNil(o.Res[1]) {
				continue
			}
			items, _, _ := d.consumed(o.St)
			n := 0
			for _, it := range items {
				if it.Ev != nil && it.Ev.Kind == "expr" {
					n++
				}
			}
			if n == 0 {
				return false, true
			}
		}
	}
	return seen, seen
}
