package main

// rules_tpi2.go: the grammar production rules. Every success path of every grammar function is rendered as one line
//
//	consumed tokens and sub-parsers | decisions on their results => node built
//
// and compared with the production table of the specification below. The rendering names sub-parsers by inferred role
// (what they build when run on their own), never by identifier, so renaming, extracting helpers, or changing if-chains into
// switches or tables leaves the lines unchanged; only a change of the language or of the tree built changes them.

import (
	"fmt"
	"go/constant"
	"go/token"
	"go/types"
	"os"
	"sort"
	"strings"

	"golang.org/x/tools/go/ssa"
)

func init() {
	register(&Rule{ID: "T-PREC", Props: []string{"C10", "C01"}, Floor: 7,
		Doc: "Binding powers, obtained by interpreting the precedence function on every token constant (switch, table or map alike): | < || < && < comparisons < {+ -} < {* x / ÷ // %} < flatten < object wildcard < filter < dot < ! < {[ , [*]}; members of a level are equal; every other token has power 0.",
		Run: ruleTPrec})
	register(&Rule{ID: "T-INFIX", Props: []string{"C10", "C01", "C17", "C18", "C04", "C20", "C05", "C02", "C12", "C13", "C16", "C19"}, Floor: 28,
		Doc: "One iteration of the operator loop for every token, by path enumeration: an operator is taken exactly when its power is strictly above the caller's (so equal powers associate to the left) or the caller forces the first selector; a binary operator consumes itself, parses its right operand at its own power and builds its own node from the untouched left and right operands; selectors call the projection parser with the powers of the specification and build the projection / prune / pipe nodes of the specification; the power compared on the next iteration is that of the then-current token; a token that is not an operator ends the expression returning the left operand unchanged.",
		Run: ruleTInfix})
	register(&Rule{ID: "T-PRIMARY", Props: []string{"C10", "C01", "C17", "C04", "C19", "C16", "C18", "C20", "C02", "C12", "C13"}, Floor: 25,
		Doc: "Prefix position, by path enumeration of the primary-expression parser for every token: each token that can start an expression consumes exactly the tokens of its production and builds the node of the specification (unary operators parse their operand at the multiplicative / not power, wildcards, flatten and filter start projections that stop at the specified power, a parenthesised projection is closed, brackets choose index/slice on an integer or colon and a multi-select otherwise, an identifier followed by `(` is a function call); every other token is rejected.",
		Run: ruleTPrimary})
	register(&Rule{ID: "T-DELIMS", Props: []string{"C04", "C01", "C19", "C10", "C02", "C12", "C13", "C16", "C17", "C18", "C20"}, Floor: 9,
		Doc: "Bracketed constructs, by path enumeration of the filter, multi-select list, multi-select hash, let and top-level parsers: each accepts exactly `expr ]`, `expr {, expr} ]`, `key : expr {, key : expr} }`, `$v = expr {, $v = expr} in expr` and `expr <end>`; elements are parsed below every operator's power and stored in order under their keys.",
		Run: ruleTDelims})
}

func ruleTPrec(p *Program, r *Reporter) {
	d := newParserDom(p)
	if d.why != "" {
		r.Unknown(token.NoPos, "parser model", d.why)
		return
	}
	pw, why := d.powers()
	if why != "" {
		r.Unknown(token.NoPos, "binding-power table", why)
		return
	}
	pos := d.precFn.Pos()
	groups := append(append([][]string{}, binaryGroups...), selectorGroups...)
	listed := map[string]bool{}
	prev, prevName := int64(0), "non-operators"
	for _, g := range groups {
		v0 := pw[g[0]]
		for _, tok := range g {
			listed[tok] = true
			key := "power " + tok
			v, has := pw[tok]
			switch {
			case !has:
				r.Unknown(pos, key, "token constant not found in package lexer")
			case v != v0:
				r.Bad(pos, key, fmt.Sprintf("%s has power %d but %s of the same precedence level has %d", tok, v, g[0], v0))
			case v <= prev:
				r.Bad(pos, key, fmt.Sprintf("%s has power %d which is not above the next looser level (%s = %d)", tok, v, prevName, prev))
			default:
				r.OK(pos, key, fmt.Sprintf("power %d, above %s (%d)", v, prevName, prev))
			}
		}
		prev, prevName = v0, g[0]
	}
	var extra []string
	for tok, v := range pw {
		if !listed[tok] && v != 0 {
			extra = append(extra, tok)
		}
	}
	sort.Strings(extra)
	for _, tok := range extra {
		r.Bad(pos, "power "+tok, fmt.Sprintf("%s is not an infix operator or selector but has binding power %d: the operator loop would try to continue an expression with it", tok, pw[tok]))
	}
	if len(extra) == 0 {
		r.OK(pos, "power default", "every other token has power 0")
	}
}

// ---------------------------------------------------------------- roles

type roles struct {
	byFn     map[*ssa.Function]string
	primary  *ssa.Function
	infix    *ssa.Function
	proj     *ssa.Function
	index    *ssa.Function
	filter   *ssa.Function
	selArr   *ssa.Function
	selObj   *ssa.Function
	let      *ssa.Function
	function *ssa.Function
	top      *ssa.Function
	why      string
}

// args builds the argument vector of a grammar function: receiver, then by type Node -> left, int -> prec, bool -> flag, string -> name.
func (d *parserDom) argsFor(fn *ssa.Function, left AV, prec int64, flag bool) []AV {
	var args []AV
	if fn.Signature.Recv() != nil {
		args = append(args, avPtr{d.pobj, ""})
	}
	sig := fn.Signature
	for i := 0; i < sig.Params().Len(); i++ {
		t := sig.Params().At(i).Type()
		switch {
		case isNodeType(t):
			args = append(args, left)
		case isBoolType(t):
			args = append(args, avConst{constant.MakeBool(flag)})
		default:
			if b, ok := t.Underlying().(*types.Basic); ok && b.Info()&types.IsInteger != 0 {
				args = append(args, avConst{constant.MakeInt64(prec)})
			} else {
				args = append(args, avSym{id: d.e.fresh(), tag: "arg"})
			}
		}
	}
	return args
}

func (d *parserDom) inferRoles() *roles {
	if d.p.memoRoles != nil {
		for fn := range d.p.memoRoles.byFn {
			delete(d.wrapper, fn) // a function that plays a role is no wrapper (see below)
		}
		return d.p.memoRoles
	}
	rl := &roles{byFn: map[*ssa.Function]string{}}
	d.p.memoRoles = rl
	d.inferring = true
	defer func() { d.inferring = false }()
	var members []*ssa.Function
	for m := range d.scc {
		members = append(members, m)
	}
	sort.Slice(members, func(i, j int) bool { return members[i].Name() < members[j].Name() })
	set := func(slot **ssa.Function, fn *ssa.Function, role string) {
		if *slot != nil && *slot != fn {
			rl.why = fmt.Sprintf("two parser functions play the role %s: %s and %s", role, (*slot).Name(), fn.Name())
			return
		}
		*slot = fn
		rl.byFn[fn] = role
	}
	rl.byFn[d.exprFn] = "E"
	var wasWrapper []*ssa.Function
	defer func() {
		for _, m := range wasWrapper {
			if rl.byFn[m] == "" {
				d.wrapper[m] = true
			}
		}
	}()
	for _, m := range members {
		if m == d.exprFn {
			continue
		}
		if d.wrapper[m] {
			// a function without token tests of its own may still be a grammar function whose tests live in a helper
			// (a cursor's expect): it is judged by what it does, like the others; if it plays a role it is no wrapper
			delete(d.wrapper, m)
			wasWrapper = append(wasWrapper, m)
		}
		sig := m.Signature
		// by signature
		if sig.Params().Len() == 1 && isNodeType(sig.Params().At(0).Type()) && sig.Results().Len() == 3 {
			set(&rl.index, m, "INDEX")
			continue
		}
		takesOnlyNode := sig.Params().Len() == 1 && isNodeType(sig.Params().At(0).Type())
		hasNode, hasInt := false, false
		for i := 0; i < sig.Params().Len(); i++ {
			t := sig.Params().At(i).Type()
			if isNodeType(t) {
				hasNode = true
			}
			if b, ok := t.Underlying().(*types.Basic); ok && b.Info()&types.IsInteger != 0 {
				hasInt = true // a binding power, or the token that opened the projection from which the power follows
			}
		}
		if hasNode && hasInt {
			set(&rl.infix, m, "INFIX")
			continue
		}
		if sig.Results().Len() != 2 || !isNodeType(sig.Results().At(0).Type()) {
			continue // arity helpers and the like: inlined where they are used
		}
		// by behaviour: what does it build when run on its own?
		e, st := d.start(m)
		e.MaxVisits = 2
		left := avSym{id: e.fresh(), tag: "left", nonNil: true}
		outs := e.Run(m, d.argsFor(m, left, 0, false), st)
		built := map[string]bool{}
		nilOK := false
		asIs := false
		for _, o := range outs {
			if o.Cut || o.Panic || len(o.Res) != 2 || !isDefNil(o.Res[1]) {
				continue
			}
			if isDefNil(o.Res[0]) {
				nilOK = true
			}
			if n := dynName(o.Res[0]); n != "" {
				built[n] = true
			}
			if sy, ok := o.Res[0].(avSym); ok && strings.HasPrefix(sy.tag, "expr:") {
				asIs = true
			}
		}
		if os.Getenv("JMESCHECK_DEBUG_ROLES") != "" {
			fmt.Fprintf(os.Stderr, "role? %s built=%v nilOK=%v asIs=%v outs=%d aborted=%q\n", m.Name(), built, nilOK, asIs, len(outs), e.Aborted)
			for _, o := range outs {
				items, _, _ := d.consumed(o.St)
				fmt.Fprintf(os.Stderr, "    cut=%v panic=%v res=%v items=%v\n", o.Cut, o.Panic, len(o.Res), items)
			}
		}
		switch {
		case takesOnlyNode && (built["IndexNode"] || built["IndexCurrentNode"] || built["SmallIndexCurrentNode"]):
			set(&rl.index, m, "INDEX") // the bracket-specifier parser in the form that wraps slices in their projection itself
		case built["DefineVariables"]:
			set(&rl.let, m, "LET")
		case built["SelectArrayNode"] || built["SelectArraySingleNode"]:
			set(&rl.selArr, m, "SELARR")
		case built["SelectObjectNode"] || built["SelectObjectSingleNode"]:
			set(&rl.selObj, m, "SELOBJ")
		case built["FieldNode"] || built["CurrentNode"]:
			set(&rl.primary, m, "PRIMARY")
		case nilOK && hasInt:
			set(&rl.proj, m, "PROJ")
		case asIs && sig.Params().Len() == 0:
			// expression followed by a closer: the filter parser consumes `]`, the top level stops at the end token
			consumesCloser := false
			for _, o := range outs {
				if o.Cut || o.Panic || len(o.Res) != 2 || !isDefNil(o.Res[1]) {
					continue
				}
				items, _, _ := d.consumed(o.St)
				if len(items) > 0 && items[len(items)-1].Ev == nil && items[len(items)-1].Type == "CloseSqBraceToken" {
					consumesCloser = true // `)` closes an argument list: that is an arity helper, inlined where it is used
				}
			}
			if consumesCloser {
				set(&rl.filter, m, "FILTER")
			}
		}
	}
	// the function-call parser is outside the default-opaque classification above (it inlines its helpers): find it as T-FUNC does
	topCands := d.methodBySig(func(sig *types.Signature) bool {
		return sig.Params().Len() == 0 && sig.Results().Len() == 2 && isNodeType(sig.Results().At(0).Type()) && isErrorType(sig.Results().At(1).Type())
	})
	for _, f := range d.p.Funcs {
		sig := f.Signature
		if f.Pkg != nil && f.Pkg.Pkg == d.p.Parser.Types && f.Parent() == nil && sig.Recv() == nil && sig.Results().Len() == 2 &&
			isNodeType(sig.Results().At(0).Type()) && isErrorType(sig.Results().At(1).Type()) {
			topCands = append(topCands, f) // the package's entry function, when the top level lives there
		}
	}
	for _, c := range topCands {
		if rl.byFn[c] != "" || !d.scc[c] {
			if !d.scc[c] && rl.top == nil {
				// non-recursive () (Node, error) method that calls the expression entry: the top level
				for _, cc := range staticCallees(c) {
					if cc == d.exprFn {
						rl.top = c
						rl.byFn[c] = "TOP"
					}
				}
			}
			continue
		}
		e, st := d.start(c)
		d.opaqueOnly = map[*ssa.Function]bool{d.exprFn: true}
		name := "abs"
		d.SetToken(st, 1, "UnquotedIdentifierToken", &name)
		d.SetToken(st, 2, "OpenParenToken", nil)
		for _, o := range e.Run(c, []AV{avPtr{d.pobj, ""}}, st) {
			if !o.Cut && !o.Panic && len(o.Res) == 2 && dynName(o.Res[0]) == "AbsNode" {
				set(&rl.function, c, "FUNC")
			}
		}
	}
	for role, fn := range map[string]*ssa.Function{"PRIMARY": rl.primary, "INFIX": rl.infix, "PROJ": rl.proj, "INDEX": rl.index, "FILTER": rl.filter, "SELARR": rl.selArr, "SELOBJ": rl.selObj, "LET": rl.let, "FUNC": rl.function, "TOP": rl.top} {
		if fn == nil && rl.why == "" {
			rl.why = "no parser function plays the role " + role
		}
	}
	return rl
}

// ---------------------------------------------------------------- rendering

type renderer struct {
	d    *parserDom
	rl   *roles
	st   *State
	left AV
	subs []*Event // expr/sub events in order
	pw   map[string]int64
	minP int64
}

func (d *parserDom) newRenderer(rl *roles, st *State, left AV, pw map[string]int64) *renderer {
	rr := &renderer{d: d, rl: rl, st: st, left: left, pw: pw, minP: 1 << 62}
	for _, v := range pw {
		if v > 0 && v < rr.minP {
			rr.minP = v
		}
	}
	for k := range st.Trace {
		if ev := &st.Trace[k]; ev.Kind == "expr" || ev.Kind == "sub" {
			rr.subs = append(rr.subs, ev)
		}
	}
	return rr
}

func (rr *renderer) subRef(v AV) string {
	if _, isSym := v.(avSym); !isSym {
		return ""
	}
	k := avKey(v)
	for i, ev := range rr.subs {
		for j, res := range ev.Res {
			if res != nil && avKey(res) == k {
				if j == 0 {
					return fmt.Sprintf("$%d", i+1)
				}
				return fmt.Sprintf("$%d.%d", i+1, j)
			}
		}
	}
	return ""
}

func (rr *renderer) val(v AV) string {
	if rr.left != nil && v != nil && avKey(v) == avKey(rr.left) {
		return "$L"
	}
	if s := rr.subRef(v); s != "" {
		return s
	}
	switch x := v.(type) {
	case nil:
		return "?"
	case avNil:
		return "nil"
	case avConst:
		return x.v.ExactString()
	case avIface:
		name := dynName(x)
		if !strings.HasSuffix(name, "Node") && name != "DefineVariables" {
			return rr.val(x.v)
		}
		f := rr.st.fieldsOf(x)
		ks := make([]string, 0, len(f))
		for k := range f {
			ks = append(ks, k)
		}
		sort.Strings(ks)
		var parts []string
		for _, k := range ks {
			parts = append(parts, k+":"+rr.val(f[k]))
		}
		return name + "{" + strings.Join(parts, ",") + "}"
	case avStruct:
		ks := make([]string, 0, len(x.f))
		for k := range x.f {
			ks = append(ks, k)
		}
		sort.Strings(ks)
		var parts []string
		for _, k := range ks {
			parts = append(parts, k+":"+rr.val(x.f[k]))
		}
		return "{" + strings.Join(parts, ",") + "}"
	case avSlice:
		if x.n < 0 {
			return "[...]"
		}
		var parts []string
		for i := 0; i < x.n; i++ {
			e, _ := rr.st.load(avPtr{x.o, x.path + fmt.Sprintf("[%d]", i)})
			parts = append(parts, rr.val(e))
		}
		return "[" + strings.Join(parts, ",") + "]"
	case avPtr:
		// a map object
		m := rr.st.heap[x.o]
		var parts []string
		for k, e := range m {
			if strings.HasPrefix(k, x.path+"[") {
				parts = append(parts, rr.keyName(k[len(x.path):])+":"+rr.val(e))
			}
		}
		sort.Strings(parts)
		return "map{" + strings.Join(parts, ",") + "}"
	case avSym:
		var n int
		if _, err := fmt.Sscanf(x.tag, "tokV%d", &n); err == nil {
			return fmt.Sprintf("tok%d.Value", n)
		}
		switch {
		case strings.HasPrefix(x.tag, "lit:"):
			var as []string
			if t, ok := x.payload.(avTuple); ok {
				for _, a := range t {
					as = append(as, rr.val(a))
				}
			}
			return "lit~" + litKind(x.tag[4:]) + "(" + strings.Join(as, ",") + ")"
		case x.tag == "atoi":
			return "atoi(" + rr.val(x.payload) + ")"
		case strings.HasPrefix(x.tag, "pred:"):
			return "pred(" + rr.val(x.payload) + ")"
		}
		return x.tag
	}
	return avKey(v)
}

// keyName renders a map key path element "[key]" whose key is the avKey of a value.
func (rr *renderer) keyName(k string) string {
	k = strings.TrimSuffix(strings.TrimPrefix(k, "["), "]")
	var n, id int
	if _, err := fmt.Sscanf(k, "tokV%d#%d", &n, &id); err == nil {
		return fmt.Sprintf("tok%d.Value", n)
	}
	if strings.HasPrefix(k, "lit:") {
		// lit:name#id — find the event
		for _, ev := range rr.st.Trace {
			if ev.Kind == "lit" && len(ev.Res) > 0 && avKey(ev.Res[0]) == k {
				return rr.val(ev.Res[0])
			}
		}
	}
	return k
}

// litKind classifies a literal helper by the words of its name (json / string / quoted identifier).
func litKind(name string) string {
	l := strings.ToLower(name)
	switch {
	case strings.Contains(l, "json"):
		return "json"
	case strings.Contains(l, "quot") || strings.Contains(l, "ident"):
		return "quoted"
	case strings.Contains(l, "string") || strings.Contains(l, "raw"):
		return "string"
	}
	return name
}

func (rr *renderer) power(v AV) string {
	c, ok := rr.st.KnownInt(v)
	if !ok {
		return rr.val(v)
	}
	if c >= 0 && c < rr.minP {
		return "lo"
	}
	return fmt.Sprint(c)
}

func (rr *renderer) sub(ev *Event) string {
	role := rr.rl.byFn[ev.Fn]
	if role == "" {
		role = "?" + ev.Fn.Name()
	}
	// arguments in a canonical order (nodes, powers, others) so that reordering parameters does not change the line
	var nodes, ints, others []string
	sig := ev.Fn.Signature
	for i := 0; i < sig.Params().Len(); i++ {
		a := ev.Args[i+1]
		t := sig.Params().At(i).Type()
		if b, ok := t.Underlying().(*types.Basic); ok && b.Info()&types.IsInteger != 0 {
			if c, known := rr.st.KnownInt(a); known && role == "PROJ" {
				// what the projection parser is given (a binding power, or the token that opened the projection) counts
				// as the power at which it continues with the operator loop
				a = avConst{constant.MakeInt64(projEffective(rr.d.p, c))}
			}
			ints = append(ints, rr.power(a))
		} else if isNodeType(t) {
			nodes = append(nodes, rr.val(a))
		} else {
			others = append(others, rr.val(a))
		}
	}
	as := append(append(nodes, ints...), others...)
	s := role
	if len(as) > 0 {
		s += "(" + strings.Join(as, ",") + ")"
	}
	// pinned lookahead at the call
	var from, to int
	fmt.Sscanf(ev.Note, "%d %d", &from, &to)
	var la []string
	for i := from; i < from+2 && i < to; i++ {
		it := rr.d.tokItem(rr.st, i)
		if it.Type == "" {
			break
		}
		la = append(la, strings.TrimSuffix(it.Type, "Token"))
	}
	if len(la) > 0 {
		s += "<" + strings.Join(la, " ") + ">"
	}
	return s
}

// projEffective: the binding power at which the projection parser, given argument c, hands over to the operator loop
// (by interpretation of the projection parser on a selector token); c itself when that cannot be determined.
func projEffective(p *Program, c int64) int64 {
	if v, ok := p.memoProjEff.Load(c); ok {
		return v.(int64)
	}
	out := c
	d := newParserDom(p)
	if d.why == "" {
		rl := d.inferRoles()
		if rl.proj != nil && rl.infix != nil {
			e, st := d.start(rl.proj)
			d.SetToken(st, 1, "DotToken", nil)
			for _, o := range e.Run(rl.proj, d.argsFor(rl.proj, avNil{}, c, false), st) {
				for _, ev := range o.St.Trace {
					if ev.Kind != "sub" || ev.Fn != rl.infix {
						continue
					}
					sig := ev.Fn.Signature
					for i := 0; i < sig.Params().Len(); i++ {
						if b, ok := sig.Params().At(i).Type().Underlying().(*types.Basic); ok && b.Kind() == types.Int {
							if pw, known := o.St.KnownInt(ev.Args[i+1]); known {
								out = pw
							}
						}
					}
				}
			}
		}
	}
	p.memoProjEff.Store(c, out)
	return out
}

func (rr *renderer) consumedStr(items []patItem) string {
	var parts []string
	for _, it := range items {
		if it.Ev != nil {
			parts = append(parts, rr.sub(it.Ev))
		} else {
			parts = append(parts, it.String())
		}
	}
	return strings.Join(parts, " ")
}

// conds renders the decisions taken on sub-parser results and node predicates.
func (rr *renderer) conds() string {
	var parts []string
	for _, c := range rr.st.Conds {
		s := ""
		switch v := c.V.(type) {
		case avCmp:
			x, y := v.x, v.y
			if isDefNil(x) {
				x, y = y, x
			}
			if !isDefNil(y) {
				continue
			}
			ref := rr.subRef(x)
			if ref == "" {
				continue
			}
			eq := (v.op == token.EQL) == c.Truth
			if eq {
				s = ref + "==nil"
			} else {
				s = ref + "!=nil"
			}
		case avSym:
			ref := rr.subRef(v)
			if strings.HasPrefix(v.tag, "pred:") {
				ref = "pred(" + rr.val(v.payload) + ")"
			}
			if ref == "" {
				continue
			}
			if c.Truth {
				s = ref
			} else {
				s = "!" + ref
			}
		default:
			continue
		}
		dup := false
		for _, p := range parts {
			if p == s {
				dup = true
			}
		}
		if !dup {
			parts = append(parts, s)
		}
	}
	return strings.Join(parts, ",")
}

func (rr *renderer) line(items []patItem, result AV, endLook string) string {
	s := rr.consumedStr(items)
	if endLook != "" {
		s += " <" + endLook + ">"
	}
	if c := rr.conds(); c != "" {
		s += " | " + c
	}
	return strings.TrimSpace(strings.TrimSpace(s) + " => " + rr.val(result))
}

// ---------------------------------------------------------------- production tables

var binaryNodes = map[string]string{
	"AddToken": "AddNode", "AndToken": "AndNode", "AsteriskToken": "MultiplyNode", "MultiplyToken": "MultiplyNode", "DivideToken": "DivideNode",
	"EqualToken": "EqualNode", "GreaterToken": "GreaterNode", "GreaterOrEqualToken": "GreaterOrEqualNode", "IntegerDivideToken": "IntegerDivideNode",
	"LessToken": "LessNode", "LessOrEqualToken": "LessOrEqualNode", "ModuloToken": "ModuloNode", "NotEqualToken": "NotEqualNode", "OrToken": "OrNode",
	"PipeToken": "PipeNode", "SubtractToken": "SubtractNode",
}

// infixProductions: token -> expected lines, with {=} for the token's own power and {pw:X} for the power of token X.
var infixProductions = map[string][]string{
	"ArrayWildcardToken": {
		"ArrayWildcard PROJ({pw:ObjectWildcard}) | $1==nil => PruneArrayNode{Child:$L}",
		"ArrayWildcard PROJ({pw:ObjectWildcard}) | $1!=nil => ProjectArrayNode{Left:$L,Right:$1}"},
	"ObjectWildcardToken": {
		"ObjectWildcard PROJ({=}) | $1==nil => ObjectValuesNode{Child:$L}",
		"ObjectWildcard PROJ({=}) | $1!=nil => ProjectObjectNode{Left:$L,Right:$1}"},
	"FlattenToken": {
		"Flatten PROJ({=}) | $1==nil => FlattenNode{Child:$L}",
		"Flatten PROJ({=}) | $1!=nil => FlattenAndProjectNode{Left:$L,Right:$1}"},
	"FilterToken": {
		"Filter FILTER PROJ({=}) | $2==nil => FilterNode{Child:$L,Filter:$1}",
		"Filter FILTER PROJ({=}) | $2!=nil => FilterAndProjectNode{Filter:$1,Left:$L,Right:$2}"},
	"OpenSqBraceToken": {
		"OpenSqBrace INDEX($L) | !$1.1 => $1",
		"OpenSqBrace INDEX($L) PROJ({pw:ObjectWildcard}) | $1.1,$2==nil => ProjectArrayNode{Left:$1,Right:CurrentNode{}}",
		"OpenSqBrace INDEX($L) PROJ({pw:ObjectWildcard}) | $1.1,$2!=nil => ProjectArrayNode{Left:$1,Right:$2}"},
	"DotToken": {
		"Dot ArrayWildcard => SelectArraySingleNode{Child:$L,Field:ObjectValuesCurrentNode{}}",
		"Dot OpenBrace SELOBJ($L) => $1",
		"Dot OpenSqBrace SELARR($L) => $1",
		"Dot E({=})<QuotedIdentifier> | pred($L) => ProjectArrayNode{Left:$L,Right:$1}",
		"Dot E({=})<QuotedIdentifier> | !pred($L) => PipeNode{Left:$L,Right:$1}",
		"Dot E({=})<UnquotedIdentifier> | pred($L) => ProjectArrayNode{Left:$L,Right:$1}",
		"Dot E({=})<UnquotedIdentifier> | !pred($L) => PipeNode{Left:$L,Right:$1}"},
}

var primaryProductions = map[string][]string{
	"AddToken":      {"Add E({pw:Multiply}) => AssertNumberNode{Child:$1}"},
	"SubtractToken": {"Subtract E({pw:Multiply}) => NegateNode{Child:$1}"},
	"NotToken":      {"Not E({pw:Not}) => NotNode{Child:$1}"},
	"ArrayWildcardToken": {
		"ArrayWildcard PROJ({pw:ObjectWildcard}) | $1==nil => PruneArrayCurrentNode{}",
		"ArrayWildcard PROJ({pw:ObjectWildcard}) | $1!=nil => ProjectArrayCurrentNode{Child:$1}"},
	"AsteriskToken": {
		"Asterisk PROJ({pw:ObjectWildcard}) | $1==nil => ObjectValuesCurrentNode{}",
		"Asterisk PROJ({pw:ObjectWildcard}) | $1!=nil => ProjectObjectCurrentNode{Child:$1}"},
	"CurrentToken": {"Current => CurrentNode{}"},
	"RootToken":    {"Root => RootNode{}"},
	"FilterToken": {
		"Filter FILTER PROJ({pw:Filter}) | $2==nil => FilterCurrentNode{Filter:$1}",
		"Filter FILTER PROJ({pw:Filter}) | $2!=nil => FilterAndProjectCurrentNode{Child:$2,Filter:$1}"},
	"FlattenToken": {
		"Flatten PROJ({pw:Flatten}) | $1==nil => FlattenCurrentNode{}",
		"Flatten PROJ({pw:Flatten}) | $1!=nil => FlattenAndProjectCurrentNode{Child:$1}"},
	"JSONLiteralToken":   {"JSONLiteral => lit~json(tok1.Value)"},
	"StringLiteralToken": {"StringLiteral => lit~string(tok1.Value)"},
	"LetToken":           {"Let LET => $1"},
	"OpenParenToken": {
		"OpenParen E(lo) CloseParen | pred($1) => PipeNode{Left:$1,Right:CurrentNode{}}",
		"OpenParen E(lo) CloseParen | !pred($1) => $1"},
	"OpenBraceToken": {"OpenBrace SELOBJ(nil) => $1"},
	"OpenSqBraceToken": {
		"OpenSqBrace INDEX(nil)<IntegerLiteral> | !$1.1 => $1",
		"OpenSqBrace INDEX(nil)<IntegerLiteral> PROJ({pw:ObjectWildcard}) | $1.1,$2==nil => ProjectArrayNode{Left:$1,Right:CurrentNode{}}",
		"OpenSqBrace INDEX(nil)<IntegerLiteral> PROJ({pw:ObjectWildcard}) | $1.1,$2!=nil => ProjectArrayNode{Left:$1,Right:$2}",
		"OpenSqBrace INDEX(nil)<Colon> | !$1.1 => $1",
		"OpenSqBrace INDEX(nil)<Colon> PROJ({pw:ObjectWildcard}) | $1.1,$2==nil => ProjectArrayNode{Left:$1,Right:CurrentNode{}}",
		"OpenSqBrace INDEX(nil)<Colon> PROJ({pw:ObjectWildcard}) | $1.1,$2!=nil => ProjectArrayNode{Left:$1,Right:$2}",
		"OpenSqBrace SELARR(nil) => $1"},
	"QuotedIdentifierToken": {"QuotedIdentifier => FieldNode{Value:lit~quoted(tok1.Value)}"},
	"UnquotedIdentifierToken": {
		"FUNC<UnquotedIdentifier OpenParen> => $1",
		"UnquotedIdentifier => FieldNode{Value:tok1.Value}"},
	"VariableToken": {"Variable => VariableNode{Name:tok1.Value}"},
}

// selfWrappingIndex: the bracket-specifier parser returns (Node, error) and wraps slices itself; the callers' productions
// for `[` then reduce to handing its result on.
func expandProductions(lines []string, tok string, pw map[string]int64, selfWrappingIndex bool) map[string]bool {
	out := map[string]bool{}
	if selfWrappingIndex && tok == "OpenSqBraceToken" {
		var alt []string
		for _, l := range lines {
			switch {
			case strings.Contains(l, "| !$1.1 => $1"):
				alt = append(alt, strings.Replace(l, " | !$1.1 => $1", " => $1", 1))
			case strings.Contains(l, "$1.1"):
				// the projection is built inside the bracket-specifier parser
			default:
				alt = append(alt, l)
			}
		}
		lines = alt
	}
	for _, l := range lines {
		l = strings.ReplaceAll(l, "{=}", fmt.Sprint(pw[tok]))
		for {
			i := strings.Index(l, "{pw:")
			if i < 0 {
				break
			}
			j := strings.Index(l[i:], "}") + i
			l = l[:i] + fmt.Sprint(pw[l[i+4:j]+"Token"]) + l[j+1:]
		}
		out[l] = true
	}
	return out
}

func sortedTokens(d *parserDom) []string {
	var out []string
	for _, n := range d.tokNames {
		out = append(out, n)
	}
	sort.Strings(out)
	return out
}

// compareLines reports produced lines that are not productions and productions nothing produces.
func compareLines(r *Reporter, pos token.Pos, key string, got map[string]token.Pos, want map[string]bool, what string) {
	var gs []string
	for g := range got {
		gs = append(gs, g)
	}
	sort.Strings(gs)
	bad := false
	for _, g := range gs {
		if !want[g] {
			r.Bad(got[g], key+" :: "+g, what+" accepts and builds this, which is not a production of the specification for this token (productions: "+strings.Join(keysOfSet(want), " ; ")+")")
			bad = true
		}
	}
	for _, w := range keysOfSet(want) {
		if _, ok := got[w]; !ok {
			r.Bad(pos, key+" :: "+w, "no path of "+what+" implements this production")
			bad = true
		}
	}
	if !bad {
		if len(want) == 0 {
			r.OK(pos, key, "rejected on every path")
		} else {
			r.OK(pos, key, strings.Join(keysOfSet(want), " ; "))
		}
	}
}

func keysOfSet(m map[string]bool) []string {
	var out []string
	for k := range m {
		out = append(out, k)
	}
	sort.Strings(out)
	return out
}

type tpiCtx struct {
	d        *parserDom
	rl       *roles
	pw       map[string]int64
	selfWrap bool // the bracket-specifier parser wraps slices in their projection itself
}

func tpiSetup(p *Program, r *Reporter) *tpiCtx {
	d := newParserDom(p)
	if d.why != "" {
		r.Unknown(token.NoPos, "parser model", d.why)
		return nil
	}
	pw, why := d.powers()
	if why != "" {
		r.Unknown(token.NoPos, "binding powers", why)
		return nil
	}
	rl := d.inferRoles()
	if rl.why != "" {
		r.Unknown(token.NoPos, "grammar roles", rl.why)
		return nil
	}
	return &tpiCtx{d, rl, pw, rl.index != nil && rl.index.Signature.Results().Len() == 2}
}

// ---------------------------------------------------------------- T-INFIX

func ruleTInfix(p *Program, r *Reporter) {
	c := tpiSetup(p, r)
	if c == nil {
		return
	}
	d, rl, pw := c.d, c.rl, c.pw
	fn := rl.infix
	name := "parser." + fn.Name()
	runOnce := func(tok string, second string, prec int64, force bool) ([]Outcome, *Engine, AV) {
		e, st := d.start(fn)
		left := avSym{id: e.fresh(), tag: "left", nonNil: true}
		d.SetToken(st, 1, tok, nil)
		if second != "" {
			d.SetToken(st, 2, second, nil)
		}
		return e.Run(fn, d.argsFor(fn, left, prec, force), st), e, left
	}
	for _, tok := range sortedTokens(d) {
		power := pw[tok]
		short := strings.TrimSuffix(tok, "Token")
		want := map[string]bool{}
		if n, ok := binaryNodes[tok]; ok {
			want[fmt.Sprintf("%s E(%d) => %s{Left:$L,Right:$1}", short, power, n)] = true
		} else if lines, ok := infixProductions[tok]; ok {
			want = expandProductions(lines, tok, pw, c.selfWrap)
		}
		if len(want) > 0 && power <= 0 {
			r.Bad(fn.Pos(), name+" "+short, "operator with binding power 0 can never be taken")
			continue
		}
		// (a) caller's power equal to the token's: not taken, left operand returned unchanged, nothing consumed
		type variant struct {
			prec  int64
			force bool
			taken bool
			label string
		}
		variants := []variant{{power, false, false, "caller power = own power"}}
		if power > 0 {
			variants = append(variants, variant{power - 1, false, true, "caller power just below"})
			variants = append(variants, variant{0, false, true, "caller power 0"})
		}
		if _, isSel := infixProductions[tok]; isSel {
			variants = append(variants, variant{1 << 40, true, true, "forced first selector"})
		}
		for _, v := range variants {
			key := fmt.Sprintf("%s %s (%s)", name, short, v.label)
			outs, e, left := runOnce(tok, "", v.prec, v.force)
			if e.Aborted != "" {
				r.Unknown(fn.Pos(), key, "path enumeration aborted: "+e.Aborted)
				continue
			}
			got := map[string]token.Pos{}
			stale := ""
			for _, o := range outs {
				if o.Panic {
					r.Bad(fn.Pos(), key, "a path panics")
					continue
				}
				var result AV
				pos := fn.Pos()
				if o.Cut && o.CutBlock.Parent() != fn {
					r.Unknown(blockPos(o.CutBlock), key+" loop in "+o.CutBlock.Parent().Name(), "a helper called while handling this operator loops; what it does to the tree is not enumerable by bounded path exploration")
					continue
				}
				if o.Cut {
					// next iteration: the node carried on and the power that will be compared
					for ph, val := range o.CutPhis {
						switch {
						case isNodeType(ph.Type()):
							result = val
						case isIntType(ph.Type()):
							if sy, ok := val.(avSym); ok && sy.tag == "prec" {
								cur, _ := o.St.load(avPtr{d.parserObj(o.St), "." + d.tokField[0] + "." + d.tokenElem[0]})
								if avKey(sy.payload) != avKey(cur) {
									stale = "after this operator the loop compares the power of " + avKey(sy.payload) + ", which is no longer the current token (" + avKey(cur) + ")"
								}
							} else if _, isC := val.(avConst); isC {
								stale = "after this operator the loop compares a constant power instead of the current token's"
							} else if sy, ok := val.(avSym); ok && sy.tag != "prec" {
								_ = sy
							}
						}
					}
					if result == nil {
						// the node may live in a local the loop header does not merge (no phi): not expected
						r.Unknown(fn.Pos(), key, "the loop carries no node value into its next iteration")
						continue
					}
				} else {
					if len(o.Res) != 2 || !isDefNil(o.Res[1]) {
						continue
					}
					result = o.Res[0]
					pos = o.Ret.Pos()
					// a tail call of the loop function itself is the next iteration
					if sy, ok := result.(avSym); ok && strings.HasPrefix(sy.tag, "sub:"+fn.Name()) {
						for k := len(o.St.Trace) - 1; k >= 0; k-- {
							if ev := o.St.Trace[k]; ev.Kind == "sub" && ev.Fn == fn {
								for i := 0; i < fn.Signature.Params().Len(); i++ {
									if isNodeType(fn.Signature.Params().At(i).Type()) {
										result = ev.Args[i+1]
									}
								}
								o.St.Trace = append(o.St.Trace[:k:k], o.St.Trace[k+1:]...)
								break
							}
						}
					}
				}
				items, _, _ := d.consumed(o.St)
				rr := d.newRenderer(rl, o.St, left, pw)
				got[rr.line(items, result, "")] = pos
			}
			if stale != "" {
				r.Bad(fn.Pos(), key+" next power", stale)
			}
			w := want
			if !v.taken || len(want) == 0 {
				w = map[string]bool{"=> $L": true}
			}
			compareLines(r, fn.Pos(), key, got, w, "the operator loop")
		}
	}
}

func isIntType(t types.Type) bool {
	b, ok := t.Underlying().(*types.Basic)
	return ok && b.Kind() == types.Int
}

// ---------------------------------------------------------------- T-PRIMARY

func ruleTPrimary(p *Program, r *Reporter) {
	c := tpiSetup(p, r)
	if c == nil {
		return
	}
	d, rl, pw := c.d, c.rl, c.pw
	fn := rl.primary
	name := "parser." + fn.Name()
	for _, tok := range sortedTokens(d) {
		short := strings.TrimSuffix(tok, "Token")
		key := name + " " + short
		e, st := d.start(fn)
		d.SetToken(st, 1, tok, nil)
		outs := e.Run(fn, d.argsFor(fn, avNil{}, 0, false), st)
		if e.Aborted != "" {
			r.Unknown(fn.Pos(), key, "path enumeration aborted: "+e.Aborted)
			continue
		}
		got := map[string]token.Pos{}
		for _, o := range outs {
			if o.Panic || o.Cut {
				r.Unknown(fn.Pos(), key, "a path panics or loops")
				continue
			}
			if len(o.Res) != 2 || !isDefNil(o.Res[1]) {
				continue
			}
			items, _, _ := d.consumed(o.St)
			rr := d.newRenderer(rl, o.St, nil, pw)
			got[rr.line(items, o.Res[0], "")] = o.Ret.Pos()
		}
		compareLines(r, fn.Pos(), key, got, expandProductions(primaryProductions[tok], tok, pw, c.selfWrap), "the primary-expression parser")
	}
	// the expression entry: a primary expression continued by the operator loop at the caller's power, not forced
	{
		ef := d.exprFn
		e, st := d.start(ef)
		outs := e.Run(ef, d.argsFor(ef, avNil{}, 5, false), st)
		got := map[string]token.Pos{}
		for _, o := range outs {
			if o.Panic || o.Cut || len(o.Res) != 2 || !isDefNil(o.Res[1]) {
				continue
			}
			items, _, _ := d.consumed(o.St)
			rr := d.newRenderer(rl, o.St, nil, pw)
			line := rr.line(items, o.Res[0], "")
			if line == "PRIMARY => $1" && d.nextBindsNoTighter(o.St, 5) {
				// a short cut: the operand is returned as it is exactly when the operator loop, entered unforced at this
				// power, would have returned it at once (its first test is the same comparison)
				continue
			}
			got[line] = o.Ret.Pos()
		}
		compareLines(r, ef.Pos(), "parser."+ef.Name(), got, map[string]bool{"PRIMARY INFIX($1,5,false) => $2": true}, "the expression parser")
	}
	// the projection parser: continues with the operator loop exactly on a selector token, forcing the first one
	pf := rl.proj
	pname := "parser." + pf.Name()
	selectors := map[string]bool{"ArrayWildcardToken": true, "DotToken": true, "FilterToken": true, "ObjectWildcardToken": true, "OpenSqBraceToken": true, "FlattenToken": false}
	for _, tok := range sortedTokens(d) {
		short := strings.TrimSuffix(tok, "Token")
		key := pname + " " + short
		e, st := d.start(pf)
		d.SetToken(st, 1, tok, nil)
		outs := e.Run(pf, d.argsFor(pf, avNil{}, 7, false), st)
		got := map[string]token.Pos{}
		for _, o := range outs {
			if o.Panic || o.Cut || len(o.Res) != 2 || !isDefNil(o.Res[1]) {
				continue
			}
			items, _, _ := d.consumed(o.St)
			rr := d.newRenderer(rl, o.St, nil, pw)
			got[rr.line(items, o.Res[0], "")] = o.Ret.Pos()
		}
		want := map[string]bool{"=> nil": true}
		if selectors[tok] {
			want = map[string]bool{fmt.Sprintf("INFIX(CurrentNode{},%d,true)<%s> => $1", projEffective(p, 7), short): true}
		}
		compareLines(r, pf.Pos(), key, got, want, "the projection parser")
	}
}

// nextBindsNoTighter: the path has established that the binding power of the current token is at most power.
func (d *parserDom) nextBindsNoTighter(st *State, power int64) bool {
	cur, ok := st.load(avPtr{d.parserObj(st), "." + d.tokField[0] + "." + d.tokenElem[0]})
	if !ok {
		return false
	}
	ck := avKey(cur)
	for _, c := range st.Conds {
		cmp, ok := c.V.(avCmp)
		if !ok {
			continue
		}
		for _, side := range []AV{cmp.x, cmp.y} {
			sy, ok := side.(avSym)
			if !ok || sy.tag != "prec" || sy.payload == nil || avKey(sy.payload) != ck {
				continue
			}
			if v, decided := st.decideInt(st.idOf(sy), token.LEQ, power); decided && v {
				return true
			}
		}
	}
	return false
}

// ---------------------------------------------------------------- T-DELIMS

func ruleTDelims(p *Program, r *Reporter) {
	c := tpiSetup(p, r)
	if c == nil {
		return
	}
	d, rl, pw := c.d, c.rl, c.pw
	type job struct {
		fn        *ssa.Function
		what      string
		withChild bool
		want      func(child bool) map[string]bool
	}
	cur := func(child bool, s string) string {
		if child {
			return strings.ReplaceAll(strings.ReplaceAll(s, "{C}", ""), "{CHILD}", "Child:$L,")
		}
		return strings.ReplaceAll(strings.ReplaceAll(s, "{C}", "Current"), "{CHILD}", "")
	}
	jobs := []job{
		{rl.filter, "the filter parser", false, func(bool) map[string]bool {
			return map[string]bool{"E(lo) CloseSqBrace => $1": true}
		}},
		{rl.top, "the top-level parser", false, func(bool) map[string]bool {
			return map[string]bool{"E(lo) <End> => $1": true}
		}},
		{rl.selArr, "the multi-select list parser", true, func(child bool) map[string]bool {
			return map[string]bool{
				cur(child, "E(lo) CloseSqBrace => SelectArraySingle{C}Node{{CHILD}Field:$1}"):             true,
				cur(child, "E(lo) Comma E(lo) CloseSqBrace => SelectArray{C}Node{{CHILD}Fields:[$1,$2]}"): true,
			}
		}},
		{rl.selObj, "the multi-select hash parser", true, func(child bool) map[string]bool {
			out := map[string]bool{}
			keyForms := []struct{ tok, val string }{{"UnquotedIdentifier", "tok%d.Value"}, {"QuotedIdentifier", "lit~quoted(tok%d.Value)"}}
			for _, k1 := range keyForms {
				v1 := fmt.Sprintf(k1.val, 1)
				out[cur(child, fmt.Sprintf("%s Colon E(lo) CloseBrace => SelectObjectSingle{C}Node{{CHILD}Field:$1,Key:%s}", k1.tok, v1))] = true
			}
			return out
		}},
		{rl.let, "the let parser", false, func(bool) map[string]bool {
			return map[string]bool{
				"Variable Assign E(lo) In E(lo) => DefineVariables{Child:$2,Variables:map{tok1.Value:$1}}": true,
			}
		}},
	}
	for _, j := range jobs {
		if j.fn == nil {
			continue
		}
		name := "parser." + j.fn.Name()
		for _, child := range []bool{false, true} {
			if child && !j.withChild {
				continue
			}
			key := name
			if j.withChild {
				key += map[bool]string{true: " child", false: " no child"}[child]
			}
			e, st := d.start(j.fn)
			e.MaxVisits = 3
			var left AV = avNil{}
			if child {
				left = avSym{id: e.fresh(), tag: "left", nonNil: true}
			}
			outs := e.Run(j.fn, d.argsFor(j.fn, left, 0, false), st)
			if e.Aborted != "" {
				r.Unknown(j.fn.Pos(), key, "path enumeration aborted: "+e.Aborted)
				continue
			}
			got := map[string]token.Pos{}
			more := map[string]token.Pos{}
			for _, o := range outs {
				if o.Panic {
					r.Bad(j.fn.Pos(), key, "a path panics")
					continue
				}
				if o.Cut && o.CutBlock.Parent() != j.fn && rl.byFn[o.CutBlock.Parent()] != "" {
					r.Unknown(blockPos(o.CutBlock), key+" loop in "+o.CutBlock.Parent().Name(), "a helper called here loops; what it does is not enumerable by bounded path exploration")
					continue
				}
				if o.Cut || len(o.Res) != 2 || !isDefNil(o.Res[1]) {
					continue
				}
				items, currTok, _ := d.consumed(o.St)
				rr := d.newRenderer(rl, o.St, left, pw)
				end := ""
				if j.fn == rl.top {
					end = strings.TrimSuffix(currTok.Type, "Token")
					if end == "" {
						end = currTok.String()
					}
				}
				line := rr.line(items, o.Res[0], end)
				if (j.fn == rl.selObj || j.fn == rl.let) && strings.Count(line, " E(") > 1 && j.fn == rl.selObj {
					more[line] = o.Ret.Pos()
					continue
				}
				if j.fn == rl.let && strings.Count(line, " E(") > 2 {
					more[line] = o.Ret.Pos()
					continue
				}
				if j.fn == rl.selArr && strings.Count(" "+line, " E(") > 2 {
					// longer lists: how many the bounded exploration reaches depends on the shape of the loop
					n := strings.Count(" "+line, " E(")
					var want []string
					var refs []string
					for i := 1; i <= n; i++ {
						want = append(want, "E(lo)")
						refs = append(refs, fmt.Sprintf("$%d", i))
					}
					exp := cur(child, strings.Join(want, " Comma ")+" CloseSqBrace => SelectArray{C}Node{{CHILD}Fields:["+strings.Join(refs, ",")+"]}")
					if line != exp {
						r.Bad(o.Ret.Pos(), key+" :: "+line, "a list of "+fmt.Sprint(n)+" expressions is not parsed as `E , E ... ]` into the node holding them in order")
					}
					continue
				}
				got[line] = o.Ret.Pos()
			}
			compareLines(r, j.fn.Pos(), key, got, j.want(child), j.what)
			// longer lists (hash with several keys, let with several bindings): generic shape check
			var ls []string
			for l := range more {
				ls = append(ls, l)
			}
			sort.Strings(ls)
			for _, l := range ls {
				if msg := checkKeyedList(l, j.fn == rl.let, child); msg != "" {
					r.Bad(more[l], key+" :: "+l, msg)
				} else {
					r.OK(more[l], key+" :: "+l, "keyed list: every key bound to the expression that follows it")
				}
			}
			if len(ls) == 0 && (j.fn == rl.selObj || j.fn == rl.let) {
				r.Bad(j.fn.Pos(), key+" several entries", "no path accepts more than one entry")
			}
		}
	}
}

// checkKeyedList validates a rendered line of a multi-entry hash or let: `k : E , k : E ... }` with map{k_i:$i}.
func checkKeyedList(line string, isLet, child bool) string {
	parts := strings.SplitN(line, " => ", 2)
	if len(parts) != 2 {
		return "unrenderable"
	}
	toks := strings.Fields(parts[0])
	sep, closer := "Colon", "CloseBrace"
	keyToks := map[string]bool{"UnquotedIdentifier": true, "QuotedIdentifier": true}
	if isLet {
		sep, closer = "Assign", "In"
		keyToks = map[string]bool{"Variable": true}
	}
	i, n := 0, 0
	var keys []string
	tokNo := 1
	for {
		if i+2 >= len(toks) || !keyToks[toks[i]] || toks[i+1] != sep || toks[i+2] != "E(lo)" {
			return "entry " + fmt.Sprint(n+1) + " is not `key " + sep + " expr` parsed below every operator's power"
		}
		if toks[i] == "QuotedIdentifier" {
			keys = append(keys, fmt.Sprintf("lit~quoted(tok%d.Value)", tokNo))
		} else {
			keys = append(keys, fmt.Sprintf("tok%d.Value", tokNo))
		}
		n++
		i += 3
		if i >= len(toks) {
			return "not closed"
		}
		if toks[i] == "Comma" {
			i++
			// token numbering restarts after each sub-expression (fresh lookahead): two new tokens per sub, the comma is the first
			tokNo += 4
			continue
		}
		if toks[i] != closer {
			return "closed by " + toks[i] + ", want " + closer
		}
		i++
		break
	}
	if isLet {
		if i >= len(toks) || toks[i] != "E(lo)" || i+1 != len(toks) {
			return "`in` is not followed by exactly one expression parsed below every operator's power"
		}
	} else if i != len(toks) {
		return "tokens consumed after the closing brace"
	}
	// result: every key bound to its own expression
	for k := 0; k < n; k++ {
		if !strings.Contains(parts[1], fmt.Sprintf(":$%d", k+1)) {
			return fmt.Sprintf("the %d. parsed expression is not stored", k+1)
		}
	}
	_ = keys
	if isLet && !strings.Contains(parts[1], fmt.Sprintf("Child:$%d", n+1)) {
		return "the body of the let is not the expression after `in`"
	}
	return ""
}

// literalHelpers finds the functions that decode the text of the three literal tokens, by what the primary-expression
// parser calls for each of them (not by name): "string", "quoted", "json".

func literalHelpers(p *Program) map[string]*ssa.Function {
	if p.memoLitHelpers != nil {
		return p.memoLitHelpers
	}
	out := map[string]*ssa.Function{}
	p.memoLitHelpers = out
	d := newParserDom(p)
	if d.why != "" {
		return out
	}
	rl := d.inferRoles()
	if rl.primary == nil {
		return out
	}
	for kind, tok := range map[string]string{"string": "StringLiteralToken", "quoted": "QuotedIdentifierToken", "json": "JSONLiteralToken"} {
		e, st := d.start(rl.primary)
		d.SetToken(st, 1, tok, nil)
		for _, o := range e.Run(rl.primary, d.argsFor(rl.primary, avNil{}, 0, false), st) {
			for _, ev := range o.St.Trace {
				if ev.Kind == "lit" {
					out[kind] = ev.Fn
				}
			}
		}
	}
	return out
}

// ---------------------------------------------------------------- T-LOOPS

func init() {
	register(&Rule{ID: "T-LOOPS", Props: []string{"C09", "C03", "C04"}, Floor: 3,
		Doc: "Every loop of the parser ends at the end of the input, by path enumeration of each grammar function with its loops cut at the first back edge: on a path that goes round a loop, every token it consumed is pinned to a type, or at least known not to be the end token (the lexer returns the end token forever, so a loop that consumes `any token` never terminates on a truncated expression), and the path consumed something.",
		Run: ruleTLoops})
}

func ruleTLoops(p *Program, r *Reporter) {
	c := tpiSetup(p, r)
	if c == nil {
		return
	}
	d, rl := c.d, c.rl
	type job struct {
		fn     *ssa.Function
		opaque map[*ssa.Function]bool
	}
	var jobs []job
	var members []*ssa.Function
	for m := range d.scc {
		members = append(members, m)
	}
	sort.Slice(members, func(i, j int) bool { return members[i].Name() < members[j].Name() })
	for _, m := range members {
		if m == rl.function || d.wrapper[m] {
			continue
		}
		reach := false
		for _, cal := range staticCallees(rl.function) {
			if cal == m {
				reach = true // arity helpers are explored through the function-call parser below
			}
		}
		if !reach {
			jobs = append(jobs, job{m, nil})
		}
	}
	jobs = append(jobs, job{rl.function, map[*ssa.Function]bool{d.exprFn: true}})
	for _, j := range jobs {
		fn := j.fn
		name := "parser." + fn.Name()
		e, st := d.start(fn)
		if j.opaque != nil {
			d.opaqueOnly = j.opaque
			// the function-call parser is entered on `name (` (T-PRIMARY decides that)
			d.SetToken(st, 1, "UnquotedIdentifierToken", nil)
			d.SetToken(st, 2, "OpenParenToken", nil)
		}
		e.MaxVisits = 2 // two iterations: the first token of a loop is often pinned by the caller, the second is not
		left := avSym{id: e.fresh(), tag: "left", nonNil: true}
		outs := e.Run(fn, d.argsFor(fn, left, 0, false), st)
		if e.Aborted != "" {
			r.Unknown(fn.Pos(), name+" loops", "path enumeration aborted: "+e.Aborted)
			continue
		}
		nCut := 0
		bad := map[string]token.Pos{}
		for _, o := range outs {
			if !o.Cut {
				continue
			}
			nCut++
			items, _, _ := d.consumed(o.St)
			if len(items) == 0 {
				bad["goes round a loop without consuming anything"] = blockPos(o.CutBlock)
				continue
			}
			for _, it := range items {
				if it.Ev != nil || it.Type != "" {
					continue
				}
				endExcluded := false
				for _, x := range it.Excluded {
					if x == "End" {
						endExcluded = true
					}
				}
				if !endExcluded {
					bad["goes round the loop in "+o.CutBlock.Parent().Name()+" after consuming a token that may be the end of the input ("+patString(items)+")"] = blockPos(o.CutBlock)
				}
			}
		}
		if nCut == 0 {
			continue
		}
		if len(bad) == 0 {
			r.OK(fn.Pos(), name+" loops", fmt.Sprintf("%d paths go round a loop; each consumes only tokens that cannot be the end token", nCut))
			continue
		}
		var ks []string
		for k := range bad {
			ks = append(ks, k)
		}
		sort.Strings(ks)
		for _, k := range ks {
			r.Bad(bad[k], name+" loops :: "+k, "at the end of a truncated expression the lexer keeps returning the end token: this loop never terminates")
		}
	}
}
