package main

import (
	"fmt"
	"go/constant"
	"go/token"
	"go/types"
	"strings"

	"golang.org/x/tools/go/ssa"
)

func init() {
	register(&Rule{ID: "E-TYPECHECK", Props: []string{"C02", "C13", "C08", "C20", "C15"}, Floor: 79,
		Doc: "in every built-in helper that can fail (results (T, error)), the ok of every comma-ok type assertion and of every toDecimal call is tested, and the failure edge cannot reach a success return before another type test: every return reached first carries *InvalidTypeError (or the error type the table names for that helper); helpers for which the specification turns a mismatch into null/false are listed one by one",
		Run: ruleETypeCheck})
	register(&Rule{ID: "E-TOINT", Props: []string{"C02", "C08", "C14"}, Floor: 3,
		Doc: "at every call of the integer coercion toInt the failure edge (!ok) only reaches error returns: *InvalidTypeError when the value is not a number, *integerConversionError (invalid-value) when it is a number that is not an integer in range; no path continues with the zero result",
		Run: ruleEToInt})
	register(&Rule{ID: "E-NEGCOUNT", Props: []string{"C02", "C09", "C03"}, Floor: 3,
		Doc: "every integer obtained from toInt meets a sign test (< 0) before any other use; for counts and widths the negative edge returns *negativeIntegerError, for search offsets it clamps or returns null",
		Run: ruleENegCount})
	register(&Rule{ID: "E-NULL-HELPERS", Props: []string{"C02", "C13", "C01"}, Floor: 3,
		Doc: "helpers that turn a type mismatch into null (a single `any` result and no error: selectors and comparison operators) are called only from the dispatcher, never from a built-in function, which must report invalid-type instead",
		Run: ruleENullHelpers})
}

// mismatchIsNotError lists helpers where the specification maps a failed type test to a value, with the reason.
var mismatchIsNotError = map[string]string{
	"evaluator.contains":                         "contains(string, non-string) is false",
	"evaluator.evaluator.filter":                 "a filter on a non-array is null",
	"evaluator.evaluator.filterAndProjectArray":  "a projection on a non-array is null",
	"evaluator.evaluator.flattenAndProjectArray": "a projection on a non-array is null; non-array elements are kept by flatten",
	"evaluator.evaluator.projectArray":           "a projection on a non-array is null",
	"evaluator.evaluator.projectObject":          "a projection on a non-object is null",
	"evaluator.evaluator.evaluate":               "the dispatcher: unary operators on non-numbers are null; merge/zip check their own arguments",
	"evaluator.toString":                         "to_string of a string is the string itself; everything else is serialised",
}

// typeTests returns the boolean `ok` values of type tests in fn: comma-ok assertions and toDecimal/toFloat calls.
type typeTest struct {
	ok   ssa.Value
	at   ssa.Instruction
	what string
	src  ssa.Value
}

func typeTestsOf(fn *ssa.Function) []typeTest {
	var out []typeTest
	for _, b := range fn.Blocks {
		for _, in := range b.Instrs {
			switch x := in.(type) {
			case *ssa.TypeAssert:
				if !x.CommaOk {
					continue
				}
				var okv ssa.Value
				for _, ref := range *x.Referrers() {
					if ex, ok := ref.(*ssa.Extract); ok && ex.Index == 1 {
						okv = ex
					}
				}
				out = append(out, typeTest{okv, x, ".(" + typeShort(x.AssertedType) + ")", x.X})
			case *ssa.Call:
				cf := calleeOf(&x.Call)
				if cf == nil {
					continue
				}
				if isRole(cf, "toDecimal") {
					out = append(out, typeTest{extractOf(x, 1), x, "toDecimal", x.Call.Args[0]})
				}
			}
		}
	}
	return out
}

func hasTypeTest(b *ssa.BasicBlock) bool {
	for _, in := range b.Instrs {
		switch x := in.(type) {
		case *ssa.BinOp:
			// `case nil:` of a type switch is lowered to a comparison of the interface with nil
			if x.Op == token.EQL {
				if _, isIface := x.X.Type().Underlying().(*types.Interface); isIface && (isNilConst(x.Y) || isNilConst(x.X)) && !isErrorType(x.X.Type()) {
					return true
				}
			}
		case *ssa.TypeAssert:
			if x.CommaOk {
				return true
			}
		case *ssa.Call:
			if cf := calleeOf(&x.Call); cf != nil && (isRole(cf, "toDecimal") || isRole(cf, "toInt") || isRole(cf, "toFloat") || isRole(cf, "toFloatPair")) {
				return true
			}
			// a predicate of the repository that type-tests what it is given (isFloatArray(a)): the branch on its result is
			// a type test of its own
			if cf := calleeOf(&x.Call); cf != nil && len(cf.Blocks) > 0 && cf.Pkg == b.Parent().Pkg && cf.Signature.Results().Len() >= 1 && isBoolType(cf.Signature.Results().At(cf.Signature.Results().Len()-1).Type()) && predicateTestsTypes(cf) {
				return true
			}
			// a library search over the elements with a type-testing predicate (slices.IndexFunc(a, isNotString))
			for _, arg := range x.Call.Args {
				var pf *ssa.Function
				switch f := arg.(type) {
				case *ssa.Function:
					pf = f
				case *ssa.MakeClosure:
					pf, _ = f.Fn.(*ssa.Function)
				}
				if pf != nil && len(pf.Blocks) > 0 && pf.Signature.Results().Len() == 1 && isBoolType(pf.Signature.Results().At(0).Type()) {
					for _, pb := range pf.Blocks {
						for _, pin := range pb.Instrs {
							switch y := pin.(type) {
							case *ssa.TypeAssert:
								return true
							case *ssa.Call:
								if cf := calleeOf(&y.Call); cf != nil && (isRole(cf, "toDecimal") || isRole(cf, "toInt") || isRole(cf, "toFloat")) {
									return true
								}
							}
						}
					}
				}
			}
		}
	}
	return false
}

// predicateTestsTypes: the body of the predicate contains a type assertion or a numeric coercion.
func predicateTestsTypes(pf *ssa.Function) bool {
	for _, pb := range pf.Blocks {
		for _, pin := range pb.Instrs {
			switch y := pin.(type) {
			case *ssa.TypeAssert:
				return true
			case *ssa.Call:
				if cf := calleeOf(&y.Call); cf != nil && (isRole(cf, "toDecimal") || isRole(cf, "toInt") || isRole(cf, "toFloat")) {
					return true
				}
			}
		}
	}
	return false
}

// ownMapLookup: v is looked up in a map this function allocated itself (its contents are the function's own values).
func ownMapLookup(v ssa.Value) bool {
	lk, ok := v.(*ssa.Lookup)
	if !ok {
		if ex, isEx := v.(*ssa.Extract); isEx {
			lk, ok = ex.Tuple.(*ssa.Lookup)
		}
		if !ok {
			return false
		}
	}
	_, isMake := lk.X.(*ssa.MakeMap)
	return isMake
}

func errTypeOf(v ssa.Value) string {
	switch x := v.(type) {
	case *ssa.MakeInterface:
		return typeShort(x.X.Type())
	case *ssa.Const:
		if x.IsNil() {
			return "nil"
		}
	case *ssa.UnOp:
		if g, ok := x.X.(*ssa.Global); ok {
			return g.Name()
		}
	case *ssa.Call:
		// an error built by a small constructor of the repository: the one type all its returns construct
		if cf := calleeOf(&x.Call); cf != nil && len(cf.Blocks) > 0 && cf.Signature.Results().Len() == 1 && isErrorType(cf.Signature.Results().At(0).Type()) {
			t := ""
			for _, ret := range returnsOf(cf) {
				rt := errTypeOf(ret.Results[0])
				if strings.HasPrefix(rt, "?") || rt == "nil" || (t != "" && t != rt) {
					t = "?"
					break
				}
				t = rt
			}
			if t != "" && t != "?" {
				return t
			}
		}
	}
	return "?" + v.String()
}

// anyTypedArgs: parameters of built-in helpers whose type the specification leaves open (`any`): a value of a type the
// helper has no use for is an ordinary argument (contains: not found; to_array: wrapped; to_number: null; to_string:
// serialised; type: its name), never an invalid-type error.
var anyTypedArgs = map[string][]int{
	"evaluator.contains": {1},
	"evaluator.toArray":  {0},
	"evaluator.toNumber": {0},
	"evaluator.toString": {0},
	// type(): a value that is none of the JSON carriers (a foreign Go value) has no type name; E-KINDS and E-RESULT-TYPES
	// decide its table
}

// ruleAnyTypedArgs: in the helpers of anyTypedArgs, the failure edge of a type test of such a parameter reaches no return
// that carries *InvalidTypeError (edges on which another test of the same parameter succeeded are left alone).
func ruleAnyTypedArgs(p *Program, r *Reporter) {
	for _, fn := range p.ReachFuncs(p.Eval) {
		idxs, ok := anyTypedArgs[p.FuncName(fn)]
		if !ok || fn.Parent() != nil {
			continue
		}
		res := fn.Signature.Results()
		if res.Len() == 0 || !isErrorType(res.At(res.Len()-1).Type()) {
			for _, k := range idxs {
				r.Trivial(fn.Pos(), fmt.Sprintf("%s argument #%d is any", p.FuncName(fn), k+1), "the helper has no error result")
			}
			continue
		}
		for _, k := range idxs {
			key := fmt.Sprintf("%s argument #%d is any", p.FuncName(fn), k+1)
			if k >= len(fn.Params) {
				r.Unknown(fn.Pos(), key, "the helper has no such parameter")
				continue
			}
			prm := fn.Params[k]
			isTestOfPrm := func(iff *ssa.If) bool {
				ex, ok := iff.Cond.(*ssa.Extract)
				if !ok {
					return false
				}
				ta, ok := ex.Tuple.(*ssa.TypeAssert)
				return ok && isParamValue(ta.X, prm)
			}
			tests, bad := 0, ""
			var badPos token.Pos
			for _, tt := range typeTestsOf(fn) {
				if !isParamValue(tt.src, prm) || tt.ok == nil {
					continue
				}
				for _, ref := range *tt.ok.Referrers() {
					iff, ok := ref.(*ssa.If)
					if !ok {
						continue
					}
					tests++
					seen := map[*ssa.BasicBlock]bool{}
					var walk func(b *ssa.BasicBlock)
					walk = func(b *ssa.BasicBlock) {
						if seen[b] || bad != "" {
							return
						}
						seen[b] = true
						if len(b.Instrs) == 0 {
							return
						}
						switch last := b.Instrs[len(b.Instrs)-1].(type) {
						case *ssa.Return:
							if et := errTypeOf(last.Results[len(last.Results)-1]); strings.HasSuffix(et, "InvalidTypeError") {
								bad, badPos = fmt.Sprintf("a value that fails the test %s reaches a return carrying %s: the specification gives this argument the type any, so no type of it is an error", tt.what, et), last.Pos()
							}
						case *ssa.If:
							if isTestOfPrm(last) {
								walk(b.Succs[1]) // another type of the same argument matched on the true edge: not this test's business
								return
							}
							walk(b.Succs[0])
							walk(b.Succs[1])
						default:
							for _, s := range b.Succs {
								walk(s)
							}
						}
					}
					walk(iff.Block().Succs[1])
				}
			}
			switch {
			case bad != "":
				r.Bad(badPos, key, bad)
			case tests == 0:
				r.Trivial(fn.Pos(), key, "the helper applies no type test to this parameter")
			default:
				r.OK(fn.Pos(), key, fmt.Sprintf("%d type tests of the parameter: no failure edge reaches an invalid-type return", tests))
			}
		}
	}
}

func ruleETypeCheck(p *Program, r *Reporter) {
	ruleAnyTypedArgs(p, r)
	for _, fn := range p.ReachFuncs(p.Eval) {
		res := fn.Signature.Results()
		if res.Len() != 2 || !isErrorType(res.At(1).Type()) {
			continue
		}
		name := p.FuncName(fn)
		if fn.Parent() != nil {
			continue
		}
		exempt, isExempt := mismatchIsNotError[name]
		if !isExempt {
			why := map[string]string{}
			for k, v := range mismatchIsNotError {
				if k != "evaluator.evaluator.evaluate" {
					why[k] = v
				}
			}
			for _, sel := range selectors {
				// E-SELECTOR-NULL decides that these yield null on a subject of the wrong type
				if f := producerFunc(p, sel); f != nil {
					if _, ok := why[p.FuncName(f)]; !ok {
						why[p.FuncName(f)] = "a selector on a value of the wrong type is null"
					}
				}
			}
			if via, ok := exemptVia(p, fn, func(n string) bool { _, ok := why[n]; return ok }, 0); ok {
				exempt, isExempt = "called only on behalf of "+via+": "+why[via], true
			}
		}
		n := 0
		loops := loopsOf(fn)
		for _, tt := range typeTestsOf(fn) {
			n++
			key := fmt.Sprintf("%s test#%d %s%s", name, n, describeAddr(tt.src), tt.what)
			if ownMapLookup(tt.src) {
				r.Trivial(tt.at.Pos(), key, "asserts the type of a value this function stored itself in a map it allocated")
				continue
			}
			if tt.ok == nil {
				if isExempt && isNodeType(tt.src.Type()) {
					r.Trivial(tt.at.Pos(), key, "exempt: "+exempt)
				} else if isExempt {
					// a helper for which a mismatch is not an error still has to decide it (null, false): with the ok
					// result discarded the zero value of the asserted type is used as if it were the value
					r.Bad(instrPos(tt.at), key, "the ok result of the type test is discarded: a value of the wrong type is used as the zero value of the asserted type instead of yielding the result the specification gives for a mismatch ("+exempt+")")
				} else {
					r.Bad(instrPos(tt.at), key, "the ok result of the type test is discarded: a value of the wrong type is used as the zero value instead of raising invalid-type")
				}
				continue
			}
			// find the If(s) on ok
			var ifs []*ssa.If
			for _, ref := range *tt.ok.Referrers() {
				if i, ok := ref.(*ssa.If); ok {
					ifs = append(ifs, i)
				}
			}
			if len(ifs) == 0 {
				// ok may feed a phi / return directly (e.g. helper returning the bool)
				if isExempt && (isNodeType(tt.src.Type()) || (tt.ok.Referrers() != nil && len(*tt.ok.Referrers()) > 0)) {
					r.Trivial(tt.at.Pos(), key, "exempt: "+exempt)
				} else if isExempt {
					r.Bad(instrPos(tt.at), key, "the ok result of the type test is never used: a value of the wrong type is used as the zero value of the asserted type instead of yielding the result the specification gives for a mismatch ("+exempt+")")
				} else {
					r.Bad(instrPos(tt.at), key, "the ok result of the type test never decides a branch")
				}
				continue
			}
			verdict, detail := "", ""
			for _, iff := range ifs {
				fail := iff.Block().Succs[1]
				// explore from the failure edge until the first return or type test
				seen := map[*ssa.BasicBlock]bool{}
				var walk func(b *ssa.BasicBlock, first bool)
				walk = func(b *ssa.BasicBlock, first bool) {
					if seen[b] {
						return
					}
					seen[b] = true
					if body, isHeader := loops[b]; !isExempt && (!first && b == iff.Block() || isHeader && body[iff.Block()]) {
						// round the loop and back at this very test: the element that failed it was skipped
						verdict = "bad"
						detail = "the failure edge goes round the loop to the same test on the next element: an element of the wrong type is skipped instead of raising invalid-type"
						return
					}
					if hasTypeTest(b) || loopTestsElements(loops, b) {
						// another test before any return: that test carries its own obligation
						if verdict == "" {
							detail = "failure falls through to the next type test"
						}
						return
					}
					if len(b.Instrs) > 0 {
						if ret, ok := b.Instrs[len(b.Instrs)-1].(*ssa.Return); ok {
							et := errTypeOf(ret.Results[1])
							switch {
							case et == "*evaluator.InvalidTypeError":
								if verdict == "" {
									detail = "failure returns *InvalidTypeError"
								}
							case et == "nil":
								verdict = "bad"
								detail = "the failure edge reaches a success return at " + p.Pos(ret.Pos()) + " (result " + ret.Results[0].String() + ")"
							default:
								if allowedMismatchError(name, et) {
									if verdict == "" {
										detail = "failure returns " + et + " (as specified for this helper)"
									}
								} else {
									verdict = "bad"
									detail = "the failure edge returns " + et + " instead of *InvalidTypeError at " + p.Pos(ret.Pos())
								}
							}
							return
						}
					}
					for _, s := range b.Succs {
						walk(s, false)
					}
				}
				walk(fail, true)
			}
			switch {
			case verdict == "bad" && isExempt:
				r.OK(tt.at.Pos(), key, "exempt: "+exempt)
			case verdict == "bad":
				r.Bad(instrPos(tt.at), key, detail)
			default:
				r.OK(tt.at.Pos(), key, detail)
			}
		}
	}
}

func allowedMismatchError(fn, errType string) bool {
	switch fn {
	case "evaluator.fromItems":
		return errType == "*evaluator.fromItemsKeyTypeError" || errType == "*evaluator.fromItemsLengthError"
	}
	// integer coercion failures after toInt are handled by E-TOINT
	return errType == "*evaluator.integerConversionError"
}

func ruleEToInt(p *Program, r *Reporter) {
	nr := numericRoles(p)
	toInt := nr.toInt
	if toInt == nil {
		r.Unknown(token.NoPos, "toInt", "integer coercion helper func(any) (int, bool, ...) not found: "+nr.why)
		return
	}
	for _, fn := range p.ReachFuncs(p.Eval) {
		if fn.Parent() != nil || fn == toInt {
			continue
		}
		calls := 0
		for _, c := range staticCallees(fn) {
			if c == toInt {
				calls++
			}
		}
		if calls == 0 {
			continue
		}
		name := p.FuncName(fn)
		// pure probes (`_, isNum, _ := toInt(x)`) carry no obligation
		res := fn.Signature.Results()
		if res.Len() == 0 || !isErrorType(res.At(res.Len()-1).Type()) {
			r.Trivial(fn.Pos(), name+" integer arguments", "uses the integer coercion only to classify a value (no error result)")
			continue
		}
		nd := &numDom{p: p}
		e := newEngine(p, nd)
		nd.e = e
		e.MaxVisits = 2
		e.MaxPaths = 30000
		st := newState()
		args := make([]AV, len(fn.Params))
		for i := range args {
			args[i] = avSym{id: e.fresh(), tag: fmt.Sprintf("arg%d", i)}
		}
		outs := e.Run(fn, args, st)
		key := name + " integer arguments"
		if e.Aborted != "" {
			r.Unknown(fn.Pos(), key, "path enumeration aborted: "+e.Aborted)
			continue
		}
		bad := ""
		var badPos token.Pos
		nFail := 0
		for _, o := range outs {
			if o.Panic || o.Cut || bad != "" {
				continue
			}
			// the first failed integer coercion on the path
			var fail *Event
			var laterDecFail bool
			for k := range o.St.Trace {
				ev := &o.St.Trace[k]
				if ev.Kind == "coerce-failed" && ev.Fn == toInt && fail == nil {
					fail = ev
				} else if ev.Kind == "coerce-failed" && fail != nil && isRole(ev.Fn, "toDecimal") && len(ev.Args) > 0 && len(fail.Args) > 0 && avKey(ev.Args[0]) == avKey(fail.Args[0]) {
					laterDecFail = true
				}
			}
			if fail == nil || len(fail.Res) < 2 {
				continue
			}
			nFail++
			isnum := fail.Res[1]
			decided, truth := false, false
			if len(fail.Res) > 2 || true {
				for _, c := range o.St.Conds {
					if avKey(c.V) == avKey(isnum) {
						decided, truth = true, c.Truth
					}
					if n, ok := c.V.(avNot); ok && avKey(n.x) == avKey(isnum) {
						decided, truth = true, !c.Truth
					}
				}
			}
			// was the failure flag consulted at all?
			okConsulted := false
			for _, ev := range o.St.Trace {
				_ = ev
			}
			_ = okConsulted
			last := o.Res[len(o.Res)-1]
			et := dynName(last)
			pos := o.Ret.Pos()
			arg := nd.render(fail.Args[0])
			switch {
			case isDefNil(last):
				bad = "a path continues to a success return after the integer coercion of " + arg + " failed"
			case et == "":
				// error produced by something the interpreter does not see through: accept only known sentinel
				continue
			case decided && !truth && et != "InvalidTypeError":
				bad = "a non-number argument " + arg + " is reported as " + et + " instead of invalid-type"
			case decided && truth && laterDecFail:
				continue // defensive re-check of a value already known to be a number: infeasible
			case decided && truth && et == "InvalidTypeError" && reportsAnotherValue(o.St, last, fail.Args[0]):
				// the type error of another argument takes precedence over this argument's value error, provided the path
				// knows that other argument is not a number
				if w := unjustifiedTypeError(o.St, last, toInt); w != nil {
					bad = "the argument " + nd.render(w) + " is reported as invalid-type after an integer coercion of it failed without the path asking whether it is a number at all (a non-integral number is an invalid value, not an invalid type)"
				}
			case decided && truth && et != "integerConversionError":
				bad = "a number " + arg + " that is not an integer is reported as " + et + " instead of the integer-conversion (invalid-value) error"
			case !decided && et != "InvalidTypeError" && et != "integerConversionError":
				bad = "a failed integer coercion of " + arg + " is reported as " + et
			case !decided && !laterDecFail && et == "InvalidTypeError" && len(toInt.Signature.Results().At(1).Name()) >= 0 && resultsHaveIsNum(toInt):
				bad = "non-numbers and non-integral numbers are not told apart for " + arg + ": both are reported as invalid-type"
			}
			if bad != "" {
				badPos = pos
			}
		}
		switch {
		case bad != "":
			r.Bad(badPos, key, bad)
		case nFail == 0:
			r.Bad(fn.Pos(), key, "no path handles a failed integer coercion")
		default:
			r.OK(fn.Pos(), key, fmt.Sprintf("%d failing paths: non-number -> InvalidTypeError, non-integer -> integerConversionError; none continues", nFail))
		}
	}
}

// reportsAnotherValue: the error value describes (reflect.TypeOf) a value other than v.
func reportsAnotherValue(st *State, errv AV, v AV) bool {
	for _, f := range st.fieldsOf(errv) {
		sy, ok := f.(avSym)
		if !ok || !strings.Contains(sy.tag, "TypeOf") {
			continue
		}
		if t, ok := sy.payload.(avTuple); ok && len(t) == 1 && avKey(t[0]) != avKey(v) {
			return true
		}
	}
	return false
}

// unjustifiedTypeError: the error value describes (reflect.TypeOf) a value whose only failed coercions on the path are
// integer coercions whose is-a-number flag the path never found false.
func unjustifiedTypeError(st *State, errv AV, toInt *ssa.Function) AV {
	for _, f := range st.fieldsOf(errv) {
		sy, ok := f.(avSym)
		if !ok || !strings.Contains(sy.tag, "TypeOf") {
			continue
		}
		t, ok := sy.payload.(avTuple)
		if !ok || len(t) != 1 {
			continue
		}
		w := t[0]
		failedInt, justified := false, false
		for _, ev := range st.Trace {
			if ev.Kind != "coerce-failed" || len(ev.Args) == 0 || avKey(ev.Args[0]) != avKey(w) {
				continue
			}
			if ev.Fn != toInt {
				justified = true // the decimal coercion fails for non-numbers only
				continue
			}
			failedInt = true
			if len(ev.Res) < 3 {
				justified = true
				continue
			}
			for _, c := range st.Conds {
				if avKey(c.V) == avKey(ev.Res[1]) && !c.Truth {
					justified = true
				}
				if n, ok := c.V.(avNot); ok && avKey(n.x) == avKey(ev.Res[1]) && c.Truth {
					justified = true
				}
			}
		}
		if failedInt && !justified {
			return w
		}
	}
	return nil
}

func resultsHaveIsNum(toInt *ssa.Function) bool { return toInt.Signature.Results().Len() >= 3 }

func reportsOtherValue(ret *ssa.Return, coerced ssa.Value) bool {
	mi, ok := ret.Results[len(ret.Results)-1].(*ssa.MakeInterface)
	if !ok {
		return false
	}
	al, ok := mi.X.(*ssa.Alloc)
	if !ok {
		return false
	}
	for _, ref := range *al.Referrers() {
		fa, ok := ref.(*ssa.FieldAddr)
		if !ok {
			continue
		}
		for _, r2 := range *fa.Referrers() {
			st, ok := r2.(*ssa.Store)
			if !ok {
				continue
			}
			if c, ok := st.Val.(*ssa.Call); ok && calleeFullName(&c.Call) == "reflect.TypeOf" {
				return c.Call.Args[0] != coerced
			}
		}
	}
	return false
}

// countHelpers: the integer is a count or width: a negative value is an error.
var countHelpers = map[string]bool{
	"evaluator.padLeft": true, "evaluator.padRight": true, "evaluator.padSpaceLeft": true, "evaluator.padSpaceRight": true,
	"evaluator.replaceCount": true, "evaluator.splitCount": true,
}

func ruleENegCount(p *Program, r *Reporter) {
	toInt := numericRoles(p).toInt
	if toInt == nil {
		r.Unknown(token.NoPos, "toInt", "integer coercion helper func(any) (int, bool, ...) not found: "+numericRoles(p).why)
		return
	}
	for _, fn := range p.ReachFuncs(p.Eval) {
		name := p.FuncName(fn)
		n := 0
		for _, b := range fn.Blocks {
			for _, in := range b.Instrs {
				c, ok := in.(*ssa.Call)
				if !ok || calleeOf(&c.Call) != toInt {
					continue
				}
				iv := extractOf(c, 0)
				if iv == nil {
					continue
				}
				n++
				key := fmt.Sprintf("%s sign of toInt(%s)#%d", name, describeAddr(c.Call.Args[0]), n)
				// sign test: If on `iv < 0`
				var test *ssa.If
				var cmp *ssa.BinOp
				for _, ref := range *iv.Referrers() {
					bin, ok := ref.(*ssa.BinOp)
					if !ok || bin.X != iv {
						continue
					}
					k, isC := bin.Y.(*ssa.Const)
					if !isC || k.Value == nil || k.Value.Kind() != constant.Int || constant.Sign(k.Value) != 0 {
						continue
					}
					if bin.Op != token.LSS && bin.Op != token.GEQ {
						continue
					}
					for _, r2 := range *bin.Referrers() {
						if i, ok := r2.(*ssa.If); ok {
							test, cmp = i, bin
						}
					}
				}
				if test == nil {
					r.Bad(instrPos(c), key, "the coerced integer is used without a sign test: a negative count/offset is passed on (strings.Replace treats a negative count as 'all', a negative size panics)")
					continue
				}
				// all other uses must be dominated by the test block
				bad := ""
				for _, ref := range *iv.Referrers() {
					if ref == ssa.Instruction(cmp) {
						continue
					}
					if !test.Block().Dominates(ref.Block()) || ref.Block() == test.Block() {
						bad = "used at " + p.Pos(instrPos(ref)) + " before the sign test"
					}
				}
				if bad != "" {
					r.Bad(instrPos(c), key, bad)
					continue
				}
				negEdge := test.Block().Succs[0]
				if cmp.Op == token.GEQ {
					negEdge = test.Block().Succs[1]
				}
				if countHelpers[name] {
					good := false
					if len(negEdge.Instrs) > 0 {
						if ret, ok := negEdge.Instrs[len(negEdge.Instrs)-1].(*ssa.Return); ok && errTypeOf(ret.Results[len(ret.Results)-1]) == "*evaluator.negativeIntegerError" {
							good = true
						}
					}
					if good {
						r.OK(c.Pos(), key, "negative count/width returns *negativeIntegerError")
					} else {
						r.Bad(blockPos(negEdge), key, "a negative count/width does not return *negativeIntegerError (invalid-value)")
					}
				} else {
					r.OK(c.Pos(), key, "sign tested before any other use (offset: clamped or null)")
				}
			}
		}
	}
}

func ruleENullHelpers(p *Program, r *Reporter) {
	partOfDispatcher := newEvalDom(p).partOfDispatcherFn()
	for _, fn := range p.ReachFuncs(p.Eval) {
		if fn.Parent() != nil || fn.Signature.Recv() != nil {
			continue
		}
		res := fn.Signature.Results()
		if res.Len() != 1 {
			continue
		}
		if _, isIface := res.At(0).Type().Underlying().(*types.Interface); !isIface || isErrorType(res.At(0).Type()) {
			continue
		}
		// must take at least one `any` parameter (a JSON value)
		takesAny := false
		for _, prm := range fn.Params {
			if _, ok := prm.Type().Underlying().(*types.Interface); ok {
				takesAny = true
			}
		}
		if !takesAny {
			continue
		}
		name := p.FuncName(fn)
		node := p.CG.Nodes[fn]
		if node == nil {
			continue
		}
		var callers []string
		bad := ""
		for _, e := range node.In {
			cn := p.FuncName(e.Caller.Func)
			callers = append(callers, cn)
			if !partOfDispatcher(e.Caller.Func) {
				bad = cn
			}
		}
		key := name + " callers"
		if bad != "" {
			r.Bad(fn.Pos(), key, "null-on-mismatch helper "+name+" is called from "+bad+": a built-in function must raise invalid-type for a wrongly typed value, not turn it into null")
		} else {
			r.OK(fn.Pos(), key, fmt.Sprintf("called only from the dispatcher or from helpers interpreted as part of it (%d sites)", len(callers)))
		}
	}
	_ = strings.Join
}

// loopTestsElements: b is the header of a loop whose body applies a type test (the loop validates every element).
func loopTestsElements(loops map[*ssa.BasicBlock]map[*ssa.BasicBlock]bool, b *ssa.BasicBlock) bool {
	body, ok := loops[b]
	if !ok {
		return false
	}
	for blk := range body {
		if hasTypeTest(blk) {
			return true
		}
	}
	return false
}

// underFailedToDecimal: block b is dominated by the failure edge of toDecimal(v) (a defensive re-check of a value
// already classified as a number).
func underFailedToDecimal(b *ssa.BasicBlock, v ssa.Value) bool {
	for _, f := range blockFacts(b) {
		c, t := f.Cond, f.Truth
		for {
			u, ok := c.(*ssa.UnOp)
			if !ok || u.Op != token.NOT {
				break
			}
			c, t = u.X, !t
		}
		ex, ok := c.(*ssa.Extract)
		if !ok || t {
			continue
		}
		call, ok := ex.Tuple.(*ssa.Call)
		if !ok {
			continue
		}
		if cf := calleeOf(&call.Call); cf != nil && isRole(cf, "toDecimal") && call.Call.Args[0] == v {
			return true
		}
	}
	return false
}

// ---------------------------------------------------------------- E-TYPE-FIRST

func init() {
	register(&Rule{ID: "E-TYPE-FIRST", Props: []string{"C02", "C08"}, Floor: 4,
		Doc: "Invalid-type takes precedence over invalid-value, by path enumeration of every built-in helper that can report a value fault (integer conversion, negative count, pad length, from_items shapes): on a path that returns such an error, every argument whose type the helper tests on some path has passed its type test — so a call with one ill-typed and one out-of-range argument is reported as invalid-type whatever the order of the arguments (the specification's 'invalid-type exactly when a type is outside the signature').",
		Run: ruleETypeFirst})
}

func ruleETypeFirst(p *Program, r *Reporter) {
	valueErr := map[string]bool{}
	for t, cat := range evalCategory {
		if cat == "ErrInvalidValue" {
			n := t[strings.LastIndex(t, ".")+1:]
			valueErr[n] = true
		}
	}
	for _, fn := range p.ReachFuncs(p.Eval) {
		if fn.Parent() != nil || fn.Signature.Recv() != nil {
			continue
		}
		sig := fn.Signature
		if sig.Results().Len() != 2 || !isErrorType(sig.Results().At(1).Type()) || sig.Params().Len() < 2 {
			continue
		}
		allAny := true
		for i := 0; i < sig.Params().Len(); i++ {
			if !isAnyType(sig.Params().At(i).Type()) {
				allAny = false
			}
		}
		if !allAny {
			continue
		}
		// only helpers that can construct a value-fault error (themselves or through their own helpers)
		constructs := false
		seenFn := map[*ssa.Function]bool{}
		var scan func(f *ssa.Function, depth int)
		scan = func(f *ssa.Function, depth int) {
			if seenFn[f] || depth > 2 || constructs {
				return
			}
			seenFn[f] = true
			for _, b := range f.Blocks {
				for _, in := range b.Instrs {
					if mi, ok := in.(*ssa.MakeInterface); ok && isErrorType(mi.Type()) {
						tn := typeShort(mi.X.Type())
						if valueErr[tn[strings.LastIndex(tn, ".")+1:]] {
							constructs = true
						}
					}
				}
			}
			for _, c := range staticCallees(f) {
				if p.IsRepo(c) && !numericRoles(p).isCoercion(c) {
					scan(c, depth+1)
				}
			}
		}
		scan(fn, 0)
		if !constructs {
			continue
		}
		nd := &numDom{p: p}
		e := newEngine(p, nd)
		nd.e = e
		e.MaxVisits = 1
		e.MaxPaths = 30000
		st := newState()
		args := make([]AV, len(fn.Params))
		for i := range args {
			args[i] = avSym{id: e.fresh(), tag: fmt.Sprintf("arg%d", i)}
		}
		outs := e.Run(fn, args, st)
		name := p.FuncName(fn)
		key := name + " type errors first"
		if e.Aborted != "" {
			r.Unknown(fn.Pos(), key, "path enumeration aborted: "+e.Aborted)
			continue
		}
		// per path: which parameters were type-tested, and with what outcome
		type tests map[int]bool // param index -> passed
		paramOf := func(v AV) int {
			for i, a := range args {
				if v != nil && avKey(v) == avKey(a) {
					return i
				}
			}
			return -1
		}
		pathTests := func(o Outcome) tests {
			t := tests{}
			for _, c := range o.St.Conds {
				sy, ok := c.V.(avSym)
				if !ok {
					continue
				}
				if strings.HasPrefix(sy.tag, "assert-ok:") {
					if i := paramOf(sy.payload); i >= 0 {
						t[i] = c.Truth
					}
				}
			}
			var lastToInt *Event
			for k := range o.St.Trace {
				ev := &o.St.Trace[k]
				if len(ev.Args) == 0 {
					continue
				}
				i := paramOf(ev.Args[0])
				if i < 0 {
					continue
				}
				switch ev.Kind {
				case "coerced":
					t[i] = true
				case "coerce-failed":
					if isRole(ev.Fn, "toInt") && len(ev.Res) > 1 {
						lastToInt = ev
						// a number that is not an integer has the right type: decided by the is-number flag
						decided := false
						for _, c := range o.St.Conds {
							if avKey(c.V) == avKey(ev.Res[1]) {
								t[i], decided = c.Truth, true
							}
							if n, ok := c.V.(avNot); ok && avKey(n.x) == avKey(ev.Res[1]) {
								t[i], decided = !c.Truth, true
							}
						}
						if !decided {
							if _, seen := t[i]; !seen {
								t[i] = true // reported without consulting the flag: E-TOINT's business
							}
						}
					} else if _, seen := t[i]; !seen {
						t[i] = false
					}
				}
			}
			_ = lastToInt
			return t
		}
		tested := map[int]bool{}
		for _, o := range outs {
			if o.Panic || o.Cut {
				continue
			}
			for i := range pathTests(o) {
				tested[i] = true
			}
		}
		nValue := 0
		bad := ""
		var badPos token.Pos
		for _, o := range outs {
			if o.Panic || o.Cut || len(o.Res) != 2 || bad != "" {
				continue
			}
			et := dynName(o.Res[1])
			if !valueErr[et] {
				continue
			}
			nValue++
			t := pathTests(o)
			for i := range tested {
				passed, seen := t[i]
				if !seen {
					bad = fmt.Sprintf("a path reports %s before the type of argument %d has been tested: with that argument ill-typed too the call is reported as invalid-value instead of invalid-type", et, i+1)
					badPos = o.Ret.Pos()
				} else if !passed {
					bad = fmt.Sprintf("a path reports %s although argument %d failed its type test", et, i+1)
					badPos = o.Ret.Pos()
				}
			}
		}
		if nValue == 0 {
			continue
		}
		if bad != "" {
			r.Bad(badPos, key, bad)
		} else {
			r.OK(fn.Pos(), key, fmt.Sprintf("%d value-fault paths, each after every tested argument passed its type test", nValue))
		}
	}
}

// isParamValue: v is the parameter, or a load of the variable the parameter was spilled to because a closure captures it
// (the variable is assigned nothing else).
func isParamValue(v ssa.Value, prm *ssa.Parameter) bool {
	if v == prm {
		return true
	}
	ld, ok := v.(*ssa.UnOp)
	if !ok || ld.Op != token.MUL {
		return false
	}
	al, ok := ld.X.(*ssa.Alloc)
	if !ok {
		return false
	}
	stores := 0
	for _, ref := range *al.Referrers() {
		if st, ok := ref.(*ssa.Store); ok && st.Addr == al {
			if st.Val != prm {
				return false
			}
			stores++
		}
	}
	return stores == 1
}
