package main

import (
	"fmt"
	"go/constant"
	"go/token"
	"go/types"
	"strings"

	"golang.org/x/tools/go/ssa"
)

func init() {
	register(&Rule{ID: "E-UNITS", Props: []string{"C11", "C12", "C18", "C02"}, Floor: 60,
		Doc: "byte quantities (len of a string, strings.Index results, utf8 decode sizes and their sums) and code-point/element quantities (utf8.RuneCount, len of arrays, counts, integers from the query or from numeric arguments) never meet in arithmetic, comparisons or merged variables, except the coarse guard `codepoints > bytes` that exits or clamps; strings are cut only at byte offsets; no byte quantity becomes part of a result; the byte length of a string is not compared with a non-zero constant",
		Run: ruleEUnits})
	register(&Rule{ID: "E-DECODE-ADVANCE", Props: []string{"C11", "C12", "C03", "C09", "C18"}, Floor: 12,
		Doc: "inside a loop, every utf8 decode (and every Lexer.decodeRune) reads from a position that changes with that loop: its argument depends on a variable updated in the loop (a loop phi or a location stored to inside the loop), never on something fixed before the loop",
		Run: ruleEDecodeAdvance})
}

type unit int

const (
	uUnknown unit = iota
	uConst
	uPhysLen
	uPhysOff
	uLogic
	uMixed
)

func (u unit) String() string {
	return [...]string{"unknown", "constant", "byte-length", "byte-offset", "code-points/elements", "MIXED"}[u]
}

func isPhys(u unit) bool { return u == uPhysLen || u == uPhysOff }

func isStringType(t types.Type) bool {
	b, ok := t.Underlying().(*types.Basic)
	return ok && b.Info()&types.IsString != 0
}

func joinUnit(a, b unit) unit {
	if a == uUnknown || a == uConst {
		return b
	}
	if b == uUnknown || b == uConst {
		return a
	}
	if a == b {
		return a
	}
	if isPhys(a) && isPhys(b) {
		return uPhysOff
	}
	return uMixed
}

type unitAn struct {
	memo map[ssa.Value]unit
	busy map[ssa.Value]bool
}

func (a *unitAn) unit(v ssa.Value) unit {
	if u, ok := a.memo[v]; ok {
		return u
	}
	if a.busy[v] {
		return uUnknown
	}
	a.busy[v] = true
	u := a.unit0(v)
	delete(a.busy, v)
	a.memo[v] = u
	return u
}

func (a *unitAn) unit0(v ssa.Value) unit {
	switch v := v.(type) {
	case *ssa.Const:
		return uConst
	case *ssa.Parameter:
		if b, ok := v.Type().Underlying().(*types.Basic); ok && b.Info()&types.IsInteger != 0 {
			return uLogic // slice bounds, steps and indices come from the query
		}
		return uUnknown
	case *ssa.Call:
		if builtinName(&v.Call) == "len" {
			if isStringType(v.Call.Args[0].Type()) {
				return uPhysLen
			}
			return uLogic
		}
		switch n := calleeFullName(&v.Call); {
		case strings.HasPrefix(n, "unicode/utf8.RuneCount"), n == "strings.Count":
			return uLogic
		case n == "strings.Index", n == "strings.LastIndex", n == "strings.IndexByte", n == "strings.IndexRune", n == "strings.IndexAny", n == "unicode/utf8.RuneLen", n == "(*strings.Builder).Len":
			return uPhysOff
		}
		return uUnknown
	case *ssa.Extract:
		// the index of `for i, r := range s` over a string is the byte offset of the character
		if nx, ok := v.Tuple.(*ssa.Next); ok && nx.IsString && v.Index == 1 {
			return uPhysOff
		}
		if c, ok := v.Tuple.(*ssa.Call); ok {
			n := calleeFullName(&c.Call)
			if strings.HasPrefix(n, "unicode/utf8.Decode") && v.Index == 1 {
				return uPhysOff
			}
			if cf := calleeOf(&c.Call); cf != nil && isRole(cf, "toInt") && v.Index == 0 {
				return uLogic
			}
		}
		return uUnknown
	case *ssa.Convert:
		return a.unit(v.X)
	case *ssa.UnOp:
		if v.Op == token.SUB {
			return a.unit(v.X)
		}
		return uUnknown
	case *ssa.BinOp:
		switch v.Op {
		case token.ADD, token.SUB:
			return joinUnit(a.unit(v.X), a.unit(v.Y))
		case token.MUL, token.QUO, token.REM:
			return a.unit(v.X)
		}
		return uUnknown
	case *ssa.Phi:
		u := uUnknown
		for _, e := range v.Edges {
			u = joinUnit(u, a.unit(e))
		}
		return u
	}
	return uUnknown
}

func nonzeroConst(v ssa.Value) bool {
	c, ok := v.(*ssa.Const)
	if !ok || c.Value == nil || c.Value.Kind() != constant.Int {
		return false
	}
	i, _ := constant.Int64Val(c.Value)
	return i != 0 && i != -1 // -1 is the not-found sentinel of strings.Index
}

func ruleEUnits(p *Program, r *Reporter) {
	for _, fn := range p.ReachFuncs(p.Eval) {
		name := p.FuncName(fn)
		a := &unitAn{memo: map[ssa.Value]unit{}, busy: map[ssa.Value]bool{}}
		n := 0
		for _, b := range fn.Blocks {
			for _, in := range b.Instrs {
				switch x := in.(type) {
				case *ssa.BinOp:
					ib, ok := x.X.Type().Underlying().(*types.Basic)
					if !ok || ib.Info()&types.IsInteger == 0 {
						continue
					}
					switch x.Op {
					case token.ADD, token.SUB, token.LSS, token.LEQ, token.GTR, token.GEQ, token.EQL, token.NEQ:
					default:
						continue
					}
					ux, uy := a.unit(x.X), a.unit(x.Y)
					if ux <= uConst && uy <= uConst {
						continue
					}
					if (x.Op == token.ADD || x.Op == token.SUB) && (isPhys(ux) && nonzeroConst(x.Y) || isPhys(uy) && nonzeroConst(x.X)) {
						n++
						if onlyGatedByteReads(x, map[ssa.Value]bool{}) {
							r.OK(x.Pos(), fmt.Sprintf("%s int-op#%d %s", name, n, x.Op), "a byte position moved by one, used for nothing but reading single bytes that are tested to be ASCII before they are used (an ASCII byte is a whole code point wherever it stands) and for the loop's own bookkeeping")
							continue
						}
						r.Bad(instrPos(x), fmt.Sprintf("%s int-op#%d %s", name, n, x.Op), "a byte offset is moved by a constant ("+x.String()+"): widths of characters come from decoding, a fixed step lands inside a multi-byte character")
						continue
					}
					n++
					key := fmt.Sprintf("%s int-op#%d %s", name, n, x.Op)
					if isPhys(ux) && uy == uLogic || ux == uLogic && isPhys(uy) {
						if x.Op == token.GTR && ux == uLogic && isPhys(uy) && guardExitsOrClamps(a, x) {
							r.OK(x.Pos(), key, "coarse guard: a code-point position beyond the byte length is certainly beyond the string; its true edge exits or clamps")
							continue
						}
						if (x.Op == token.EQL || x.Op == token.NEQ) && sameStringCountAndLen(x.X, x.Y) != nil {
							r.OK(x.Pos(), key, "the code-point count of a string compared for equality with its own byte length: the all-single-byte (ASCII) test")
							continue
						}
						r.Bad(instrPos(x), key, fmt.Sprintf("mixes %s with %s in `%s %s %s`: positions and widths of the language are code points, not bytes", ux, uy, describeAddr(x.X), x.Op, describeAddr(x.Y)))
						continue
					}
					if x.Op != token.ADD && x.Op != token.SUB {
						if ux == uPhysLen && nonzeroConst(x.Y) || uy == uPhysLen && nonzeroConst(x.X) {
							r.Bad(instrPos(x), key, "the byte length of a string is compared with a non-zero constant: 'one character' is not one byte")
							continue
						}
					}
					if ux == uMixed || uy == uMixed {
						continue // reported at the merge
					}
					r.OK(x.Pos(), key, fmt.Sprintf("%s %s %s", ux, x.Op, uy))
				case *ssa.Phi:
					ib, ok := x.Type().Underlying().(*types.Basic)
					if !ok || ib.Info()&types.IsInteger == 0 {
						continue
					}
					if a.unit(x) == uMixed {
						// report only at the first mixing phi (its operands are not mixed themselves)
						first := true
						for _, e := range x.Edges {
							if a.unit(e) == uMixed {
								first = false
							}
						}
						if first {
							n++
							nm := x.Comment
							if nm == "" {
								nm = x.Name()
							}
							var parts []string
							for _, e := range x.Edges {
								parts = append(parts, a.unit(e).String())
							}
							r.Bad(instrPos(x), fmt.Sprintf("%s variable %s#%d", name, nm, n), "one variable holds bytes on one path and code points on another ("+strings.Join(parts, " | ")+")")
						}
					}
				case *ssa.Slice:
					if !isStringType(x.X.Type()) {
						continue
					}
					for _, idx := range []ssa.Value{x.Low, x.High} {
						if idx == nil {
							continue
						}
						n++
						key := fmt.Sprintf("%s string-cut#%d", name, n)
						u := a.unit(idx)
						switch {
						case u == uLogic && singleByteString(b, x.X):
							r.OK(x.Pos(), key, "cut at a code-point count under the fact that the string's code-point count equals its byte length (every character is one byte)")
						case u == uLogic:
							r.Bad(instrPos(x), key, "a string is cut at a code-point count ("+describeAddr(idx)+") used as a byte offset")
						case u == uMixed:
							r.Bad(instrPos(x), key, "a string is cut at an offset that mixes bytes and code points")
						case u == uConst && nonzeroConst(idx):
							r.Bad(instrPos(x), key, "a string is cut at the constant byte offset "+idx.Name()+": that is inside a multi-byte character")
						default:
							r.OK(x.Pos(), key, "cut at a "+u.String())
						}
					}
				case *ssa.MakeInterface:
					if bt, ok := x.X.Type().Underlying().(*types.Basic); ok && bt.Info()&types.IsInteger != 0 && !isErrorType(x.Type()) {
						n++
						key := fmt.Sprintf("%s int-result#%d", name, n)
						if u := a.unit(x.X); isPhys(u) || u == uMixed {
							r.Bad(instrPos(x), key, "a "+u.String()+" becomes part of a result: the language exposes code-point positions and lengths only")
						} else {
							r.OK(x.Pos(), key, "result integer is "+u.String())
						}
					}
				}
			}
		}
	}
}

// guardExitsOrClamps: the true edge of the comparison leads to a return, or assigns the byte value to the compared variable.
func guardExitsOrClamps(a *unitAn, cmp *ssa.BinOp) bool {
	for _, ref := range *cmp.Referrers() {
		iff, ok := ref.(*ssa.If)
		if !ok {
			continue
		}
		tb := iff.Block().Succs[0]
		if len(tb.Instrs) > 0 {
			if _, ok := tb.Instrs[len(tb.Instrs)-1].(*ssa.Return); ok {
				return true
			}
		}
		// clamp: true block is empty/jump and a phi in the join takes cmp.Y from it
		for _, s := range tb.Succs {
			for _, in := range s.Instrs {
				if phi, ok := in.(*ssa.Phi); ok {
					for i, e := range phi.Edges {
						if s.Preds[i] == tb && (e == cmp.Y || isPhys(a.unit(e))) {
							return true
						}
					}
				}
			}
		}
		// or the true edge goes directly to the join block
		for _, in := range tb.Instrs {
			if phi, ok := in.(*ssa.Phi); ok {
				for i, e := range phi.Edges {
					if tb.Preds[i] == iff.Block() && (e == cmp.Y || isPhys(a.unit(e))) {
						return true
					}
				}
			}
		}
	}
	return false
}

// ---------------------------------------------------------------- E-DECODE-ADVANCE

func dependsOnLoop(v ssa.Value, h *ssa.BasicBlock, body map[*ssa.BasicBlock]bool, seen map[ssa.Value]bool) bool {
	if seen[v] {
		return false
	}
	seen[v] = true
	switch x := v.(type) {
	case *ssa.Phi:
		if x.Block() == h {
			return true
		}
		if body[x.Block()] {
			for _, e := range x.Edges {
				if dependsOnLoop(e, h, body, seen) {
					return true
				}
			}
		}
		return false
	case *ssa.Slice:
		if dependsOnLoop(x.X, h, body, seen) {
			return true
		}
		for _, o := range []ssa.Value{x.Low, x.High} {
			if o != nil && dependsOnLoop(o, h, body, seen) {
				return true
			}
		}
		return false
	case *ssa.BinOp:
		return dependsOnLoop(x.X, h, body, seen) || dependsOnLoop(x.Y, h, body, seen)
	case *ssa.Convert:
		return dependsOnLoop(x.X, h, body, seen)
	case *ssa.Extract:
		if c, ok := x.Tuple.(*ssa.Call); ok && body[c.Block()] {
			for _, a := range c.Call.Args {
				if dependsOnLoop(a, h, body, seen) {
					return true
				}
			}
		}
		return false
	case *ssa.UnOp:
		if x.Op == token.MUL {
			// load: does the loop store to this address (by access path)?
			ap := accessPath(x.X)
			for blk := range body {
				for _, in := range blk.Instrs {
					if st, ok := in.(*ssa.Store); ok {
						if st.Addr == x.X || ap != "" && accessPath(st.Addr) == ap {
							return true
						}
					}
				}
			}
		}
		return false
	}
	return false
}

func ruleEDecodeAdvance(p *Program, r *Reporter) {
	for _, fn := range p.ReachFuncs(p.Eval, p.Lexer, p.Parser) {
		name := p.FuncName(fn)
		loops := loopsOf(fn)
		n := 0
		for _, b := range fn.Blocks {
			for _, in := range b.Instrs {
				c, ok := in.(*ssa.Call)
				if !ok {
					continue
				}
				full := calleeFullName(&c.Call)
				var arg ssa.Value
				switch {
				case strings.HasPrefix(full, "unicode/utf8.Decode") && strings.HasSuffix(full, "InString"):
					arg = c.Call.Args[0]
				case (strings.HasSuffix(full, ".decodeRune") || calleeOf(&c.Call) != nil && calleeOf(&c.Call) == p.RoleFunc("lexer", "Lexer", "decodeRune")) && len(c.Call.Args) == 2:
					arg = c.Call.Args[1]
				default:
					continue
				}
				n++
				key := fmt.Sprintf("%s decode#%d", name, n)
				// innermost loop containing the call
				var inner *ssa.BasicBlock
				for h, body := range loops {
					if body[b] && (inner == nil || len(body) < len(loops[inner])) {
						inner = h
					}
				}
				if inner == nil {
					r.Trivial(c.Pos(), key, "not in a loop")
					continue
				}
				if dependsOnLoop(arg, inner, loops[inner], map[ssa.Value]bool{}) {
					r.OK(c.Pos(), key, "decodes at a position that the loop advances")
				} else {
					r.Bad(instrPos(c), key, "inside a loop the decode always reads the same position ("+describeAddr(arg)+" does not change with the loop): sizes of later characters are taken from the first one")
				}
			}
		}
	}
}

// sameStringCountAndLen: one side is utf8.RuneCountInString(s) and the other len(s) of the same string s; returns s.
func sameStringCountAndLen(x, y ssa.Value) ssa.Value {
	count := func(v ssa.Value) ssa.Value {
		c, ok := v.(*ssa.Call)
		if ok && calleeFullName(&c.Call) == "unicode/utf8.RuneCountInString" && len(c.Call.Args) == 1 {
			return c.Call.Args[0]
		}
		return nil
	}
	length := func(v ssa.Value) ssa.Value {
		c, ok := v.(*ssa.Call)
		if ok && builtinName(&c.Call) == "len" && len(c.Call.Args) == 1 {
			return c.Call.Args[0]
		}
		return nil
	}
	for _, pr := range [][2]ssa.Value{{x, y}, {y, x}} {
		if s1, s2 := count(pr[0]), length(pr[1]); s1 != nil && s2 != nil && sameValue(s1, s2) {
			return s1
		}
	}
	return nil
}

// singleByteString: a dominating fact says RuneCountInString(s) == len(s) for this string.
func singleByteString(b *ssa.BasicBlock, s ssa.Value) bool {
	for _, f := range blockFacts(b) {
		op, l, rr, ok := f.rel()
		if !ok || op != token.EQL {
			continue
		}
		if got := sameStringCountAndLen(l, rr); got != nil && sameValue(got, s) {
			return true
		}
	}
	return false
}

// asciiGatedIndex: ix reads one byte of a string, and the byte is used only to be compared with utf8.RuneSelf (0x80), or
// where that comparison has come out "below" (a dominating fact): an ASCII byte never is part of a longer code point.
func asciiGatedIndex(ix ssa.Value) bool {
	refs := ix.Referrers()
	if refs == nil {
		return false
	}
	isGate := func(in ssa.Instruction) bool {
		bo, ok := in.(*ssa.BinOp)
		if !ok {
			return false
		}
		var k ssa.Value
		switch {
		case bo.X == ix:
			k = bo.Y
		case bo.Y == ix:
			k = bo.X
		default:
			return false
		}
		c, ok := k.(*ssa.Const)
		if !ok || c.Value == nil || c.Value.Kind() != constant.Int {
			return false
		}
		v, _ := constant.Int64Val(c.Value)
		switch bo.Op {
		case token.LSS, token.GEQ:
			return bo.X == ix && v == 0x80 || bo.Y == ix && false
		case token.LEQ, token.GTR:
			return bo.X == ix && v == 0x7f
		}
		return false
	}
	below := func(b *ssa.BasicBlock) bool {
		for _, f := range blockFacts(b) {
			op, x, y, ok := f.rel()
			if !ok || x != ix {
				continue
			}
			c, ok := y.(*ssa.Const)
			if !ok || c.Value == nil || c.Value.Kind() != constant.Int {
				continue
			}
			v, _ := constant.Int64Val(c.Value)
			if op == token.LSS && v <= 0x80 || op == token.LEQ && v <= 0x7f {
				return true
			}
		}
		return false
	}
	gates := 0
	for _, ref := range *refs {
		if _, isDbg := ref.(*ssa.DebugRef); isDbg {
			continue
		}
		if isGate(ref) {
			gates++
			continue
		}
		if !below(ref.Block()) {
			return false
		}
	}
	return gates > 0
}

// onlyGatedByteReads: the integer v (a byte position in a string) and everything computed from it by +-1 steps and
// merges is used for nothing but ASCII-gated single-byte reads, comparisons, and indexing of byte buffers.
func onlyGatedByteReads(v ssa.Value, seen map[ssa.Value]bool) bool {
	if seen[v] {
		return true
	}
	seen[v] = true
	refs := v.Referrers()
	if refs == nil {
		return false
	}
	reads := 0
	for _, ref := range *refs {
		switch x := ref.(type) {
		case *ssa.DebugRef:
		case *ssa.Index:
			if x.Index != v || !isStringType(x.X.Type()) || !asciiGatedIndex(x) {
				return false
			}
			reads++
		case *ssa.IndexAddr:
			// position in a byte buffer being filled
			if x.Index != v {
				return false
			}
			if sl, ok := derefType(x.X.Type()).Underlying().(*types.Slice); !ok || !isByteType(sl.Elem()) {
				if sl2, ok2 := x.X.Type().Underlying().(*types.Slice); !ok2 || !isByteType(sl2.Elem()) {
					return false
				}
			}
		case *ssa.BinOp:
			switch x.Op {
			case token.LSS, token.LEQ, token.GTR, token.GEQ, token.EQL, token.NEQ:
			case token.ADD, token.SUB:
				if !onlyGatedByteReads(x, seen) {
					return false
				}
			default:
				return false
			}
		case *ssa.Phi:
			if !onlyGatedByteReads(x, seen) {
				return false
			}
		default:
			return false
		}
	}
	_ = reads
	return true
}

func isByteType(t types.Type) bool {
	b, ok := t.Underlying().(*types.Basic)
	return ok && b.Kind() == types.Uint8
}

// ---------------------------------------------------------------- E-DECODE-END

func init() {
	register(&Rule{ID: "E-DECODE-END", Props: []string{"C11", "C12", "C03"}, Floor: 1,
		Doc: "a decoded character width is applied at the end of the string it was decoded from: a width cut off the end (s[:len(s)-w]) comes from utf8.DecodeLastRune*, a width skipped at the start (s[w:], s[off+w:], s[:off+w]) from utf8.DecodeRune*; the width of the first character says nothing about the last one",
		Run: ruleEDecodeEnd})
}

// decodeProvenance: the utf8 decoders whose size result v can carry (through phis, conversions and local variables).
func decodeProvenance(v ssa.Value, out map[string]bool, seen map[ssa.Value]bool) {
	if seen[v] {
		return
	}
	seen[v] = true
	switch x := v.(type) {
	case *ssa.Extract:
		if c, ok := x.Tuple.(*ssa.Call); ok && x.Index == 1 {
			if full := calleeFullName(&c.Call); strings.HasPrefix(full, "unicode/utf8.Decode") {
				out[strings.TrimPrefix(full, "unicode/utf8.")] = true
			}
		}
	case *ssa.Call:
		// the encoded length of a rune is not the width it was decoded with: an ill-formed byte decodes to U+FFFD with
		// width 1, and U+FFFD encodes in 3 bytes
		if full := calleeFullName(&x.Call); full == "unicode/utf8.RuneLen" {
			out["RuneLen"] = true
		}
	case *ssa.Phi:
		for _, e := range x.Edges {
			decodeProvenance(e, out, seen)
		}
	case *ssa.Convert:
		decodeProvenance(x.X, out, seen)
	case *ssa.ChangeType:
		decodeProvenance(x.X, out, seen)
	case *ssa.UnOp:
		if x.Op == token.MUL {
			if al, ok := x.X.(*ssa.Alloc); ok && al.Referrers() != nil {
				for _, ref := range *al.Referrers() {
					if st, ok := ref.(*ssa.Store); ok && st.Addr == al {
						decodeProvenance(st.Val, out, seen)
					}
				}
			}
		}
	}
}

func ruleEDecodeEnd(p *Program, r *Reporter) {
	for _, fn := range p.ReachFuncs(p.Eval, p.Lexer, p.Parser) {
		name := p.FuncName(fn)
		n := 0
		for _, b := range fn.Blocks {
			for _, in := range b.Instrs {
				sl, ok := in.(*ssa.Slice)
				if !ok || !isStringType(sl.X.Type()) {
					continue
				}
				// (width, applied at which end)
				type use struct {
					w   ssa.Value
					end string
				}
				var uses []use
				if sl.Low != nil {
					uses = append(uses, use{sl.Low, "start"})
					if bo, ok := sl.Low.(*ssa.BinOp); ok && bo.Op == token.ADD {
						uses = append(uses, use{bo.X, "start"}, use{bo.Y, "start"})
					}
				}
				if bo, ok := sl.High.(*ssa.BinOp); ok {
					switch bo.Op {
					case token.ADD:
						uses = append(uses, use{bo.X, "start"}, use{bo.Y, "start"})
					case token.SUB:
						if c, ok := bo.X.(*ssa.Call); ok && builtinName(&c.Call) == "len" {
							uses = append(uses, use{bo.Y, "end"})
						}
					}
				}
				for _, u := range uses {
					prov := map[string]bool{}
					decodeProvenance(u.w, prov, map[ssa.Value]bool{})
					if len(prov) == 0 {
						continue
					}
					n++
					key := fmt.Sprintf("%s width#%d", name, n)
					bad := ""
					for d := range prov {
						last := strings.HasPrefix(d, "DecodeLast")
						if last != (u.end == "end") {
							bad = d
						}
					}
					if prov["RuneLen"] {
						r.Bad(instrPos(sl), key, "a string is cut by utf8.RuneLen of a character: that is the length the character encodes to, not the width it was decoded with (an ill-formed byte decodes to U+FFFD with width 1, which encodes in 3 bytes), so the cut can land inside or beyond the text")
						continue
					}
					if bad != "" {
						r.Bad(instrPos(sl), key, fmt.Sprintf("a width obtained from utf8.%s is applied at the %s of the string: the character there can have another width", bad, u.end))
					} else {
						r.OK(sl.Pos(), key, "width applied at the "+u.end+" of the string was decoded there")
					}
				}
			}
		}
	}
}
