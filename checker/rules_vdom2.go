package main

// rules_vdom2.go: rules of the value domain about the order-based helpers (sort, max, min): every element of the
// subject is type-tested before a result is returned, and the value max/min return is extremal under the three-way
// comparison of the two elements.

import (
	"fmt"
	"go/constant"
	"go/token"
	"go/types"
	"math"
	"sort"
	"strings"

	"golang.org/x/tools/go/ssa"
)

func init() {
	register(&Rule{ID: "E-ELEMTESTS", Props: []string{"C13", "C02", "C08", "C15"}, Floor: 3,
		Doc: "by interpretation of sortArray, arrayMax and arrayMin on arrays of up to two elements: on every path that returns a result, every element of the array passed the string test or the number test on that path (no element reaches the ordering unvalidated, whatever the length of the array)",
		Run: ruleEElemTests})
	register(&Rule{ID: "E-EXTREMES", Props: []string{"C13", "C11", "C02"}, Floor: 2,
		Doc: "by interpretation of arrayMax and arrayMin on two elements: the value returned is the one of the two that the path's three-way comparison (of the strings, or of the decimal values) says is not worse; a result chosen without that comparison is reported",
		Run: ruleEExtremes})
}

var numericCarrier = map[string]bool{
	"float32": true, "float64": true, "int": true, "int8": true, "int16": true, "int32": true, "int64": true,
	"uint": true, "uint8": true, "uint16": true, "uint32": true, "uint64": true, "json.Number": true, "decimal128.Decimal": true,
}

// elemTested: the path established that element ev is a string or a number.
func elemTested(st *State, ev AV) bool {
	k := avKey(ev)
	for _, c := range st.Conds {
		sy, ok := c.V.(avSym)
		if !ok || !c.Truth || sy.payload == nil || avKey(sy.payload) != k {
			continue
		}
		if sy.tag == "assert-ok:string" || sy.tag == "isnum" {
			return true
		}
		// a successful assertion to one of the numeric carrier types is a number test as well
		if t := strings.TrimPrefix(sy.tag, "assert-ok:"); t != sy.tag && numericCarrier[t] {
			return true
		}
	}
	if t, ok := st.memo[avKey(avSym{tag: "isnum", payload: ev})]; ok && t {
		return true
	}
	return false
}

// subjectArray: the asserted array form of the subject on this path and its length, when the path determined it.
func (vr *valRun) subjectArray(st *State) (avSym, int64, bool) {
	as := avSym{tag: "asserted:[]any", payload: vr.subject}
	k, ok := st.KnownInt(lenSym(as))
	return as, k, ok
}

func ruleEElemTests(p *Program, r *Reporter) {
	d := newValDom(p)
	if d.why != "" {
		r.Unknown(token.NoPos, "evaluator model", d.why)
		return
	}
	d.toDecimal = numericRoles(p).toDecimal
	d.opaqueSort = true
	for _, name := range []string{"sortArray", "arrayMax", "arrayMin"} {
		fn := producerFunc(p, name)
		if fn == nil {
			r.Unknown(token.NoPos, "evaluator."+name, "helper not found")
			continue
		}
		key := "evaluator." + name + " validates every element"
		vr, why := d.run(fn, 3, nil)
		if why != "" {
			r.Unknown(fn.Pos(), key, why)
			continue
		}
		paths, elems := 0, 0
		bad := ""
		var badPos token.Pos
		for _, o := range vr.outs {
			if o.Cut || o.Panic || o.Ret == nil || len(o.Res) == 0 || (vr.errIdx >= 0 && !isDefNil(o.Res[vr.errIdx])) {
				continue
			}
			as, k, ok := vr.subjectArray(o.St)
			if !ok {
				if passed, _ := o.St.subjectTests(vr.subject); len(passed) > 0 && bad == "" {
					bad, badPos = "a result is returned on a path that did not determine the length of the array (the elements were not all visited)", o.Ret.Pos()
				}
				continue
			}
			paths++
			for i := int64(0); i < k; i++ {
				elems++
				if !elemTested(o.St, elemSym(as, i)) && bad == "" {
					bad, badPos = fmt.Sprintf("an array of %d element(s) yields a result on a path that never tested element %d for being a string or a number", k, i), o.Ret.Pos()
				}
			}
		}
		switch {
		case bad != "":
			r.Bad(badPos, key, bad)
		case elems == 0:
			r.Unknown(fn.Pos(), key, fmt.Sprintf("no result path over a non-empty array (%d paths)", paths))
		default:
			r.OK(fn.Pos(), key, fmt.Sprintf("%d result paths over arrays of up to 2 elements: each of the %d elements passed the string or the number test on its path", paths, elems))
		}
	}
}

// ordRange: what the path knows about ord(a,b), in whichever argument order the symbol is kept.
func ordRange(st *State, a, b AV) (lo, hi int64, found bool) {
	lo, hi = -1, 1
	for _, flip := range []bool{false, true} {
		x, y := a, b
		if flip {
			x, y = b, a
		}
		if avKey(y) < avKey(x) {
			continue
		}
		sy := avSym{tag: "ord", payload: avTuple{x, y}}
		if f := st.ints[st.idOf(sy)]; f != nil {
			found = true
			if flip {
				lo, hi = -f.hi, -f.lo
			} else {
				lo, hi = f.lo, f.hi
			}
		}
	}
	return
}

// unboxed strips interface boxing from a returned value.
func unboxed(v AV) AV {
	for {
		b, ok := v.(avIface)
		if !ok {
			return v
		}
		v = b.v
	}
}

func ruleEExtremes(p *Program, r *Reporter) {
	d := newValDom(p)
	if d.why != "" {
		r.Unknown(token.NoPos, "evaluator model", d.why)
		return
	}
	d.toDecimal = numericRoles(p).toDecimal
	for _, job := range []struct {
		name string
		sign int64
	}{{"arrayMax", 1}, {"arrayMin", -1}} {
		fn := producerFunc(p, job.name)
		if fn == nil {
			r.Unknown(token.NoPos, "evaluator."+job.name, "helper not found")
			continue
		}
		key := "evaluator." + job.name + " extremal"
		vr, why := d.run(fn, 4, nil)
		if why != "" {
			r.Unknown(fn.Pos(), key, why)
			continue
		}
		checked := map[string]int{}
		bad := ""
		var badPos token.Pos
		for _, o := range vr.outs {
			if o.Cut || o.Panic || o.Ret == nil || len(o.Res) == 0 || (vr.errIdx >= 0 && !isDefNil(o.Res[vr.errIdx])) {
				continue
			}
			as, k, ok := vr.subjectArray(o.St)
			if !ok || k < 2 || k > 3 {
				continue
			}
			n := int(k)
			res := avKey(unboxed(o.Res[0]))
			dec := func(v AV) AV { return avSym{tag: "dec", payload: v} }
			str := func(v AV) AV { return avSym{tag: "asserted:string", payload: v} }
			which, kind := -1, ""
			for i := 0; i < n; i++ {
				ev := elemSym(as, int64(i))
				switch res {
				case avKey(dec(ev)):
					which, kind = i, "numbers"
				case avKey(str(ev)):
					which, kind = i, "strings"
				case avKey(ev):
					which, kind = i, "numbers"
					if passed, _ := o.St.subjectTests(elemSym(as, 0)); len(passed) > 0 {
						kind = "strings"
					}
				}
			}
			if which < 0 {
				continue // a value the path computed otherwise: not decided here
			}
			wrap := dec
			if kind == "strings" {
				wrap = str
			}
			// le[i][j]: element i is known not to come after element j; closed under transitivity
			le := make([][]bool, n)
			for i := range le {
				le[i] = make([]bool, n)
				le[i][i] = true
			}
			for i := 0; i < n; i++ {
				for j := 0; j < n; j++ {
					if i != j {
						if _, hi, found := ordRange(o.St, wrap(elemSym(as, int64(i))), wrap(elemSym(as, int64(j)))); found && hi <= 0 {
							le[i][j] = true
						}
					}
				}
			}
			for m := 0; m < n; m++ {
				for i := 0; i < n; i++ {
					for j := 0; j < n; j++ {
						if le[i][m] && le[m][j] {
							le[i][j] = true
						}
					}
				}
			}
			checked[kind]++
			for j := 0; j < n && bad == ""; j++ {
				if j == which {
					continue
				}
				okW := le[j][which] // max: every other element not after the one returned
				if job.sign < 0 {
					okW = le[which][j]
				}
				if !okW {
					bad, badPos = fmt.Sprintf("%s: of %d elements, element %d is returned on a path that does not know it to be at least as good as element %d (never compared with it, or with a stale running value)", kind, n, which, j), o.Ret.Pos()
				}
			}
		}
		switch {
		case bad != "":
			r.Bad(badPos, key, bad)
		case checked["numbers"] == 0 || checked["strings"] == 0:
			r.Unknown(fn.Pos(), key, fmt.Sprintf("result paths over two or three elements that return one of them: %d over numbers, %d over strings; both kinds are expected", checked["numbers"], checked["strings"]))
		default:
			r.OK(fn.Pos(), key, fmt.Sprintf("%d paths over two or three numbers and %d over strings: the element returned is not worse than any other under the path's three-way comparisons (closed under transitivity)", checked["numbers"], checked["strings"]))
		}
	}
}

// ---------------------------------------------------------------- E-MAKE-CAP

func init() {
	register(&Rule{ID: "E-MAKE-CAP", Props: []string{"C03"}, Floor: 1,
		Doc: "make([]T, len, cap) with a length that is not the constant 0 panics unless 0 <= len <= cap: by interpretation of the enclosing helper on a symbolic subject, every path that reaches the allocation knows that inequality from its own conditions (loop position against the length of the subject)",
		Run: ruleEMakeCap})
}

func ruleEMakeCap(p *Program, r *Reporter) {
	d := newValDom(p)
	if d.why != "" {
		r.Unknown(token.NoPos, "evaluator model", d.why)
		return
	}
	sites := 0
	perFn := map[*ssa.Function]int{}
	for _, fn := range p.ReachFuncs() {
		for _, b := range fn.Blocks {
			for _, in := range b.Instrs {
				mk, ok := in.(*ssa.MakeSlice)
				if !ok || mk.Cap == mk.Len {
					continue
				}
				if c, isC := mk.Len.(*ssa.Const); isC && c.Int64() >= 0 {
					if cc, isC2 := mk.Cap.(*ssa.Const); isC2 && c.Int64() <= cc.Int64() {
						continue
					}
					// make(T, 0, n): n is a length or a sum of lengths (never negative) unless it is computed with a subtraction
					if c.Int64() == 0 && !subtracts(mk.Cap, 0) {
						continue
					}
				}
				sites++
				top := fn
				for top.Parent() != nil {
					top = top.Parent()
				}
				perFn[fn]++
				key := fmt.Sprintf("%s make(%s, len, cap)#%d", p.FuncName(fn), typeShort(mk.Type()), perFn[fn])
				vr, why := d.run(top, 3, nil)
				if why != "" {
					r.Unknown(mk.Pos(), key, "the enclosing function could not be interpreted: "+why)
					continue
				}
				okN, open := 0, ""
				for _, o := range vr.outs {
					for _, ev := range o.St.Trace {
						if ev.Pos != mk.Pos() {
							continue
						}
						switch ev.Kind {
						case "makecap-ok":
							okN++
						case "makecap-open":
							if open == "" {
								open = fmt.Sprintf("len %s, cap %s", renderVal(ev.Args[0]), renderVal(ev.Args[1]))
							}
						}
					}
				}
				switch {
				case open != "":
					r.Bad(mk.Pos(), key, "a path reaches this allocation without knowing 0 <= len <= cap ("+open+"): make panics when the length exceeds the capacity")
				case okN == 0:
					r.Unknown(mk.Pos(), key, "no interpreted path reaches the allocation")
				default:
					r.OK(mk.Pos(), key, fmt.Sprintf("0 <= len <= cap follows from the conditions of each of the %d paths that reach it", okN))
				}
			}
		}
	}
	r.OK(token.NoPos, "scan", fmt.Sprintf("%d allocations with a length and a distinct capacity that is not trivially large enough", sites))
}

// subtracts: the value is computed with a subtraction (so it can be negative even when its operands are lengths).
func subtracts(v ssa.Value, depth int) bool {
	if depth > 6 {
		return false
	}
	switch x := v.(type) {
	case *ssa.BinOp:
		if x.Op == token.SUB {
			return true
		}
		return subtracts(x.X, depth+1) || subtracts(x.Y, depth+1)
	case *ssa.Phi:
		for _, e := range x.Edges {
			if subtracts(e, depth+1) {
				return true
			}
		}
	case *ssa.Convert:
		return subtracts(x.X, depth+1)
	}
	return false
}

// ---------------------------------------------------------------- E-DIRECTION

func init() {
	register(&Rule{ID: "E-DIRECTION", Props: []string{"C02", "C11"}, Floor: 8,
		Doc: "sibling helpers that differ only in the end of the string they work on (trim/trim_left/trim_right and their one-argument forms, find_first/find_last, starts_with/ends_with): on every successful path of the helper the dispatcher hands the node to, each direction-specific function of package strings that the path applied (TrimLeft*/TrimRight*/Trim/TrimSpace, Index/LastIndex, HasPrefix/HasSuffix) has the direction the node names",
		Run: ruleEDirection})
}

// nodeDirection: the end of the string a node type names, "" when it names none.
func nodeDirection(n string) string {
	n = strings.TrimSuffix(strings.TrimSuffix(n, "Node"), "Current")
	switch {
	case strings.HasPrefix(n, "Trim") && strings.HasSuffix(n, "Left"), strings.HasPrefix(n, "FindFirst"), n == "StartsWith":
		return "L"
	case strings.HasPrefix(n, "Trim") && strings.HasSuffix(n, "Right"), strings.HasPrefix(n, "FindLast"), n == "EndsWith":
		return "R"
	case n == "Trim" || n == "TrimSpace":
		return "B"
	}
	return ""
}

// libDirection: the end of the string a function of package strings works on.
func libDirection(name string) string {
	switch name {
	case "TrimLeft", "TrimLeftFunc", "TrimPrefix", "Index", "IndexByte", "IndexRune", "IndexAny", "IndexFunc", "HasPrefix", "CutPrefix":
		return "L"
	case "TrimRight", "TrimRightFunc", "TrimSuffix", "LastIndex", "LastIndexByte", "LastIndexAny", "LastIndexFunc", "HasSuffix", "CutSuffix":
		return "R"
	case "Trim", "TrimSpace", "TrimFunc":
		return "B"
	}
	return ""
}

// libCallsIn collects the names of the package-strings functions applied in v.
func libCallsIn(v AV, out map[string]bool, depth int) {
	if depth > 12 || v == nil {
		return
	}
	switch x := v.(type) {
	case avSym:
		if strings.HasPrefix(x.tag, "ext:strings.") {
			nm := strings.TrimPrefix(x.tag, "ext:strings.")
			if i := strings.IndexByte(nm, '.'); i >= 0 {
				nm = nm[:i]
			}
			out[nm] = true
		}
		libCallsIn(x.payload, out, depth+1)
	case avTuple:
		for _, e := range x {
			libCallsIn(e, out, depth+1)
		}
	case avIface:
		libCallsIn(x.v, out, depth+1)
	case avCmp:
		libCallsIn(x.x, out, depth+1)
		libCallsIn(x.y, out, depth+1)
	case avBin:
		libCallsIn(x.x, out, depth+1)
		libCallsIn(x.y, out, depth+1)
	case avNot:
		libCallsIn(x.x, out, depth+1)
	}
}

func ruleEDirection(p *Program, r *Reporter) {
	ed := newEvalDom(p)
	if ed.why != "" {
		r.Unknown(token.NoPos, "evaluator model", ed.why)
		return
	}
	names, forms := sortedForms(p)
	for _, n := range names {
		want := nodeDirection(n)
		if want == "" {
			continue
		}
		key := "node " + strings.TrimSuffix(n, "Node")
		var fn *ssa.Function
		outs, e := ed.run(forms[n])
		if e.Aborted == "" {
			for _, o := range outs {
				if o.Panic || o.Cut {
					continue
				}
				if pf := ed.facts(o); (pf.Err == "" || strings.HasPrefix(pf.Err, "h")) && len(pf.Calls) == 1 {
					fn = pf.Calls[0].Fn
				}
			}
		}
		if fn == nil {
			r.Unknown(token.NoPos, key, "the dispatcher does not hand "+n+" to one helper")
			continue
		}
		nd := &numDom{p: p}
		en := newEngine(p, nd)
		nd.e = en
		en.MaxVisits = 2
		st := en.WithInit(fn.Pkg, newState())
		args := make([]AV, len(fn.Params))
		for i := range args {
			args[i] = avSym{id: en.fresh(), tag: fmt.Sprintf("arg%d", i)}
		}
		houts := en.Run(fn, args, st)
		if en.Aborted != "" {
			r.Unknown(fn.Pos(), key, "path enumeration aborted: "+en.Aborted)
			continue
		}
		paths, applied := 0, map[string]bool{}
		bad := ""
		var badPos token.Pos
		for _, o := range houts {
			if o.Panic || o.Cut || o.Ret == nil || len(o.Res) == 0 {
				continue
			}
			if len(o.Res) >= 2 && !isDefNil(o.Res[len(o.Res)-1]) {
				continue
			}
			paths++
			calls := map[string]bool{}
			libCallsIn(o.Res[0], calls, 0)
			for _, c := range o.St.Conds {
				libCallsIn(c.V, calls, 0)
			}
			dirs := map[string]string{}
			for nm := range calls {
				if dir := libDirection(nm); dir != "" {
					applied[nm] = true
					dirs[dir] = nm
				}
			}
			wrong := ""
			switch {
			case len(dirs) == 0:
			case want == "B":
				// both ends: one function for both, or one for each end
				if dirs["B"] == "" && (dirs["L"] == "" || dirs["R"] == "") {
					wrong = dirs["L"] + dirs["R"]
				}
			default:
				for dir, nm := range dirs {
					if dir != want {
						wrong = nm
					}
				}
			}
			if wrong != "" && bad == "" {
				bad = fmt.Sprintf("%s applies strings.%s (%s) on a successful path; the node names %s", fn.Name(), wrong, dirName(libDirection(wrong)), dirName(want))
				badPos = o.Ret.Pos()
			}
		}
		var ap []string
		for nm := range applied {
			ap = append(ap, nm)
		}
		sort.Strings(ap)
		switch {
		case bad != "":
			r.Bad(badPos, key, bad)
		case len(ap) == 0:
			r.Trivial(fn.Pos(), key, fn.Name()+" applies no direction-specific function of package strings (hand-written: not decided here)")
		default:
			r.OK(fn.Pos(), key, fmt.Sprintf("%s: %d successful paths apply strings.%s only, all working on %s", fn.Name(), paths, strings.Join(ap, "/"), dirName(want)))
		}
	}
}

func dirName(d string) string {
	return map[string]string{"L": "the start of the string", "R": "the end of the string", "B": "both ends of the string"}[d]
}

// ---------------------------------------------------------------- E-EACH-ONCE

func init() {
	register(&Rule{ID: "E-EACH-ONCE", Props: []string{"C13", "C09", "C02", "C01", "C17", "C19"}, Floor: 6,
		Doc: "by interpretation of the helpers that apply an expression to every element of an array (max_by, min_by, sort_by, group_by, map, the array projections): on every path that returns a result, the expression was evaluated against every element of the array exactly once (a loop that stops one element short misses the last key, one that starts one element early evaluates a key twice, which doubles the work per nesting level)",
		Run: ruleEEachOnce})
	register(&Rule{ID: "E-CONTAINER-KIND", Props: []string{"C12", "C01", "C18"}, Floor: 6,
		Doc: "by interpretation of the selectors that turn an array into an array (slice, stepped slice, flatten, bare wildcard, the array projections): on every path on which the subject is an array and a result is returned without error, the result is an array (never a string or another scalar, which the next selector would treat differently); the string forms of the two slice helpers return strings",
		Run: ruleEContainerKind})
}

func ruleEEachOnce(p *Program, r *Reporter) {
	d := newValDom(p)
	if d.why != "" {
		r.Unknown(token.NoPos, "evaluator model", d.why)
		return
	}
	d.toDecimal = numericRoles(p).toDecimal
	d.opaqueSort = true
	// (helper, must every element be evaluated?) — a projection may apply its right-hand side without the recursive
	// evaluation (a fast path for a plain field), so only "never twice" is required of it; that it looks at every element
	// is E-EXHAUST's clause
	for _, job := range []struct {
		name string
		all  bool
	}{{"arrayMaxBy", true}, {"arrayMinBy", true}, {"sortArrayBy", true}, {"groupBy", true}, {"mapArray", true}, {"projectArray", false}, {"filter", true}, {"filterAndProjectArray", false}} {
		fn := producerFunc(p, job.name)
		if fn == nil {
			r.Unknown(token.NoPos, "evaluator."+job.name, "helper not found")
			continue
		}
		key := "evaluator." + job.name + " evaluates each element once"
		vr, why := d.run(fn, 3, nil)
		if why != "" {
			r.Unknown(fn.Pos(), key, why)
			continue
		}
		paths, evals := 0, 0
		bad := ""
		var badPos token.Pos
		for _, o := range vr.outs {
			if o.Cut || o.Panic || o.Ret == nil || len(o.Res) == 0 || (vr.errIdx >= 0 && !isDefNil(o.Res[vr.errIdx])) {
				continue
			}
			as, k, ok := vr.subjectArray(o.St)
			if !ok {
				// the path only bounds the length (len(a) <= 1): an array of the largest length it admits takes this path too
				if f := o.St.ints[o.St.idOf(lenSym(as))]; f != nil && f.hi >= 1 && f.hi <= 3 && f.lo <= f.hi {
					k, ok = f.hi, true
				}
			}
			if !ok {
				continue
			}
			paths++
			// evaluations per (node, element)
			count := map[string]int{}
			perElem := map[int64]int{}
			for _, ev := range o.St.Trace {
				if ev.Kind != "eval" || len(ev.Args) < 2 {
					continue
				}
				for i := int64(0); i < k; i++ {
					if avKey(ev.Args[1]) == avKey(elemSym(as, i)) {
						count[avKey(ev.Args[0])+"@"+fmt.Sprint(i)]++
						perElem[i]++
						evals++
					}
				}
			}
			for ke, n := range count {
				if n > 1 && bad == "" {
					bad, badPos = fmt.Sprintf("an array of %d element(s): one expression is evaluated %d times against the same element (%s)", k, n, ke[strings.LastIndex(ke, "@")+1:]), o.Ret.Pos()
				}
			}
			if job.all {
				for i := int64(0); i < k; i++ {
					if perElem[i] == 0 && bad == "" {
						bad, badPos = fmt.Sprintf("an array of %d element(s) yields a result on a path that never evaluated the expression against element %d", k, i), o.Ret.Pos()
					}
				}
			}
		}
		switch {
		case bad != "":
			r.Bad(badPos, key, bad)
		case evals == 0:
			r.Unknown(fn.Pos(), key, fmt.Sprintf("no result path evaluates the expression against an element (%d paths)", paths))
		default:
			r.OK(fn.Pos(), key, fmt.Sprintf("%d result paths over arrays of up to 2 elements, %d evaluations: every element exactly once per expression", paths, evals))
		}
	}
}

func ruleEContainerKind(p *Program, r *Reporter) {
	d := newValDom(p)
	if d.why != "" {
		r.Unknown(token.NoPos, "evaluator model", d.why)
		return
	}
	for _, name := range []string{"slice", "sliceStep", "flatten", "pruneArray", "projectArray", "filter", "filterAndProjectArray", "flattenAndProjectArray"} {
		fn := producerFunc(p, name)
		if fn == nil {
			r.Unknown(token.NoPos, "evaluator."+name, "selector helper not found")
			continue
		}
		key := "evaluator." + name + " kind of the result"
		vr, why := d.run(fn, 2, nil)
		if why != "" {
			r.Unknown(fn.Pos(), key, why)
			continue
		}
		arrays, strs := 0, 0
		bad := ""
		var badPos token.Pos
		for _, o := range vr.outs {
			if o.Cut || o.Panic || o.Ret == nil || len(o.Res) == 0 || (vr.errIdx >= 0 && !isDefNil(o.Res[vr.errIdx])) {
				continue
			}
			passed, _ := o.St.subjectTests(vr.subject)
			isArr, isStr := false, false
			for _, t := range passed {
				isArr = isArr || t == "[]any"
				isStr = isStr || t == "string"
			}
			res := o.Res[0]
			if isDefNil(res) || (!isArr && !isStr) {
				continue
			}
			kind := resultKind(res)
			switch {
			case isArr && kind == "array":
				arrays++
			case isStr && (kind == "string" || kind == "value"):
				strs++ // a string, or the right-hand side applied to the string as a whole
			case kind == "unknown":
				// not decided
			case isArr && bad == "":
				bad, badPos = fmt.Sprintf("the subject is an array and the result is %s (%s): the selectors that follow would see a %s, not an array", kind, renderVal(res), kind), o.Ret.Pos()
			case isStr && bad == "":
				bad, badPos = fmt.Sprintf("the subject is a string and the result is %s (%s)", kind, renderVal(res)), o.Ret.Pos()
			}
		}
		switch {
		case bad != "":
			r.Bad(badPos, key, bad)
		case arrays == 0:
			r.Unknown(fn.Pos(), key, "no path over an array subject returns a result whose kind is known")
		default:
			r.OK(fn.Pos(), key, fmt.Sprintf("%d result paths over an array return an array, %d over a string return a string", arrays, strs))
		}
	}
}

// resultKind: "array", "string", "value" (the result of a recursive evaluation), another kind, or "unknown".
func resultKind(v AV) string {
	switch x := v.(type) {
	case avIface:
		switch x.dyn.Underlying().(type) {
		case *types.Slice:
			return "array"
		case *types.Map:
			return "object"
		case *types.Basic:
			if x.dyn.Underlying().(*types.Basic).Info()&types.IsString != 0 {
				return "string"
			}
			return "scalar"
		}
		return resultKind(x.v)
	case avSlice:
		return "array"
	case avConst:
		if x.v.Kind() == constant.String {
			return "string"
		}
		return "scalar"
	case avSym:
		switch {
		case x.tag == "val":
			return "value"
		case x.tag == "subject":
			return "unknown"
		case strings.HasPrefix(x.tag, "asserted:[]"):
			return "array"
		case strings.HasPrefix(x.tag, "asserted:string"):
			return "string"
		case x.tag == "slice":
			if t, ok := x.payload.(avTuple); ok && len(t) > 0 {
				return resultKind(t[0])
			}
			return resultKind(x.payload)
		}
	}
	return "unknown"
}

// ---------------------------------------------------------------- E-COERCION-TABLE

func init() {
	register(&Rule{ID: "E-COERCION-TABLE", Props: []string{"C08", "C02", "C14", "C18"}, Floor: 16,
		Doc: "the integer-argument coercion (value, isNumber, isInteger), by interpretation on a value of each dynamic type: for each of the 13 numeric carriers every path reports isNumber = true (a number that is not an integer in range is an invalid value, never an invalid type), for null, booleans, strings, arrays, objects and foreign values every path reports (isNumber, isInteger) = (false, false); json.Number may report false when its text does not parse",
		Run: ruleECoercionTable})
}

func ruleECoercionTable(p *Program, r *Reporter) {
	toInt := numericRoles(p).toInt
	if toInt == nil {
		r.Unknown(token.NoPos, "toInt", "integer coercion helper func(any) (int, bool, ...) not found: "+numericRoles(p).why)
		return
	}
	if toInt.Signature.Results().Len() != 3 {
		r.Trivial(toInt.Pos(), "toInt table", "the coercion has no separate is-a-number result")
		return
	}
	type kind struct {
		name   string
		t      types.Type
		number string // "yes", "no", "maybe"
	}
	anyT := types.NewInterfaceType(nil, nil)
	kinds := []kind{
		{"nil", nil, "no"},
		{"bool", types.Typ[types.Bool], "no"},
		{"string", types.Typ[types.String], "no"},
		{"[]any", types.NewSlice(anyT), "no"},
		{"map[string]any", types.NewMap(types.Typ[types.String], anyT), "no"},
		{"other (foreign Go value)", types.NewStruct(nil, nil), "no"},
	}
	for _, b := range []types.BasicKind{types.Int, types.Int8, types.Int16, types.Int32, types.Int64, types.Uint, types.Uint8, types.Uint16, types.Uint32, types.Uint64, types.Float32, types.Float64} {
		kinds = append(kinds, kind{types.Typ[b].Name(), types.Typ[b], "yes"})
	}
	for _, f := range p.Funcs {
		if isRole(f, "toDecimal") {
			kinds = append(kinds, kind{"decimal128.Decimal", f.Signature.Results().At(0).Type(), "yes"})
			break
		}
	}
	if jn := lookupNamed(p, "encoding/json", "Number"); jn != nil {
		kinds = append(kinds, kind{"json.Number", jn, "maybe"})
	}
	for _, k := range kinds {
		key := "toInt(" + k.name + ")"
		e := newEngine(p, scopeDom{})
		e.MaxVisits = 2
		st := e.WithInit(toInt.Pkg, newState())
		var arg AV = avNil{}
		if k.t != nil {
			arg = avIface{dyn: k.t, v: avSym{id: e.fresh(), tag: "v"}}
		}
		outs := e.Run(toInt, []AV{arg}, st)
		if e.Aborted != "" {
			r.Unknown(toInt.Pos(), key, "path enumeration aborted: "+e.Aborted)
			continue
		}
		paths := 0
		bad := ""
		var badPos token.Pos
		// for the machine-integer kinds: the values the coercion accepts as integers, as an interval of the symbolic operand
		var accLo, accHi int64
		accepted, accExact := 0, true
		var argSym avSym
		if ai, ok := arg.(avIface); ok {
			argSym, _ = ai.v.(avSym)
		}
		for _, o := range outs {
			if o.Panic {
				bad, badPos = "a path panics", toInt.Pos()
				continue
			}
			if o.Cut || o.Ret == nil || len(o.Res) != 3 {
				continue
			}
			paths++
			if c, ok := o.Res[2].(avConst); ok && c.v.Kind() == constant.Bool && constant.BoolVal(c.v) && argSym.id != 0 {
				lo, hi := int64(math.MinInt64), int64(math.MaxInt64)
				if f := o.St.ints[argSym.id]; f != nil {
					lo, hi = f.lo, f.hi
					if len(f.neq) > 0 {
						accExact = false
					}
				}
				if accepted == 0 {
					accLo, accHi = lo, hi
				} else {
					// a second accepting path must continue the interval of the first
					switch {
					case hi != math.MaxInt64 && hi+1 == accLo, lo <= accLo && hi >= accLo:
						accLo = min(accLo, lo)
						accHi = max(accHi, hi)
					case accHi != math.MaxInt64 && lo == accHi+1, lo <= accHi && hi >= accHi:
						accHi = max(accHi, hi)
						accLo = min(accLo, lo)
					default:
						accExact = false
					}
				}
				accepted++
			}
			isNum, okN := o.Res[1].(avConst)
			isInt, okI := o.Res[2].(avConst)
			numV := okN && isNum.v.Kind() == constant.Bool && constant.BoolVal(isNum.v)
			intV := okI && isInt.v.Kind() == constant.Bool && constant.BoolVal(isInt.v)
			switch {
			case !okN && bad == "":
				bad, badPos = "isNumber is "+renderVal(o.Res[1])+" on a path: not decided by the type of the value", o.Ret.Pos()
			case k.number == "yes" && !numV && bad == "":
				bad, badPos = "a value of this numeric kind is reported as not a number on a path: a number that is not an integer in range is an invalid value, not an invalid type", o.Ret.Pos()
			case k.number == "no" && (numV || intV || !okI) && bad == "":
				bad, badPos = "a value that is not a number is reported as (isNumber, isInteger) = ("+renderVal(o.Res[1])+", "+renderVal(o.Res[2])+")", o.Ret.Pos()
			case !numV && intV && bad == "":
				bad, badPos = "a path reports an integer that is not a number", o.Ret.Pos()
			}
		}
		// the accepted values of a machine-integer kind are exactly those of the kind that fit an int
		if b, isBasic := k.t.(*types.Basic); k.t != nil && isBasic && b.Info()&types.IsInteger != 0 && bad == "" {
			sizes := p.Eval.TypesSizes
			kb, ksigned, _ := intRange(b, sizes)
			ib, _, _ := intRange(types.Typ[types.Int], sizes)
			rng := func(bits int, signed bool) (int64, int64) {
				if !signed {
					if bits >= 64 {
						return 0, math.MaxInt64 // the upper part of uint64 is beyond the facts; int never reaches it
					}
					return 0, int64(1)<<bits - 1
				}
				if bits >= 64 {
					return math.MinInt64, math.MaxInt64
				}
				return -(int64(1) << (bits - 1)), int64(1)<<(bits-1) - 1
			}
			kLo, kHi := rng(kb, ksigned)
			iLo, iHi := rng(ib, true)
			wantLo, wantHi := max(kLo, iLo), min(kHi, iHi)
			gotLo, gotHi := max(accLo, kLo), min(accHi, kHi)
			switch {
			case accepted == 0:
				bad, badPos = "no path accepts a value of this integer kind as an integer", toInt.Pos()
			case !accExact:
				r.Unknown(toInt.Pos(), key+" range", "the accepted values are not one interval of the operand")
			case gotLo != wantLo || gotHi != wantHi:
				bad, badPos = fmt.Sprintf("the values accepted as integers are [%d, %d]; the values of %s that fit an int are [%d, %d]: the same number is accepted or refused depending on the Go type that carries it", gotLo, gotHi, k.name, wantLo, wantHi), toInt.Pos()
			}
		}
		// the floating-point kinds: on every accepting path the operand was compared with the bounds of int (as the float
		// nearest to them), and with no other constant
		if b, isBasic := k.t.(*types.Basic); k.t != nil && isBasic && b.Info()&types.IsFloat != 0 && bad == "" && argSym.id != 0 {
			ib, _, _ := intRange(types.Typ[types.Int], p.Eval.TypesSizes)
			pow := constant.Shift(constant.MakeInt64(1), token.SHL, uint(ib-1))
			one := constant.MakeInt64(1)
			upper := []constant.Value{pow, constant.BinaryOp(pow, token.SUB, one)}
			lower := []constant.Value{constant.UnaryOp(token.SUB, pow, 0), constant.BinaryOp(constant.UnaryOp(token.SUB, pow, 0), token.SUB, one)}
			in := func(c constant.Value, set []constant.Value) bool {
				for _, w := range set {
					if constant.Compare(constant.ToFloat(c), token.EQL, constant.ToFloat(w)) {
						return true
					}
				}
				return false
			}
			for _, o := range outs {
				if o.Cut || o.Panic || o.Ret == nil || len(o.Res) != 3 || bad != "" {
					continue
				}
				if c, ok := o.Res[2].(avConst); !ok || c.v.Kind() != constant.Bool || !constant.BoolVal(c.v) {
					continue
				}
				hasUp, hasLo := false, false
				for _, cd := range o.St.Conds {
					v := cd.V
					for {
						nn, isNot := v.(avNot)
						if !isNot {
							break
						}
						v = nn.x
					}
					cmp, isCmp := v.(avCmp)
					if !isCmp {
						continue
					}
					x, y := cmp.x, cmp.y
					if _, isC := x.(avConst); isC {
						x, y = y, x
					}
					kc, isC := y.(avConst)
					if !isC || avKey(x) != avKey(argSym) || (kc.v.Kind() != constant.Int && kc.v.Kind() != constant.Float) {
						continue
					}
					switch {
					case in(kc.v, upper):
						hasUp = true
					case in(kc.v, lower):
						hasLo = true
					default:
						bad, badPos = fmt.Sprintf("a %s is accepted as an integer after being compared with %s, which is not a bound of int: the same number is accepted or refused depending on the Go type that carries it", k.name, kc.v.String()), o.Ret.Pos()
					}
				}
				if bad == "" && (!hasUp || !hasLo) {
					bad, badPos = fmt.Sprintf("a %s is accepted as an integer on a path that did not compare it with both bounds of int (upper: %v, lower: %v): a value outside the range of int is converted with an undefined result", k.name, hasUp, hasLo), o.Ret.Pos()
				}
			}
		}
		switch {
		case bad != "":
			r.Bad(badPos, key, bad)
		case paths == 0:
			r.Unknown(toInt.Pos(), key, "no path returns")
		default:
			r.OK(toInt.Pos(), key, fmt.Sprintf("%d paths, isNumber is %s on every one", paths, map[string]string{"yes": "true", "no": "false", "maybe": "decided by whether the text parses"}[k.number]))
		}
	}
}
